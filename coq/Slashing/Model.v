(* Executable model of the slashing-protection life cycle of ONE key share:
     ekm/eth_key_manager_signer.go   AddShare, RemoveShare, BumpSlashingProtection,
                                     updateHighestAttestation/Proposal, computeMinimal*,
                                     IsAttestationSlashable, IsBeaconBlockSlashable, signBeaconObject
     ekm/signer_storage.go           Save/Retrieve/RemoveHighestAttestation/Proposal
     eth2-key-manager v1.4.0         signer.SignBeaconAttestation, signer.SignBlock,
                                     slashing_protection.NormalProtection, wallets/{nd,hd}.Wallet
   Definitions only; proofs are in Slashing/Proofs.v.

   The state is what is PERSISTED (database) plus the beacon clock: the implementation's volatile
   state (wallet index map, lock table) is rebuilt from the database on restart, so [ORestart] is
   the identity here and the correspondence check is what ties that claim to the code. *)
From Coq Require Import List NArith Bool.
From SSV Require Import Gen.SlashingConsts.
Import ListNotations.
Local Open Scope N_scope.

(* ---- uint64 arithmetic, written out where the Go code can wrap -------------------------------- *)

Definition two64 : N := 18446744073709551616.
Definition wadd (a b : N) : N := (a + b) mod two64.          (* a + b on uint64 *)
Definition wpred (a : N) : N := (a + (two64 - 1)) mod two64. (* a - 1 on uint64: 0 - 1 = 2^64-1 *)

Definition clock_max : N := 9223372036854775808.              (* 2^63: the slot clock stays below it *)

Definition slots_per_epoch : N := 32.
Definition epoch_of (slot : N) : N := slot / slots_per_epoch. (* EstimatedEpochAtSlot *)

(* ---- what is read from the source on every run (coq/Gen/SlashingConsts.v) ---------------------- *)

(* gap_att / gap_prop: minSPAttestationEpochGap / minSPProposalSlotGap.
   att_empty_err / prop_empty_err: whether Retrieve* returns an error for a record whose stored
   value has length zero.  Both functions mean to, but build the error with errors.Wrap(err, ..)
   while err is nil - and that is nil.  The flags are false while that is so. *)
Record cfg := { gap_att : N; gap_prop : N; att_empty_err : bool; prop_empty_err : bool }.

Definition source_cfg : cfg :=
  {| gap_att := min_sp_attestation_epoch_gap; gap_prop := min_sp_proposal_slot_gap;
     att_empty_err := att_empty_value_is_error; prop_empty_err := prop_empty_value_is_error |}.

(* ---- persisted state --------------------------------------------------------------------------- *)

(* A database record: absent; present but Retrieve* returns an error (undecodable value, or a
   zero-length value once that is an error); present with a zero-length value for which
   RetrieveHighestAttestation returns (nil, found=true, nil); or a value.
   A zero-length PROPOSAL record, while that is not an error, is returned as (0, found=true, nil),
   which no caller can tell from a stored slot 0: it is [RVal 0] (see [OCorrupt]). *)
Inductive rcd (A : Type) : Type :=
| RMissing
| RBad
| REmpty
| RVal (a : A).
Arguments RMissing {A}.
Arguments RBad {A}.
Arguments REmpty {A}.
Arguments RVal {A} a.

(* att:  highest attestation (source epoch, target epoch)   db prefix signer_data-highest_att-
   prop: highest proposal slot                               db prefix signer_data-highest_prop-
   acct: the share's account can be found through the persisted wallet (index map entry AND
         account record) *)
Record store := { att : rcd (N * N); prop : rcd N; acct : bool }.

(* clock: EstimatedCurrentSlot of the node's beacon network.
   horizon: the highest epoch the third-party far-future guard (which reads the wall clock) lets
   through; it only ever adds refusals. *)
Record state := { st : store; clock : N; horizon : N; conf : cfg }.

Definition empty_store : store := {| att := RMissing; prop := RMissing; acct := false |}.
Definition init (g : cfg) (c h : N) : state :=
  {| st := empty_store; clock := c; horizon := h; conf := g |}.

(* ---- environment of one call ------------------------------------------------------------------- *)

(* cut = Some k: the process dies when k database writes of this call have been applied (k = 0:
   at the first write attempt).  rfail: reading a protection record fails during this call.
   wfail: the database refuses every write of this call (Set returns an error, nothing is stored, the
   process lives on); considered for the calls whose only state is the database (sign, reactivate). *)
Record env := { cut : option N; rfail : bool; wfail : bool }.
Definition env0 : env := {| cut := None; rfail := false; wfail := false |}.

Inductive err :=
| ENoAccount   (* wallet.AccountByPublicKey failed *)
| EFar         (* far-future guard *)
| EReadErr     (* protection record could not be read *)
| ENoRecord    (* found = false *)
| ENilRecord   (* found = true but no data: "highest attestation data is nil" *)
| ESlashable   (* HighestAttestationVote / HighestProposalVote *)
| EZeroSlot    (* proposal slot 0 *)
| EWriteErr.   (* the protection record could not be written *)

Inductive sg :=
| SAtt (source target : N)
| SBlk (slot : N).

Inductive outcome :=
| Done                 (* call returned nil *)
| Released (g : sg)    (* a signature left the signer *)
| Refused (e : err)    (* call returned an error, nothing signed *)
| Crashed.             (* the process died inside the call (see [cut]); nothing signed *)

(* Retrieve*: error / found=false / found=true without data / found=true with data *)
Inductive rd (A : Type) : Type :=
| RdErr
| RdNotFound
| RdNil
| RdVal (a : A).
Arguments RdErr {A}.
Arguments RdNotFound {A}.
Arguments RdNil {A}.
Arguments RdVal {A} a.

Definition read {A} (e : env) (r : rcd A) : rd A :=
  if rfail e then RdErr else
  match r with
  | RMissing => RdNotFound
  | RBad => RdErr
  | REmpty => RdNil
  | RVal v => RdVal v
  end.

(* ---- database writes, in the order the code issues them --------------------------------------- *)

Inductive write :=
| WAtt (s t : N)     (* SaveHighestAttestation *)
| WProp (p : N)      (* SaveHighestProposal *)
| WDelAtt            (* RemoveHighestAttestation *)
| WDelProp           (* RemoveHighestProposal *)
| WAcctRec           (* SaveAccount: account record under a fresh id, not yet reachable *)
| WWalletAdd         (* SaveWallet with the new index map entry: account reachable *)
| WDelAcct           (* DeleteAccount: account record gone, lookups fail from here on *)
| WWalletDel.        (* SaveWallet without the entry *)

Definition apply_write (s : store) (w : write) : store :=
  match w with
  | WAtt a b => {| att := RVal (a, b); prop := prop s; acct := acct s |}
  | WProp p => {| att := att s; prop := RVal p; acct := acct s |}
  | WDelAtt => {| att := RMissing; prop := prop s; acct := acct s |}
  | WDelProp => {| att := att s; prop := RMissing; acct := acct s |}
  | WAcctRec => s
  | WWalletAdd => {| att := att s; prop := prop s; acct := true |}
  | WDelAcct => {| att := att s; prop := prop s; acct := false |}
  | WWalletDel => s
  end.

Definition apply_writes (s : store) (ws : list write) : store := fold_left apply_write ws s.

Definition nlen {A} (l : list A) : N := N.of_nat (length l).

(* Runs a plan (the writes a call would issue, and its result) under a crash point. *)
Definition exec (s : store) (c : option N) (p : list write * outcome) : store * outcome :=
  let '(ws, out) := p in
  match c with
  | None => (apply_writes s ws, out)
  | Some k =>
      if (k <=? nlen ws) && (1 <=? nlen ws)
      then (apply_writes s (firstn (N.to_nat k) ws), Crashed)
      else (apply_writes s ws, out)
  end.

(* ---- BumpSlashingProtection --------------------------------------------------------------------- *)

(* computeMinimalAttestationSP: target = epoch + gap, source = target - 1 (wraps at target 0) *)
Definition minimal_att (g : cfg) (epoch : N) : N * N :=
  let t := wadd epoch (gap_att g) in (wpred t, t).

(* updateHighestAttestation *)
Definition bump_att (g : cfg) (e : env) (s : store) (c : N) : list write * option err :=
  let '(ms, mt) := minimal_att g (epoch_of c) in
  match read e (att s) with
  | RdErr => ([], Some EReadErr)
  | RdVal (hs, ht) => if (ms <=? hs) || (mt <=? ht) then ([], None) else ([WAtt ms mt], None)
  | RdNotFound | RdNil => ([WAtt ms mt], None)      (* "found && retrievedHighAtt != nil" is false *)
  end.

(* updateHighestProposal; SaveHighestProposal refuses slot 0 *)
Definition bump_prop (g : cfg) (e : env) (s : store) (c : N) : list write * option err :=
  let m := wadd c (gap_prop g) in
  let save := if m =? 0 then ([], Some EZeroSlot) else ([WProp m], None) in
  match read e (prop s) with
  | RdErr => ([], Some EReadErr)
  | RdVal p => if negb (p =? 0) && (m <=? p) then ([], None) else save
  | RdNotFound | RdNil => save
  end.

Definition bump (g : cfg) (e : env) (s : store) (c : N) : list write * option err :=
  match bump_att g e s c with
  | (w1, Some x) => (w1, Some x)
  | (w1, None) => let '(w2, r) := bump_prop g e s c in (w1 ++ w2, r)
  end.

(* ---- the slashing checks (NormalProtection) ---------------------------------------------------- *)

(* IsSlashableAttestation *)
Definition check_att (e : env) (s : store) (src tgt : N) : option err :=
  match read e (att s) with
  | RdErr => Some EReadErr
  | RdNotFound => Some ENoRecord
  | RdNil => Some ENilRecord
  | RdVal (hs, ht) => if (src <? hs) || (tgt <=? ht) then Some ESlashable else None
  end.

(* IsSlashableProposal *)
Definition check_prop (e : env) (s : store) (sl : N) : option err :=
  if sl =? 0 then Some EZeroSlot else
  match read e (prop s) with
  | RdErr => Some EReadErr
  | RdNotFound => Some ENoRecord
  | RdNil => None                                    (* would read as slot 0, and sl > 0 here *)
  | RdVal p => if p <? sl then None else Some ESlashable
  end.

(* UpdateHighestAttestation, reached only after check_att passed (so the record is a value) *)
Definition update_att (s : store) (src tgt : N) : list write :=
  match att s with
  | RVal (hs, ht) =>
      let ns := if hs <? src then src else hs in
      let nt := if ht <? tgt then tgt else ht in
      if (hs <? src) || (ht <? tgt) then [WAtt ns nt] else []
  | _ => [WAtt src tgt]
  end.

(* UpdateHighestProposal *)
Definition update_prop (s : store) (sl : N) : list write :=
  match prop s with
  | RVal p => if p <? sl then [WProp sl] else []
  | _ => [WProp sl]
  end.

Definition far_epoch (h e : N) : bool := h <? e.
Definition far_slot (h sl : N) : bool := (h * slots_per_epoch + (slots_per_epoch - 1)) <? sl.

(* ---- operations --------------------------------------------------------------------------------- *)

Inductive ckind :=
| CAttGarbage   (* attestation record: undecodable value *)
| CAttEmpty     (* attestation record: zero-length value *)
| CPropEmpty.   (* proposal record: zero-length value *)

Inductive op :=
| OTick (d : N)                          (* the clock advances by d slots *)
| ORestart                               (* new signer object over the same database *)
| OAdd (e : env)                         (* AddShare (validator added) *)
| ORemove (e : env)                      (* RemoveShare (validator removed) *)
| OReact (e : env)                       (* BumpSlashingProtection (cluster reactivated) *)
| OSignAtt (src tgt : N) (e : env)       (* SignBeaconObject, DomainAttester *)
| OSignBlk (sl : N) (e : env)            (* SignBeaconObject, DomainProposer *)
| OCheckAtt (src tgt : N) (e : env)      (* IsAttestationSlashable *)
| OCheckBlk (sl : N) (e : env)           (* IsBeaconBlockSlashable *)
| OCorrupt (k : ckind).                  (* a record's value is damaged behind the signer's back *)

Definition plan (x : state) (o : op) : list write * outcome :=
  let s := st x in
  match o with
  | OTick _ | ORestart | OCorrupt _ => ([], Done)
  | OAdd e =>
      if acct s then ([], Done) else
      match bump (conf x) e s (clock x) with
      | (ws, Some r) => (ws, Refused r)
      | (ws, None) => (ws ++ [WAcctRec; WWalletAdd], Done)
      end
  | ORemove e =>
      if acct s then ([WDelAtt; WDelProp; WDelAcct; WWalletDel], Done) else ([], Done)
  | OReact e =>
      match bump (conf x) e s (clock x) with
      | (ws, Some r) => (ws, Refused r)
      | (ws, None) => (ws, Done)
      end
  | OSignAtt src tgt e =>
      if negb (acct s) then ([], Refused ENoAccount) else
      if far_epoch (horizon x) tgt || far_epoch (horizon x) src then ([], Refused EFar) else
      match check_att e s src tgt with
      | Some r => ([], Refused r)
      | None => (update_att s src tgt, Released (SAtt src tgt))
      end
  | OSignBlk sl e =>
      if negb (acct s) then ([], Refused ENoAccount) else
      if far_slot (horizon x) sl then ([], Refused EFar) else
      match check_prop e s sl with
      | Some r => ([], Refused r)
      | None => (update_prop s sl, Released (SBlk sl))
      end
  | OCheckAtt src tgt e =>
      match check_att e s src tgt with Some r => ([], Refused r) | None => ([], Done) end
  | OCheckBlk sl e =>
      match check_prop e s sl with Some r => ([], Refused r) | None => ([], Done) end
  end.

Definition op_wfail (o : op) : bool :=
  match o with
  | OReact e | OSignAtt _ _ e | OSignBlk _ e => wfail e
  | _ => false
  end.

(* For the database a refused first write is what a death at the first write attempt is: nothing of
   the call is stored.  The difference is in the result: the call returns an error ([relabel]). *)
Definition op_cut (o : op) : option N :=
  match o with
  | OAdd e | ORemove e => cut e
  | OReact e | OSignAtt _ _ e | OSignBlk _ e => if wfail e then Some 0 else cut e
  | _ => None
  end.

Definition relabel (wf : bool) (out : outcome) : outcome :=
  if wf then match out with Crashed => Refused EWriteErr | _ => out end else out.

(* What the harness compares: the call's result and the persisted state after it. *)
Record obs := { o_out : outcome; o_store : store }.

Definition with_store (x : state) (s : store) : state :=
  {| st := s; clock := clock x; horizon := horizon x; conf := conf x |}.

Definition corrupt (g : cfg) (s : store) (k : ckind) : store :=
  match k with
  | CAttGarbage => {| att := RBad; prop := prop s; acct := acct s |}
  | CAttEmpty =>
      {| att := if att_empty_err g then RBad else REmpty; prop := prop s; acct := acct s |}
  | CPropEmpty =>
      {| att := att s; prop := if prop_empty_err g then RBad else RVal 0; acct := acct s |}
  end.

Definition step (x : state) (o : op) : state * obs :=
  match o with
  | OTick d =>
      let x' := {| st := st x; clock := clock x + d; horizon := horizon x; conf := conf x |} in
      (x', {| o_out := Done; o_store := st x |})
  | OCorrupt k =>
      let s' := corrupt (conf x) (st x) k in
      (with_store x s', {| o_out := Done; o_store := s' |})
  | _ =>
      let '(s', out) := exec (st x) (op_cut o) (plan x o) in
      (with_store x s', {| o_out := relabel (op_wfail o) out; o_store := s' |})
  end.

Fixpoint run (x : state) (ops : list op) : state * list obs :=
  match ops with
  | [] => (x, [])
  | o :: tl => let '(x1, r) := step x o in let '(x2, rs) := run x1 tl in (x2, r :: rs)
  end.

(* The signatures that left the signer, oldest first. *)
Fixpoint released (rs : list obs) : list sg :=
  match rs with
  | [] => []
  | r :: tl => match o_out r with Released g => g :: released tl | _ => released tl end
  end.

(* ---- the property's vocabulary ------------------------------------------------------------------ *)

(* Two attestations with the same target epoch, a surrounding / surrounded pair, or two blocks for
   the same slot. *)
Definition conflict (a b : sg) : Prop :=
  match a, b with
  | SAtt s1 t1, SAtt s2 t2 => t1 = t2 \/ (s1 < s2 /\ t2 < t1) \/ (s2 < s1 /\ t1 < t2)
  | SBlk x, SBlk y => x = y
  | _, _ => False
  end.

Definition conflictb (a b : sg) : bool :=
  match a, b with
  | SAtt s1 t1, SAtt s2 t2 => (t1 =? t2) || ((s1 <? s2) && (t2 <? t1)) || ((s2 <? s1) && (t1 <? t2))
  | SBlk x, SBlk y => x =? y
  | _, _ => false
  end.

(* The property's quantifier: the clock only moves forward and stays below 2^63 slots; an attestation request
   has source < target (the duty's value check) and a target epoch not beyond the clock's epoch; a
   block request's slot is not beyond the clock.  [c] is the clock before the first operation.
   The two boolean switches exist only to state the companion observations (what happens when one
   of the bounds is dropped). *)
Fixpoint wf_gen (clock_bound src_lt_tgt : bool) (c : N) (ops : list op) : Prop :=
  match ops with
  | [] => True
  | OTick d :: tl => c + d < clock_max /\ wf_gen clock_bound src_lt_tgt (c + d) tl
  | OSignAtt s t _ :: tl =>
      (src_lt_tgt = true -> s < t) /\ (clock_bound = true -> t <= epoch_of c) /\
      t < two64 /\ s < two64 /\ wf_gen clock_bound src_lt_tgt c tl
  | OSignBlk sl _ :: tl =>
      (clock_bound = true -> sl <= c) /\ sl < two64 /\ wf_gen clock_bound src_lt_tgt c tl
  | _ :: tl => wf_gen clock_bound src_lt_tgt c tl
  end.

Definition wf := wf_gen true true.

(* Damage to a record is inside the histories considered as long as the signer can notice it.
   A zero-length proposal record is returned as slot 0 while [prop_empty_err] is false: that
   history is the subject of C04_damaged_record_*, not of the safety theorem. *)
Definition damage_is_detectable (g : cfg) (ops : list op) : Prop :=
  In (OCorrupt CPropEmpty) ops -> prop_empty_err g = true.

(* The configuration does not make epoch + gap or slot + gap wrap. *)
Definition cfg_ok (g : cfg) : Prop := gap_att g <= 4294967296 /\ gap_prop g <= 4294967296.

(* boolean versions, for the examples *)
Fixpoint wfb_gen (cb sl_ : bool) (c : N) (ops : list op) : bool :=
  match ops with
  | [] => true
  | OTick d :: tl => (c + d <? clock_max) && wfb_gen cb sl_ (c + d) tl
  | OSignAtt s t _ :: tl =>
      (negb sl_ || (s <? t)) && (negb cb || (t <=? epoch_of c)) && (t <? two64) && (s <? two64)
      && wfb_gen cb sl_ c tl
  | OSignBlk sl _ :: tl => (negb cb || (sl <=? c)) && (sl <? two64) && wfb_gen cb sl_ c tl
  | _ :: tl => wfb_gen cb sl_ c tl
  end.

Fixpoint no_conflict_with (g : sg) (l : list sg) : bool :=
  match l with [] => true | h :: tl => negb (conflictb g h) && no_conflict_with g tl end.
Fixpoint pairwise_safe (l : list sg) : bool :=
  match l with [] => true | g :: tl => no_conflict_with g tl && pairwise_safe tl end.
