(* Compiled from ocaml/slashing/ so that model.ml lands there.  ExtrOcamlBasic only. *)
From Coq Require Import Extraction ExtrOcamlBasic.
From SSV Require Import Slashing.Model.
Extraction "model.ml" step init source_cfg.
