(* Lemmas about Slashing/Model.v.  The statements of the property are in Props/C04.v. *)
From Coq Require Import List NArith Bool Lia ZArith.
From Coq Require Import ZifyBool ZifyN.
From SSV Require Import Slashing.Model.
Import ListNotations.
Local Open Scope N_scope.

Ltac Zify.zify_post_hook ::= Z.div_mod_to_equations.

(* ---- uint64 arithmetic -------------------------------------------------------------------------- *)

Lemma wadd_small a b : a + b < two64 -> wadd a b = a + b.
Proof. intros H. unfold wadd. apply N.mod_small. exact H. Qed.

Lemma wpred_pos a : 0 < a -> a < two64 -> wpred a = a - 1.
Proof.
  intros H1 H2. unfold wpred. unfold two64 in *.
  replace (a + (18446744073709551616 - 1)) with ((a - 1) + 1 * 18446744073709551616) by lia.
  rewrite N.mod_add by lia. apply N.mod_small. lia.
Qed.

Lemma wpred_zero : wpred 0 = two64 - 1.
Proof. reflexivity. Qed.

Lemma epoch_le c : epoch_of c <= c.
Proof. unfold epoch_of, slots_per_epoch. lia. Qed.

Lemma epoch_mono c d : epoch_of c <= epoch_of (c + d).
Proof. unfold epoch_of, slots_per_epoch. lia. Qed.

(* ---- lists -------------------------------------------------------------------------------------- *)

Lemma FOP_snoc {A} (P : A -> A -> Prop) l g :
  ForallOrdPairs P l -> Forall (fun a => P a g) l -> ForallOrdPairs P (l ++ [g]).
Proof.
  induction 1 as [|a l Ha Hl IH]; intros HF; simpl.
  - constructor; constructor.
  - inversion HF; subst. constructor.
    + apply Forall_app. split; [assumption|]. constructor; [assumption|constructor].
    + apply IH. assumption.
Qed.

Lemma FOP_nth {A} (P : A -> A -> Prop) l :
  (forall a b, P a b -> P b a) -> ForallOrdPairs P l ->
  forall i j a b, i <> j -> nth_error l i = Some a -> nth_error l j = Some b -> P a b.
Proof.
  intros Hsym. induction 1 as [|x l Hx Hl IH]; intros i j a b Hij Hi Hj.
  - destruct i; discriminate.
  - destruct i as [|i], j as [|j]; simpl in *.
    + congruence.
    + inversion Hi; subst. rewrite Forall_forall in Hx. apply Hx. eapply nth_error_In; eauto.
    + inversion Hj; subst. rewrite Forall_forall in Hx. apply Hsym. apply Hx.
      eapply nth_error_In; eauto.
    + apply (IH i j a b); auto.
Qed.

Lemma conflict_sym a b : conflict a b -> conflict b a.
Proof. destruct a, b; simpl; intuition. Qed.

Lemma conflictb_spec a b : conflictb a b = true <-> conflict a b.
Proof. destruct a, b; simpl; try (split; [discriminate|tauto]); lia. Qed.

(* ---- the invariant ------------------------------------------------------------------------------ *)

(* R: the signatures released so far, oldest first. *)

(* what a database write must satisfy so that the records stay upper bounds of R *)
Definition write_ok (R : list sg) (w : write) : Prop :=
  match w with
  | WAtt a b => forall s t, In (SAtt s t) R -> s <= a /\ t <= b
  | WProp p => forall sl, In (SBlk sl) R -> sl <= p
  | _ => True
  end.

(* a record that holds a value bounds everything released *)
(* (a zero-length proposal record would read as slot 0; no operation of the model produces that
   state of the proposal record - see [corrupt] - so it only has to be excluded once something
   has been released) *)
Definition sinv (s : store) (R : list sg) : Prop :=
  (forall hs ht, att s = RVal (hs, ht) -> forall a b, In (SAtt a b) R -> a <= hs /\ b <= ht) /\
  (forall p, prop s = RVal p -> forall sl, In (SBlk sl) R -> sl <= p) /\
  (prop s = REmpty -> forall sl, ~ In (SBlk sl) R).

(* the clock bounds everything released *)
Definition cinv (c : N) (R : list sg) : Prop :=
  (forall a b, In (SAtt a b) R -> a < b /\ b <= epoch_of c) /\
  (forall sl, In (SBlk sl) R -> sl <= c).

Definition safe (R : list sg) : Prop := ForallOrdPairs (fun a b => ~ conflict a b) R.

Definition Inv (x : state) (R : list sg) : Prop :=
  clock x < clock_max /\ cfg_ok (conf x) /\ sinv (st x) R /\ cinv (clock x) R /\ safe R.

Lemma Inv_intro x R :
  clock x < clock_max -> cfg_ok (conf x) -> sinv (st x) R -> cinv (clock x) R -> safe R -> Inv x R.
Proof. unfold Inv. auto. Qed.

Lemma apply_write_sinv s R w : sinv s R -> write_ok R w -> sinv (apply_write s w) R.
Proof.
  intros (H1 & H2 & H3) Hw.
  destruct w; simpl in *; (split; [|split]); simpl; intros; try discriminate; eauto.
  - inversion H; subst. apply Hw. assumption.
  - inversion H; subst. apply Hw. assumption.
Qed.

Lemma apply_writes_sinv ws : forall s R, sinv s R -> Forall (write_ok R) ws -> sinv (apply_writes s ws) R.
Proof.
  induction ws as [|w ws IH]; intros s R Hs HF; simpl.
  - assumption.
  - inversion HF; subst. apply IH; [apply apply_write_sinv; assumption|assumption].
Qed.

Lemma Forall_firstn {A} (P : A -> Prop) n : forall l, Forall P l -> Forall P (firstn n l).
Proof.
  induction n as [|n IH]; intros l H; simpl.
  - constructor.
  - destruct l; [constructor|]. inversion H; subst. constructor; auto.
Qed.

(* exec: either a crash after a prefix of the writes, or the whole plan *)
Lemma exec_cases s c ws out s' out' :
  exec s c (ws, out) = (s', out') ->
  (out' = Crashed /\ exists k, s' = apply_writes s (firstn k ws)) \/
  (out' = out /\ s' = apply_writes s ws).
Proof.
  unfold exec. destruct c as [k|].
  - destruct ((k <=? nlen ws) && (1 <=? nlen ws)); intros H; inversion H; subst.
    + left. split; [reflexivity|]. eexists. reflexivity.
    + right. split; reflexivity.
  - intros H; inversion H; subst. right. split; reflexivity.
Qed.

Lemma exec_sinv s c ws out s' out' R :
  sinv s R -> Forall (write_ok R) ws -> exec s c (ws, out) = (s', out') -> sinv s' R.
Proof.
  intros Hs HF He. apply exec_cases in He. destruct He as [[_ [k ->]]|[_ ->]].
  - apply apply_writes_sinv; [assumption|]. apply Forall_firstn. assumption.
  - apply apply_writes_sinv; assumption.
Qed.

(* ---- BumpSlashingProtection only writes upper bounds -------------------------------------------- *)

Lemma minimal_att_ok g c R :
  cfg_ok g -> c < clock_max -> cinv c R ->
  forall a b, In (SAtt a b) R ->
    a <= wpred (wadd (epoch_of c) (gap_att g)) /\ b <= wadd (epoch_of c) (gap_att g).
Proof.
  intros [Hg _] Hc [Hb _] a b Hin. destruct (Hb a b Hin) as [Hab HbE].
  assert (HE : epoch_of c <= c) by apply epoch_le.
  assert (Hsum : epoch_of c + gap_att g < two64) by (unfold two64, clock_max in *; lia).
  rewrite (wadd_small _ _ Hsum).
  rewrite wpred_pos by (unfold two64 in *; lia). lia.
Qed.

Lemma bump_att_ok g e s c R ws r :
  cfg_ok g -> c < clock_max -> cinv c R -> bump_att g e s c = (ws, r) -> Forall (write_ok R) ws.
Proof.
  intros Hg Hc Hci. unfold bump_att, minimal_att.
  assert (Hm := minimal_att_ok g c R Hg Hc Hci).
  destruct (read e (att s)) as [ | | |[hs ht]].
  - intros H; inversion H; subst. constructor.
  - intros H; inversion H; subst. constructor; [exact Hm|constructor].
  - intros H; inversion H; subst. constructor; [exact Hm|constructor].
  - destruct ((_ <=? hs) || (_ <=? ht)); intros H; inversion H; subst.
    + constructor.
    + constructor; [exact Hm|constructor].
Qed.

Lemma bump_prop_ok g e s c R ws r :
  cfg_ok g -> c < clock_max -> cinv c R -> bump_prop g e s c = (ws, r) -> Forall (write_ok R) ws.
Proof.
  intros [_ Hg] Hc [_ Hb]. unfold bump_prop.
  assert (Hsum : c + gap_prop g < two64) by (unfold two64, clock_max in *; lia).
  rewrite (wadd_small _ _ Hsum).
  assert (Hm : write_ok R (WProp (c + gap_prop g))).
  { simpl. intros sl Hin. specialize (Hb sl Hin). lia. }
  assert (Hsave : forall ws r,
            (if c + gap_prop g =? 0 then (@nil write, Some EZeroSlot) else ([WProp (c + gap_prop g)], None)) = (ws, r) ->
            Forall (write_ok R) ws).
  { intros ws0 r0. destruct (c + gap_prop g =? 0); intros H; inversion H; subst.
    - constructor.
    - constructor; [exact Hm|constructor]. }
  destruct (read e (prop s)) as [ | | |p].
  - intros H; inversion H; subst. constructor.
  - apply Hsave.
  - apply Hsave.
  - destruct (negb (p =? 0) && (c + gap_prop g <=? p)).
    + intros H; inversion H; subst. constructor.
    + apply Hsave.
Qed.

Lemma bump_ok g e s c R ws r :
  cfg_ok g -> c < clock_max -> cinv c R -> bump g e s c = (ws, r) -> Forall (write_ok R) ws.
Proof.
  intros Hg Hc Hci. unfold bump.
  destruct (bump_att g e s c) as [w1 [x|]] eqn:Ha.
  - intros H; inversion H; subst. eapply bump_att_ok; eauto.
  - destruct (bump_prop g e s c) as [w2 r2] eqn:Hp. intros H; inversion H; subst.
    apply Forall_app. split; [eapply bump_att_ok; eauto|eapply bump_prop_ok; eauto].
Qed.

(* ---- one step ------------------------------------------------------------------------------------ *)

(* the part of the quantifier that concerns one operation at clock c *)
Definition op_ok (cb slt : bool) (c : N) (o : op) : Prop :=
  match o with
  | OTick d => c + d < clock_max
  | OSignAtt s t _ => (slt = true -> s < t) /\ (cb = true -> t <= epoch_of c) /\ t < two64 /\ s < two64
  | OSignBlk sl _ => (cb = true -> sl <= c) /\ sl < two64
  | _ => True
  end.

Definition clock_after (c : N) (o : op) : N := match o with OTick d => c + d | _ => c end.

Definition rel1 (r : obs) : list sg := match o_out r with Released g => [g] | _ => [] end.

Lemma rel1_relabel b out s : rel1 {| o_out := relabel b out; o_store := s |} = rel1 {| o_out := out; o_store := s |}.
Proof. unfold rel1, relabel. simpl. destruct b; [|reflexivity]. destruct out; reflexivity. Qed.

Lemma relabel_released b out g : relabel b out = Released g -> out = Released g.
Proof. unfold relabel. destruct b; [|auto]. destruct out; try discriminate; auto. Qed.

Lemma released_cons r rs : released (r :: rs) = rel1 r ++ released rs.
Proof. unfold rel1. simpl. destruct (o_out r); reflexivity. Qed.

Lemma step_clock x o x' r : step x o = (x', r) -> clock x' = clock_after (clock x) o /\ conf x' = conf x /\ horizon x' = horizon x.
Proof.
  unfold step. destruct o; simpl;
    try (destruct (exec _ _ _) as [s' out]); intros H; inversion H; subst; simpl; auto.
Qed.

Lemma cinv_tick c d R : cinv c R -> cinv (c + d) R.
Proof.
  intros [H1 H2]. split.
  - intros a b Hin. destruct (H1 a b Hin). split; [assumption|].
    pose proof (epoch_mono c d). lia.
  - intros sl Hin. specialize (H2 sl Hin). lia.
Qed.

Lemma cinv_snoc_none c R : cinv c R -> cinv c (R ++ []).
Proof. rewrite app_nil_r. auto. Qed.

(* a refused / finished / crashed call releases nothing *)
Lemma inv_no_release x R s' :
  Inv x R -> sinv s' R -> Inv (with_store x s') (R ++ []).
Proof.
  intros (Hc & Hg & _ & Hci & Hsafe) Hs. rewrite app_nil_r.
  unfold Inv. simpl. auto.
Qed.

Lemma check_att_none e s src tgt :
  check_att e s src tgt = None ->
  exists hs ht, att s = RVal (hs, ht) /\ hs <= src /\ ht < tgt.
Proof.
  unfold check_att, read. destruct (rfail e); [discriminate|].
  destruct (att s) as [ | | |[hs ht]]; try discriminate.
  destruct ((src <? hs) || (tgt <=? ht)) eqn:E; [discriminate|].
  intros _. exists hs, ht. split; [reflexivity|]. lia.
Qed.

Lemma check_prop_none e s sl :
  check_prop e s sl = None ->
  0 < sl /\ (prop s = REmpty \/ exists p, prop s = RVal p /\ p < sl).
Proof.
  unfold check_prop, read. destruct (sl =? 0) eqn:E0; [discriminate|].
  destruct (rfail e); [discriminate|].
  destruct (prop s) as [ | | |p]; try discriminate.
  - intros _. split; [lia|]. left. reflexivity.
  - destruct (p <? sl) eqn:E; [|discriminate]. intros _. split; [lia|]. right. exists p. split; [reflexivity|lia].
Qed.

Lemma step_inv cb x R o x' r :
  Inv x R -> op_ok cb true (clock x) o -> cb = true ->
  (o = OCorrupt CPropEmpty -> prop_empty_err (conf x) = true) ->
  step x o = (x', r) -> Inv x' (R ++ rel1 r).
Proof.
  intros HI Hok -> Hdmg Hstep.
  destruct HI as (Hc & Hg & Hs & Hci & Hsafe).
  assert (HI : Inv x R) by (unfold Inv; auto).
  destruct o; unfold step in Hstep.
  - (* OTick *)
    inversion Hstep; subst. unfold rel1; simpl. rewrite app_nil_r.
    simpl in Hok. apply Inv_intro; simpl; try assumption.
    apply cinv_tick; assumption.
  - (* ORestart *)
    simpl in Hstep. inversion Hstep; subst. unfold rel1; simpl.
    apply inv_no_release; assumption.
  - (* OAdd *)
    destruct (exec (st x) (op_cut (OAdd e)) (plan x (OAdd e))) as [s' out] eqn:He.
    inversion Hstep; subst. clear Hstep. rewrite ?rel1_relabel.
    assert (HF : Forall (write_ok R) (fst (plan x (OAdd e))) /\
                 forall g, snd (plan x (OAdd e)) <> Released g).
    { simpl. destruct (acct (st x)).
      - simpl. split; [constructor|discriminate].
      - destruct (bump (conf x) e (st x) (clock x)) as [ws [r0|]] eqn:Hb; simpl.
        + split; [eapply bump_ok; eauto|discriminate].
        + split; [|discriminate]. apply Forall_app. split; [eapply bump_ok; eauto|].
          repeat constructor. }
    destruct (plan x (OAdd e)) as [ws out0]. simpl in HF. destruct HF as [HF Hnr].
    assert (Hs' := exec_sinv _ _ _ _ _ _ R Hs HF He).
    apply exec_cases in He.
    assert (Hout : rel1 {| o_out := out; o_store := s' |} = []).
    { unfold rel1; simpl. destruct He as [[-> _]|[-> _]]; [reflexivity|].
      destruct out0; try reflexivity. exfalso. eapply Hnr. reflexivity. }
    rewrite Hout. apply inv_no_release; assumption.
  - (* ORemove *)
    destruct (exec (st x) (op_cut (ORemove e)) (plan x (ORemove e))) as [s' out] eqn:He.
    inversion Hstep; subst. clear Hstep. rewrite ?rel1_relabel.
    assert (HF : Forall (write_ok R) (fst (plan x (ORemove e))) /\
                 forall g, snd (plan x (ORemove e)) <> Released g).
    { simpl. destruct (acct (st x)); simpl; split; try discriminate; repeat constructor. }
    destruct (plan x (ORemove e)) as [ws out0]. simpl in HF. destruct HF as [HF Hnr].
    assert (Hs' := exec_sinv _ _ _ _ _ _ R Hs HF He).
    apply exec_cases in He.
    assert (Hout : rel1 {| o_out := out; o_store := s' |} = []).
    { unfold rel1; simpl. destruct He as [[-> _]|[-> _]]; [reflexivity|].
      destruct out0; try reflexivity. exfalso. eapply Hnr. reflexivity. }
    rewrite Hout. apply inv_no_release; assumption.
  - (* OReact *)
    destruct (exec (st x) (op_cut (OReact e)) (plan x (OReact e))) as [s' out] eqn:He.
    inversion Hstep; subst. clear Hstep. rewrite ?rel1_relabel.
    assert (HF : Forall (write_ok R) (fst (plan x (OReact e))) /\
                 forall g, snd (plan x (OReact e)) <> Released g).
    { simpl. destruct (bump (conf x) e (st x) (clock x)) as [ws [r0|]] eqn:Hb; simpl;
        (split; [eapply bump_ok; eauto|discriminate]). }
    destruct (plan x (OReact e)) as [ws out0]. simpl in HF. destruct HF as [HF Hnr].
    assert (Hs' := exec_sinv _ _ _ _ _ _ R Hs HF He).
    apply exec_cases in He.
    assert (Hout : rel1 {| o_out := out; o_store := s' |} = []).
    { unfold rel1; simpl. destruct He as [[-> _]|[-> _]]; [reflexivity|].
      destruct out0; try reflexivity. exfalso. eapply Hnr. reflexivity. }
    rewrite Hout. apply inv_no_release; assumption.
  - (* OSignAtt *)
    destruct (exec (st x) (op_cut (OSignAtt src tgt e)) (plan x (OSignAtt src tgt e))) as [s' out] eqn:He.
    inversion Hstep; subst. clear Hstep. rewrite ?rel1_relabel.
    simpl in Hok. destruct Hok as (Hlt & Hclk & _ & _).
    specialize (Hlt eq_refl). specialize (Hclk eq_refl).
    simpl in He.
    destruct (negb (acct (st x))).
    { apply exec_cases in He. destruct He as [[-> [k ->]]|[-> ->]];
        unfold rel1; simpl; [destruct k|]; simpl; apply inv_no_release; assumption. }
    destruct (far_epoch (horizon x) tgt || far_epoch (horizon x) src).
    { apply exec_cases in He. destruct He as [[-> [k ->]]|[-> ->]];
        unfold rel1; simpl; [destruct k|]; simpl; apply inv_no_release; assumption. }
    destruct (check_att e (st x) src tgt) as [r0|] eqn:Hchk.
    { apply exec_cases in He. destruct He as [[-> [k ->]]|[-> ->]];
        unfold rel1; simpl; [destruct k|]; simpl; apply inv_no_release; assumption. }
    apply check_att_none in Hchk. destruct Hchk as (hs & ht & Hrec & Hhs & Hht).
    destruct Hs as (Hs1 & Hs2 & Hs3).
    assert (Hbound := Hs1 hs ht Hrec).
    (* the single write of UpdateHighestAttestation *)
    assert (Hupd : update_att (st x) src tgt = [WAtt src tgt]).
    { unfold update_att. rewrite Hrec.
      destruct (hs <? src) eqn:E1; destruct (ht <? tgt) eqn:E2; simpl; try lia.
      - reflexivity.
      - assert (hs = src) by lia. subst. reflexivity. }
    rewrite Hupd in He.
    assert (HF : Forall (write_ok R) [WAtt src tgt]).
    { constructor; [|constructor]. simpl. intros a b Hin. destruct (Hbound a b Hin). lia. }
    assert (Hs' := exec_sinv _ _ _ _ _ _ R (conj Hs1 (conj Hs2 Hs3)) HF He).
    apply exec_cases in He. destruct He as [[-> _]|[-> ->]].
    { unfold rel1; simpl. apply inv_no_release; assumption. }
    unfold rel1; simpl. unfold apply_writes; simpl.
    apply Inv_intro; simpl; try assumption.
    + (* the records bound R ++ [new] *)
      split; [|split]; simpl.
      * intros hs' ht' Heq a b Hin. inversion Heq; subst.
        apply in_app_or in Hin. destruct Hin as [Hin|[Hin|[]]].
        -- destruct (Hbound a b Hin). lia.
        -- inversion Hin; subst. lia.
      * intros p Hp sl Hin. apply in_app_or in Hin. destruct Hin as [Hin|[Hin|[]]].
        -- eapply Hs2; eauto.
        -- discriminate.
      * intros Hp sl Hin. apply in_app_or in Hin. destruct Hin as [Hin|[Hin|[]]].
        -- eapply Hs3; eauto.
        -- discriminate.
    + (* the clock bounds R ++ [new] *)
      destruct Hci as [Hci1 Hci2]. split.
      * intros a b Hin. apply in_app_or in Hin. destruct Hin as [Hin|[Hin|[]]].
        -- apply Hci1. assumption.
        -- inversion Hin; subst. split; assumption.
      * intros sl Hin. apply in_app_or in Hin. destruct Hin as [Hin|[Hin|[]]].
        -- apply Hci2. assumption.
        -- discriminate.
    + apply FOP_snoc; [assumption|]. apply Forall_forall. intros [a b|sl] Hin; simpl.
      * destruct (Hbound a b Hin). lia.
      * tauto.
  - (* OSignBlk *)
    destruct (exec (st x) (op_cut (OSignBlk sl e)) (plan x (OSignBlk sl e))) as [s' out] eqn:He.
    inversion Hstep; subst. clear Hstep. rewrite ?rel1_relabel.
    simpl in Hok. destruct Hok as (Hclk & _). specialize (Hclk eq_refl).
    simpl in He.
    destruct (negb (acct (st x))).
    { apply exec_cases in He. destruct He as [[-> [k ->]]|[-> ->]];
        unfold rel1; simpl; [destruct k|]; simpl; apply inv_no_release; assumption. }
    destruct (far_slot (horizon x) sl).
    { apply exec_cases in He. destruct He as [[-> [k ->]]|[-> ->]];
        unfold rel1; simpl; [destruct k|]; simpl; apply inv_no_release; assumption. }
    destruct (check_prop e (st x) sl) as [r0|] eqn:Hchk.
    { apply exec_cases in He. destruct He as [[-> [k ->]]|[-> ->]];
        unfold rel1; simpl; [destruct k|]; simpl; apply inv_no_release; assumption. }
    apply check_prop_none in Hchk. destruct Hchk as (Hpos & Hrec).
    destruct Hs as (Hs1 & Hs2 & Hs3).
    assert (Hupd : update_prop (st x) sl = [WProp sl]).
    { unfold update_prop. destruct Hrec as [->|[p [-> Hp]]]; [reflexivity|].
      destruct (p <? sl) eqn:E; [reflexivity|lia]. }
    assert (Hbound : forall b, In (SBlk b) R -> b < sl).
    { intros b Hin. destruct Hrec as [Hr|[p [Hr Hp]]].
      - exfalso. eapply Hs3; eauto.
      - specialize (Hs2 p Hr b Hin). lia. }
    rewrite Hupd in He.
    assert (HF : Forall (write_ok R) [WProp sl]).
    { constructor; [|constructor]. simpl. intros b Hin. specialize (Hbound b Hin). lia. }
    assert (Hs' := exec_sinv _ _ _ _ _ _ R (conj Hs1 (conj Hs2 Hs3)) HF He).
    apply exec_cases in He. destruct He as [[-> _]|[-> ->]].
    { unfold rel1; simpl. apply inv_no_release; assumption. }
    unfold rel1; simpl. unfold apply_writes; simpl.
    apply Inv_intro; simpl; try assumption.
    + split; [|split]; simpl.
      * intros hs ht Heq a b Hin. apply in_app_or in Hin. destruct Hin as [Hin|[Hin|[]]].
        -- eapply Hs1; eauto.
        -- discriminate.
      * intros p Hp b Hin. inversion Hp; subst. apply in_app_or in Hin. destruct Hin as [Hin|[Hin|[]]].
        -- specialize (Hbound b Hin). lia.
        -- inversion Hin; subst. lia.
      * discriminate.
    + destruct Hci as [Hci1 Hci2]. split.
      * intros a b Hin. apply in_app_or in Hin. destruct Hin as [Hin|[Hin|[]]].
        -- apply Hci1. assumption.
        -- discriminate.
      * intros b Hin. apply in_app_or in Hin. destruct Hin as [Hin|[Hin|[]]].
        -- apply Hci2. assumption.
        -- inversion Hin; subst. assumption.
    + apply FOP_snoc; [assumption|]. apply Forall_forall. intros [a b|b] Hin; simpl.
      * tauto.
      * specialize (Hbound b Hin). lia.
  - (* OCheckAtt *)
    destruct (exec (st x) (op_cut (OCheckAtt src tgt e)) (plan x (OCheckAtt src tgt e))) as [s' out] eqn:He.
    inversion Hstep; subst. clear Hstep. rewrite ?rel1_relabel. simpl in He.
    destruct (check_att e (st x) src tgt); inversion He; subst; unfold rel1; simpl;
      apply inv_no_release; assumption.
  - (* OCheckBlk *)
    destruct (exec (st x) (op_cut (OCheckBlk sl e)) (plan x (OCheckBlk sl e))) as [s' out] eqn:He.
    inversion Hstep; subst. clear Hstep. rewrite ?rel1_relabel. simpl in He.
    destruct (check_prop e (st x) sl); inversion He; subst; unfold rel1; simpl;
      apply inv_no_release; assumption.
  - (* OCorrupt *)
    inversion Hstep; subst. clear Hstep. unfold rel1; simpl.
    apply inv_no_release; [assumption|].
    destruct Hs as (Hs1 & Hs2 & Hs3).
    destruct k; unfold corrupt, sinv; simpl.
    + (split; [|split]); intros; try discriminate; eauto.
    + destruct (att_empty_err (conf x)); (split; [|split]); intros; try discriminate; eauto.
    + rewrite (Hdmg eq_refl). (split; [|split]); intros; try discriminate; eauto.
Qed.

(* ---- histories ----------------------------------------------------------------------------------- *)

Lemma wf_gen_cons cb slt c o tl :
  wf_gen cb slt c (o :: tl) <-> op_ok cb slt c o /\ wf_gen cb slt (clock_after c o) tl.
Proof. destruct o; simpl; tauto. Qed.

Lemma run_inv ops : forall x R x' rs,
  Inv x R -> wf (clock x) ops -> damage_is_detectable (conf x) ops ->
  run x ops = (x', rs) -> Inv x' (R ++ released rs).
Proof.
  induction ops as [|o tl IH]; intros x R x' rs HI Hwf Hd Hrun; simpl in Hrun.
  - inversion Hrun; subst. simpl. rewrite app_nil_r. assumption.
  - destruct (step x o) as [x1 r] eqn:Hs. destruct (run x1 tl) as [x2 rs'] eqn:Hr.
    inversion Hrun; subst.
    apply wf_gen_cons in Hwf. destruct Hwf as [Hok Hwf].
    destruct (step_clock _ _ _ _ Hs) as (Hc1 & Hcf & _).
    rewrite released_cons, app_assoc.
    apply (IH x1 (R ++ rel1 r) x' rs').
    + eapply step_inv; eauto. intros ->. apply Hd. left. reflexivity.
    + rewrite Hc1. exact Hwf.
    + rewrite Hcf. intros Hin. apply Hd. right. assumption.
    + exact Hr.
Qed.

Lemma Inv_nothing_released x : clock x < clock_max -> cfg_ok (conf x) -> Inv x [].
Proof.
  intros Hc Hg. apply Inv_intro; try assumption.
  - split; [|split]; intros; simpl in *; try tauto.
  - split; intros; simpl in *; tauto.
  - constructor.
Qed.

(* The statement of the property, with switches for what the quantifier requires:
   cb   - attestation targets / block slots are not beyond the clock
   slt  - source < target
   dd   - damage to a record is detectable (see [damage_is_detectable]) *)
Definition never_slashable_statement (g : cfg) (cb slt dd : bool) : Prop :=
  forall ops x x' rs,
    conf x = g -> clock x < clock_max ->
    wf_gen cb slt (clock x) ops ->
    (dd = true -> damage_is_detectable g ops) ->
    run x ops = (x', rs) ->
    forall i j a b, i <> j ->
      nth_error (released rs) i = Some a -> nth_error (released rs) j = Some b -> ~ conflict a b.

Lemma never_slashable g : cfg_ok g -> never_slashable_statement g true true true.
Proof.
  intros Hg ops x x' rs Hcf Hc Hwf Hd Hrun i j a b Hij Hi Hj.
  assert (HI : Inv x' ([] ++ released rs)).
  { eapply run_inv; eauto.
    - apply Inv_nothing_released; [assumption|]. rewrite Hcf. assumption.
    - rewrite Hcf. apply Hd. reflexivity. }
  simpl in HI. destruct HI as (_ & _ & _ & _ & Hsafe).
  revert i j a b Hij Hi Hj. apply FOP_nth; [|exact Hsafe].
  intros a b Hab Hba. apply Hab. apply conflict_sym. assumption.
Qed.

Lemma never_slashable_full g : cfg_ok g ->
  forall ops x x' rs,
    conf x = g -> clock x < clock_max ->
    wf (clock x) ops -> damage_is_detectable g ops ->
    run x ops = (x', rs) ->
    forall i j a b, i <> j ->
      nth_error (released rs) i = Some a -> nth_error (released rs) j = Some b -> ~ conflict a b.
Proof.
  intros Hg ops x x' rs Hcf Hc Hwf Hd Hrun.
  eapply (never_slashable g Hg); eauto.
Qed.

(* once a zero-length proposal record is an error, every damage is detectable *)
Lemma never_slashable_any_damage g :
  cfg_ok g -> prop_empty_err g = true -> never_slashable_statement g true true false.
Proof.
  intros Hg Hpe ops x x' rs Hcf Hc Hwf _ Hrun.
  eapply (never_slashable g Hg); eauto. intros _ _. assumption.
Qed.

(* the records are upper bounds of everything released (the invariant, made visible) *)
Lemma records_bound_released g : cfg_ok g ->
  forall ops x x' rs,
    conf x = g -> clock x < clock_max -> wf (clock x) ops -> damage_is_detectable g ops ->
    run x ops = (x', rs) ->
    (forall hs ht, att (st x') = RVal (hs, ht) ->
       forall s t, In (SAtt s t) (released rs) -> s <= hs /\ t <= ht) /\
    (forall p, prop (st x') = RVal p -> forall sl, In (SBlk sl) (released rs) -> sl <= p) /\
    (forall s t, In (SAtt s t) (released rs) -> s < t /\ t <= epoch_of (clock x')) /\
    (forall sl, In (SBlk sl) (released rs) -> sl <= clock x').
Proof.
  intros Hg ops x x' rs Hcf Hc Hwf Hd Hrun.
  assert (HI : Inv x' ([] ++ released rs)).
  { eapply run_inv; eauto.
    - apply Inv_nothing_released; [assumption|]. rewrite Hcf. assumption.
    - rewrite Hcf. assumption. }
  simpl in HI. destruct HI as (_ & _ & (H1 & H2 & _) & (H3 & H4) & _). auto.
Qed.

(* ---- refusal -------------------------------------------------------------------------------------- *)

Lemma exec_out s c ws out s' out' :
  exec s c (ws, out) = (s', out') -> out' = Crashed \/ out' = out.
Proof. intros H. apply exec_cases in H. destruct H as [[-> _]|[-> _]]; auto. Qed.

Definition att_unreadable (r : rcd (N * N)) : Prop := match r with RVal _ => False | _ => True end.
Definition prop_unreadable (r : rcd N) : Prop := r = RMissing \/ r = RBad.

Lemma sign_att_refused x s t e :
  att_unreadable (att (st x)) \/ rfail e = true ->
  forall g, o_out (snd (step x (OSignAtt s t e))) <> Released g.
Proof.
  intros H g. unfold step.
  destruct (exec (st x) (op_cut (OSignAtt s t e)) (plan x (OSignAtt s t e))) as [s' out] eqn:He.
  simpl. simpl in He.
  assert (Hp : exists r, (if negb (acct (st x)) then (@nil write, Refused ENoAccount)
            else if far_epoch (horizon x) t || far_epoch (horizon x) s then ([], Refused EFar)
            else match check_att e (st x) s t with
                 | Some r => ([], Refused r)
                 | None => (update_att (st x) s t, Released (SAtt s t))
                 end) = ([], Refused r)).
  { destruct (negb (acct (st x))); [eexists; reflexivity|].
    destruct (far_epoch (horizon x) t || far_epoch (horizon x) s); [eexists; reflexivity|].
    assert (Hc : exists r, check_att e (st x) s t = Some r).
    { unfold check_att, read. destruct H as [H|H].
      - destruct (rfail e); [eexists; reflexivity|].
        destruct (att (st x)); simpl in H; try contradiction; eexists; reflexivity.
      - rewrite H. eexists; reflexivity. }
    destruct Hc as [r ->]. eexists; reflexivity. }
  destruct Hp as [r Hp]. rewrite Hp in He. apply exec_out in He.
  intros Hr. apply relabel_released in Hr. destruct He as [->| ->]; discriminate.
Qed.

Lemma sign_blk_refused x sl e :
  prop_unreadable (prop (st x)) \/ rfail e = true ->
  forall g, o_out (snd (step x (OSignBlk sl e))) <> Released g.
Proof.
  intros H g. unfold step.
  destruct (exec (st x) (op_cut (OSignBlk sl e)) (plan x (OSignBlk sl e))) as [s' out] eqn:He.
  simpl. simpl in He.
  assert (Hp : exists r, (if negb (acct (st x)) then (@nil write, Refused ENoAccount)
            else if far_slot (horizon x) sl then ([], Refused EFar)
            else match check_prop e (st x) sl with
                 | Some r => ([], Refused r)
                 | None => (update_prop (st x) sl, Released (SBlk sl))
                 end) = ([], Refused r)).
  { destruct (negb (acct (st x))); [eexists; reflexivity|].
    destruct (far_slot (horizon x) sl); [eexists; reflexivity|].
    assert (Hc : exists r, check_prop e (st x) sl = Some r).
    { unfold check_prop, read. destruct (sl =? 0); [eexists; reflexivity|]. destruct H as [H|H].
      - destruct (rfail e); [eexists; reflexivity|].
        destruct H as [-> | ->]; eexists; reflexivity.
      - rewrite H. eexists; reflexivity. }
    destruct Hc as [r ->]. eexists; reflexivity. }
  destruct Hp as [r Hp]. rewrite Hp in He. apply exec_out in He.
  intros Hr. apply relabel_released in Hr. destruct He as [->| ->]; discriminate.
Qed.

(* the pure checks agree: IsAttestationSlashable / IsBeaconBlockSlashable report an error *)
Lemma check_att_refused x s t e :
  att_unreadable (att (st x)) \/ rfail e = true ->
  exists r, o_out (snd (step x (OCheckAtt s t e))) = Refused r.
Proof.
  intros H. unfold step. simpl.
  assert (Hc : exists r, check_att e (st x) s t = Some r).
  { unfold check_att, read. destruct H as [H|H].
    - destruct (rfail e); [eexists; reflexivity|].
      destruct (att (st x)); simpl in H; try contradiction; eexists; reflexivity.
    - rewrite H. eexists; reflexivity. }
  destruct Hc as [r ->]. simpl. eexists; reflexivity.
Qed.

(* a call that dies at a crash point releases nothing, whatever it had persisted *)
Lemma crash_releases_nothing x o x' r :
  step x o = (x', r) -> o_out r = Crashed -> rel1 r = [].
Proof. intros _ H. unfold rel1. rewrite H. reflexivity. Qed.

(* a call whose database writes are refused releases nothing and leaves the records as they were:
   the high-water mark is written before the signature is produced *)
Lemma exec_cut0 s ws out :
  exec s (Some 0) (ws, out) = (s, if 1 <=? nlen ws then Crashed else out).
Proof.
  unfold exec. replace (0 <=? nlen ws) with true by (symmetry; apply N.leb_le; lia). simpl andb.
  destruct (1 <=? nlen ws) eqn:E; [reflexivity|].
  destruct ws as [|w ws]; [reflexivity|]. unfold nlen in E. simpl length in E.
  apply N.leb_gt in E. lia.
Qed.

Lemma write_refused_sign_att x s t e :
  wfail e = true ->
  (forall g, o_out (snd (step x (OSignAtt s t e))) <> Released g) /\
  st (fst (step x (OSignAtt s t e))) = st x.
Proof.
  intros Hw. unfold step. cbn [op_cut op_wfail]. rewrite Hw.
  destruct (plan x (OSignAtt s t e)) as [ws out] eqn:Hp. rewrite exec_cut0. cbn [fst snd o_out st with_store].
  split; [|reflexivity]. intros g Hr. apply relabel_released in Hr.
  destruct (1 <=? nlen ws) eqn:E; [discriminate|]. subst out.
  simpl in Hp.
  destruct (negb (acct (st x))); [inversion Hp|].
  destruct (far_epoch (horizon x) t || far_epoch (horizon x) s); [inversion Hp|].
  destruct (check_att e (st x) s t) as [r0|] eqn:Hchk; [inversion Hp|].
  apply check_att_none in Hchk. destruct Hchk as (hs & ht & Hrec & Hhs & Hht).
  inversion Hp as [[Hws Hg]]. unfold update_att in Hws. rewrite Hrec in Hws.
  assert (Hlt : (ht <? t) = true) by (apply N.ltb_lt; assumption).
  rewrite Hlt, orb_true_r in Hws. subst ws. discriminate.
Qed.

Lemma write_refused_sign_blk x sl e :
  wfail e = true ->
  (forall g, o_out (snd (step x (OSignBlk sl e))) <> Released g) /\
  st (fst (step x (OSignBlk sl e))) = st x.
Proof.
  intros Hw. unfold step. cbn [op_cut op_wfail]. rewrite Hw.
  destruct (plan x (OSignBlk sl e)) as [ws out] eqn:Hp. rewrite exec_cut0. cbn [fst snd o_out st with_store].
  split; [|reflexivity]. intros g Hr. apply relabel_released in Hr.
  destruct (1 <=? nlen ws) eqn:E; [discriminate|]. subst out.
  simpl in Hp.
  destruct (negb (acct (st x))); [inversion Hp|].
  destruct (far_slot (horizon x) sl); [inversion Hp|].
  destruct (check_prop e (st x) sl) as [r0|] eqn:Hchk; [inversion Hp|].
  apply check_prop_none in Hchk. destruct Hchk as (Hpos & Hrec).
  inversion Hp as [[Hws Hg]]. unfold update_prop in Hws.
  destruct Hrec as [Hr0|[p [Hr0 Hpl]]]; rewrite Hr0 in Hws.
  - subst ws. discriminate.
  - assert (Hlt : (p <? sl) = true) by (apply N.ltb_lt; assumption).
    rewrite Hlt in Hws. subst ws. discriminate.
Qed.

(* restart changes nothing that is persisted *)
Lemma restart_identity x : fst (step x ORestart) = x.
Proof. unfold step. simpl. unfold with_store, apply_writes. simpl. destruct x; reflexivity. Qed.

(* ---- a record damaged behind the signer's back ---------------------------------------------------- *)

(* what the sign call for the damaged record's kind returns right after the damage *)
Definition sign_after_damage (k : ckind) (x : state) (s t sl : N) (e : env) : outcome :=
  let x1 := fst (step x (OCorrupt k)) in
  match k with
  | CPropEmpty => o_out (snd (step x1 (OSignBlk sl e)))
  | _ => o_out (snd (step x1 (OSignAtt s t e)))
  end.

Definition damaged_record_refuses_statement (g : cfg) : Prop :=
  forall k x s t sl e, conf x = g -> forall sig, sign_after_damage k x s t sl e <> Released sig.

Lemma damaged_record_refuses_partial g :
  forall k x s t sl e, conf x = g -> (k = CPropEmpty -> prop_empty_err g = true) ->
  forall sig, sign_after_damage k x s t sl e <> Released sig.
Proof.
  intros k x s t sl e Hcf Hk sig. unfold sign_after_damage.
  destruct k; unfold step at 2; simpl fst.
  - apply sign_att_refused. left. simpl. exact I.
  - apply sign_att_refused. left. simpl. destruct (att_empty_err (conf x)); exact I.
  - apply sign_blk_refused. left. simpl. rewrite Hcf, (Hk eq_refl). right. reflexivity.
Qed.

Lemma damaged_record_refuses_if_error g :
  prop_empty_err g = true -> damaged_record_refuses_statement g.
Proof. intros H k x s t sl e Hcf. apply (damaged_record_refuses_partial g); auto. Qed.

Lemma damaged_record_refuses_refuted g :
  prop_empty_err g = false -> ~ damaged_record_refuses_statement g.
Proof.
  intros Hpe Hst.
  pose (x := {| st := {| att := RMissing; prop := RVal 10; acct := true |};
                clock := 320; horizon := 1000; conf := g |}).
  apply (Hst CPropEmpty x 0 0 10 env0 eq_refl (SBlk 10)).
  unfold sign_after_damage, step, x. simpl. unfold corrupt. simpl. rewrite Hpe. reflexivity.
Qed.

(* ---- witnesses: what happens when a bound of the quantifier is dropped --------------------------- *)

Lemma wfb_gen_spec cb slt ops : forall c, wfb_gen cb slt c ops = true -> wf_gen cb slt c ops.
Proof.
  induction ops as [|o tl IH]; intros c H; simpl in *; [exact I|].
  destruct o; try (apply IH; assumption).
  - apply andb_prop in H. destruct H as [H1 H2]. split; [lia|apply IH; assumption].
  - apply andb_prop in H. destruct H as [H H5]. apply andb_prop in H. destruct H as [H H4].
    apply andb_prop in H. destruct H as [H H3]. apply andb_prop in H. destruct H as [H1 H2].
    split; [|split; [|split; [|split]]].
    + intros ->. simpl in H1. lia.
    + intros ->. simpl in H2. lia.
    + lia.
    + lia.
    + apply IH; assumption.
  - apply andb_prop in H. destruct H as [H H3]. apply andb_prop in H. destruct H as [H1 H2].
    split; [|split].
    + intros ->. simpl in H1. lia.
    + lia.
    + apply IH; assumption.
Qed.

(* gaps 0 (the values in the source today), the two error flags free *)
Definition cfg0 (ae pe : bool) : cfg :=
  {| gap_att := 0; gap_prop := 0; att_empty_err := ae; prop_empty_err := pe |}.

Lemma cfg0_ok ae pe : cfg_ok (cfg0 ae pe).
Proof. unfold cfg_ok. simpl. lia. Qed.

Lemma source_cfg_ok : cfg_ok source_cfg.
Proof. unfold cfg_ok. vm_compute. split; discriminate. Qed.

(* epoch 5: sign target 6 (one beyond the clock), remove, re-add, sign target 6 again *)
Definition clock_bound_witness : list op :=
  [OAdd env0; OSignAtt 4 6 env0; ORemove env0; OAdd env0; OSignAtt 4 6 env0].

Lemma clock_bound_is_needed :
  ~ (forall g, cfg_ok g -> never_slashable_statement g false true true).
Proof.
  intros H.
  pose (g := cfg0 true true). pose (x := init g 160 1000).
  pose (r := run x clock_bound_witness).
  apply (H g (cfg0_ok _ _) clock_bound_witness x (fst r) (snd r) eq_refl)
    with (i := 0%nat) (j := 1%nat) (a := SAtt 4 6) (b := SAtt 4 6).
  - vm_compute. reflexivity.
  - apply wfb_gen_spec. vm_compute. reflexivity.
  - intros _ _. reflexivity.
  - apply surjective_pairing.
  - discriminate.
  - vm_compute. reflexivity.
  - vm_compute. reflexivity.
  - simpl. left. reflexivity.
Qed.

(* source >= target: (100,6) is released at epoch 6, after remove + re-add (50,7) at epoch 7
   surrounds it *)
Definition source_lt_target_witness : list op :=
  [OAdd env0; OTick 32; OSignAtt 100 6 env0; ORemove env0; OAdd env0; OTick 32; OSignAtt 50 7 env0].

Lemma source_lt_target_is_needed :
  ~ (forall g, cfg_ok g -> never_slashable_statement g true false true).
Proof.
  intros H.
  pose (g := cfg0 true true). pose (x := init g 160 1000).
  pose (r := run x source_lt_target_witness).
  apply (H g (cfg0_ok _ _) source_lt_target_witness x (fst r) (snd r) eq_refl)
    with (i := 0%nat) (j := 1%nat) (a := SAtt 100 6) (b := SAtt 50 7).
  - vm_compute. reflexivity.
  - apply wfb_gen_spec. vm_compute. reflexivity.
  - intros _ _. reflexivity.
  - apply surjective_pairing.
  - discriminate.
  - vm_compute. reflexivity.
  - vm_compute. reflexivity.
  - simpl. right. right. split; reflexivity.
Qed.

(* a zero-length proposal record that is not reported as an error reads as slot 0: the slot
   signed before is signed again *)
Definition undetected_damage_witness : list op :=
  [OAdd env0; OTick 5; OSignBlk 3210 env0; OCorrupt CPropEmpty; OSignBlk 3210 env0].

Lemma undetected_damage_breaks_safety ae :
  ~ never_slashable_statement (cfg0 ae false) true true false.
Proof.
  intros H.
  pose (x := init (cfg0 ae false) 3205 1000).
  pose (r := run x undetected_damage_witness).
  apply (H undetected_damage_witness x (fst r) (snd r) eq_refl)
    with (i := 0%nat) (j := 1%nat) (a := SBlk 3210) (b := SBlk 3210).
  - vm_compute. reflexivity.
  - apply wfb_gen_spec. vm_compute. reflexivity.
  - discriminate.
  - apply surjective_pairing.
  - discriminate.
  - destruct ae; vm_compute; reflexivity.
  - destruct ae; vm_compute; reflexivity.
  - simpl. reflexivity.
Qed.

(* ---- a history inside the quantifier (non-vacuity) ---------------------------------------------- *)

Definition crash_after (k : N) : env := {| cut := Some k; rfail := false; wfail := false |}.
Definition write_refused : env := {| cut := None; rfail := false; wfail := true |}.

Definition example_history : list op :=
  [ OAdd env0;                      (* epoch 5: records (4,5) / slot 160 *)
    OSignAtt 4 5 env0;              (* refused: target 5 <= 5 *)
    OTick 32;
    OSignAtt 4 6 env0;              (* released *)
    OSignBlk 192 env0;              (* released *)
    ORestart;
    OSignAtt 5 6 env0;              (* refused: double vote *)
    OTick 32;
    OSignAtt 5 7 (crash_after 1);   (* record (5,7) persisted, process dies, nothing released *)
    OSignAtt 5 7 env0;              (* refused after the restart *)
    ORemove env0;
    OSignAtt 6 7 env0;              (* refused: no account *)
    OAdd (crash_after 2);           (* records written, account not: the share is still absent *)
    OAdd env0;                      (* records (6,7) / 224 kept, account saved *)
    OSignAtt 6 7 env0;              (* refused *)
    OTick 32;
    OSignAtt 6 8 env0;              (* released *)
    OSignBlk 224 env0;              (* refused *)
    OSignBlk 256 env0;              (* released *)
    OReact env0;
    OTick 32;
    OSignAtt 7 9 write_refused;     (* the record cannot be advanced: refused, nothing released *)
    OSignAtt 7 9 env0;              (* released once the database accepts writes again *)
    OCorrupt CAttGarbage;
    OSignAtt 7 8 env0 ].            (* refused: unreadable record *)
