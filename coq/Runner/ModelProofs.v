(* Lemmas about Runner/Model.v (C03). *)
From Coq Require Import List NArith Bool Arith Lia.
From SSV Require Import Runner.PartialSig Runner.Model.
Import ListNotations.

Local Ltac inv H := inversion H; subst; clear H.

Lemma role_eqb_refl : forall r, role_eqb r r = true.
Proof. destruct r; reflexivity. Qed.

Lemma role_eqb_eq : forall a b, role_eqb a b = true -> a = b.
Proof. destruct a, b; simpl; intros H; try discriminate; reflexivity. Qed.

Lemma vset_same : forall v r x, vset v r x r = x.
Proof. intros. unfold vset. rewrite role_eqb_refl. reflexivity. Qed.

Lemma vset_other : forall v r x r', r' <> r -> vset v r x r' = v r'.
Proof.
  intros. unfold vset. destruct (role_eqb r' r) eqn:E; auto.
  apply role_eqb_eq in E. contradiction.
Qed.

(* ---- signatures of the three message handlers ------------------------------------------------ *)

Lemma signs_app : forall a b, signs (a ++ b) = signs a ++ signs b.
Proof. intros. unfold signs. apply filter_app. Qed.

Lemma signs_map_sign : forall r d l, signs (map (Sign r d) l) = map (Sign r d) l.
Proof. induction l; simpl; auto. unfold signs in *. simpl. f_equal. auto. Qed.

Lemma signs_map_submit : forall r l, signs (map (Submit r) l) = [].
Proof. induction l; simpl; auto. Qed.

Lemma process_pre_no_sign : forall g r st m ok st' c outs,
  process_pre g r st m ok = (st', c, outs) -> signs outs = [].
Proof.
  intros g r st m ok st' c outs H. unfold process_pre in H.
  destruct (has_pre r); cbn [negb] in H; [|inv H; reflexivity].
  destruct st as [ds|]; [|inv H; reflexivity].
  destruct (ds_finished ds); [inv H; reflexivity|].
  destruct (validate _ m); try (inv H; reflexivity).
  destruct (base_processing _ _ _) as [c1 roots].
  destruct roots as [|r0 tl]; [inv H; reflexivity|].
  destruct (reconstruct_all _ _ _).
  - destruct (has_consensus r).
    + destruct ok; inv H; reflexivity.
    + inv H. reflexivity.
  - inv H. reflexivity.
Qed.

Lemma process_post_no_sign : forall g r st m d st' c outs,
  process_post g r st m d = (st', c, outs) -> signs outs = [].
Proof.
  intros g r st m d st' c outs H. unfold process_post in H.
  destruct (has_consensus r); cbn [negb] in H; [|inv H; reflexivity].
  destruct st as [ds|]; [|inv H; reflexivity].
  destruct (ds_finished ds); [inv H; reflexivity|].
  destruct (ds_decided ds) as [dv|]; [|inv H; reflexivity].
  destruct (ds_running ds); [|inv H; reflexivity].
  destruct d; cbn [negb] in H; [|inv H; reflexivity].
  destruct (PartialSig.step _ _ _) as [ps o]. inv H. apply signs_map_submit.
Qed.

(* the only way process_consensus signs *)
Definition acts_on_decision (g : vcfg) (r : role) (st : option dstate) (o : cons_oracle) (ds : dstate) (dc : decision) : Prop :=
  has_consensus r = true /\ st = Some ds /\ ds_finished ds = false /\ co_err o = false /\
  co_ret o = Some dc /\ ds_running ds = Some (dc_height dc) /\ co_prev o = false /\
  dc_decodes dc = true /\ dc_valid dc = true /\
  (v_fix_resign g = true -> ds_decided ds = None).

Lemma process_consensus_cases : forall g r st o st' c outs,
  process_consensus g r st o = (st', c, outs) ->
  (signs outs = [] /\ st' = st) \/
  (exists ds dc, acts_on_decision g r st o ds dc /\
     signs outs = map (Sign r (post_domain r)) (dc_objs dc) /\
     st' = Some (with_decision ds {| dv_id := dc_value dc; dv_objs := dc_objs dc; dv_slot := dc_slot dc |})).
Proof.
  intros g r st o st' c outs H. unfold process_consensus in H.
  destruct (has_consensus r) eqn:Ec; simpl in H; [|inv H; left; auto].
  destruct (co_err o) eqn:Ee; [inv H; left; auto|].
  destruct st as [ds|]; [|inv H; left; auto].
  destruct (ds_finished ds) eqn:Ef; [inv H; left; auto|].
  destruct (co_ret o) as [dc|] eqn:Er; [|inv H; left; auto].
  destruct (ds_running ds) as [h|] eqn:Eh; [|inv H; left; auto].
  destruct (N.eqb (dc_height dc) h) eqn:Ehh; simpl in H; [|inv H; left; auto].
  destruct (co_prev o) eqn:Ep; [inv H; left; auto|].
  destruct (v_fix_resign g && is_some (ds_decided ds)) eqn:Efx; [inv H; left; auto|].
  destruct (dc_decodes dc) eqn:Ed; simpl in H; [|inv H; left; auto].
  destruct (dc_valid dc) eqn:Evl; simpl in H; [|inv H; left; auto].
  inv H. right. exists ds, dc. apply N.eqb_eq in Ehh. subst h.
  split.
  { unfold acts_on_decision; repeat split; auto.
    intros Hfx. rewrite Hfx in Efx. simpl in Efx. destruct (ds_decided ds); [discriminate|reflexivity]. }
  split; auto. rewrite signs_app, signs_map_sign. simpl. apply app_nil_r.
Qed.

Lemma start_duty_cases : forall r st d ch ok st' c outs,
  start_duty r st d ch ok = (st', c, outs) ->
  (signs outs = [] /\ (st' = st \/ exists ds, st' = Some ds /\ ds_duty ds = d /\ ds_nsign ds = 0 /\
                                        (ds_running ds = None \/ ds_running ds = Some (du_slot d)))) \/
  (should_process r st d ch = true /\ has_pre r = true /\
   signs outs = map (Sign r (pre_domain r)) (du_pre d) /\ st' = Some (fresh d)).
Proof.
  intros r st d ch ok st' c outs H. unfold start_duty in H.
  destruct (should_process r st d ch) eqn:Es; simpl in H; [|inv H; left; auto].
  destruct (has_pre r) eqn:Ep.
  - inv H. right. repeat split; auto.
    rewrite signs_app, signs_map_sign. simpl. apply app_nil_r.
  - destruct ok; inv H; left; split; auto; right; eexists; repeat split; simpl; auto.
Qed.

(* ---- invariant: a running instance has the height of the duty's slot ------------------------- *)

Definition wf_ds (ds : dstate) : Prop :=
  forall h, ds_running ds = Some h -> h = du_slot (ds_duty ds).

Definition wf_v (v : vstate) : Prop := forall r ds, v r = Some ds -> wf_ds ds.

Lemma wf_vinit : wf_v vinit.
Proof. intros r ds H. discriminate. Qed.

Lemma wf_vset : forall v r x, wf_v v -> (forall ds, x = Some ds -> wf_ds ds) -> wf_v (vset v r x).
Proof.
  intros v r x Hv Hx r' ds H. unfold vset in H.
  destruct (role_eqb r' r); eauto.
Qed.

Lemma process_pre_wf : forall g r st m ok st' c outs,
  process_pre g r st m ok = (st', c, outs) ->
  (forall ds, st = Some ds -> wf_ds ds) -> forall ds, st' = Some ds -> wf_ds ds.
Proof.
  intros g r st m ok st' c outs H Hst ds' Hs'. unfold process_pre in H.
  destruct (has_pre r); cbn [negb] in H; [|inv H; auto].
  destruct st as [ds|]; [|inv H; discriminate].
  specialize (Hst ds eq_refl).
  destruct (ds_finished ds); [inv H; inv H1; auto|].
  destruct (validate _ m); try (inv H; inv H1; auto; fail).
  destruct (base_processing _ _ _) as [c1 roots].
  assert (Hk : forall c0 fin, wf_ds (set_pre ds c0 (ds_running ds) fin)).
  { intros c0 fin h Hh. simpl in *. auto. }
  destruct roots as [|r0 tl]; [inv H; inv H1; apply Hk|].
  destruct (reconstruct_all _ _ _).
  - destruct (has_consensus r).
    + destruct ok; inv H; inv H1; [|apply Hk].
      intros h Hh. simpl in *. inv Hh. reflexivity.
    + inv H. inv H1. apply Hk.
  - inv H. inv H1. apply Hk.
Qed.

Lemma process_post_wf : forall g r st m d st' c outs,
  process_post g r st m d = (st', c, outs) ->
  (forall ds, st = Some ds -> wf_ds ds) -> forall ds, st' = Some ds -> wf_ds ds.
Proof.
  intros g r st m d st' c outs H Hst ds' Hs'. unfold process_post in H.
  destruct (has_consensus r); cbn [negb] in H; [|inv H; auto].
  destruct st as [ds|]; [|inv H; discriminate].
  specialize (Hst ds eq_refl).
  destruct (ds_finished ds); [inv H; inv H1; auto|].
  destruct (ds_decided ds) as [dv|]; [|inv H; inv H1; auto].
  destruct (ds_running ds) eqn:Er; [|inv H; inv H1; auto].
  destruct d; cbn [negb] in H; [|inv H; inv H1; auto].
  destruct (PartialSig.step _ _ _) as [ps o]. inv H. inv H1.
  intros h Hh. simpl in *. apply Hst. congruence.
Qed.

Lemma vstep_wf : forall g v i v' c outs, vstep g v i = (v', c, outs) -> wf_v v -> wf_v v'.
Proof.
  intros g v i v' c outs H Hv. destruct i as [r d ch ok | pk r b]; simpl in H.
  - destruct (start_duty r (v r) d ch ok) as [[st c0] o0] eqn:E. inv H.
    apply wf_vset; auto. intros ds Hs.
    apply start_duty_cases in E. destruct E as [[_ [E|E]]|E].
    + subst. eapply Hv; eauto.
    + destruct E as (ds0 & E1 & E2 & _ & E3). rewrite E1 in Hs. inv Hs.
      intros h Hh. destruct E3 as [E3|E3]; rewrite E3 in Hh; inv Hh. reflexivity.
    + destruct E as (_ & _ & _ & E). rewrite E in Hs. inv Hs. intros h Hh. discriminate.
  - destruct pk; simpl in H; [|inv H; auto].
    destruct b as [o | m ok | m dcd].
    + destruct (process_consensus g r (v r) o) as [[st c0] o0] eqn:E. inv H.
      apply wf_vset; auto. intros ds Hs.
      apply process_consensus_cases in E. destruct E as [[_ E]|E].
      * subst. eapply Hv; eauto.
      * destruct E as (ds0 & dc & A & _ & E). rewrite E in Hs. inv Hs.
        destruct A as (_ & A & _). intros h Hh. simpl in Hh. simpl. exact (Hv r ds0 A h Hh).
    + destruct (process_pre g r (v r) m ok) as [[st c0] o0] eqn:E. inv H.
      apply wf_vset; auto. eapply process_pre_wf; eauto.
    + destruct (process_post g r (v r) m dcd) as [[st c0] o0] eqn:E. inv H.
      apply wf_vset; auto. eapply process_post_wf; eauto.
Qed.

(* ---- traces ---------------------------------------------------------------------------------- *)

Lemma vrun_event : forall g hist v e,
  In e (vrun g v hist) -> wf_v v ->
  wf_v (ev_pre e) /\ vstep g (ev_pre e) (ev_in e) = (ev_post e, ev_class e, ev_outs e).
Proof.
  induction hist as [|i tl IH]; intros v e Hin Hv; simpl in Hin; [contradiction|].
  destruct (vstep g v i) as [[v1 c] outs] eqn:E.
  destruct Hin as [<-|Hin]; simpl; auto.
  eapply IH; eauto. eapply vstep_wf; eauto.
Qed.

(* ---- T1: every signature is a start-of-duty proof or a post-consensus signature over the
        first, validated decision of the running instance ------------------------------------- *)

Definition pre_consensus_signing (e : event) (r : role) : Prop :=
  exists d ch ok,
    ev_in e = IStart r d ch ok /\
    should_process r (ev_pre e r) d ch = true /\ has_pre r = true /\
    ev_post e r = Some (fresh d) /\
    signs (ev_outs e) = map (Sign r (pre_domain r)) (du_pre d).

Definition post_consensus_signing (e : event) (r : role) : Prop :=
  exists o ds dc,
    ev_in e = IMsg true r (BCons o) /\
    has_consensus r = true /\ co_err o = false /\
    ev_pre e r = Some ds /\ ds_finished ds = false /\
    ds_running ds = Some (du_slot (ds_duty ds)) /\           (* the instance started for this duty's slot *)
    co_ret o = Some dc /\ dc_height dc = du_slot (ds_duty ds) /\ (* the controller reported its decision *)
    co_prev o = false /\                                         (* for the first time *)
    dc_decodes dc = true /\ dc_valid dc = true /\                (* the value passed the duty's check *)
    signs (ev_outs e) = map (Sign r (post_domain r)) (dc_objs dc) /\
    nsign_of (ev_post e) r = S (nsign_of (ev_pre e) r).

Lemma signing_discipline : forall g hist e,
  In e (vrun g vinit hist) ->
  signs (ev_outs e) = [] \/
  exists r, (pre_consensus_signing e r \/ post_consensus_signing e r) /\
            (forall r', r' <> r -> ev_post e r' = ev_pre e r').
Proof.
  intros g hist e Hin.
  destruct (vrun_event _ _ _ _ Hin wf_vinit) as [Hwf Hstep].
  destruct (ev_in e) as [r d ch ok | pk r b] eqn:Ei; simpl in Hstep.
  - destruct (start_duty r (ev_pre e r) d ch ok) as [[st c0] o0] eqn:E.
    injection Hstep as Hp Hc Ho.
    apply start_duty_cases in E. destruct E as [[E _]|E]; [left; congruence|].
    destruct E as (E1 & E2 & E3 & E4). right. exists r. split.
    + left. exists d, ch, ok. rewrite <- Hp, <- Ho. rewrite vset_same.
      split; [exact Ei|]. split; [exact E1|]. split; [exact E2|]. split; [congruence|]. exact E3.
    + intros r' Hne. rewrite <- Hp. apply vset_other; auto.
  - destruct pk; simpl in Hstep; [|injection Hstep as Hp Hc Ho; left; rewrite <- Ho; reflexivity].
    destruct b as [o | m ok | m dcd].
    + destruct (process_consensus g r (ev_pre e r) o) as [[st c0] o0] eqn:E.
      injection Hstep as Hp Hc Ho.
      apply process_consensus_cases in E. destruct E as [[E _]|E]; [left; congruence|].
      destruct E as (ds & dc & A & E1 & E2). right. exists r. split.
      * right. destruct A as (A1 & A2 & A3 & A4 & A5 & A6 & A7 & A8 & A9 & A10).
        assert (Hh : dc_height dc = du_slot (ds_duty ds)).
        { eapply Hwf; eauto. }
        exists o, ds, dc. rewrite <- Ho.
        split; [exact Ei|]. split; [exact A1|]. split; [exact A4|]. split; [exact A2|].
        split; [exact A3|]. split; [congruence|]. split; [exact A5|]. split; [exact Hh|].
        split; [exact A7|]. split; [exact A8|]. split; [exact A9|]. split; [exact E1|].
        unfold nsign_of. rewrite <- Hp, vset_same, E2, A2. reflexivity.
      * intros r' Hne. rewrite <- Hp. apply vset_other; auto.
    + destruct (process_pre g r (ev_pre e r) m ok) as [[st c0] o0] eqn:E.
      injection Hstep as Hp Hc Ho.
      left. rewrite <- Ho. eapply process_pre_no_sign; eauto.
    + destruct (process_post g r (ev_pre e r) m dcd) as [[st c0] o0] eqn:E.
      injection Hstep as Hp Hc Ho.
      left. rewrite <- Ho. eapply process_post_no_sign; eauto.
Qed.

Lemma in_signs : forall o outs, In o outs -> is_sign o = true -> In o (signs outs).
Proof. intros. unfold signs. apply filter_In. auto. Qed.

(* the same, per signature *)
Lemma every_signature : forall g hist e r dom obj,
  In e (vrun g vinit hist) -> In (Sign r dom obj) (ev_outs e) ->
  (exists d ch ok, ev_in e = IStart r d ch ok /\ should_process r (ev_pre e r) d ch = true /\
                   dom = pre_domain r /\ In obj (du_pre d) /\ ev_post e r = Some (fresh d))
  \/
  (exists o ds dc, ev_in e = IMsg true r (BCons o) /\ has_consensus r = true /\
                   ev_pre e r = Some ds /\ ds_finished ds = false /\
                   ds_running ds = Some (du_slot (ds_duty ds)) /\
                   co_ret o = Some dc /\ dc_height dc = du_slot (ds_duty ds) /\ co_prev o = false /\
                   dc_decodes dc = true /\ dc_valid dc = true /\
                   dom = post_domain r /\ In obj (dc_objs dc)).
Proof.
  intros g hist e r dom obj Hin Hs.
  pose proof (in_signs _ _ Hs eq_refl) as Hs'.
  destruct (signing_discipline _ _ _ Hin) as [E|(r0 & [E|E] & _)].
  - rewrite E in Hs'. contradiction.
  - destruct E as (d & ch & ok & E1 & E2 & _ & E3 & E4). rewrite E4 in Hs'.
    apply in_map_iff in Hs'. destruct Hs' as (x & Hx & Hin'). inv Hx.
    left. exists d, ch, ok. repeat split; auto.
  - destruct E as (o & ds & dc & E1 & E2 & _ & E3 & E4 & E5 & E6 & E7 & E8 & E9 & E10 & E11 & _).
    rewrite E11 in Hs'. apply in_map_iff in Hs'. destruct Hs' as (x & Hx & Hin'). inv Hx.
    right. exists o, ds, dc. repeat split; auto.
Qed.

(* ---- T2: what never causes a signature ------------------------------------------------------- *)

Definition cannot_sign (v : vstate) (i : rin) : Prop :=
  match i with
  | IStart r d ch ok => should_process r (v r) d ch = false \/ has_pre r = false
  | IMsg false _ _ => True                                        (* another validator's message *)
  | IMsg true _ (BPre _ _) => True
  | IMsg true _ (BPost _ _) => True
  | IMsg true r (BCons o) =>
      match v r with
      | None => True                                              (* no duty *)
      | Some ds =>
          ds_finished ds = true \/                                (* finished duty *)
          co_err o = true \/ co_ret o = None \/                   (* rejected / no decision *)
          co_prev o = true \/                                     (* not the first decision *)
          (exists dc, co_ret o = Some dc /\
             (ds_running ds <> Some (dc_height dc) \/             (* another height *)
              dc_decodes dc = false \/ dc_valid dc = false))      (* value fails the duty's check *)
      end
  end.

Lemma foreign_inputs_do_not_sign : forall g hist e,
  In e (vrun g vinit hist) -> cannot_sign (ev_pre e) (ev_in e) -> signs (ev_outs e) = [].
Proof.
  intros g hist e Hin Hc.
  destruct (signing_discipline _ _ _ Hin) as [E|(r0 & [E|E] & _)]; auto; exfalso.
  - destruct E as (d & ch & ok & E1 & E2 & E3 & _). rewrite E1 in Hc. simpl in Hc.
    destruct Hc as [Hc|Hc]; congruence.
  - destruct E as (o & ds & dc & E1 & E2 & E0 & E3 & E4 & E5 & E6 & E7 & E8 & E9 & E10 & _).
    rewrite E1 in Hc. simpl in Hc. rewrite E3 in Hc.
    destruct Hc as [Hc|[Hc|[Hc|[Hc|Hc]]]]; try congruence.
    destruct Hc as (dc' & Hc1 & Hc2). rewrite E6 in Hc1. inv Hc1.
    destruct Hc2 as [Hc2|[Hc2|Hc2]]; try congruence.
Qed.

(* a message only touches the runner of its own role *)
Lemma other_roles_untouched : forall g hist e pk r b r',
  In e (vrun g vinit hist) -> ev_in e = IMsg pk r b -> r' <> r -> ev_post e r' = ev_pre e r'.
Proof.
  intros g hist e pk r b r' Hin Ei Hne.
  destruct (vrun_event _ _ _ _ Hin wf_vinit) as [_ Hstep]. rewrite Ei in Hstep. simpl in Hstep.
  destruct pk; simpl in Hstep; [|injection Hstep as Hp Hc Ho; rewrite <- Hp; auto].
  destruct (match b with
            | BCons o => process_consensus g r (ev_pre e r) o
            | BPre m ok => process_pre g r (ev_pre e r) m ok
            | BPost m dcd => process_post g r (ev_pre e r) m dcd
            end) as [[st c0] o0].
  injection Hstep as Hp Hc Ho. rewrite <- Hp. apply vset_other; auto.
Qed.

(* ---- T3: at most once per decided object ------------------------------------------------------ *)

Definition nsign_le1 (v : vstate) : Prop := forall r, nsign_of v r <= 1.

Lemma nsign_vset : forall v r x r', nsign_of (vset v r x) r' =
  if role_eqb r' r then match x with Some ds => ds_nsign ds | None => 0 end else nsign_of v r'.
Proof. intros. unfold nsign_of, vset. destruct (role_eqb r' r); reflexivity. Qed.

Lemma process_pre_nsign : forall g r st m ok st' c outs,
  process_pre g r st m ok = (st', c, outs) ->
  match st' with Some ds => ds_nsign ds | None => 0 end = match st with Some ds => ds_nsign ds | None => 0 end.
Proof.
  intros g r st m ok st' c outs H. unfold process_pre in H.
  destruct (has_pre r); cbn [negb] in H; [|inv H; auto].
  destruct st as [ds|]; [|inv H; auto].
  destruct (ds_finished ds); [inv H; auto|].
  destruct (validate _ m); try (inv H; auto; fail).
  destruct (base_processing _ _ _) as [c1 roots].
  destruct roots as [|r0 tl]; [inv H; auto|].
  destruct (reconstruct_all _ _ _).
  - destruct (has_consensus r).
    + destruct ok; inv H; auto.
    + inv H. auto.
  - inv H. auto.
Qed.

Lemma process_post_nsign : forall g r st m d st' c outs,
  process_post g r st m d = (st', c, outs) ->
  match st' with Some ds => ds_nsign ds | None => 0 end = match st with Some ds => ds_nsign ds | None => 0 end.
Proof.
  intros g r st m d st' c outs H. unfold process_post in H.
  destruct (has_consensus r); cbn [negb] in H; [|inv H; auto].
  destruct st as [ds|]; [|inv H; auto].
  destruct (ds_finished ds); [inv H; auto|].
  destruct (ds_decided ds) as [dv|]; [|inv H; auto].
  destruct (ds_running ds); [|inv H; auto].
  destruct d; cbn [negb] in H; [|inv H; auto].
  destruct (PartialSig.step _ _ _) as [ps o]. inv H. auto.
Qed.

Lemma vstep_nsign : forall g v i v' c outs,
  vstep g v i = (v', c, outs) ->
  oracle_consistent_at {| ev_pre := v; ev_in := i; ev_class := c; ev_outs := outs; ev_post := v' |} = true ->
  nsign_le1 v -> nsign_le1 v'.
Proof.
  intros g v i v' c outs H Hc Hv r'. unfold oracle_consistent_at in Hc. simpl in Hc.
  destruct i as [r d ch ok | pk r b]; simpl in H.
  - destruct (start_duty r (v r) d ch ok) as [[st c0] o0] eqn:E. inv H.
    rewrite nsign_vset. destruct (role_eqb r' r) eqn:Er; [|apply Hv].
    apply role_eqb_eq in Er. subst r'.
    apply start_duty_cases in E. destruct E as [[_ [E|E]]|E].
    + subst. apply (Hv r).
    + destruct E as (ds & -> & _ & -> & _). lia.
    + destruct E as (_ & _ & _ & ->). simpl. lia.
  - destruct pk; simpl in H; [|inv H; apply Hv].
    destruct b as [o | m ok | m dcd].
    + destruct (process_consensus g r (v r) o) as [[st c0] o0] eqn:E. inv H.
      rewrite nsign_vset. destruct (role_eqb r' r) eqn:Er; [|apply Hv].
      apply role_eqb_eq in Er. subst r'.
      apply process_consensus_cases in E. destruct E as [[_ E]|E].
      * subst. apply (Hv r).
      * destruct E as (ds & dc & A & _ & ->). simpl.
        destruct A as (_ & A2 & A3 & _ & _ & _ & A7 & _ & _ & _). rewrite A2, A3 in Hc. simpl in Hc.
        destruct (Nat.ltb 0 (ds_nsign ds)) eqn:El; [congruence|].
        apply Nat.ltb_ge in El. lia.
    + destruct (process_pre g r (v r) m ok) as [[st c0] o0] eqn:E. inv H.
      rewrite nsign_vset. destruct (role_eqb r' r) eqn:Er; [|apply Hv].
      apply role_eqb_eq in Er. subst r'. apply process_pre_nsign in E. rewrite E. apply (Hv r).
    + destruct (process_post g r (v r) m dcd) as [[st c0] o0] eqn:E. inv H.
      rewrite nsign_vset. destruct (role_eqb r' r) eqn:Er; [|apply Hv].
      apply role_eqb_eq in Er. subst r'. apply process_post_nsign in E. rewrite E. apply (Hv r).
Qed.

Lemma vrun_nsign : forall g hist v e,
  (forall e', In e' (vrun g v hist) -> oracle_consistent_at e' = true) ->
  nsign_le1 v -> In e (vrun g v hist) -> nsign_le1 (ev_post e).
Proof.
  induction hist as [|i tl IH]; intros v e Hc Hv Hin; simpl in *; [contradiction|].
  destruct (vstep g v i) as [[v1 c] outs] eqn:E.
  assert (Hv1 : nsign_le1 v1).
  { eapply vstep_nsign; eauto. apply Hc. left. reflexivity. }
  destruct Hin as [<-|Hin]; simpl; auto.
  eapply IH; eauto. intros e' He'. apply Hc. right. auto.
Qed.

Lemma at_most_once : forall g hist e,
  (forall e', In e' (vrun g vinit hist) -> oracle_consistent_at e' = true) ->
  In e (vrun g vinit hist) -> forall r, nsign_of (ev_post e) r <= 1.
Proof.
  intros g hist e Hc Hin. eapply vrun_nsign; eauto. intros r. unfold nsign_of, vinit. lia.
Qed.

(* without the controller fact the clause fails: the controller reports the decision of the running
   instance twice, each time as a first decision *)
Definition at_most_once_statement (fixed : bool) : Prop :=
  forall g hist e, v_fix_resign g = fixed ->
    In e (vrun g vinit hist) -> forall r, nsign_of (ev_post e) r <= 1.

Definition cfg4 : vcfg := {| v_committee := [1; 2; 3; 4]%N; v_quorum := 3; v_fix_resign := false; v_fix_multi := false |}.
Definition cfg4_fixed : vcfg := {| v_committee := [1; 2; 3; 4]%N; v_quorum := 3; v_fix_resign := true; v_fix_multi := true |}.

Definition reported_again : list rin :=
  let dc := {| dc_height := 12; dc_value := 0; dc_decodes := true; dc_valid := true;
               dc_objs := [0%N]; dc_slot := 12 |} in
  let o := {| co_err := false; co_prev := false; co_ret := Some dc |} in
  [ IStart RAtt {| du_slot := 12; du_pre := [] |} 0 true;
    IMsg true RAtt (BCons o); IMsg true RAtt (BCons o) ].

Lemma at_most_once_refuted : ~ at_most_once_statement false.
Proof.
  intros H.
  specialize (H cfg4 reported_again (nth 2 (vrun cfg4 vinit reported_again)
     {| ev_pre := vinit; ev_in := IMsg false RAtt (BPre {| s_signer := 0; s_slot := 0; s_msgs := [] |} false);
        ev_class := COk; ev_outs := []; ev_post := vinit |})).
  assert (Hin : In (nth 2 (vrun cfg4 vinit reported_again)
     {| ev_pre := vinit; ev_in := IMsg false RAtt (BPre {| s_signer := 0; s_slot := 0; s_msgs := [] |} false);
        ev_class := COk; ev_outs := []; ev_post := vinit |}) (vrun cfg4 vinit reported_again)).
  { apply nth_In. simpl. lia. }
  specialize (H eq_refl Hin RAtt). vm_compute in H. lia.
Qed.

(* ---- with the repair of F-resign the clause holds without any assumption on the controller ---- *)

Definition remembers (v : vstate) : Prop :=
  forall r ds, v r = Some ds -> ds_nsign ds <= 1 /\ (ds_decided ds = None -> ds_nsign ds = 0).

Lemma vstep_remembers : forall g v i v' c outs,
  v_fix_resign g = true -> vstep g v i = (v', c, outs) -> remembers v -> remembers v'.
Proof.
  intros g v i v' c outs Hfx H Hv r' ds' Hs'.
  destruct i as [r d ch ok | pk r b]; simpl in H.
  - destruct (start_duty r (v r) d ch ok) as [[st c0] o0] eqn:E. inv H.
    unfold vset in Hs'. destruct (role_eqb r' r) eqn:Er; [|eapply Hv; eauto].
    apply start_duty_cases in E. destruct E as [[_ [E|E]]|E].
    + subst. eapply Hv; eauto.
    + destruct E as (ds & E1 & _ & E2 & _). rewrite E1 in Hs'. inv Hs'. rewrite E2. split; [lia|auto].
    + destruct E as (_ & _ & _ & E). rewrite E in Hs'. inv Hs'. simpl. split; [lia|auto].
  - destruct pk; simpl in H; [|inv H; eapply Hv; eauto].
    destruct b as [o | m ok | m dcd].
    + destruct (process_consensus g r (v r) o) as [[st c0] o0] eqn:E. inv H.
      unfold vset in Hs'. destruct (role_eqb r' r) eqn:Er; [|eapply Hv; eauto].
      apply process_consensus_cases in E. destruct E as [[_ E]|E].
      * subst. eapply Hv; eauto.
      * destruct E as (ds & dc & A & _ & E). rewrite E in Hs'. inv Hs'.
        destruct A as (_ & A2 & _ & _ & _ & _ & _ & _ & _ & A10).
        destruct (Hv r ds A2) as [_ H0]. specialize (H0 (A10 Hfx)). simpl. rewrite H0.
        split; [lia|discriminate].
    + destruct (process_pre g r (v r) m ok) as [[st c0] o0] eqn:E. inv H.
      unfold vset in Hs'. destruct (role_eqb r' r) eqn:Er; [|eapply Hv; eauto].
      subst st. clear Er.
      unfold process_pre in E.
      destruct (has_pre r); cbn [negb] in E; [|inv E; eapply Hv; eauto].
      destruct (v r) as [ds|] eqn:Ev; [|inv E].
      specialize (Hv r ds Ev).
      destruct (ds_finished ds); [inv E; auto|].
      destruct (validate _ m); try (inv E; auto; fail).
      destruct (base_processing _ _ _) as [c1 roots].
      destruct roots as [|r0 tl]; [inv E; auto|].
      destruct (reconstruct_all _ _ _).
      * destruct (has_consensus r).
        -- destruct ok; inv E; auto.
        -- inv E. auto.
      * inv E. auto.
    + destruct (process_post g r (v r) m dcd) as [[st c0] o0] eqn:E. inv H.
      unfold vset in Hs'. destruct (role_eqb r' r) eqn:Er; [|eapply Hv; eauto].
      subst st. clear Er.
      unfold process_post in E.
      destruct (has_consensus r); cbn [negb] in E; [|inv E; eapply Hv; eauto].
      destruct (v r) as [ds|] eqn:Ev; [|inv E].
      specialize (Hv r ds Ev).
      destruct (ds_finished ds); [inv E; auto|].
      destruct (ds_decided ds) as [dv|] eqn:Ed; [|inv E; rewrite Ed; exact Hv].
      destruct (ds_running ds); [|inv E; rewrite Ed; exact Hv].
      destruct dcd; cbn [negb] in E; [|inv E; rewrite Ed; exact Hv].
      destruct (PartialSig.step _ _ _) as [ps o]. inv E. simpl. exact Hv.
Qed.

Lemma vrun_remembers : forall g hist v e,
  v_fix_resign g = true -> remembers v -> In e (vrun g v hist) -> remembers (ev_post e).
Proof.
  induction hist as [|i tl IH]; intros v e Hfx Hv Hin; simpl in *; [contradiction|].
  destruct (vstep g v i) as [[v1 c] outs] eqn:E.
  assert (Hv1 : remembers v1) by (eapply vstep_remembers; eauto).
  destruct Hin as [<-|Hin]; simpl; auto.
  eapply IH; eauto.
Qed.

Lemma at_most_once_fixed : forall g hist e,
  v_fix_resign g = true ->
  In e (vrun g vinit hist) -> forall r, nsign_of (ev_post e) r <= 1.
Proof.
  intros g hist e Hfx Hin r.
  assert (Hr : remembers (ev_post e)).
  { eapply vrun_remembers; eauto. intros r0 ds H. discriminate. }
  unfold nsign_of. destruct (ev_post e r) as [ds|] eqn:E; [|lia]. apply (Hr r ds E).
Qed.
