(* Compiled from ocaml/runner/ so that model.ml lands there.  ExtrOcamlBasic only. *)
From Coq Require Import Extraction ExtrOcamlBasic.
From SSV Require Import Gen.RunnerConsts Runner.PartialSig Runner.Model.
Extraction "model.ml" PartialSig.step PartialSig.init_state PartialSig.dump Model.vstep Model.vinit
  RunnerConsts.fix_resign RunnerConsts.fix_multi_root.
