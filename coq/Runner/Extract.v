(* Compiled from ocaml/runner/ so that model.ml lands there.  ExtrOcamlBasic only. *)
From Coq Require Import Extraction ExtrOcamlBasic.
From SSV Require Import Runner.PartialSig Runner.Model.
Extraction "model.ml" PartialSig.step PartialSig.init_state PartialSig.dump Model.vstep Model.vinit.
