(* Executable model of the partial-signature collection phase of a duty runner
   (protocol/v2/ssv/runner: runner.go basePartialSigMsgProcessing, runner_validations.go
   ValidatePostConsensusMsg / ValidatePreConsensusMsg / verifyExpectedRoot /
   FallBackAndVerifyEachSignature, runner_signatures.go validatePartialSigMsgForSlot /
   resolveDuplicateSignature, the ProcessPostConsensus bodies of the five consensus runners and the
   ProcessPreConsensus bodies of the two non-consensus runners, protocol/v2/types/crypto.go
   ReconstructSignature, ssv-spec ssv.PartialSigContainer).
   The runner is in the state "duty running, value decided"; the only inputs are partial-signature
   messages.  Definitions only; proofs are in Runner/PartialSigProofs.v. *)
From Coq Require Import List NArith Bool Arith.
Import ListNotations.

(* ---- shares and idealised threshold crypto ------------------------------------------------------ *)

(* A share is abstracted to what the real verifier says about it: Good = verifies under the
   signer's share key over the root it is filed under; Bad k = does not (k identifies the bytes). *)
Inductive share := Good | Bad (k : N).

Definition is_good (s : share) : bool := match s with Good => true | Bad _ => false end.

(* verifyBeaconPartialSignature *)
Definition verify_share (s : share) : bool := is_good s.

(* A reconstructed signature, abstracted to whether it verifies under the validator key. *)
Inductive recsig := RValid | RInvalid.

(* signer -> share: one inner map of PartialSigContainer.Signatures *)
Definition sigmap := list (N * share).

(* types.ReconstructSignatures over ALL shares stored for the root.  Assumption (threshold BLS): the
   result verifies iff there are at least t shares and every one is the signer's correct share. *)
Definition reconstruct (t : nat) (m : sigmap) : recsig :=
  if Nat.leb t (length m) && forallb (fun e => is_good (snd e)) m then RValid else RInvalid.

(* types.VerifyReconstructedSignature *)
Definition verify_reconstructed (s : recsig) : bool :=
  match s with RValid => true | RInvalid => false end.

(* ---- PartialSigContainer ------------------------------------------------------------------------ *)

Definition container := list (N * sigmap).      (* root -> signer -> share *)

Fixpoint sm_get (m : sigmap) (s : N) : option share :=
  match m with
  | [] => None
  | (k, v) :: tl => if N.eqb k s then Some v else sm_get tl s
  end.

Fixpoint sm_remove (m : sigmap) (s : N) : sigmap :=
  match m with
  | [] => []
  | (k, v) :: tl => if N.eqb k s then sm_remove tl s else (k, v) :: sm_remove tl s
  end.

(* GetSignatures (nil map = empty) *)
Fixpoint get_sigs (c : container) (r : N) : sigmap :=
  match c with
  | [] => []
  | (k, m) :: tl => if N.eqb k r then m else get_sigs tl r
  end.

Fixpoint set_sigs (c : container) (r : N) (m : sigmap) : container :=
  match c with
  | [] => [(r, m)]
  | (k, v) :: tl => if N.eqb k r then (k, m) :: tl else (k, v) :: set_sigs tl r m
  end.

(* HasSigner *)
Definition has_signer (c : container) (s r : N) : bool :=
  match sm_get (get_sigs c r) s with Some _ => true | None => false end.

(* AddSignature: stores only if the signer has no entry for the root *)
Definition add_signature (c : container) (s r : N) (x : share) : container :=
  let m := get_sigs c r in
  match sm_get m s with
  | Some _ => c
  | None => set_sigs c r (m ++ [(s, x)])
  end.

(* Remove *)
Definition remove_sig (c : container) (s r : N) : container :=
  set_sigs c r (sm_remove (get_sigs c r) s).

(* HasQuorum *)
Definition has_quorum (q : nat) (c : container) (r : N) : bool :=
  Nat.leb q (length (get_sigs c r)).

(* ---- messages ----------------------------------------------------------------------------------- *)

(* PartialSignatureMessage *)
Record pmsg := { p_signer : N; p_root : N; p_share : share }.
(* SignedPartialSignatureMessage (the outer operator signature is not looked at by the runner) *)
Record smsg := { s_signer : N; s_slot : N; s_msgs : list pmsg }.

(* What the runner knows: Share.Committee (operator ids), Share.Quorum, the slot of the decided
   duty, and the signing roots expected from the decided value, in the runner's order. *)
(* fix_multi: the runner contains the repair of finding P3 (multi-root loop goes on after a failed
   reconstruction; Finished only when every expected root has its quorum).  Only the sync-committee
   contribution runner has more than one root; for one root both variants behave alike. *)
Record cfg := { committee : list N; quorum : nat; duty_slot : N; expected : list N; fix_multi : bool }.

Inductive errc :=
| EOk | ENoDuty | EBadMsg | ESlot | ESigner | ECount | ERoot | EBadQuorum | EBN.

(* SignedPartialSignatureMessage.Validate *)
Definition msg_wellformed (m : smsg) : bool :=
  negb (N.eqb (s_signer m) 0)
  && forallb (fun p => N.eqb (p_signer p) (s_signer m)) (s_msgs m)
  && negb (Nat.eqb (length (s_msgs m)) 0)
  && forallb (fun p => negb (N.eqb (p_signer p) 0)) (s_msgs m).

(* sort.Slice on the root lists *)
Fixpoint insert_sorted (x : N) (l : list N) : list N :=
  match l with
  | [] => [x]
  | y :: tl => if N.leb x y then x :: l else y :: insert_sorted x tl
  end.
Fixpoint sort_roots (l : list N) : list N :=
  match l with [] => [] | x :: tl => insert_sorted x (sort_roots tl) end.

Fixpoint list_eqb (a b : list N) : bool :=
  match a, b with
  | [], [] => true
  | x :: a', y :: b' => N.eqb x y && list_eqb a' b'
  | _, _ => false
  end.

(* validatePartialSigMsgForSlot, then verifyExpectedRoot *)
Definition validate (g : cfg) (m : smsg) : errc :=
  if negb (msg_wellformed m) then EBadMsg
  else if negb (N.eqb (s_slot m) (duty_slot g)) then ESlot
  else if negb (existsb (N.eqb (s_signer m)) (committee g)) then ESigner
  else if negb (Nat.eqb (length (expected g)) (length (s_msgs m))) then ECount
  else if negb (list_eqb (sort_roots (expected g)) (sort_roots (map p_root (s_msgs m)))) then ERoot
  else EOk.

(* ---- resolveDuplicateSignature ------------------------------------------------------------------ *)

Definition resolve_duplicate (c : container) (p : pmsg) : container :=
  let keep_new (c1 : container) :=
    if verify_share (p_share p) then add_signature c1 (p_signer p) (p_root p) (p_share p) else c1 in
  match sm_get (get_sigs c (p_root p)) (p_signer p) with
  | Some prev =>
      if verify_share prev then c                       (* keep the previous, it is correct *)
      else keep_new (remove_sig c (p_signer p) (p_root p))
  | None => keep_new (remove_sig c (p_signer p) (p_root p))
  end.

(* ---- basePartialSigMsgProcessing ---------------------------------------------------------------- *)

(* Returns the container and the roots that crossed the quorum edge, in message order. *)
Fixpoint base_processing (q : nat) (c : container) (ps : list pmsg) : container * list N :=
  match ps with
  | [] => (c, [])
  | p :: tl =>
      let prev := has_quorum q c (p_root p) in
      let c1 := if has_signer c (p_signer p) (p_root p)
                then resolve_duplicate c p
                else add_signature c (p_signer p) (p_root p) (p_share p) in
      let now := has_quorum q c1 (p_root p) in
      let '(c2, roots) := base_processing q c1 tl in
      if now && negb prev then (c2, p_root p :: roots) else (c2, roots)
  end.

(* ---- FallBackAndVerifyEachSignature ------------------------------------------------------------- *)

Definition fallback (c : container) (r : N) : container :=
  set_sigs c r (filter (fun e => verify_share (snd e)) (get_sigs c r)).

Definition fallback_all (c : container) (roots : list N) : container :=
  fold_left fallback roots c.

(* ---- the reconstruct / submit loop of ProcessPostConsensus -------------------------------------- *)

(* A call of BeaconNode.Submit*: the root of the submitted object and the signature it carries. *)
Record submission := { sub_root : N; sub_sig : recsig }.

Inductive loop_end := LDone | LBadQuorum | LBN.

(* [all] = every root of this quorum edge (the fallback runs over all of them). *)
Fixpoint submit_loop (q : nat) (bn_ok : bool) (c : container) (all roots : list N)
  : container * list submission * loop_end :=
  match roots with
  | [] => (c, [], LDone)
  | r :: tl =>
      let sg := reconstruct q (get_sigs c r) in
      if verify_reconstructed sg then
        let s := {| sub_root := r; sub_sig := sg |} in
        if bn_ok then
          let '(c1, subs, e) := submit_loop q bn_ok c all tl in (c1, s :: subs, e)
        else (c, [s], LBN)
      else (fallback_all c all, [], LBadQuorum)
  end.

(* the repaired loop: a root that fails to reconstruct loses its invalid shares and the loop goes on *)
Fixpoint submit_loop_fixed (q : nat) (bn_ok : bool) (c : container) (roots : list N) (bad : bool)
  : container * list submission * loop_end :=
  match roots with
  | [] => (c, [], if bad then LBadQuorum else LDone)
  | r :: tl =>
      let sg := reconstruct q (get_sigs c r) in
      if verify_reconstructed sg then
        let s := {| sub_root := r; sub_sig := sg |} in
        if bn_ok then
          let '(c1, subs, e) := submit_loop_fixed q bn_ok c tl bad in (c1, s :: subs, e)
        else (c, [s], LBN)
      else submit_loop_fixed q bn_ok (fallback c r) tl true
  end.

(* ---- one message -------------------------------------------------------------------------------- *)

Record pstate := { cont : container; finished : bool }.

Definition init_state : pstate := {| cont := []; finished := false |}.

Record out := { o_err : errc; o_subs : list submission }.

(* input = message + whether the beacon node accepts submissions during this call *)
Definition input := (smsg * bool)%type.

Definition run_loop (g : cfg) (bn_ok : bool) (c : container) (roots : list N)
  : container * list submission * loop_end :=
  if fix_multi g then submit_loop_fixed (quorum g) bn_ok c roots false
  else submit_loop (quorum g) bn_ok c roots roots.

(* Finished after a loop without failure *)
Definition finished_after (g : cfg) (c : container) : bool :=
  if fix_multi g then forallb (has_quorum (quorum g) c) (expected g) else true.

Definition step (g : cfg) (st : pstate) (i : input) : pstate * out :=
  let '(m, bn_ok) := i in
  if finished st then (st, {| o_err := ENoDuty; o_subs := [] |})        (* hasRunningDuty *)
  else
    match validate g m with
    | EOk =>
        let '(c1, roots) := base_processing (quorum g) (cont st) (s_msgs m) in
        match roots with
        | [] => ({| cont := c1; finished := false |}, {| o_err := EOk; o_subs := [] |})
        | _ =>
            let '(c2, subs, e) := run_loop g bn_ok c1 roots in
            match e with
            | LDone => ({| cont := c2; finished := finished_after g c2 |}, {| o_err := EOk; o_subs := subs |})
            | LBadQuorum => ({| cont := c2; finished := false |}, {| o_err := EBadQuorum; o_subs := subs |})
            | LBN => ({| cont := c2; finished := false |}, {| o_err := EBN; o_subs := subs |})
            end
        end
    | e => (st, {| o_err := e; o_subs := [] |})
    end.

Fixpoint run (g : cfg) (st : pstate) (hist : list input) : pstate * list out :=
  match hist with
  | [] => (st, [])
  | i :: tl => let '(s1, o) := step g st i in let '(s2, os) := run g s1 tl in (s2, o :: os)
  end.

(* ---- vocabulary of the property ----------------------------------------------------------------- *)

Definition submits (os : list out) : list submission := flat_map o_subs os.

Definition count_root (r : N) (l : list submission) : nat :=
  length (filter (fun s => N.eqb (sub_root s) r) l).

(* A message that carries, for this duty, the sender's correct share for every expected root. *)
Definition correct_msg (g : cfg) (m : smsg) : bool :=
  match validate g m with EOk => forallb (fun p => is_good (p_share p)) (s_msgs m) | _ => false end.

Fixpoint dedup (l : list N) : list N :=
  match l with
  | [] => []
  | x :: tl => if existsb (N.eqb x) tl then dedup tl else x :: dedup tl
  end.

(* distinct committee members whose correct message is in the history *)
Definition correct_senders (g : cfg) (hist : list input) : list N :=
  dedup (map (fun i => s_signer (fst i)) (filter (fun i => correct_msg g (fst i)) hist)).

Definition bn_always_ok (hist : list input) : bool := forallb (fun i : input => snd i) hist.

Definition submitted (r : N) (os : list out) : bool :=
  existsb (fun s => N.eqb (sub_root s) r) (submits os).

(* "once 2f+1 correct partial signatures have arrived, every decided object has been submitted":
   evaluated on a prefix of k inputs. *)
Definition live_at (g : cfg) (hist : list input) (k : nat) : bool :=
  let h := firstn k hist in
  if Nat.leb (quorum g) (length (correct_senders g h))
  then forallb (fun r => submitted r (snd (run g init_state h))) (expected g)
  else true.

(* canonical dump of the container for the correspondence check: per expected root, the stored
   (signer, share) pairs; the printer sorts by signer *)
Definition dump (g : cfg) (st : pstate) : list (N * sigmap) :=
  map (fun r => (r, get_sigs (cont st) r)) (expected g).
