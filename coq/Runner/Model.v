(* Executable model of a validator's duty runners as far as validator-key signing is concerned
   (protocol/v2/ssv/validator/validator.go ProcessMessage / validateMessage / StartDuty,
   protocol/v2/ssv/runner: runner.go baseStartNewDuty / ShouldProcessDuty / baseConsensusMsgProcessing /
   didDecideCorrectly / hasRunningDuty, runner_validations.go validateDecidedConsensusData /
   ValidatePreConsensusMsg / ValidatePostConsensusMsg, and StartNewDuty / executeDuty /
   ProcessPreConsensus / ProcessConsensus / ProcessPostConsensus of the seven runners).

   The QBFT controller and its instances are NOT modelled: an input carries, as an oracle, what the
   real controller reported for that message (computed by the real code in the driver).  The partial
   signature containers are those of Runner/PartialSig.v.  Definitions only. *)
From Coq Require Import List NArith Bool Arith.
From SSV Require Import Runner.PartialSig.
Import ListNotations.

Inductive role := RAtt | RProp | RAgg | RSync | RSyncAgg | RVReg | RVExit.

Definition role_eqb (a b : role) : bool :=
  match a, b with
  | RAtt, RAtt | RProp, RProp | RAgg, RAgg | RSync, RSync | RSyncAgg, RSyncAgg
  | RVReg, RVReg | RVExit, RVExit => true
  | _, _ => false
  end.

Inductive domain :=
| DRandao | DSelProof | DScSelProof | DAttester | DProposer | DAggProof | DSyncCom | DContrib
| DAppBuilder | DVolExit | DNone.

(* the domain of the slot-bound objects signed when a duty starts *)
Definition pre_domain (r : role) : domain :=
  match r with
  | RProp => DRandao | RAgg => DSelProof | RSyncAgg => DScSelProof
  | RVReg => DAppBuilder | RVExit => DVolExit | RAtt | RSync => DNone
  end.

(* the domain of the duty objects signed after consensus *)
Definition post_domain (r : role) : domain :=
  match r with
  | RAtt => DAttester | RProp => DProposer | RAgg => DAggProof | RSync => DSyncCom
  | RSyncAgg => DContrib | RVReg | RVExit => DNone
  end.

Definition has_consensus (r : role) : bool :=
  match r with RVReg | RVExit => false | _ => true end.

(* roles whose executeDuty signs pre-consensus objects *)
Definition has_pre (r : role) : bool :=
  match r with RAtt | RSync => false | _ => true end.

(* A duty: its slot and the (abstract ids of the) slot-bound pre-consensus objects it has to sign,
   computed from the duty alone; [] for attester and sync-committee duties. *)
Record duty := { du_slot : N; du_pre : list N }.

(* State.DecidedValue: value id, the duty objects it contains, the slot of the duty inside it *)
Record decided_value := { dv_id : N; dv_objs : list N; dv_slot : N }.

(* runner.State; ds_nsign is a ghost counter: the number of calls in which this duty signed
   post-consensus objects *)
Record dstate := {
  ds_duty : duty;
  ds_running : option N;               (* height of State.RunningInstance *)
  ds_decided : option decided_value;   (* State.DecidedValue *)
  ds_finished : bool;
  ds_pre : container;
  ds_post : container;
  ds_nsign : nat }.

Definition vstate := role -> option dstate.   (* Validator.DutyRunners, BaseRunner.State per role *)

Definition vinit : vstate := fun _ => None.

Definition vset (v : vstate) (r : role) (x : option dstate) : vstate :=
  fun r' => if role_eqb r' r then x else v r'.

(* ---- inputs ---------------------------------------------------------------------------------- *)

(* what Controller.ProcessMsg reported: a decided message of this height carrying this value *)
Record decision := {
  dc_height : N;
  dc_value : N;
  dc_decodes : bool;       (* ConsensusData.Decode succeeds *)
  dc_valid : bool;         (* the role's value check accepts the value *)
  dc_objs : list N;        (* duty objects contained in the value (only looked at if valid) *)
  dc_slot : N }.           (* Duty.Slot inside the value *)

Record cons_oracle := {
  co_err : bool;                 (* Controller.ProcessMsg returned an error *)
  co_prev : bool;                (* State.RunningInstance.IsDecided() before the call (false if there is none) *)
  co_ret : option decision }.    (* the decided message it returned, if any *)

Inductive body :=
| BCons (o : cons_oracle)
| BPre (m : smsg) (inst_ok : bool)        (* inst_ok: if the call reaches decide(), the instance starts *)
| BPost (m : smsg) (inst_decided : bool)  (* State.RunningInstance.IsDecided() before the call *).

Inductive rin :=
| IStart (r : role) (d : duty) (ctrl_height : N) (inst_ok : bool)
| IMsg (pk_ok : bool) (r : role) (b : body).  (* MsgID: validator key matches?, role *)

(* the committee as the runners see it *)
(* v_fix_resign: the code contains the repair of finding F-resign (didDecideCorrectly also refuses when
   State.DecidedValue is already set); read from the source by the check (coq/Gen/RunnerConsts.v);
   v_fix_multi: the sync-committee contribution runner contains the repair of finding P3 (see
   PartialSig.fix_multi) *)
Record vcfg := { v_committee : list N; v_quorum : nat; v_fix_resign : bool; v_fix_multi : bool }.

(* ---- outputs --------------------------------------------------------------------------------- *)

Inductive rclass :=
| COk | CPassed | CNoStart | CForeign | CNoCons | CCtrl | CWrongInst | CDecode | CInvalid
| CNoPhase | CNoDecided | CNoInst | CNotDecided | CPart (e : errc).

Inductive rout :=
| Sign (r : role) (d : domain) (obj : N)                     (* KeyManager.SignBeaconObject *)
| Bcast (r : role) (post : bool) (slot : N) (objs : list N)  (* Network.Broadcast of a partial-signature message *)
| Submit (r : role) (s : submission).

(* ---- StartDuty ------------------------------------------------------------------------------- *)

Definition fresh (d : duty) : dstate :=
  {| ds_duty := d; ds_running := None; ds_decided := None; ds_finished := false;
     ds_pre := []; ds_post := []; ds_nsign := 0 |}.

(* ShouldProcessDuty / ShouldProcessNonBeaconDuty *)
Definition should_process (r : role) (st : option dstate) (d : duty) (ctrl_height : N) : bool :=
  if has_consensus r then negb (N.leb (du_slot d) ctrl_height && negb (N.eqb ctrl_height 0))
  else match st with
       | Some ds => negb (N.leb (du_slot d) (du_slot (ds_duty ds)))
       | None => true
       end.

Definition start_duty (r : role) (st : option dstate) (d : duty) (ctrl_height : N) (inst_ok : bool)
  : option dstate * rclass * list rout :=
  if negb (should_process r st d ctrl_height) then (st, CPassed, [])
  else
    let ds := fresh d in
    if has_pre r then
      (* executeDuty: sign the slot-bound proofs / the exit / the registration and broadcast them *)
      (Some ds, COk, map (Sign r (pre_domain r)) (du_pre d) ++ [Bcast r false (du_slot d) (du_pre d)])
    else
      (* attester, sync committee: fetch the duty data and start consensus *)
      if inst_ok
      then (Some {| ds_duty := d; ds_running := Some (du_slot d); ds_decided := None; ds_finished := false;
                    ds_pre := []; ds_post := []; ds_nsign := 0 |}, COk, [])
      else (Some ds, CNoStart, []).

(* ---- ProcessConsensus ------------------------------------------------------------------------ *)

Definition with_decision (ds : dstate) (dv : decided_value) : dstate :=
  {| ds_duty := ds_duty ds; ds_running := ds_running ds; ds_decided := Some dv;
     ds_finished := ds_finished ds; ds_pre := ds_pre ds; ds_post := ds_post ds;
     ds_nsign := S (ds_nsign ds) |}.

Definition is_some {A : Type} (x : option A) : bool := match x with Some _ => true | None => false end.

Definition process_consensus (g : vcfg) (r : role) (st : option dstate) (o : cons_oracle)
  : option dstate * rclass * list rout :=
  if negb (has_consensus r) then (st, CNoCons, [])
  else if co_err o then (st, CCtrl, [])
  else
    match st with
    | None => (st, COk, [])                                   (* no running duty *)
    | Some ds =>
        if ds_finished ds then (st, COk, [])
        else
          match co_ret o with
          | None => (st, COk, [])
          | Some dc =>
              (* didDecideCorrectly *)
              match ds_running ds with
              | None => (st, CWrongInst, [])
              | Some h =>
                  if negb (N.eqb (dc_height dc) h) then (st, CWrongInst, [])
                  else if co_prev o then (st, COk, [])
                  else if v_fix_resign g && is_some (ds_decided ds) then (st, COk, [])
                  else if negb (dc_decodes dc) then (st, CDecode, [])
                  else if negb (dc_valid dc) then (st, CInvalid, [])      (* validateDecidedConsensusData *)
                  else
                    let dv := {| dv_id := dc_value dc; dv_objs := dc_objs dc; dv_slot := dc_slot dc |} in
                    (Some (with_decision ds dv), COk,
                     map (Sign r (post_domain r)) (dc_objs dc) ++ [Bcast r true (dc_slot dc) (dc_objs dc)])
              end
          end
    end.

(* ---- ProcessPreConsensus --------------------------------------------------------------------- *)

Definition set_pre (ds : dstate) (c : container) (running : option N) (fin : bool) : dstate :=
  {| ds_duty := ds_duty ds; ds_running := running; ds_decided := ds_decided ds;
     ds_finished := fin; ds_pre := c; ds_post := ds_post ds; ds_nsign := ds_nsign ds |}.

(* all roots of the quorum edge are reconstructed in order; on the first failure the invalid shares
   are evicted ([fb]: the roots the fallback runs over) *)
Fixpoint reconstruct_all (q : nat) (c : container) (roots : list N) : bool :=
  match roots with
  | [] => true
  | r :: tl => verify_reconstructed (reconstruct q (get_sigs c r)) && reconstruct_all q c tl
  end.

Definition process_pre (g : vcfg) (r : role) (st : option dstate) (m : smsg) (inst_ok : bool)
  : option dstate * rclass * list rout :=
  if negb (has_pre r) then (st, CNoPhase, [])
  else
    match st with
    | None => (st, CPart ENoDuty, [])
    | Some ds =>
        if ds_finished ds then (st, CPart ENoDuty, [])
        else
          let pg := {| committee := v_committee g; quorum := v_quorum g;
                       duty_slot := du_slot (ds_duty ds); expected := du_pre (ds_duty ds);
                       fix_multi := false |} in
          match validate pg m with
          | EOk =>
              let '(c1, roots) := base_processing (v_quorum g) (ds_pre ds) (s_msgs m) in
              match roots with
              | [] => (Some (set_pre ds c1 (ds_running ds) false), COk, [])
              | r0 :: _ =>
                  let tried := match r with RSyncAgg => roots | _ => [r0] end in
                  if reconstruct_all (v_quorum g) c1 tried then
                    if has_consensus r then
                      (* the reconstructed proof goes to the beacon node, then decide() *)
                      if inst_ok
                      then (Some (set_pre ds c1 (Some (du_slot (ds_duty ds))) false), COk, [])
                      else (Some (set_pre ds c1 (ds_running ds) false), CNoStart, [])
                    else
                      (* exit / registration: submit, duty finished *)
                      (Some (set_pre ds c1 (ds_running ds) true), COk,
                       [Submit r {| sub_root := r0; sub_sig := reconstruct (v_quorum g) (get_sigs c1 r0) |}])
                  else
                    (Some (set_pre ds (fallback_all c1 tried) (ds_running ds) false), CPart EBadQuorum, [])
              end
          | e => (st, CPart e, [])
          end
    end.

(* ---- ProcessPostConsensus -------------------------------------------------------------------- *)

Definition process_post (g : vcfg) (r : role) (st : option dstate) (m : smsg) (inst_decided : bool)
  : option dstate * rclass * list rout :=
  if negb (has_consensus r) then (st, CNoPhase, [])
  else
    match st with
    | None => (st, CPart ENoDuty, [])
    | Some ds =>
        if ds_finished ds then (st, CPart ENoDuty, [])
        else
          match ds_decided ds with
          | None => (st, CNoDecided, [])
          | Some dv =>
              match ds_running ds with
              | None => (st, CNoInst, [])
              | Some _ =>
                  if negb inst_decided then (st, CNotDecided, [])
                  else
                    let pg := {| committee := v_committee g; quorum := v_quorum g;
                                 duty_slot := dv_slot dv; expected := dv_objs dv;
                                 fix_multi := v_fix_multi g |} in
                    let '(ps, o) := PartialSig.step pg {| cont := ds_post ds; finished := false |} (m, true) in
                    (Some {| ds_duty := ds_duty ds; ds_running := ds_running ds; ds_decided := ds_decided ds;
                             ds_finished := finished ps; ds_pre := ds_pre ds; ds_post := cont ps;
                             ds_nsign := ds_nsign ds |},
                     match o_err o with EOk => COk | e => CPart e end,
                     map (Submit r) (o_subs o))
              end
          end
    end.

(* ---- Validator.StartDuty / Validator.ProcessMessage ------------------------------------------ *)

Definition vstep (g : vcfg) (v : vstate) (i : rin) : vstate * rclass * list rout :=
  match i with
  | IStart r d ctrl_height inst_ok =>
      let '(st, c, outs) := start_duty r (v r) d ctrl_height inst_ok in (vset v r st, c, outs)
  | IMsg pk_ok r b =>
      (* DutyRunnerForMsgID: by role (every role has a runner); validateMessage: the validator key *)
      if negb pk_ok then (v, CForeign, [])
      else
        let '(st, c, outs) :=
          match b with
          | BCons o => process_consensus g r (v r) o
          | BPre m inst_ok => process_pre g r (v r) m inst_ok
          | BPost m inst_decided => process_post g r (v r) m inst_decided
          end in
        (vset v r st, c, outs)
  end.

(* the trace: for every input, the state it met, the class and the outputs *)
Record event := { ev_pre : vstate; ev_in : rin; ev_class : rclass; ev_outs : list rout; ev_post : vstate }.

Fixpoint vrun (g : vcfg) (v : vstate) (hist : list rin) : list event :=
  match hist with
  | [] => []
  | i :: tl =>
      let '(v1, c, outs) := vstep g v i in
      {| ev_pre := v; ev_in := i; ev_class := c; ev_outs := outs; ev_post := v1 |} :: vrun g v1 tl
  end.

(* ---- vocabulary of the property -------------------------------------------------------------- *)

Definition is_sign (o : rout) : bool := match o with Sign _ _ _ => true | _ => false end.

Definition signs (outs : list rout) : list rout := filter is_sign outs.

(* The controller fact the "at most once" clause rests on: once the controller has reported a
   decision of the running instance to this duty, it tells later calls of the same duty that the
   instance is decided (the flag is read only while the duty is not finished).  Evaluated per step
   against the ghost counter. *)
Definition oracle_consistent_at (e : event) : bool :=
  match ev_in e with
  | IMsg true r (BCons o) =>
      match ev_pre e r with
      | Some ds => if negb (ds_finished ds) && Nat.ltb 0 (ds_nsign ds) then co_prev o else true
      | None => true
      end
  | _ => true
  end.

Definition nsign_of (v : vstate) (r : role) : nat :=
  match v r with Some ds => ds_nsign ds | None => 0 end.
