(* Lemmas about Runner/PartialSig.v (C05). *)
From Coq Require Import List NArith Bool Arith Lia Permutation.
From SSV Require Import Runner.PartialSig.
Import ListNotations.

Local Ltac inv H := inversion H; subst; clear H.

(* ---- association lists ----------------------------------------------------------------------- *)

Lemma get_set_same : forall c r m, get_sigs (set_sigs c r m) r = m.
Proof.
  induction c as [|[k v] tl IH]; intros r m; simpl.
  - rewrite N.eqb_refl. reflexivity.
  - destruct (N.eqb k r) eqn:E; simpl; rewrite E; auto.
Qed.

Lemma get_set_other : forall c r r' m, r <> r' -> get_sigs (set_sigs c r m) r' = get_sigs c r'.
Proof.
  induction c as [|[k v] tl IH]; intros r r' m Hne; simpl.
  - destruct (N.eqb r r') eqn:E; auto. apply N.eqb_eq in E. contradiction.
  - destruct (N.eqb k r) eqn:E; simpl.
    + apply N.eqb_eq in E. subst k.
      destruct (N.eqb r r') eqn:E2; auto. apply N.eqb_eq in E2. contradiction.
    + destruct (N.eqb k r'); auto.
Qed.

Lemma sm_get_none_notin : forall m s, sm_get m s = None <-> ~ In s (map fst m).
Proof.
  induction m as [|[k v] tl IH]; intros s; simpl.
  - split; auto.
  - destruct (N.eqb k s) eqn:E.
    + apply N.eqb_eq in E. subst. split; [discriminate | intros H; exfalso; apply H; auto].
    + apply N.eqb_neq in E. rewrite IH. split; intros H.
      * intros [H1|H1]; auto.
      * intros H1. apply H. auto.
Qed.

Lemma sm_get_some_in : forall m s x, sm_get m s = Some x -> In s (map fst m).
Proof.
  intros m s x H. destruct (in_dec N.eq_dec s (map fst m)) as [Hi|Hn]; auto.
  apply sm_get_none_notin in Hn. congruence.
Qed.

Lemma sm_get_app : forall m1 m2 s,
  sm_get (m1 ++ m2) s = match sm_get m1 s with Some x => Some x | None => sm_get m2 s end.
Proof.
  induction m1 as [|[k v] tl IH]; intros; simpl; auto.
  destruct (N.eqb k s); auto.
Qed.

Lemma sm_get_remove_same : forall m s, sm_get (sm_remove m s) s = None.
Proof.
  induction m as [|[k v] tl IH]; intros s; simpl; auto.
  destruct (N.eqb k s) eqn:E; simpl; auto. rewrite E. auto.
Qed.

Lemma sm_get_remove_other : forall m s s', s <> s' -> sm_get (sm_remove m s) s' = sm_get m s'.
Proof.
  induction m as [|[k v] tl IH]; intros s s' Hne; simpl; auto.
  destruct (N.eqb k s) eqn:E; simpl.
  - apply N.eqb_eq in E. subst k. destruct (N.eqb s s') eqn:E2; auto.
    apply N.eqb_eq in E2. contradiction.
  - destruct (N.eqb k s'); auto.
Qed.

Lemma sm_remove_length : forall m s, length (sm_remove m s) <= length m.
Proof.
  induction m as [|[k v] tl IH]; intros s; simpl; auto.
  destruct (N.eqb k s); simpl; specialize (IH s); lia.
Qed.

Lemma sm_remove_keys_incl : forall m s x, In x (map fst (sm_remove m s)) -> In x (map fst m).
Proof.
  induction m as [|[k v] tl IH]; intros s x H; simpl in *; auto.
  destruct (N.eqb k s); simpl in *.
  - right. eauto.
  - destruct H; eauto.
Qed.

Lemma sm_remove_nodup : forall m s, NoDup (map fst m) -> NoDup (map fst (sm_remove m s)).
Proof.
  induction m as [|[k v] tl IH]; intros s H; simpl in *; auto.
  inv H. destruct (N.eqb k s); simpl; auto.
  constructor; auto. intros Hin. apply sm_remove_keys_incl in Hin. contradiction.
Qed.

(* good entries *)
Definition goods (m : sigmap) : sigmap := filter (fun e => is_good (snd e)) m.
Definition ngood (c : container) (r : N) : nat := length (goods (get_sigs c r)).
Definition count (c : container) (r : N) : nat := length (get_sigs c r).

Lemma filter_len_le : forall (A : Type) (f : A -> bool) (l : list A), length (filter f l) <= length l.
Proof. induction l as [|a tl IH]; simpl; auto. destruct (f a); simpl; lia. Qed.

Lemma goods_le : forall m, length (goods m) <= length m.
Proof. intros. unfold goods. apply filter_len_le. Qed.

Lemma ngood_le_count : forall c r, ngood c r <= count c r.
Proof. intros. apply goods_le. Qed.

Lemma goods_app : forall a b, goods (a ++ b) = goods a ++ goods b.
Proof. intros. unfold goods. apply filter_app. Qed.

Lemma goods_idem : forall m, goods (goods m) = goods m.
Proof.
  induction m as [|[k v] tl IH]; simpl; auto.
  unfold goods in *. simpl. destruct (is_good v) eqn:E; simpl; auto. rewrite E. f_equal. auto.
Qed.

(* removing a key whose only entry is bad keeps the good ones *)
Lemma goods_remove_bad : forall m s x,
  NoDup (map fst m) -> sm_get m s = Some x -> is_good x = false ->
  goods (sm_remove m s) = goods m.
Proof.
  induction m as [|[k v] tl IH]; intros s x Hnd Hg Hb; simpl in *; auto.
  inv Hnd. destruct (N.eqb k s) eqn:E.
  - inv Hg. apply N.eqb_eq in E. subst k.
    unfold goods at 2. simpl. rewrite Hb. fold (goods tl).
    (* s does not occur in tl *)
    clear IH. induction tl as [|[k2 v2] tl2 IH2]; simpl; auto.
    destruct (N.eqb k2 s) eqn:E2.
    + apply N.eqb_eq in E2. subst. exfalso. apply H1. simpl. auto.
    + unfold goods. simpl. destruct (is_good v2); [f_equal|]; apply IH2.
      * intros Hin. apply H1. simpl. auto.
      * inv H2. auto.
      * intros Hin. apply H1. simpl. auto.
      * inv H2. auto.
  - unfold goods. simpl. destruct (is_good v); [f_equal|]; eapply IH; eauto.
Qed.

Lemma sm_remove_absent : forall m s, sm_get m s = None -> sm_remove m s = m.
Proof.
  induction m as [|[k v] tl IH]; intros s H; simpl in *; auto.
  destruct (N.eqb k s); [discriminate|]. f_equal. auto.
Qed.

Lemma filter_lt_length : forall (A : Type) (f : A -> bool) (l : list A),
  forallb f l = false -> length (filter f l) < length l.
Proof.
  induction l as [|a tl IH]; simpl; intros H; [discriminate|].
  destruct (f a) eqn:E; simpl in *.
  - apply IH in H. lia.
  - pose proof (filter_len_le A f tl). lia.
Qed.

Lemma sm_get_filter_good : forall m s,
  sm_get m s = Some Good -> sm_get (goods m) s = Some Good.
Proof.
  induction m as [|[k v] tl IH]; intros s H; simpl in *; [discriminate|].
  unfold goods. simpl. destruct (N.eqb k s) eqn:E.
  - inv H. simpl. rewrite E. reflexivity.
  - destruct (is_good v); simpl; [rewrite E|]; apply IH; auto.
Qed.

Lemma goods_keys_incl : forall m x, In x (map fst (goods m)) -> In x (map fst m).
Proof.
  induction m as [|[k v] tl IH]; intros x H; simpl in *; auto.
  unfold goods in H. simpl in H. destruct (is_good v); simpl in H.
  - destruct H; auto.
  - right. auto.
Qed.

Lemma goods_nodup : forall m, NoDup (map fst m) -> NoDup (map fst (goods m)).
Proof.
  induction m as [|[k v] tl IH]; intros H; simpl in *; auto. inv H.
  unfold goods. simpl. destruct (is_good v); simpl; auto.
  constructor; auto. intros Hin. apply goods_keys_incl in Hin. contradiction.
Qed.

(* ---- well-formed containers ------------------------------------------------------------------ *)

Definition wf (c : container) : Prop := forall r, NoDup (map fst (get_sigs c r)).

Lemma wf_nil : wf [].
Proof. intros r. simpl. constructor. Qed.

Lemma wf_set : forall c r m, wf c -> NoDup (map fst m) -> wf (set_sigs c r m).
Proof.
  intros c r m Hc Hm r'. destruct (N.eq_dec r r') as [->|Hne].
  - rewrite get_set_same. auto.
  - rewrite get_set_other; auto.
Qed.

(* ---- add_signature --------------------------------------------------------------------------- *)

Lemma add_other_root : forall c s r x r', r <> r' ->
  get_sigs (add_signature c s r x) r' = get_sigs c r'.
Proof.
  intros. unfold add_signature. destruct (sm_get (get_sigs c r) s); auto.
  apply get_set_other; auto.
Qed.

Lemma add_same_root : forall c s r x,
  get_sigs (add_signature c s r x) r =
  match sm_get (get_sigs c r) s with Some _ => get_sigs c r | None => get_sigs c r ++ [(s, x)] end.
Proof.
  intros. unfold add_signature. destruct (sm_get (get_sigs c r) s); auto.
  apply get_set_same.
Qed.

Lemma nodup_snoc : forall (l : list N) x, NoDup l -> ~ In x l -> NoDup (l ++ [x]).
Proof.
  induction l as [|a tl IH]; intros x Hnd Hni; simpl.
  - constructor; auto.
  - inv Hnd. constructor.
    + intros Hin. apply in_app_or in Hin. destruct Hin as [Hin|[Hin|[]]]; auto.
      subst. apply Hni. simpl. auto.
    + apply IH; auto. intros Hin. apply Hni. simpl. auto.
Qed.

Lemma add_wf : forall c s r x, wf c -> wf (add_signature c s r x).
Proof.
  intros c s r x H. unfold add_signature.
  destruct (sm_get (get_sigs c r) s) eqn:E; auto.
  apply wf_set; auto. rewrite map_app. simpl.
  apply sm_get_none_notin in E. apply nodup_snoc; auto.
Qed.

Lemma add_ngood_mono : forall c s r x r', ngood c r' <= ngood (add_signature c s r x) r'.
Proof.
  intros. unfold ngood. destruct (N.eq_dec r r') as [->|Hne].
  - rewrite add_same_root. destruct (sm_get (get_sigs c r') s); auto.
    rewrite goods_app, app_length. lia.
  - rewrite add_other_root; auto.
Qed.

Lemma add_count_le : forall c s r x r', count (add_signature c s r x) r' <= S (count c r').
Proof.
  intros. unfold count. destruct (N.eq_dec r r') as [->|Hne].
  - rewrite add_same_root. destruct (sm_get (get_sigs c r') s); auto.
    rewrite app_length. simpl. lia.
  - rewrite add_other_root; auto.
Qed.

(* ---- remove_sig ------------------------------------------------------------------------------ *)

Lemma remove_other_root : forall c s r r', r <> r' -> get_sigs (remove_sig c s r) r' = get_sigs c r'.
Proof. intros. unfold remove_sig. apply get_set_other; auto. Qed.

Lemma remove_same_root : forall c s r, get_sigs (remove_sig c s r) r = sm_remove (get_sigs c r) s.
Proof. intros. unfold remove_sig. apply get_set_same. Qed.

Lemma remove_wf : forall c s r, wf c -> wf (remove_sig c s r).
Proof. intros. unfold remove_sig. apply wf_set; auto. apply sm_remove_nodup. auto. Qed.

(* ---- resolve_duplicate ----------------------------------------------------------------------- *)

Lemma resolve_wf : forall c p, wf c -> wf (resolve_duplicate c p).
Proof.
  intros c p H. unfold resolve_duplicate.
  destruct (sm_get (get_sigs c (p_root p)) (p_signer p)) as [prev|].
  - destruct (verify_share prev); auto.
    destruct (verify_share (p_share p)); auto using add_wf, remove_wf.
  - destruct (verify_share (p_share p)); auto using add_wf, remove_wf.
Qed.

Lemma resolve_other_root : forall c p r', p_root p <> r' ->
  get_sigs (resolve_duplicate c p) r' = get_sigs c r'.
Proof.
  intros c p r' Hne. unfold resolve_duplicate.
  destruct (sm_get (get_sigs c (p_root p)) (p_signer p)) as [prev|].
  - destruct (verify_share prev); auto.
    destruct (verify_share (p_share p)).
    + rewrite add_other_root; auto. apply remove_other_root; auto.
    + apply remove_other_root; auto.
  - destruct (verify_share (p_share p)).
    + rewrite add_other_root; auto. apply remove_other_root; auto.
    + apply remove_other_root; auto.
Qed.

Lemma resolve_ngood_mono : forall c p r', wf c -> ngood c r' <= ngood (resolve_duplicate c p) r'.
Proof.
  intros c p r' Hwf. destruct (N.eq_dec (p_root p) r') as [E|Hne].
  2:{ unfold ngood. rewrite resolve_other_root; auto. }
  subst r'. unfold resolve_duplicate.
  destruct (sm_get (get_sigs c (p_root p)) (p_signer p)) as [prev|] eqn:Eg.
  - unfold verify_share. destruct (is_good prev) eqn:Ep; auto.
    assert (Hrm : ngood (remove_sig c (p_signer p) (p_root p)) (p_root p) = ngood c (p_root p)).
    { unfold ngood. rewrite remove_same_root. f_equal. eapply goods_remove_bad; eauto. }
    destruct (is_good (p_share p)).
    + rewrite <- Hrm. apply add_ngood_mono.
    + lia.
  - assert (Hrm : remove_sig c (p_signer p) (p_root p) = set_sigs c (p_root p) (get_sigs c (p_root p))).
    { unfold remove_sig. rewrite sm_remove_absent; auto. }
    assert (Hn : ngood (remove_sig c (p_signer p) (p_root p)) (p_root p) = ngood c (p_root p)).
    { rewrite Hrm. unfold ngood. rewrite get_set_same. reflexivity. }
    unfold verify_share. destruct (is_good (p_share p)).
    + rewrite <- Hn. apply add_ngood_mono.
    + lia.
Qed.

Lemma resolve_count_le : forall c p r', count (resolve_duplicate c p) r' <= S (count c r').
Proof.
  intros c p r'. destruct (N.eq_dec (p_root p) r') as [E|Hne].
  2:{ unfold count. rewrite resolve_other_root; auto. }
  subst r'. unfold resolve_duplicate.
  assert (Hr : count (remove_sig c (p_signer p) (p_root p)) (p_root p) <= count c (p_root p)).
  { unfold count. rewrite remove_same_root. apply sm_remove_length. }
  assert (Ha : forall x, count (add_signature (remove_sig c (p_signer p) (p_root p)) (p_signer p) (p_root p) x) (p_root p)
               <= S (count c (p_root p))).
  { intros x. pose proof (add_count_le (remove_sig c (p_signer p) (p_root p)) (p_signer p) (p_root p) x (p_root p)). lia. }
  destruct (sm_get (get_sigs c (p_root p)) (p_signer p)) as [prev|].
  - destruct (verify_share prev); auto.
    destruct (verify_share (p_share p)); auto; lia.
  - destruct (verify_share (p_share p)); auto; lia.
Qed.

(* ---- fallback -------------------------------------------------------------------------------- *)

Lemma fallback_same : forall c r, get_sigs (fallback c r) r = goods (get_sigs c r).
Proof. intros. unfold fallback. apply get_set_same. Qed.

Lemma fallback_other : forall c r r', r <> r' -> get_sigs (fallback c r) r' = get_sigs c r'.
Proof. intros. unfold fallback. apply get_set_other; auto. Qed.

Lemma fallback_wf : forall c r, wf c -> wf (fallback c r).
Proof. intros. unfold fallback. apply wf_set; auto. apply (goods_nodup (get_sigs c r)). auto. Qed.

Lemma fallback_ngood : forall c r r', ngood (fallback c r) r' = ngood c r'.
Proof.
  intros. unfold ngood. destruct (N.eq_dec r r') as [->|Hne].
  - rewrite fallback_same. rewrite goods_idem. reflexivity.
  - rewrite fallback_other; auto.
Qed.

Lemma fallback_all_wf : forall roots c, wf c -> wf (fallback_all c roots).
Proof.
  induction roots as [|r tl IH]; intros c H; simpl; auto.
  change (wf (fallback_all (fallback c r) tl)).
  apply IH. apply fallback_wf. auto.
Qed.

Lemma fallback_all_ngood : forall roots c r', ngood (fallback_all c roots) r' = ngood c r'.
Proof.
  induction roots as [|r tl IH]; intros c r'; simpl; auto.
  change (ngood (fallback_all (fallback c r) tl) r' = ngood c r').
  rewrite IH. apply fallback_ngood.
Qed.

(* ---- base_processing ------------------------------------------------------------------------- *)

Definition inner_step (c : container) (p : pmsg) : container :=
  if has_signer c (p_signer p) (p_root p)
  then resolve_duplicate c p
  else add_signature c (p_signer p) (p_root p) (p_share p).

Lemma inner_step_wf : forall c p, wf c -> wf (inner_step c p).
Proof. intros. unfold inner_step. destruct (has_signer _ _ _); auto using resolve_wf, add_wf. Qed.

Lemma inner_step_ngood : forall c p r, wf c -> ngood c r <= ngood (inner_step c p) r.
Proof.
  intros. unfold inner_step. destruct (has_signer _ _ _); auto using resolve_ngood_mono, add_ngood_mono.
Qed.

Lemma inner_step_count : forall c p r, count (inner_step c p) r <= S (count c r).
Proof.
  intros. unfold inner_step. destruct (has_signer _ _ _); auto using resolve_count_le, add_count_le.
Qed.

Lemma inner_step_other : forall c p r, p_root p <> r -> get_sigs (inner_step c p) r = get_sigs c r.
Proof.
  intros. unfold inner_step. destruct (has_signer _ _ _); auto using resolve_other_root, add_other_root.
Qed.

Lemma base_processing_unfold : forall q c p tl,
  base_processing q c (p :: tl) =
  let c1 := inner_step c p in
  let '(c2, roots) := base_processing q c1 tl in
  if has_quorum q c1 (p_root p) && negb (has_quorum q c (p_root p))
  then (c2, p_root p :: roots) else (c2, roots).
Proof. intros. reflexivity. Qed.

Lemma has_quorum_count : forall q c r, has_quorum q c r = Nat.leb q (count c r).
Proof. reflexivity. Qed.

(* roots reported are a subsequence of the message's roots; saturated roots are never reported *)
Lemma base_processing_props : forall q ps c c' roots,
  base_processing q c ps = (c', roots) -> wf c ->
  wf c' /\
  (forall r, ngood c r <= ngood c' r) /\
  (forall r, q <= ngood c r -> ~ In r roots) /\
  (forall r, In r roots -> In r (map p_root ps)) /\
  (NoDup (map p_root ps) -> NoDup roots).
Proof.
  induction ps as [|p tl IH]; intros c c' roots H Hwf.
  - simpl in H. inv H. repeat split; auto; try constructor.
  - rewrite base_processing_unfold in H. cbv zeta in H.
    destruct (base_processing q (inner_step c p) tl) as [c2 roots2] eqn:E.
    pose proof (inner_step_wf c p Hwf) as Hwf1.
    destruct (IH _ _ _ E Hwf1) as (W & M & S & I & D).
    assert (Hm : forall r, ngood c r <= ngood c2 r).
    { intros r. pose proof (inner_step_ngood c p r Hwf). pose proof (M r). lia. }
    assert (Hs : forall r, q <= ngood c r -> ~ In r roots2).
    { intros r Hq. apply S. pose proof (inner_step_ngood c p r Hwf). lia. }
    destruct (has_quorum q (inner_step c p) (p_root p) && negb (has_quorum q c (p_root p))) eqn:Eedge; inv H.
    + apply andb_true_iff in Eedge. destruct Eedge as [_ Hprev].
      apply negb_true_iff in Hprev. rewrite has_quorum_count in Hprev. apply Nat.leb_gt in Hprev.
      repeat split; auto.
      * intros r Hq [Heq|Hin]; [|eapply Hs; eauto].
        subst r. pose proof (ngood_le_count c (p_root p)). lia.
      * intros r [Heq|Hin]; simpl; auto.
      * simpl. intros Hnd. inv Hnd. constructor; auto.
    + repeat split; auto.
      * intros r Hin. simpl. auto.
      * simpl. intros Hnd. inv Hnd. auto.
Qed.

(* ---- submit_loop ----------------------------------------------------------------------------- *)

Lemma reconstruct_valid : forall q m,
  verify_reconstructed (reconstruct q m) = true -> q <= length (goods m) /\ goods m = m.
Proof.
  intros q m H. unfold reconstruct in H.
  destruct (Nat.leb q (length m) && forallb (fun e => is_good (snd e)) m) eqn:E; [|discriminate].
  apply andb_true_iff in E. destruct E as [E1 E2]. apply Nat.leb_le in E1.
  assert (goods m = m).
  { unfold goods. clear E1 H. induction m as [|a tl IH]; simpl in *; auto.
    apply andb_true_iff in E2. destruct E2 as [Ea Et]. rewrite Ea. f_equal. auto. }
  rewrite H0. auto.
Qed.

Lemma submit_loop_props : forall q bn roots all c c' subs e,
  submit_loop q bn c all roots = (c', subs, e) -> wf c ->
  wf c' /\
  (forall r, ngood c' r = ngood c r) /\
  (forall s, In s subs -> verify_reconstructed (sub_sig s) = true /\ In (sub_root s) roots /\
                          q <= ngood c (sub_root s)) /\
  (NoDup roots -> NoDup (map sub_root subs)) /\
  (e = LDone -> map sub_root subs = roots /\ c' = c) /\
  (bn = true -> e <> LBN).
Proof.
  induction roots as [|r tl IH]; intros all c c' subs e H Hwf; simpl in H.
  - inv H. split; [auto|]. split; [auto|]. split; [intros s []|]. split; [intros; constructor|].
    split; [auto|]. intros _; discriminate.
  - destruct (verify_reconstructed (reconstruct q (get_sigs c r))) eqn:Ev.
    + apply reconstruct_valid in Ev as Hv. destruct Hv as [Hq _].
      change (q <= ngood c r) in Hq.
      destruct bn.
      * destruct (submit_loop q true c all tl) as [[c1 subs1] e1] eqn:E. inv H.
        destruct (IH _ _ _ _ _ E Hwf) as (W & G & S & D & L & B).
        split; [exact W|]. split; [exact G|]. split.
        { intros s [<-|Hin]; simpl.
          - repeat split; auto.
          - destruct (S s Hin) as (a & b & c0). repeat split; auto. }
        split.
        { intros Hnd. inv Hnd. simpl. constructor; auto.
          intros Hin. apply in_map_iff in Hin. destruct Hin as (s & Hs & Hin).
          apply S in Hin. destruct Hin as (_ & Hin & _). rewrite Hs in Hin. contradiction. }
        split.
        { intros He. destruct (L He) as [L1 L2]. simpl. split; [f_equal; auto|auto]. }
        intros _. apply B; auto.
      * inv H. split; [auto|]. split; [auto|]. split.
        { intros s [<-|[]]; simpl. repeat split; auto. }
        split.
        { intros _. simpl. constructor; [intros []|constructor]. }
        split; [intros He; discriminate|]. intros Hb; discriminate.
    + inv H. split; [apply fallback_all_wf; auto|]. split; [intros; apply fallback_all_ngood|].
      split; [intros s []|]. split; [intros; constructor|].
      split; [intros He; discriminate|]. intros _; discriminate.
Qed.

Lemma submit_loop_fixed_props : forall q bn roots c bad c' subs e,
  submit_loop_fixed q bn c roots bad = (c', subs, e) -> wf c ->
  wf c' /\
  (forall r, ngood c' r = ngood c r) /\
  (forall s, In s subs -> verify_reconstructed (sub_sig s) = true /\ In (sub_root s) roots /\
                          q <= ngood c (sub_root s)) /\
  (NoDup roots -> NoDup (map sub_root subs)) /\
  (bn = true -> e <> LBN).
Proof.
  induction roots as [|r tl IH]; intros c bad c' subs e H Hwf; simpl in H.
  - inv H. split; [auto|]. split; [auto|]. split; [intros s []|]. split; [intros; constructor|].
    intros _. destruct bad; discriminate.
  - destruct (verify_reconstructed (reconstruct q (get_sigs c r))) eqn:Ev.
    + apply reconstruct_valid in Ev as Hv. destruct Hv as [Hq _].
      change (q <= ngood c r) in Hq.
      destruct bn.
      * destruct (submit_loop_fixed q true c tl bad) as [[c1 subs1] e1] eqn:E. inv H.
        destruct (IH _ _ _ _ _ E Hwf) as (W & G & S & D & B).
        split; [exact W|]. split; [exact G|]. split.
        { intros s [<-|Hin]; simpl.
          - repeat split; auto.
          - destruct (S s Hin) as (a & b & c0). repeat split; auto. }
        split.
        { intros Hnd. inv Hnd. simpl. constructor; auto.
          intros Hin. apply in_map_iff in Hin. destruct Hin as (s & Hs & Hin).
          apply S in Hin. destruct Hin as (_ & Hin & _). rewrite Hs in Hin. contradiction. }
        intros _. apply B; auto.
      * inv H. split; [auto|]. split; [auto|]. split.
        { intros s [<-|[]]; simpl. repeat split; auto. }
        split.
        { intros _. simpl. constructor; [intros []|constructor]. }
        intros Hb; discriminate.
    + destruct (IH _ _ _ _ _ H (fallback_wf c r Hwf)) as (W & G & S & D & B).
      split; [exact W|]. split.
      { intros r'. rewrite G. apply fallback_ngood. }
      split.
      { intros s Hin. destruct (S s Hin) as (a & b & c0). repeat split; auto.
        - simpl. auto.
        - rewrite fallback_ngood in c0. auto. }
      split.
      { intros Hnd. inv Hnd. auto. }
      exact B.
Qed.

Lemma run_loop_props : forall g bn roots c c' subs e,
  run_loop g bn c roots = (c', subs, e) -> wf c ->
  wf c' /\
  (forall r, ngood c' r = ngood c r) /\
  (forall s, In s subs -> verify_reconstructed (sub_sig s) = true /\ In (sub_root s) roots /\
                          quorum g <= ngood c (sub_root s)) /\
  (NoDup roots -> NoDup (map sub_root subs)) /\
  (bn = true -> e <> LBN).
Proof.
  intros g bn roots c c' subs e H Hwf. unfold run_loop in H. destruct (fix_multi g).
  - eapply submit_loop_fixed_props; eauto.
  - destruct (submit_loop_props _ _ _ _ _ _ _ _ H Hwf) as (W & G & S & D & _ & B). auto.
Qed.

(* ---- validation ------------------------------------------------------------------------------ *)

Lemma list_eqb_eq : forall a b, list_eqb a b = true -> a = b.
Proof.
  induction a as [|x a IH]; destruct b as [|y b]; simpl; intros H; try discriminate; auto.
  apply andb_true_iff in H. destruct H as [H1 H2]. apply N.eqb_eq in H1. subst. f_equal. auto.
Qed.

Lemma insert_sorted_perm : forall x l, Permutation (insert_sorted x l) (x :: l).
Proof.
  induction l as [|y tl IH]; simpl; auto.
  destruct (N.leb x y); auto.
  eapply perm_trans; [apply perm_skip; apply IH|]. apply perm_swap.
Qed.

Lemma sort_roots_perm : forall l, Permutation (sort_roots l) l.
Proof.
  induction l as [|x tl IH]; simpl; auto.
  eapply perm_trans; [apply insert_sorted_perm|]. auto.
Qed.

Lemma validate_ok : forall g m, validate g m = EOk ->
  msg_wellformed m = true /\ s_slot m = duty_slot g /\
  In (s_signer m) (committee g) /\
  Permutation (expected g) (map p_root (s_msgs m)).
Proof.
  intros g m H. unfold validate in H.
  destruct (msg_wellformed m) eqn:E1; simpl in H; [|discriminate].
  destruct (N.eqb (s_slot m) (duty_slot g)) eqn:E2; simpl in H; [|discriminate].
  destruct (existsb (N.eqb (s_signer m)) (committee g)) eqn:E3; simpl in H; [|discriminate].
  destruct (Nat.eqb (length (expected g)) (length (s_msgs m))) eqn:E4; simpl in H; [|discriminate].
  destruct (list_eqb (sort_roots (expected g)) (sort_roots (map p_root (s_msgs m)))) eqn:E5; simpl in H; [|discriminate].
  repeat split; auto.
  - apply N.eqb_eq. auto.
  - apply existsb_exists in E3. destruct E3 as (x & Hin & Hx). apply N.eqb_eq in Hx. subst. auto.
  - apply list_eqb_eq in E5.
    eapply perm_trans; [apply Permutation_sym; apply sort_roots_perm|].
    rewrite E5. apply sort_roots_perm.
Qed.

Lemma wellformed_signers : forall m p, msg_wellformed m = true -> In p (s_msgs m) -> p_signer p = s_signer m.
Proof.
  intros m p H Hin. unfold msg_wellformed in H.
  apply andb_true_iff in H. destruct H as [H _].
  apply andb_true_iff in H. destruct H as [H _].
  apply andb_true_iff in H. destruct H as [_ H].
  rewrite forallb_forall in H. apply H in Hin. apply N.eqb_eq. auto.
Qed.

(* ---- T1: every submission is valid and is a decided object ----------------------------------- *)

Lemma base_processing_roots_incl : forall q ps c c' roots r,
  base_processing q c ps = (c', roots) -> In r roots -> In r (map p_root ps).
Proof.
  induction ps as [|p tl IH]; intros c c' roots r Eb Hin.
  - simpl in Eb. inv Eb. contradiction.
  - rewrite base_processing_unfold in Eb. cbv zeta in Eb.
    destruct (base_processing q (inner_step c p) tl) as [c2 roots2] eqn:E.
    destruct (has_quorum q (inner_step c p) (p_root p) && negb (has_quorum q c (p_root p))); inv Eb.
    + destruct Hin as [<-|Hin]; simpl; auto. right. eapply IH; eauto.
    + simpl. right. eapply IH; eauto.
Qed.

(* validity needs no invariant: the loops only emit what passed verify_reconstructed *)
Lemma submit_loop_valid : forall q bn roots all c c' subs e s,
  submit_loop q bn c all roots = (c', subs, e) -> In s subs ->
  verify_reconstructed (sub_sig s) = true /\ In (sub_root s) roots.
Proof.
  induction roots as [|r tl IH]; intros all c c' subs e s El Hin; simpl in El.
  - inv El. contradiction.
  - destruct (verify_reconstructed (reconstruct q (get_sigs c r))) eqn:Evr.
    + destruct bn.
      * destruct (submit_loop q true c all tl) as [[c3 subs3] e3] eqn:E3. inv El.
        destruct Hin as [<-|Hin]; simpl; auto.
        destruct (IH _ _ _ _ _ _ E3 Hin). auto.
      * inv El. destruct Hin as [<-|[]]; simpl; auto.
    + inv El. contradiction.
Qed.

Lemma submit_loop_fixed_valid : forall q bn roots c bad c' subs e s,
  submit_loop_fixed q bn c roots bad = (c', subs, e) -> In s subs ->
  verify_reconstructed (sub_sig s) = true /\ In (sub_root s) roots.
Proof.
  induction roots as [|r tl IH]; intros c bad c' subs e s El Hin; simpl in El.
  - inv El. contradiction.
  - destruct (verify_reconstructed (reconstruct q (get_sigs c r))) eqn:Evr.
    + destruct bn.
      * destruct (submit_loop_fixed q true c tl bad) as [[c3 subs3] e3] eqn:E3. inv El.
        destruct Hin as [<-|Hin]; simpl; auto.
        destruct (IH _ _ _ _ _ _ E3 Hin). auto.
      * inv El. destruct Hin as [<-|[]]; simpl; auto.
    + destruct (IH _ _ _ _ _ _ El Hin). simpl. auto.
Qed.

Lemma step_submits_valid : forall g st i st' o,
  step g st i = (st', o) ->
  forall s, In s (o_subs o) ->
    verify_reconstructed (sub_sig s) = true /\ In (sub_root s) (expected g).
Proof.
  intros g st [m bn] st' o H s Hin. unfold step in H.
  destruct (finished st); [inv H; contradiction|].
  destruct (validate g m) eqn:Ev; try (inv H; contradiction).
  destruct (base_processing (quorum g) (cont st) (s_msgs m)) as [c1 roots] eqn:Eb.
  destruct roots as [|r0 rtl]; [inv H; contradiction|].
  destruct (run_loop g bn c1 (r0 :: rtl)) as [[c2 subs] e] eqn:El.
  assert (Hsub : o_subs o = subs) by (destruct e; inv H; reflexivity).
  rewrite Hsub in Hin. clear H Hsub.
  assert (Hv : verify_reconstructed (sub_sig s) = true /\ In (sub_root s) (r0 :: rtl)).
  { unfold run_loop in El. destruct (fix_multi g).
    - eapply submit_loop_fixed_valid; eauto.
    - eapply submit_loop_valid; eauto. }
  destruct Hv as [Hv1 Hv2]. split; auto.
  apply validate_ok in Ev. destruct Ev as (_ & _ & _ & Hp).
  eapply Permutation_in; [apply Permutation_sym; apply Hp|].
  eapply base_processing_roots_incl; eauto.
Qed.

Lemma run_submits_valid : forall g hist st st' os,
  run g st hist = (st', os) ->
  forall s, In s (submits os) ->
    verify_reconstructed (sub_sig s) = true /\ In (sub_root s) (expected g).
Proof.
  induction hist as [|i tl IH]; intros st st' os H s Hin; simpl in H.
  - inv H. contradiction.
  - destruct (step g st i) as [s1 o] eqn:Es.
    destruct (run g s1 tl) as [s2 os2] eqn:Er. inv H.
    unfold submits in Hin. simpl in Hin. apply in_app_or in Hin. destruct Hin as [Hin|Hin].
    + eapply step_submits_valid; eauto.
    + eapply IH; eauto.
Qed.

(* ---- T2: at most one submission per decided object ------------------------------------------- *)

(* invariant: the container is well formed and every root already submitted is saturated with
   correct shares *)
Definition inv2 (g : cfg) (st : pstate) (done : list N) : Prop :=
  wf (cont st) /\ forall r, In r done -> quorum g <= ngood (cont st) r.

Lemma step_inv2 : forall g st i st' o done,
  NoDup (expected g) ->
  step g st i = (st', o) -> inv2 g st done ->
  inv2 g st' (done ++ map sub_root (o_subs o)) /\
  NoDup (map sub_root (o_subs o)) /\
  (forall r, In r (map sub_root (o_subs o)) -> ~ In r done).
Proof.
  intros g st [m bn] st' o done Hnd H [Hwf Hdone]. unfold step in H.
  assert (Htriv : forall e, (st', o) = (st, {| o_err := e; o_subs := [] |}) ->
     inv2 g st' (done ++ map sub_root (o_subs o)) /\ NoDup (map sub_root (o_subs o)) /\
     (forall r, In r (map sub_root (o_subs o)) -> ~ In r done)).
  { intros e He. inv He. simpl. rewrite app_nil_r. repeat split; auto. constructor. }
  destruct (finished st); [symmetry in H; eapply Htriv; eauto|].
  destruct (validate g m) eqn:Ev; try (symmetry in H; eapply Htriv; eauto; fail).
  apply validate_ok in Ev. destruct Ev as (_ & _ & _ & Hp).
  assert (Hndm : NoDup (map p_root (s_msgs m))) by (eapply Permutation_NoDup; eauto).
  destruct (base_processing (quorum g) (cont st) (s_msgs m)) as [c1 roots] eqn:Eb.
  destruct (base_processing_props _ _ _ _ _ Eb Hwf) as (W1 & M1 & S1 & I1 & D1).
  specialize (D1 Hndm).
  destruct roots as [|r0 rtl].
  - inv H. simpl. rewrite app_nil_r. repeat split; auto; try constructor.
    intros r Hr. simpl. pose proof (Hdone r Hr). pose proof (M1 r). lia.
  - destruct (run_loop g bn c1 (r0 :: rtl)) as [[c2 subs] e] eqn:El.
    destruct (run_loop_props _ _ _ _ _ _ _ El W1) as (W2 & G2 & S2 & D2 & _).
    assert (Hres : cont st' = c2 /\ o_subs o = subs) by (destruct e; inv H; auto).
    destruct Hres as [Hc Ho]. rewrite Ho. unfold inv2. rewrite Hc.
    repeat split; auto.
    + intros r Hr. rewrite G2. apply in_app_or in Hr. destruct Hr as [Hr|Hr].
      * pose proof (Hdone r Hr). pose proof (M1 r). lia.
      * apply in_map_iff in Hr. destruct Hr as (s & <- & Hs). apply S2 in Hs. tauto.
    + intros r Hr Hd. apply in_map_iff in Hr. destruct Hr as (s & <- & Hs).
      apply S2 in Hs. destruct Hs as (_ & Hin & _).
      eapply S1; eauto.
Qed.

Lemma run_inv2 : forall g hist st st' os done,
  NoDup (expected g) ->
  run g st hist = (st', os) -> inv2 g st done -> NoDup done ->
  NoDup (done ++ map sub_root (submits os)).
Proof.
  induction hist as [|i tl IH]; intros st st' os done Hnd H Hinv Hd; simpl in H.
  - inv H. simpl. rewrite app_nil_r. auto.
  - destruct (step g st i) as [s1 o] eqn:Es.
    destruct (run g s1 tl) as [s2 os2] eqn:Er. inv H.
    destruct (step_inv2 _ _ _ _ _ _ Hnd Es Hinv) as (Hinv1 & Hnd1 & Hfresh).
    unfold submits. simpl. rewrite map_app, app_assoc.
    eapply IH; eauto.
    clear - Hd Hnd1 Hfresh.
    induction done as [|a tl IH]; simpl; auto.
    inv Hd. constructor.
    + intros Hin. apply in_app_or in Hin. destruct Hin as [Hin|Hin]; auto.
      eapply Hfresh; eauto. simpl. auto.
    + apply IH; auto. intros r Hr Hin. eapply Hfresh; eauto. simpl. auto.
Qed.

Lemma count_root_nodup : forall l r, NoDup (map sub_root l) -> count_root r l <= 1.
Proof.
  induction l as [|a tl IH]; intros r H; simpl; auto.
  inv H. unfold count_root. simpl. destruct (N.eqb (sub_root a) r) eqn:E; simpl.
  - apply N.eqb_eq in E. subst r.
    assert (filter (fun s => N.eqb (sub_root s) (sub_root a)) tl = []).
    { clear - H2. induction tl as [|b tl IH]; simpl; auto.
      destruct (N.eqb (sub_root b) (sub_root a)) eqn:E.
      - apply N.eqb_eq in E. exfalso. apply H2. simpl. auto.
      - apply IH. intros Hin. apply H2. simpl. auto. }
    rewrite H. simpl. auto.
  - apply IH. auto.
Qed.

Lemma run_at_most_once : forall g hist st' os,
  NoDup (expected g) ->
  run g init_state hist = (st', os) ->
  forall r, count_root r (submits os) <= 1.
Proof.
  intros g hist st' os Hnd H r.
  apply count_root_nodup.
  change (NoDup ([] ++ map sub_root (submits os))).
  eapply run_inv2; eauto.
  - split; [apply wf_nil|]. intros ? [].
  - constructor.
Qed.

(* ---- T3: single root, liveness by arrival ---------------------------------------------------- *)

Lemma dedup_incl : forall l x, In x (dedup l) -> In x l.
Proof.
  induction l as [|a tl IH]; intros x H; simpl in *; auto.
  destruct (existsb (N.eqb a) tl); simpl in *; auto. destruct H; auto.
Qed.

Lemma dedup_nodup : forall l, NoDup (dedup l).
Proof.
  induction l as [|a tl IH]; simpl; [constructor|].
  destruct (existsb (N.eqb a) tl) eqn:E; auto.
  constructor; auto. intros Hin. apply dedup_incl in Hin.
  assert (existsb (N.eqb a) tl = true).
  { apply existsb_exists. exists a. split; auto. apply N.eqb_refl. }
  congruence.
Qed.

(* the signers whose correct message has been processed hold a correct share in the container *)
Definition inv3 (g : cfg) (r0 : N) (st : pstate) (seen : list N) (os : list out) : Prop :=
  if finished st then submitted r0 os = true
  else count (cont st) r0 < quorum g /\
       forall s, In s seen -> sm_get (get_sigs (cont st) r0) s = Some Good.

Lemma inner_step_keeps_good : forall c p r s,
  sm_get (get_sigs c r) s = Some Good -> sm_get (get_sigs (inner_step c p) r) s = Some Good.
Proof.
  intros c p r s H. destruct (N.eq_dec (p_root p) r) as [E|Hne].
  2:{ rewrite inner_step_other; auto. }
  subst r. unfold inner_step, has_signer.
  destruct (sm_get (get_sigs c (p_root p)) (p_signer p)) as [prev|] eqn:Eg.
  - unfold resolve_duplicate. rewrite Eg. unfold verify_share.
    destruct (is_good prev) eqn:Ep; auto.
    assert (Hne : p_signer p <> s).
    { intros Heq. rewrite Heq in Eg. rewrite H in Eg. inv Eg. discriminate. }
    assert (Hr : sm_get (get_sigs (remove_sig c (p_signer p) (p_root p)) (p_root p)) s = Some Good).
    { rewrite remove_same_root. rewrite sm_get_remove_other; auto. }
    destruct (is_good (p_share p)); auto.
    rewrite add_same_root.
    destruct (sm_get (get_sigs (remove_sig c (p_signer p) (p_root p)) (p_root p)) (p_signer p)); auto.
    rewrite sm_get_app, Hr. reflexivity.
  - rewrite add_same_root, Eg. rewrite sm_get_app, H. reflexivity.
Qed.

Lemma inner_step_adds_good : forall c p,
  is_good (p_share p) = true ->
  sm_get (get_sigs (inner_step c p) (p_root p)) (p_signer p) = Some Good.
Proof.
  intros c p Hg. destruct (p_share p) eqn:Es; [|discriminate].
  unfold inner_step, has_signer.
  destruct (sm_get (get_sigs c (p_root p)) (p_signer p)) as [prev|] eqn:Eg.
  - unfold resolve_duplicate. rewrite Eg, Es. unfold verify_share. simpl.
    destruct prev as [|k]; simpl; auto.
    rewrite add_same_root, remove_same_root, sm_get_remove_same.
    rewrite sm_get_app, sm_get_remove_same. simpl. rewrite N.eqb_refl. reflexivity || (rewrite Es; reflexivity).
  - rewrite add_same_root, Eg, sm_get_app, Eg. simpl. rewrite N.eqb_refl, Es. reflexivity.
Qed.

Lemma submitted_app : forall r a b, submitted r (a ++ b) = submitted r a || submitted r b.
Proof.
  intros. unfold submitted, submits. rewrite flat_map_app, existsb_app. reflexivity.
Qed.

Lemma run_loop_single : forall g c r0,
  run_loop g true c [r0] =
  if verify_reconstructed (reconstruct (quorum g) (get_sigs c r0))
  then (c, [{| sub_root := r0; sub_sig := reconstruct (quorum g) (get_sigs c r0) |}], LDone)
  else (fallback c r0, [], LBadQuorum).
Proof.
  intros. unfold run_loop. destruct (fix_multi g); simpl;
    destruct (verify_reconstructed (reconstruct (quorum g) (get_sigs c r0))); reflexivity.
Qed.

Lemma finished_after_single : forall g c r0,
  expected g = [r0] -> quorum g <= count c r0 -> finished_after g c = true.
Proof.
  intros g c r0 He Hq. unfold finished_after. destruct (fix_multi g); auto.
  rewrite He. simpl. rewrite has_quorum_count. apply Nat.leb_le in Hq. rewrite Hq. reflexivity.
Qed.

Lemma step_inv3 : forall g r0 st m st' o seen os,
  expected g = [r0] ->
  step g st (m, true) = (st', o) ->
  inv3 g r0 st seen os ->
  inv3 g r0 st' (if correct_msg g m then s_signer m :: seen else seen) (os ++ [o]).
Proof.
  intros g r0 st m st' o seen os Hexp H Hinv. unfold step in H. unfold inv3 in *.
  destruct (finished st) eqn:Ef.
  { inv H. rewrite Ef. rewrite submitted_app, Hinv. reflexivity. }
  destruct Hinv as [Hcnt Hseen].
  unfold correct_msg.
  destruct (validate g m) eqn:Ev;
    try (inv H; rewrite Ef; split; auto; fail).
  apply validate_ok in Ev as Hv. destruct Hv as (Hwfm & _ & _ & Hp).
  rewrite Hexp in Hp. apply Permutation_length_1_inv in Hp.
  destruct (s_msgs m) as [|p [|p2 tl]] eqn:Em; simpl in Hp; try discriminate.
  inv Hp.
  assert (Hsig : p_signer p = s_signer m).
  { apply wellformed_signers; auto. rewrite Em. simpl. auto. }
  simpl in H.
  fold (inner_step (cont st) p) in H.
  set (c1 := inner_step (cont st) p) in *.
  assert (Hseen1 : forall s, In s (if is_good (p_share p) && true then s_signer m :: seen else seen) ->
                             sm_get (get_sigs c1 (p_root p)) s = Some Good).
  { intros s Hin. destruct (is_good (p_share p)) eqn:Eg; simpl in Hin.
    - destruct Hin as [<-|Hin].
      + rewrite <- Hsig. apply inner_step_adds_good. auto.
      + apply inner_step_keeps_good. auto.
    - apply inner_step_keeps_good. auto. }
  assert (Hc1 : count c1 (p_root p) <= S (count (cont st) (p_root p))) by apply inner_step_count.
  rewrite !has_quorum_count in H. fold c1 in H.
  destruct (Nat.leb (quorum g) (count c1 (p_root p))) eqn:Enow; simpl in H.
  - assert (Hprev : Nat.leb (quorum g) (count (cont st) (p_root p)) = false) by (apply Nat.leb_gt; lia).
    rewrite Hprev in H. simpl in H.
    apply Nat.leb_le in Enow.
    rewrite run_loop_single in H.
    destruct (verify_reconstructed (reconstruct (quorum g) (get_sigs c1 (p_root p)))) eqn:Er.
    + inv H. simpl. rewrite (finished_after_single g c1 (p_root p) Hexp Enow).
      rewrite submitted_app. apply orb_true_iff. right.
      unfold submitted, submits. simpl. rewrite N.eqb_refl. reflexivity.
    + inv H. simpl. split.
      * unfold count. rewrite fallback_same.
        unfold reconstruct in Er.
        assert (El : Nat.leb (quorum g) (length (get_sigs c1 (p_root p))) = true) by (apply Nat.leb_le; auto).
        rewrite El in Er. simpl in Er.
        destruct (forallb (fun e => is_good (snd e)) (get_sigs c1 (p_root p))) eqn:Ea; [discriminate|].
        apply filter_lt_length in Ea. unfold goods, count in *. lia.
      * intros s Hin. rewrite fallback_same. apply sm_get_filter_good. apply Hseen1. auto.
  - try rewrite andb_false_l in H. inv H. simpl. split.
    + apply Nat.leb_gt in Enow. auto.
    + auto.
Qed.

Lemma run_inv3 : forall g r0 hist st st' os0 os seen,
  expected g = [r0] ->
  bn_always_ok hist = true ->
  run g st hist = (st', os) ->
  inv3 g r0 st seen os0 ->
  inv3 g r0 st'
    (rev (map (fun i => s_signer (fst i)) (filter (fun i => correct_msg g (fst i)) hist)) ++ seen)
    (os0 ++ os).
Proof.
  induction hist as [|i tl IH]; intros st st' os0 os seen Hexp Hbn H Hinv; simpl in H.
  - inv H. simpl. rewrite app_nil_r. auto.
  - destruct (step g st i) as [s1 o] eqn:Es.
    destruct (run g s1 tl) as [s2 os2] eqn:Er. inv H.
    destruct i as [m bn].
    simpl in Hbn. apply andb_true_iff in Hbn. destruct Hbn as [Hb Hbn]. subst bn.
    pose proof (step_inv3 _ _ _ _ _ _ _ _ Hexp Es Hinv) as Hinv1.
    specialize (IH _ _ _ _ _ Hexp Hbn Er Hinv1).
    replace (os0 ++ o :: os2) with ((os0 ++ [o]) ++ os2) by (rewrite <- app_assoc; reflexivity).
    simpl. destruct (correct_msg g m); simpl.
    + rewrite <- app_assoc. simpl. auto.
    + auto.
Qed.

Lemma single_root_liveness : forall g r0 hist st' os,
  expected g = [r0] ->
  1 <= quorum g ->
  bn_always_ok hist = true ->
  run g init_state hist = (st', os) ->
  quorum g <= length (correct_senders g hist) ->
  submitted r0 os = true.
Proof.
  intros g r0 hist st' os Hexp Hq Hbn Hrun Hcs.
  assert (Hinit : inv3 g r0 init_state [] []).
  { unfold inv3. simpl. split; [unfold count; simpl; lia | intros ? []]. }
  pose proof (run_inv3 _ _ _ _ _ _ _ _ Hexp Hbn Hrun Hinit) as Hinv.
  simpl in Hinv. rewrite app_nil_r in Hinv. unfold inv3 in Hinv.
  destruct (finished st'); auto.
  exfalso. destruct Hinv as [Hcnt Hseen].
  unfold correct_senders in Hcs.
  set (l := map (fun i : input => s_signer (fst i)) (filter (fun i : input => correct_msg g (fst i)) hist)) in *.
  assert (Hincl : incl (dedup l) (map fst (get_sigs (cont st') r0))).
  { intros s Hin. apply dedup_incl in Hin. eapply sm_get_some_in. apply Hseen.
    apply in_rev. rewrite rev_involutive. auto. }
  pose proof (NoDup_incl_length (dedup_nodup l) Hincl) as Hlen.
  change (quorum g <= length (dedup l)) in Hcs.
  rewrite map_length in Hlen. unfold count in Hcnt. lia.
Qed.

Lemma run_firstn : forall g hist st k,
  snd (run g st (firstn k hist)) = firstn k (snd (run g st hist)).
Proof.
  induction hist as [|i tl IH]; intros st k; simpl.
  - destruct k; reflexivity.
  - destruct k; simpl; auto.
    destruct (step g st i) as [s1 o].
    specialize (IH s1 k).
    destruct (run g s1 (firstn k tl)) as [s2 os2]. destruct (run g s1 tl) as [s3 os3].
    simpl in *. f_equal. auto.
Qed.

Lemma bn_always_ok_firstn : forall hist k, bn_always_ok hist = true -> bn_always_ok (firstn k hist) = true.
Proof.
  induction hist as [|i tl IH]; intros k H; destruct k; simpl in *; auto.
  apply andb_true_iff in H. destruct H. apply andb_true_iff. auto.
Qed.

Lemma single_root_live_at : forall g r0 hist k,
  expected g = [r0] -> 1 <= quorum g -> bn_always_ok hist = true ->
  live_at g hist k = true.
Proof.
  intros g r0 hist k Hexp Hq Hbn. unfold live_at.
  destruct (Nat.leb (quorum g) (length (correct_senders g (firstn k hist)))) eqn:E; auto.
  apply Nat.leb_le in E. rewrite Hexp. simpl. rewrite andb_true_r.
  destruct (run g init_state (firstn k hist)) as [st' os] eqn:Er. simpl.
  eapply (single_root_liveness g r0 (firstn k hist)); eauto using bn_always_ok_firstn.
Qed.

(* ---- committees of 3f+1 with quorum 2f+1 ----------------------------------------------------- *)

Definition memb (s : N) (l : list N) : bool := existsb (N.eqb s) l.

Lemma memb_in : forall s l, memb s l = true <-> In s l.
Proof.
  intros. unfold memb. rewrite existsb_exists. split.
  - intros (x & Hin & Hx). apply N.eqb_eq in Hx. subst. auto.
  - intros H. exists s. split; auto. apply N.eqb_refl.
Qed.

Lemma filter_split_length : forall (f : N -> bool) l,
  length (filter f l) + length (filter (fun x => negb (f x)) l) = length l.
Proof.
  induction l as [|a tl IH]; simpl; auto. destruct (f a); simpl; lia.
Qed.

Lemma nonfaulty_count : forall f committee faulty,
  NoDup committee -> length committee = 3 * f + 1 -> length faulty <= f ->
  2 * f + 1 <= length (filter (fun s => negb (memb s faulty)) committee).
Proof.
  intros f committee faulty Hnd Hlen Hf.
  pose proof (filter_split_length (fun s => memb s faulty) committee) as Hs.
  assert (length (filter (fun s => memb s faulty) committee) <= length faulty).
  { apply NoDup_incl_length.
    - apply NoDup_filter. auto.
    - intros x Hin. apply filter_In in Hin. destruct Hin as [_ Hm]. apply memb_in. auto. }
  lia.
Qed.

Lemma in_dedup : forall l x, In x l -> In x (dedup l).
Proof.
  induction l as [|a tl IH]; intros x H; simpl in *; auto.
  destruct (existsb (N.eqb a) tl) eqn:E.
  - destruct H as [->|H]; auto. apply IH.
    apply existsb_exists in E. destruct E as (y & Hy & Hxy). apply N.eqb_eq in Hxy. subst. auto.
  - destruct H as [->|H]; simpl; auto.
Qed.

Lemma faulty_cannot_block : forall f g r0 hist faulty st' os,
  expected g = [r0] ->
  NoDup (committee g) -> length (committee g) = 3 * f + 1 -> quorum g = 2 * f + 1 ->
  length faulty <= f ->
  bn_always_ok hist = true ->
  (forall s, In s (committee g) -> ~ In s faulty ->
     exists i, In i hist /\ s_signer (fst i) = s /\ correct_msg g (fst i) = true) ->
  run g init_state hist = (st', os) ->
  submitted r0 os = true.
Proof.
  intros f g r0 hist faulty st' os Hexp Hnd Hlen Hq Hf Hbn Hall Hrun.
  eapply single_root_liveness; eauto; [lia|].
  rewrite Hq.
  pose proof (nonfaulty_count f (committee g) faulty Hnd Hlen Hf) as Hc.
  eapply Nat.le_trans; [apply Hc|].
  apply NoDup_incl_length.
  - apply NoDup_filter. auto.
  - intros s Hin. apply filter_In in Hin. destruct Hin as [Hin Hm].
    unfold correct_senders. apply in_dedup.
    destruct (Hall s Hin) as (i & Hi & Hs & Hc0).
    { intros Hf0. apply memb_in in Hf0. rewrite Hf0 in Hm. discriminate. }
    apply in_map_iff. exists i. split; auto. apply filter_In. auto.
Qed.

(* ---- multi-root duties: the liveness clause fails (DESIGN 5.2, P3) --------------------------- *)

Definition liveness_statement (repaired : bool) : Prop :=
  forall g hist k,
    fix_multi g = repaired ->
    NoDup (expected g) -> 1 <= quorum g -> bn_always_ok hist = true ->
    live_at g hist k = true.

Definition cfg4_2roots : cfg :=
  {| committee := [1; 2; 3; 4]%N; quorum := 3; duty_slot := 12%N; expected := [0; 1]%N; fix_multi := false |}.

Definition cfg4_2roots_repaired : cfg :=
  {| committee := [1; 2; 3; 4]%N; quorum := 3; duty_slot := 12%N; expected := [0; 1]%N; fix_multi := true |}.

Definition full_msg (s : N) (shares : list share) : input :=
  ({| s_signer := s; s_slot := 12%N;
      s_msgs := map (fun rx => {| p_signer := s; p_root := fst rx; p_share := snd rx |})
                    (combine [0; 1; 2]%N shares) |}, true).

(* member 4 sends a wrong share for the first root only; 1, 2, 3 are correct *)
Definition p3_witness : list input :=
  [ full_msg 1 [Good; Good]; full_msg 2 [Good; Good];
    full_msg 4 [Bad 1; Good]; full_msg 3 [Good; Good] ].

(* member 1's wrong share for the second root is dropped by a second wrong share; the first root
   reaches its quorum alone and the duty is marked finished *)
Definition early_finish_witness : list input :=
  [ full_msg 1 [Good; Bad 1]; full_msg 1 [Good; Bad 3];
    full_msg 2 [Good; Good]; full_msg 3 [Good; Good]; full_msg 4 [Good; Good] ].

Lemma multi_root_liveness_refuted : ~ liveness_statement false.
Proof.
  intros H. specialize (H cfg4_2roots p3_witness 4 eq_refl).
  assert (Hnd : NoDup (expected cfg4_2roots)).
  { simpl. constructor; [intros [E|[]]; discriminate|]. constructor; [intros []|constructor]. }
  specialize (H Hnd). simpl in H. specialize (H (le_S _ _ (le_S _ _ (le_n 1))) eq_refl).
  vm_compute in H. discriminate.
Qed.

(* ---- the repaired multi-root loop: liveness for every decided object -------------------------- *)

(* what one inner message does to the signer map of its root *)
Definition sm_step (m : sigmap) (p : pmsg) : sigmap :=
  match sm_get m (p_signer p) with
  | Some prev =>
      if is_good prev then m
      else if is_good (p_share p) then sm_remove m (p_signer p) ++ [(p_signer p, p_share p)]
           else sm_remove m (p_signer p)
  | None => m ++ [(p_signer p, p_share p)]
  end.

Lemma inner_step_root : forall c p,
  get_sigs (inner_step c p) (p_root p) = sm_step (get_sigs c (p_root p)) p.
Proof.
  intros c p. unfold inner_step, has_signer, sm_step.
  destruct (sm_get (get_sigs c (p_root p)) (p_signer p)) as [prev|] eqn:Eg.
  - unfold resolve_duplicate. rewrite Eg. unfold verify_share.
    destruct (is_good prev); auto.
    destruct (is_good (p_share p)).
    + rewrite add_same_root, remove_same_root, sm_get_remove_same. reflexivity.
    + apply remove_same_root.
  - rewrite add_same_root, Eg. reflexivity.
Qed.

Lemma base_processing_root : forall q ps c c' roots,
  base_processing q c ps = (c', roots) -> NoDup (map p_root ps) ->
  forall r,
    (~ In r (map p_root ps) -> get_sigs c' r = get_sigs c r /\ ~ In r roots) /\
    (forall p, In p ps -> p_root p = r ->
        get_sigs c' r = sm_step (get_sigs c r) p /\
        (In r roots <->
         Nat.leb q (length (sm_step (get_sigs c r) p)) && negb (Nat.leb q (length (get_sigs c r))) = true)).
Proof.
  induction ps as [|p0 tl IH]; intros c c' roots H Hnd r.
  - simpl in H. inv H. split; [auto|]. intros p [].
  - rewrite base_processing_unfold in H. cbv zeta in H.
    destruct (base_processing q (inner_step c p0) tl) as [c2 roots2] eqn:E.
    simpl in Hnd. inv Hnd.
    specialize (IH _ _ _ E H3).
    assert (Hroots : forall x, In x roots <->
              (x = p_root p0 /\ has_quorum q (inner_step c p0) (p_root p0) && negb (has_quorum q c (p_root p0)) = true)
              \/ In x roots2).
    { intros x. destruct (has_quorum q (inner_step c p0) (p_root p0) && negb (has_quorum q c (p_root p0))) eqn:Ee;
        inv H; simpl; split.
      - intros [<-|Hx]; auto.
      - intros [[-> _]|Hx]; auto.
      - auto.
      - intros [[_ Hf]|Hx]; auto. discriminate. }
    assert (Hc' : c' = c2).
    { destruct (has_quorum q (inner_step c p0) (p_root p0) && negb (has_quorum q c (p_root p0))); inv H; auto. }
    subst c'. split.
    + intros Hni. simpl in Hni.
      assert (Hne : p_root p0 <> r) by (intros Heq; apply Hni; auto).
      assert (Hni2 : ~ In r (map p_root tl)) by (intros Hin; apply Hni; auto).
      destruct (IH r) as [IH1 _]. destruct (IH1 Hni2) as [Hg Hr]. split.
      * rewrite Hg. apply inner_step_other. auto.
      * intros Hin. apply Hroots in Hin. destruct Hin as [[Heq _]|Hin]; auto.
    + intros p [<-|Hin] Hr.
      * (* the head message is the one for r *)
        subst r. destruct (IH (p_root p0)) as [IH1 _]. destruct (IH1 H2) as [Hg Hnr].
        split; [rewrite Hg; apply inner_step_root|].
        rewrite Hroots. unfold has_quorum. rewrite inner_step_root. split.
        -- intros [[_ He]|Hx]; [auto|contradiction].
        -- intros He. left. auto.
      * assert (Hne : p_root p0 <> r).
        { intros Heq. apply H2. rewrite Heq, <- Hr. apply in_map. auto. }
        destruct (IH r) as [_ IH2]. destruct (IH2 p Hin Hr) as [Hg Hiff].
        rewrite inner_step_other in Hg, Hiff by auto.
        split; auto. rewrite Hroots. rewrite <- Hiff. split.
        -- intros [[Heq _]|Hx]; auto. congruence.
        -- auto.
Qed.

Lemma sm_step_via_container : forall m p,
  sm_step m p = get_sigs (inner_step [(p_root p, m)] p) (p_root p).
Proof. intros. rewrite inner_step_root. simpl. rewrite N.eqb_refl. reflexivity. Qed.

Lemma sm_step_length : forall m p, length (sm_step m p) <= S (length m).
Proof.
  intros. rewrite sm_step_via_container.
  pose proof (inner_step_count [(p_root p, m)] p (p_root p)) as H.
  unfold count in H. simpl in H. rewrite N.eqb_refl in H. auto.
Qed.

Lemma sm_step_keeps_good : forall m p s, sm_get m s = Some Good -> sm_get (sm_step m p) s = Some Good.
Proof.
  intros m p s H. rewrite sm_step_via_container. apply inner_step_keeps_good.
  simpl. rewrite N.eqb_refl. auto.
Qed.

Lemma sm_step_adds_good : forall m p, is_good (p_share p) = true -> sm_get (sm_step m p) (p_signer p) = Some Good.
Proof. intros m p H. rewrite sm_step_via_container. apply inner_step_adds_good. auto. Qed.

(* the repaired loop, root by root (beacon node available) *)
Lemma submit_loop_fixed_root : forall q roots c bad c' subs e,
  submit_loop_fixed q true c roots bad = (c', subs, e) -> NoDup roots ->
  forall r,
    (~ In r roots -> get_sigs c' r = get_sigs c r) /\
    (In r roots ->
       if verify_reconstructed (reconstruct q (get_sigs c r))
       then get_sigs c' r = get_sigs c r /\ In r (map sub_root subs)
       else get_sigs c' r = goods (get_sigs c r)).
Proof.
  induction roots as [|r0 tl IH]; intros c bad c' subs e H Hnd r; simpl in H.
  - inv H. split; auto. intros [].
  - inv Hnd. destruct (verify_reconstructed (reconstruct q (get_sigs c r0))) eqn:Ev.
    + destruct (submit_loop_fixed q true c tl bad) as [[c1 subs1] e1] eqn:E. inv H.
      destruct (IH _ _ _ _ _ E H3 r) as [I1 I2]. split.
      * intros Hni. apply I1. intros Hin. apply Hni. simpl. auto.
      * intros [<-|Hin].
        -- rewrite Ev. split; [apply I1; auto|simpl; auto].
        -- specialize (I2 Hin). destruct (verify_reconstructed (reconstruct q (get_sigs c r))).
           ++ destruct I2. split; auto. simpl. auto.
           ++ auto.
    + destruct (IH _ _ _ _ _ H H3 r) as [I1 I2]. split.
      * intros Hni. rewrite I1 by (intros Hin; apply Hni; simpl; auto).
        apply fallback_other. intros ->. apply Hni. simpl. auto.
      * intros [<-|Hin].
        -- rewrite Ev. rewrite I1 by auto. apply fallback_same.
        -- assert (Hne : r0 <> r) by (intros ->; contradiction).
           specialize (I2 Hin). rewrite (fallback_other c r0 r Hne) in I2. auto.
Qed.

(* invariant of the repaired runner *)
Definition inv4 (g : cfg) (st : pstate) (seen : list N) (os : list out) : Prop :=
  wf (cont st) /\
  (forall r, In r (expected g) -> count (cont st) r < quorum g \/ submitted r os = true) /\
  (finished st = false ->
     forall s r, In s seen -> In r (expected g) -> sm_get (get_sigs (cont st) r) s = Some Good) /\
  (finished st = true -> forall r, In r (expected g) -> submitted r os = true).

Lemma submitted_mono : forall r a b, submitted r a = true -> submitted r (a ++ b) = true.
Proof. intros. rewrite submitted_app, H. reflexivity. Qed.

Lemma submitted_last : forall r os o,
  In r (map sub_root (o_subs o)) -> submitted r (os ++ [o]) = true.
Proof.
  intros r os o Hin. rewrite submitted_app. apply orb_true_iff. right.
  unfold submitted, submits. simpl. rewrite app_nil_r.
  apply existsb_exists. apply in_map_iff in Hin. destruct Hin as (s & Hs & Hin).
  exists s. split; auto. subst. apply N.eqb_refl.
Qed.

Lemma forallb_good_in : forall ps p, forallb (fun p => is_good (p_share p)) ps = true -> In p ps -> is_good (p_share p) = true.
Proof. intros ps p H Hin. rewrite forallb_forall in H. auto. Qed.

Lemma step_inv4 : forall g st m st' o seen os,
  fix_multi g = true -> NoDup (expected g) ->
  step g st (m, true) = (st', o) ->
  inv4 g st seen os ->
  inv4 g st' (if correct_msg g m then s_signer m :: seen else seen) (os ++ [o]).
Proof.
  intros g st m st' o seen os Hfx Hnd H (Hwf & Ha & Hb & Hd). unfold step in H.
  destruct (finished st) eqn:Ef.
  { inv H. unfold inv4. rewrite Ef. split; [auto|]. split; [|split].
    - intros r Hr. destruct (Ha r Hr); auto using submitted_mono.
    - discriminate.
    - intros _ r Hr. apply submitted_mono. auto. }
  specialize (Hb eq_refl). clear Hd.
  assert (Hstay : forall e, (st', o) = (st, {| o_err := e; o_subs := [] |}) ->
     validate g m <> EOk ->
     inv4 g st' (if correct_msg g m then s_signer m :: seen else seen) (os ++ [o])).
  { intros e He Hv. inv He. unfold correct_msg. destruct (validate g m); try congruence;
    (split; [auto|]; split; [|split]; [intros r Hr; destruct (Ha r Hr); auto using submitted_mono
                      | intros _; auto | rewrite Ef; discriminate]). }
  destruct (validate g m) eqn:Ev; try (symmetry in H; eapply Hstay; eauto; congruence).
  clear Hstay.
  apply validate_ok in Ev as Hv. destruct Hv as (Hwfm & _ & _ & Hp).
  assert (Hndm : NoDup (map p_root (s_msgs m))) by (eapply Permutation_NoDup; eauto).
  destruct (base_processing (quorum g) (cont st) (s_msgs m)) as [c1 roots] eqn:Eb.
  pose proof (base_processing_root _ _ _ _ _ Eb Hndm) as BP.
  destruct (base_processing_props _ _ _ _ _ Eb Hwf) as (Hwf1 & _ & _ & _ & Hndroots).
  specialize (Hndroots Hndm).
  (* every expected root has exactly one inner message *)
  assert (Hmsg : forall r, In r (expected g) -> exists p, In p (s_msgs m) /\ p_root p = r).
  { intros r Hr. eapply Permutation_in in Hr; [|apply Hp]. apply in_map_iff in Hr.
    destruct Hr as (p & Hpr & Hin). eauto. }
  (* facts about c1, root by root *)
  assert (Hc1 : forall r, In r (expected g) ->
     exists p, In p (s_msgs m) /\ p_root p = r /\ p_signer p = s_signer m /\
       get_sigs c1 r = sm_step (get_sigs (cont st) r) p /\
       (In r roots <-> quorum g <= count c1 r /\ count (cont st) r < quorum g)).
  { intros r Hr. destruct (Hmsg r Hr) as (p & Hin & Hpr). exists p.
    destruct (BP r) as [_ B2]. destruct (B2 p Hin Hpr) as [Hg Hiff].
    split; [exact Hin|]. split; [exact Hpr|]. split; [apply wellformed_signers; auto|]. split; [exact Hg|].
    split.
    - intros Hroots. apply Hiff in Hroots. apply andb_true_iff in Hroots. destruct Hroots as [H1 H2].
      apply Nat.leb_le in H1. apply negb_true_iff in H2. apply Nat.leb_gt in H2.
      unfold count. rewrite Hg. auto.
    - intros [H1 H2]. apply Hiff. apply andb_true_iff. split.
      + apply Nat.leb_le. unfold count in H1. rewrite Hg in H1. auto.
      + apply negb_true_iff. apply Nat.leb_gt. auto. }
  (* the correct shares seen so far (and this message's, if it is correct) are in c1 *)
  assert (Hgood1 : forall s r, In s (if correct_msg g m then s_signer m :: seen else seen) ->
                   In r (expected g) -> sm_get (get_sigs c1 r) s = Some Good).
  { intros s r Hs Hr. destruct (Hc1 r Hr) as (p & Hin & Hpr & Hsig & Hg & _). rewrite Hg.
    unfold correct_msg in Hs. rewrite Ev in Hs.
    destruct (forallb (fun p0 => is_good (p_share p0)) (s_msgs m)) eqn:Eg.
    - destruct Hs as [<-|Hs].
      + rewrite <- Hsig. apply sm_step_adds_good. eapply forallb_good_in; eauto.
      + apply sm_step_keeps_good. auto.
    - apply sm_step_keeps_good. auto. }
  assert (Hcount1 : forall r, In r (expected g) -> count c1 r <= S (count (cont st) r)).
  { intros r Hr. destruct (Hc1 r Hr) as (p & _ & _ & _ & Hg & _). unfold count. rewrite Hg. apply sm_step_length. }
  destruct roots as [|r0 rtl].
  - (* no quorum edge *)
    inv H. unfold inv4. simpl. split; [auto|]. split; [|split].
    + intros r Hr. destruct (Ha r Hr) as [Hlt|Hs]; [|right; apply submitted_mono; auto].
      left. destruct (Hc1 r Hr) as (_ & _ & _ & _ & _ & Hiff).
      destruct (Nat.lt_ge_cases (count c1 r) (quorum g)); auto.
      exfalso. assert (In r []) by (apply Hiff; auto). contradiction.
    + intros _ s r Hs Hr. auto.
    + discriminate.
  - (* quorum edge: the repaired loop *)
    destruct (run_loop g true c1 (r0 :: rtl)) as [[c2 subs] e] eqn:El.
    unfold run_loop in El. rewrite Hfx in El.
    pose proof (submit_loop_fixed_root _ _ _ _ _ _ _ El Hndroots) as LR.
    destruct (submit_loop_fixed_props _ _ _ _ _ _ _ _ El Hwf1) as (Hwf2 & _ & _ & _ & Hnbn).
    assert (Hsubs : o_subs o = subs /\ cont st' = c2 /\
                    (finished st' = true -> e = LDone /\ finished_after g c2 = true)).
    { destruct e; inv H; simpl; repeat split; auto; try discriminate; exfalso; apply Hnbn; auto. }
    destruct Hsubs as (Hso & Hco & Hfin).
    (* every expected root: below quorum or submitted *)
    assert (Ha' : forall r, In r (expected g) -> count c2 r < quorum g \/ submitted r (os ++ [o]) = true).
    { intros r Hr. destruct (LR r) as [L1 L2].
      destruct (Hc1 r Hr) as (_ & _ & _ & _ & _ & Hiff).
      destruct (in_dec N.eq_dec r (r0 :: rtl)) as [Hin|Hni].
      - specialize (L2 Hin). apply Hiff in Hin as Hedge. destruct Hedge as [Hq Hlt].
        destruct (verify_reconstructed (reconstruct (quorum g) (get_sigs c1 r))) eqn:Evr.
        + right. apply submitted_last. rewrite Hso. tauto.
        + left. unfold count. rewrite L2.
          unfold reconstruct in Evr.
          assert (Eleb : Nat.leb (quorum g) (length (get_sigs c1 r)) = true) by (apply Nat.leb_le; auto).
          rewrite Eleb in Evr. simpl in Evr.
          destruct (forallb (fun e0 => is_good (snd e0)) (get_sigs c1 r)) eqn:Eall; [discriminate|].
          apply filter_lt_length in Eall. pose proof (Hcount1 r Hr). unfold goods, count in *. lia.
      - unfold count. rewrite (L1 Hni). fold (count c1 r).
        destruct (Ha r Hr) as [Hlt|Hs]; [|right; apply submitted_mono; auto].
        left. destruct (Nat.lt_ge_cases (count c1 r) (quorum g)); auto.
        exfalso. apply Hni. apply Hiff. auto. }
    unfold inv4. rewrite Hco. split; [exact Hwf2|]. split; [exact Ha'|]. split.
    + intros _ s r Hs Hr. destruct (LR r) as [L1 L2].
      destruct (in_dec N.eq_dec r (r0 :: rtl)) as [Hin|Hni].
      * specialize (L2 Hin).
        destruct (verify_reconstructed (reconstruct (quorum g) (get_sigs c1 r))).
        -- destruct L2 as [L2 _]. rewrite L2. auto.
        -- rewrite L2. apply sm_get_filter_good. auto.
      * rewrite (L1 Hni). auto.
    + intros Hf r Hr. destruct (Hfin Hf) as [_ Hfa]. unfold finished_after in Hfa. rewrite Hfx in Hfa.
      rewrite forallb_forall in Hfa. specialize (Hfa r Hr). rewrite has_quorum_count in Hfa.
      apply Nat.leb_le in Hfa. destruct (Ha' r Hr) as [Hlt|Hs]; auto. lia.
Qed.

Lemma run_inv4 : forall g hist st st' os0 os seen,
  fix_multi g = true -> NoDup (expected g) ->
  bn_always_ok hist = true ->
  run g st hist = (st', os) ->
  inv4 g st seen os0 ->
  inv4 g st'
    (rev (map (fun i => s_signer (fst i)) (filter (fun i => correct_msg g (fst i)) hist)) ++ seen)
    (os0 ++ os).
Proof.
  induction hist as [|i tl IH]; intros st st' os0 os seen Hfx Hnd Hbn H Hinv; simpl in H.
  - inv H. simpl. rewrite app_nil_r. auto.
  - destruct (step g st i) as [s1 o] eqn:Es.
    destruct (run g s1 tl) as [s2 os2] eqn:Er. inv H.
    destruct i as [m bn].
    simpl in Hbn. apply andb_true_iff in Hbn. destruct Hbn as [Hb Hbn]. subst bn.
    pose proof (step_inv4 _ _ _ _ _ _ _ Hfx Hnd Es Hinv) as Hinv1.
    specialize (IH _ _ _ _ _ Hfx Hnd Hbn Er Hinv1).
    replace (os0 ++ o :: os2) with ((os0 ++ [o]) ++ os2) by (rewrite <- app_assoc; reflexivity).
    simpl. destruct (correct_msg g m); simpl.
    + rewrite <- app_assoc. simpl. auto.
    + auto.
Qed.

Lemma multi_root_liveness_run : forall g hist st' os,
  fix_multi g = true -> NoDup (expected g) -> 1 <= quorum g ->
  bn_always_ok hist = true ->
  run g init_state hist = (st', os) ->
  quorum g <= length (correct_senders g hist) ->
  forall r, In r (expected g) -> submitted r os = true.
Proof.
  intros g hist st' os Hfx Hnd Hq Hbn Hrun Hcs r Hr.
  assert (Hinit : inv4 g init_state [] []).
  { unfold inv4. simpl. split; [apply wf_nil|]. split; [|split].
    - intros r0 _. left. unfold count. simpl. lia.
    - intros _ s r0 [].
    - discriminate. }
  pose proof (run_inv4 _ _ _ _ _ _ _ Hfx Hnd Hbn Hrun Hinit) as Hinv.
  simpl in Hinv. rewrite app_nil_r in Hinv. destruct Hinv as (_ & Ha & Hb & Hd).
  destruct (finished st') eqn:Ef; [apply Hd; auto|].
  specialize (Hb eq_refl).
  destruct (Ha r Hr) as [Hlt|Hs]; auto. exfalso.
  unfold correct_senders in Hcs.
  set (l := map (fun i : input => s_signer (fst i)) (filter (fun i : input => correct_msg g (fst i)) hist)) in *.
  assert (Hincl : incl (dedup l) (map fst (get_sigs (cont st') r))).
  { intros s Hin. apply dedup_incl in Hin. eapply sm_get_some_in. apply Hb; auto.
    apply in_rev. rewrite rev_involutive. auto. }
  pose proof (NoDup_incl_length (dedup_nodup l) Hincl) as Hlen.
  change (quorum g <= length (dedup l)) in Hcs.
  rewrite map_length in Hlen. unfold count in Hlt. lia.
Qed.

Lemma multi_root_liveness_repaired : liveness_statement true.
Proof.
  intros g hist k Hfx Hnd Hq Hbn. unfold live_at.
  destruct (Nat.leb (quorum g) (length (correct_senders g (firstn k hist)))) eqn:E; auto.
  apply Nat.leb_le in E.
  destruct (run g init_state (firstn k hist)) as [st' os] eqn:Er. simpl.
  apply forallb_forall. intros r Hr.
  eapply (multi_root_liveness_run g (firstn k hist)); eauto using bn_always_ok_firstn.
Qed.
