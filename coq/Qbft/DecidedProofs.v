(* C02: what a reported decision guarantees.  Lemmas about Qbft/Controller.v and Qbft/Model.v. *)
From Coq Require Import List NArith ZArith Bool Lia.
From SSV Require Import Qbft.Model Qbft.Controller Qbft.CompactSim.
Import ListNotations.
Local Open Scope N_scope.

(* ---- small facts about the list helpers ------------------------------------------------------------- *)

Lemma mem_In x l : mem x l = true <-> In x l.
Proof.
  unfold mem. rewrite existsb_exists. split.
  - intros (y & Hy & E). apply N.eqb_eq in E. subst. exact Hy.
  - intros H. exists x. split; [exact H|apply N.eqb_refl].
Qed.

Lemma nodupb_NoDup l : nodupb l = true -> NoDup l.
Proof.
  induction l as [|x tl IH]; cbn; intros H; [constructor|].
  apply andb_prop in H. destruct H as [H1 H2]. constructor; [|apply IH; exact H2].
  intros Hin. apply mem_In in Hin. rewrite Hin in H1. discriminate.
Qed.

Lemma NoDup_app_intro {A} (l1 l2 : list A) :
  NoDup l1 -> NoDup l2 -> (forall x, In x l1 -> In x l2 -> False) -> NoDup (l1 ++ l2).
Proof.
  induction l1 as [|a tl IH]; cbn; intros H1 H2 Hd; [exact H2|].
  inversion H1 as [|? ? Hna Hnt]; subst. constructor.
  - intros Hin. apply in_app_or in Hin. destruct Hin as [Hin|Hin]; [contradiction|].
    apply (Hd a); [left; reflexivity|exact Hin].
  - apply IH; [exact Hnt|exact H2|]. intros x Hx1 Hx2. apply (Hd x); [right; exact Hx1|exact Hx2].
Qed.

(* ---- a verifiable quorum certificate ------------------------------------------------------------------ *)

(* [certificate c d]: d is a commit for one (height, round, root) whose listed signers are distinct,
   non-zero and at least a quorum, whose aggregate signature verifies over exactly the listed signers
   (the verifier refuses signers outside the committee), and whose value hashes to the root. *)
Definition certificate (c : cfg) (d : smsg) : Prop :=
  c_type (co d) = T_COMMIT /\ NoDup (c_signers (co d)) /\ ~ In 0 (c_signers (co d)) /\
  quorum c <= N.of_nat (length (c_signers (co d))) /\
  sig_check c (co d) = true /\ hash (c_full (co d)) = c_root (co d).

Lemma signed_validate_facts k : signed_validate k = true ->
  NoDup (c_signers k) /\ ~ In 0 (c_signers k) /\ c_signers k <> [] /\ message_validate k = true.
Proof.
  unfold signed_validate. intros H. split_andb H.
  repeat split.
  - apply nodupb_NoDup. assumption.
  - intros Hin. apply mem_In in Hin.
    match goal with Hx : negb (mem 0 _) = true |- _ => rewrite Hin in Hx; discriminate end.
  - intros E. rewrite E in H. discriminate.
  - assumption.
Qed.

Lemma validate_decided_certificate c m : validate_decided c m = true -> certificate c m.
Proof.
  unfold validate_decided, is_decided_msg, base_commit_validation. intros H. split_andb H.
  match goal with Hx : signed_validate (co m) = true |- _ =>
    destruct (signed_validate_facts _ Hx) as (Hn & Hz & _ & _) end.
  unfold certificate. repeat split; try assumption;
    try (apply N.eqb_eq; assumption); try (apply N.leb_le; assumption).
Qed.

(* A decided-shaped message that is not a certificate leaves the instance untouched and errors. *)
Lemma forged_decided_rejected c s m :
  is_decided_msg c m = true -> validate_decided c m = false -> c_ident (co m) = 0 ->
  ctl_process c s m = (s, [], CRErr).
Proof.
  intros Hd Hv Hi. unfold ctl_process. rewrite Hi. cbn. rewrite Hd, Hv. reflexivity.
Qed.

(* A message below quorum size is never handled as a decided message. *)
Lemma sub_quorum_not_decided c m :
  N.of_nat (length (c_signers (co m))) < quorum c -> is_decided_msg c m = false.
Proof.
  intros H. unfold is_decided_msg. destruct (N.leb_spec (quorum c) (N.of_nat (length (c_signers (co m))))); [lia|reflexivity].
Qed.

(* Decisions reported for a decided message are certificates. *)
Lemma decided_path_certificate c s m s' o d :
  is_decided_msg c m = true -> ctl_process c s m = (s', o, CRDecided d) -> d = m /\ certificate c d.
Proof.
  intros Hd. unfold ctl_process. destruct (negb (c_ident (co m) =? 0)); [discriminate|].
  rewrite Hd. destruct (validate_decided c m) eqn:Hv; cbn [negb]; [|discriminate].
  destruct (negb (c_height (co m) =? s_height s)); [discriminate|].
  destruct (upon_decided s m) as [s1 fresh]. destruct fresh; [|discriminate].
  intros E; injection E as _ _ <-. split; [reflexivity|apply validate_decided_certificate; exact Hv].
Qed.

(* ---- local decisions --------------------------------------------------------------------------------- *)

(* what validate_commit established about every counted commit *)
Definition commit_ok (c : cfg) (h r root : N) (m : smsg) : Prop :=
  c_type (co m) = T_COMMIT /\ c_height (co m) = h /\ c_round (co m) = r /\ c_root (co m) = root /\
  length (c_signers (co m)) = 1%nat /\ sig_check c (co m) = true /\ signed_validate (co m) = true.

Lemma validate_commit_ok c m h r p : validate_commit c m h r p = true -> commit_ok c h r (c_root (co p)) m.
Proof.
  unfold validate_commit, base_commit_validation. intros H. split_andb H.
  unfold commit_ok. repeat split; try assumption;
    try (apply N.eqb_eq; assumption); try (apply Nat.eqb_eq; assumption).
  symmetry. apply N.eqb_eq. assumption.
Qed.

(* what isValidProposal established about the accepted proposal *)
Definition proposal_ok (c : cfg) (h : N) (p : smsg) : Prop :=
  c_type (co p) = T_PROPOSAL /\ c_height (co p) = h /\
  (exists ld, proposer c h (c_round (co p)) = Some ld /\ c_signers (co p) = [ld]) /\
  sig_check c (co p) = true /\ hash (c_full (co p)) = c_root (co p) /\
  value_check c (c_full (co p)) = true.

Lemma matched_singleton l x : length l = 1%nat -> matched_signers l [x] = true -> l = [x].
Proof.
  destruct l as [|y [|z tl]]; cbn; try discriminate. intros _ H.
  destruct (N.eqb_spec y x) as [->|]; [reflexivity|discriminate].
Qed.

Lemma valid_proposal_ok c s p : valid_proposal c s p = Some true -> proposal_ok c (s_height s) p.
Proof.
  unfold valid_proposal.
  destruct (N.eqb_spec (c_type (co p)) T_PROPOSAL) as [Ht|]; cbn [negb]; [|discriminate].
  destruct (N.eqb_spec (c_height (co p)) (s_height s)) as [Hh|]; cbn [negb]; [|discriminate].
  destruct (Nat.eqb_spec (length (c_signers (co p))) 1) as [Hl|]; cbn [negb]; [|discriminate].
  destruct (sig_check c (co p)) eqn:Hs; cbn [negb]; [|discriminate].
  destruct (proposer c (s_height s) (c_round (co p))) as [ld|] eqn:Hp; [|discriminate].
  destruct (matched_signers (c_signers (co p)) [ld]) eqn:Hm; cbn [negb]; [|discriminate].
  destruct (signed_validate (co p)); cbn [negb]; [|discriminate].
  destruct (N.eqb_spec (hash (c_full (co p))) (c_root (co p))) as [Hr|]; cbn [negb]; [|discriminate].
  destruct (proposal_justified _ _ _ _ _ _ _ _) eqn:Hj; cbn [negb]; [|discriminate].
  intros _. unfold proposal_ok. repeat split; try assumption.
  - exists ld. split; [exact Hp|apply matched_singleton; assumption].
  - unfold proposal_justified in Hj. apply andb_prop in Hj. apply Hj.
Qed.

(* Invariant of an instance that has not been touched by a decided message: the accepted proposal
   was validated for the current round, every commit counted for the current round was validated
   against it, and no commit sits in a round the instance has not reached. *)
Definition inst_inv (c : cfg) (s : state) : Prop :=
  (forall p, s_acc s = Some p -> proposal_ok c (s_height s) p /\ c_round (co p) = s_round s) /\
  (forall p m, s_acc s = Some p -> In m (cget (s_commit s) (s_round s)) ->
     commit_ok c (s_height s) (s_round s) (c_root (co p)) m) /\
  (forall r, cget (s_commit s) r <> [] -> r <= s_round s /\ (s_acc s = None -> r < s_round s)).

Lemma cget_cput_same ct r m : cget (cput ct r m) r = cget ct r ++ [m].
Proof.
  induction ct as [|[r' l] tl IH]; cbn.
  - rewrite N.eqb_refl. reflexivity.
  - destruct (N.eqb_spec r' r) as [->|Hne]; cbn.
    + rewrite N.eqb_refl. reflexivity.
    + destruct (N.eqb_spec r' r); [contradiction|exact IH].
Qed.

Lemma cget_cput_other ct r r' m : r <> r' -> cget (cput ct r m) r' = cget ct r'.
Proof.
  intros Hne. induction ct as [|[r0 l] tl IH]; cbn.
  - destruct (N.eqb_spec r r'); [contradiction|reflexivity].
  - destruct (N.eqb_spec r0 r) as [->|Hne0]; cbn.
    + destruct (N.eqb_spec r r'); [contradiction|reflexivity].
    + destruct (N.eqb_spec r0 r'); [reflexivity|exact IH].
Qed.

Lemma cadd_first_cget ct m ct' added r : cadd_first ct m = (ct', added) ->
  forall x, In x (cget ct' r) -> In x (cget ct r) \/ (x = m /\ r = c_round (co m)).
Proof.
  unfold cadd_first. destruct (existsb _ _); intros E; injection E as <- <-; intros x Hx; [left; exact Hx|].
  destruct (N.eq_dec (c_round (co m)) r) as [<-|Hne].
  - rewrite cget_cput_same in Hx. apply in_app_or in Hx. destruct Hx as [Hx|[<-|[]]]; auto.
  - rewrite cget_cput_other in Hx by exact Hne. left. exact Hx.
Qed.

(* the greedy selection only picks messages of the container with the requested root, with
   pairwise disjoint signers *)
Lemma greedy_spec root : forall rest signers msgs signers' msgs',
  greedy root rest signers msgs = (signers', msgs') ->
  signers = all_signers msgs -> NoDup signers ->
  (forall m, In m msgs -> c_root (co m) = root) ->
  (forall m, In m rest -> NoDup (c_signers (co m))) ->
  signers' = all_signers msgs' /\ NoDup signers' /\
  (forall m, In m msgs' -> In m msgs \/ In m rest) /\ (forall m, In m msgs' -> c_root (co m) = root).
Proof.
  induction rest as [|m tl IH]; intros signers msgs signers' msgs' E Hs Hn Hr Hnd; cbn [greedy] in E.
  - injection E as <- <-. repeat split; auto.
  - assert (Hnd' : forall x, In x tl -> NoDup (c_signers (co x))) by (intros x Hx; apply Hnd; right; exact Hx).
    destruct (N.eqb_spec (c_root (co m)) root) as [Hroot|Hroot]; cbn [negb] in E.
    + destruct (common_signers (c_signers (co m)) signers) eqn:Hc.
      * destruct (IH _ _ _ _ E Hs Hn Hr Hnd') as (A & B & C & D). repeat split; auto.
        intros x Hx. destruct (C x Hx); [left|right; right]; assumption.
      * assert (Hn2 : NoDup (signers ++ c_signers (co m))).
        { apply NoDup_app_intro; [exact Hn|apply Hnd; left; reflexivity|].
          intros x Hx1 Hx2. unfold common_signers in Hc.
          assert (Ht : existsb (fun y => mem y signers) (c_signers (co m)) = true).
          { apply existsb_exists. exists x. split; [exact Hx2|apply mem_In; exact Hx1]. }
          rewrite Ht in Hc. discriminate. }
        assert (Hs2 : signers ++ c_signers (co m) = all_signers (msgs ++ [m])).
        { unfold all_signers. rewrite flat_map_app. cbn. rewrite app_nil_r. rewrite Hs. reflexivity. }
        assert (Hr2 : forall x, In x (msgs ++ [m]) -> c_root (co x) = root).
        { intros x Hx. apply in_app_or in Hx. destruct Hx as [Hx|[<-|[]]]; auto. }
        destruct (IH _ _ _ _ E Hs2 Hn2 Hr2 Hnd') as (A & B & C & D). repeat split; auto.
        intros x Hx. destruct (C x Hx) as [Hx'|Hx']; [|right; right; exact Hx'].
        apply in_app_or in Hx'. destruct Hx' as [Hx'|[<-|[]]]; [left; exact Hx'|right; left; reflexivity].
    + destruct (IH _ _ _ _ E Hs Hn Hr Hnd') as (A & B & C & D). repeat split; auto.
      intros x Hx. destruct (C x Hx); [left|right; right]; assumption.
Qed.

Definition good_sel (root : N) (P : smsg -> Prop) (r : list N * list smsg) : Prop :=
  fst r = all_signers (snd r) /\ NoDup (fst r) /\
  (forall m, In m (snd r) -> c_root (co m) = root /\ P m).

Lemma longest_from_spec root (P : smsg -> Prop) : forall l best,
  (forall m, In m l -> NoDup (c_signers (co m))) -> (forall m, In m l -> P m) ->
  good_sel root P best -> good_sel root P (longest_from root l best).
Proof.
  induction l as [|m tl IH]; intros best Hnd HPl Hb; cbn [longest_from]; [exact Hb|].
  assert (Hnd' : forall x, In x tl -> NoDup (c_signers (co x))) by (intros x Hx; apply Hnd; right; exact Hx).
  assert (HPl' : forall x, In x tl -> P x) by (intros x Hx; apply HPl; right; exact Hx).
  destruct (N.eqb_spec (c_root (co m)) root) as [Hroot|Hroot]; cbn [negb]; [|apply IH; auto].
  destruct (greedy root tl (c_signers (co m)) [m]) as [gs gm] eqn:Eg.
  assert (Hg : gs = all_signers gm /\ NoDup gs /\
               (forall x, In x gm -> In x [m] \/ In x tl) /\ (forall x, In x gm -> c_root (co x) = root)).
  { eapply greedy_spec; eauto.
    - unfold all_signers; cbn. rewrite app_nil_r. reflexivity.
    - apply Hnd. left. reflexivity.
    - intros x [<-|[]]. exact Hroot. }
  destruct Hg as (G1 & G2 & G3 & G4).
  apply IH; auto.
  destruct (Nat.ltb (length (fst best)) (length (fst (gs, gm)))); [|exact Hb].
  unfold good_sel; cbn [fst snd]. repeat split; auto.
  destruct (G3 m0 H) as [[<-|[]]|Hx']; [apply HPl; left; reflexivity|apply HPl'; exact Hx'].
Qed.

Lemma longest_unique_spec ct round root (P : smsg -> Prop) :
  (forall m, In m (cget ct round) -> NoDup (c_signers (co m))) ->
  (forall m, In m (cget ct round) -> P m) ->
  good_sel root P (longest_unique ct round root).
Proof.
  intros Hnd HP. unfold longest_unique. apply longest_from_spec; auto.
  unfold good_sel; cbn. split; [reflexivity|]. split; [constructor|]. intros ? [].
Qed.

(* insertion sort keeps the elements *)
Lemma insert_sorted_perm x l : forall y, In y (insert_sorted x l) <-> y = x \/ In y l.
Proof.
  induction l as [|a tl IH]; cbn; intros y; [intuition congruence|].
  destruct (x <=? a); cbn; [intuition congruence|]. rewrite IH. intuition congruence.
Qed.
Lemma insert_sorted_length x l : length (insert_sorted x l) = S (length l).
Proof. induction l as [|a tl IH]; cbn; [reflexivity|]. destruct (x <=? a); cbn; [reflexivity|]. rewrite IH. reflexivity. Qed.
Lemma insert_sorted_NoDup x l : ~ In x l -> NoDup l -> NoDup (insert_sorted x l).
Proof.
  induction l as [|a tl IH]; cbn; intros Hx Hn; [constructor; [tauto|constructor]|].
  inversion Hn; subst. destruct (x <=? a).
  - constructor; [cbn; tauto|exact Hn].
  - constructor.
    + rewrite insert_sorted_perm. intros [->|Hin]; [apply Hx; left; reflexivity|contradiction].
    + apply IH; [tauto|assumption].
Qed.
Lemma sort_n_cons a tl : sort_n (a :: tl) = insert_sorted a (sort_n tl).
Proof. reflexivity. Qed.
Lemma sort_n_In l : forall y, In y (sort_n l) <-> In y l.
Proof.
  induction l as [|a tl IH]; intros y; [cbn; tauto|].
  rewrite sort_n_cons, insert_sorted_perm, IH. cbn. intuition congruence.
Qed.
Lemma sort_n_length l : length (sort_n l) = length l.
Proof.
  induction l as [|a tl IH]; [reflexivity|]. rewrite sort_n_cons, insert_sorted_length, IH. reflexivity.
Qed.
Lemma sort_n_NoDup l : NoDup l -> NoDup (sort_n l).
Proof.
  induction l as [|a tl IH]; intros Hn; [constructor|]. inversion Hn; subst. rewrite sort_n_cons.
  apply insert_sorted_NoDup; [rewrite sort_n_In; assumption|apply IH; assumption].
Qed.

Lemma all_signers_In ms x : In x (all_signers ms) <-> exists m, In m ms /\ In x (c_signers (co m)).
Proof. unfold all_signers. rewrite in_flat_map. tauto. Qed.

(* The aggregate built by UponCommit is a certificate, provided every counted commit was validated
   and the accepted proposal carries data matching its root. *)
Lemma aggregate_certificate c msgs full agg h r root :
  aggregate_commits c msgs full = Some agg ->
  NoDup (all_signers msgs) -> quorum c <= N.of_nat (length (all_signers msgs)) ->
  (forall m, In m msgs -> commit_ok c h r root m) -> hash full = root ->
  certificate c agg /\ c_round (co agg) = r /\ c_root (co agg) = root /\ c_height (co agg) = h /\
  c_full (co agg) = full /\
  (forall x, In x (c_signers (co agg)) <-> exists m, In m msgs /\ c_signers (co m) = [x]).
Proof.
  unfold aggregate_commits. destruct msgs as [|m0 tl]; [discriminate|].
  destruct (forallb (same_signing_root m0) tl); cbn [negb]; [|discriminate].
  intros E Hn Hq Hok Hh. injection E as <-.
  destruct (Hok m0 (or_introl eq_refl)) as (T & Hh0 & R & Ro & _ & _ & _).
  set (SS := all_signers (m0 :: tl)) in *.
  assert (Hsz : forall b : bool, length (if b then sort_n SS else SS) = length SS)
    by (intros []; [apply sort_n_length|reflexivity]).
  assert (Hin : forall (b : bool) y, In y (if b then sort_n SS else SS) <-> In y SS)
    by (intros [] y; [apply sort_n_In|tauto]).
  assert (HnS : forall b : bool, NoDup (if b then sort_n SS else SS))
    by (intros []; [apply sort_n_NoDup|]; exact Hn).
  unfold certificate. cbn [co c_type c_signers c_full c_root c_round c_height c_sig_ok].
  change (c_signers (co m0) ++ all_signers tl) with SS.
  repeat split; try assumption.
  - apply HnS.
  - rewrite Hin. unfold SS. rewrite all_signers_In. intros (m & Hm & Hx).
    destruct (Hok m Hm) as (_ & _ & _ & _ & _ & _ & Hv).
    destruct (signed_validate_facts _ Hv) as (_ & Hz & _ & _). contradiction.
  - rewrite Hsz. exact Hq.
  - unfold sig_check. cbn [c_sig_ok]. destruct (v_verify (var c)) eqn:Ev; [|reflexivity].
    change (forallb (fun m : smsg => c_sig_ok (co m)) (m0 :: tl) = true).
    apply forallb_forall. intros m Hm. destruct (Hok m Hm) as (_ & _ & _ & _ & _ & Hs & _).
    unfold sig_check in Hs. rewrite Ev in Hs. exact Hs.
  - rewrite Ro. exact Hh.
  - intros Hx. apply Hin in Hx. unfold SS in Hx. apply all_signers_In in Hx. destruct Hx as (m & Hm & Hx).
    exists m. split; [exact Hm|]. destruct (Hok m Hm) as (_ & _ & _ & _ & Hl & _ & _).
    destruct (c_signers (co m)) as [|y [|z t]]; try discriminate. destruct Hx as [<-|[]]. reflexivity.
  - intros (m & Hm & Es). apply Hin. unfold SS. apply all_signers_In. exists m. split; [exact Hm|].
    rewrite Es. left. reflexivity.
Qed.

(* ---- the invariant is preserved ----------------------------------------------------------------------- *)

Lemma valid_proposal_round c s m : valid_proposal c s m = Some true ->
  (s_acc s = None /\ c_round (co m) = s_round s) \/ s_round s < c_round (co m).
Proof.
  unfold valid_proposal.
  repeat match goal with
  | |- context [if ?b then Some false else _] => destruct b; [discriminate|]
  end.
  destruct (proposer c (s_height s) (c_round (co m))); [|discriminate].
  repeat match goal with
  | |- context [if ?b then Some false else _] => destruct b; [discriminate|]
  end.
  intros E. injection E as E. apply orb_prop in E. destruct E as [E|E].
  - left. destruct (s_acc s); [discriminate|]. split; [reflexivity|apply N.eqb_eq; exact E].
  - right. apply N.ltb_lt. exact E.
Qed.

Lemma bmv_proposal c s m : base_msg_validation c s m = Some true -> c_type (co m) = T_PROPOSAL ->
  valid_proposal c s m = Some true.
Proof.
  unfold base_msg_validation. intros H Ht. rewrite Ht in H. cbn in H.
  destruct (negb (signed_validate (co m))); [discriminate|].
  destruct (c_round (co m) <? s_round s); [discriminate|]. exact H.
Qed.

Lemma bmv_commit c s m : base_msg_validation c s m = Some true -> c_type (co m) = T_COMMIT ->
  exists p, s_acc s = Some p /\ validate_commit c m (s_height s) (s_round s) p = true.
Proof.
  unfold base_msg_validation. intros H Ht. rewrite Ht in H. cbn in H.
  destruct (negb (signed_validate (co m))); [discriminate|].
  destruct (c_round (co m) <? s_round s); [discriminate|].
  destruct (s_acc s) as [p|]; [|discriminate]. injection H as H. exists p. auto.
Qed.

Lemma cget_nonempty_cput ct r m r' : cget (cput ct r m) r' <> [] -> cget ct r' <> [] \/ r' = r.
Proof.
  destruct (N.eq_dec r r') as [->|Hne]; [auto|]. rewrite cget_cput_other by exact Hne. auto.
Qed.

Definition same_frame (s s' : state) : Prop :=
  s_height s' = s_height s /\ s_acc s' = s_acc s /\ s_commit s' = s_commit s /\ s_round s' = s_round s.

Lemma inst_inv_frame c s s' : same_frame s s' -> inst_inv c s -> inst_inv c s'.
Proof.
  intros (Hh & Ha & Hc & Hr) (I1 & I2 & I3). unfold inst_inv. rewrite Hh, Ha, Hc, Hr. auto.
Qed.

(* a round bump that forgets the accepted proposal *)
Lemma inst_inv_bump c s s' nr : inst_inv c s -> s_round s < nr ->
  s_height s' = s_height s -> s_acc s' = None -> s_commit s' = s_commit s -> s_round s' = nr ->
  inst_inv c s'.
Proof.
  intros (I1 & I2 & I3) Hlt Hh Ha Hc Hr. unfold inst_inv. rewrite Hh, Ha, Hc, Hr.
  split; [intros p E; discriminate|]. split; [intros p m E; discriminate|].
  intros r Hne. destruct (I3 r Hne) as [Hle _]. split; [lia|intros _; lia].
Qed.

Lemma process_msg_inst_inv c s m s' o r : inst_inv c s -> process_msg c s m = (s', o, r) ->
  inst_inv c s' /\ s_height s' = s_height s.
Proof.
  intros Hi. unfold process_msg.
  destruct (can_process s); cbn [negb]; [|intros E; injection E as <- _ _; auto].
  destruct (base_msg_validation c s m) as [[|]|] eqn:Hv; try (intros E; injection E as <- _ _; auto).
  destruct (N.eqb_spec (c_type (co m)) T_PROPOSAL) as [Ht|Ht].
  - (* proposal *)
    pose proof (bmv_proposal _ _ _ Hv Ht) as Hvp.
    pose proof (valid_proposal_ok _ _ _ Hvp) as Hok. pose proof (valid_proposal_round _ _ _ Hvp) as Hrd.
    unfold upon_proposal. destruct (cadd_first (s_prop s) m) as [ct added].
    destruct added; cbn [negb]; [|intros E; injection E as <- _ _; auto].
    set (s2 := set_round (set_acc (set_prop s ct) (Some m)) (c_round (co m))).
    assert (Hi2 : inst_inv c s2).
    { destruct Hi as (I1 & I2 & I3). unfold inst_inv, s2; cbn.
      assert (Hempty : cget (s_commit s) (c_round (co m)) = []).
      { destruct (cget (s_commit s) (c_round (co m))) eqn:Ec; [reflexivity|exfalso].
        assert (Hne : cget (s_commit s) (c_round (co m)) <> []) by (rewrite Ec; discriminate).
        destruct (I3 _ Hne) as [Hle Hlt]. destruct Hrd as [[Hn He]|Hgt]; [|lia].
        specialize (Hlt Hn). lia. }
      split; [intros p E; injection E as <-; auto|].
      split; [intros p x E Hin; rewrite Hempty in Hin; destruct Hin|].
      intros r0 Hne. destruct (I3 r0 Hne) as [Hle _]. split; [|intros E; discriminate].
      destruct Hrd as [[_ He]|Hgt]; lia. }
    destruct (can_process s2); intros E; injection E as <- _ _; auto.
  - destruct (N.eqb_spec (c_type (co m)) T_PREPARE) as [Ht1|Ht1].
    + (* prepare *)
      destruct (upon_prepare c s m) as [s1 o1] eqn:E1. intros E; injection E as <- _ _.
      assert (Hf : same_frame s s1).
      { revert E1. unfold upon_prepare. destruct (cadd_first (s_prep s) m) as [ct added].
        destruct added; cbn [negb]; [|intros E; injection E as <- _; unfold same_frame; auto].
        destruct (has_quorum c (cget (s_prep s) (s_round s))); [intros E; injection E as <- _; unfold same_frame; auto|].
        destruct (has_quorum c (cget ct (s_round s))); cbn [negb]; [|intros E; injection E as <- _; unfold same_frame; auto].
        destruct (s_acc s) eqn:Ea; intros E; injection E as <- _; unfold same_frame; cbn; auto. }
      split; [eapply inst_inv_frame; eauto|apply Hf].
    + destruct (N.eqb_spec (c_type (co m)) T_COMMIT) as [Ht2|Ht2].
      * (* commit *)
        destruct (bmv_commit _ _ _ Hv Ht2) as (p & Hp & Hvc).
        pose proof (validate_commit_ok _ _ _ _ _ Hvc) as Hcok.
        pose proof (validate_commit_round _ _ _ _ _ Hvc) as Hcr.
        assert (Hcore : forall s1 cr, upon_commit c s m = (s1, cr) ->
                  inst_inv c s1 /\ s_height s1 = s_height s /\ s_acc s1 = s_acc s /\ s_round s1 = s_round s).
        { intros s1 cr. unfold upon_commit.
          destruct (cadd_first (s_commit s) m) as [ct added] eqn:Ea.
          destruct added; cbn [negb]; [|intros E; injection E as <- _; auto].
          assert (Hi1 : inst_inv c (set_commit s ct)).
          { destruct Hi as (I1 & I2 & I3). unfold inst_inv; cbn.
            split; [exact I1|]. split.
            - intros p0 x E Hin. destruct (cadd_first_cget _ _ _ _ (s_round s) Ea x Hin) as [Hold|[Hxm _]].
              + apply (I2 p0 x E Hold).
              + subst x. rewrite Hp in E. injection E as <-. exact Hcok.
            - intros r0 Hne. unfold cadd_first in Ea. destruct (existsb _ _); injection Ea as Ea; subst ct; [auto|].
              destruct (cget_nonempty_cput _ _ _ _ Hne) as [Hold|Hr0]; [auto|]. subst r0.
              rewrite Hcr. split; [lia|]. rewrite Hp. discriminate. }
          destruct (longest_unique ct _ _) as [sg ms]. rewrite Hp. destruct (quorum c <=? _).
          - destruct (aggregate_commits _ _ _); intros E; injection E as <- _; cbn; auto.
          - intros E; injection E as <- _; cbn; auto. }
        destruct (upon_commit c s m) as [s1 [| |v agg]] eqn:E1; intros E; injection E as <- _ _;
          destruct (Hcore _ _ eq_refl) as (A & B & C & D); auto.
      * (* round change *)
        destruct (upon_round_change c s m) as [[[s1 o1] ok]|] eqn:E1;
          [|intros E; injection E as <- _ _; auto].
        intros E; injection E as <- _ _. revert E1. unfold upon_round_change.
        destruct (cadd_first (s_rc s) m) as [ct added].
        destruct added; cbn [negb]; [|intros E; injection E as <- _ _; auto].
        destruct (has_quorum c (cget (s_rc s) _)).
        { intros E; injection E as <- _ _. split; [|reflexivity]. eapply inst_inv_frame; [|exact Hi]. unfold same_frame; cbn; auto. }
        destruct (if has_quorum c _ then _ else _) as [[[jm v]|]|]; [| |discriminate].
        { intros E; injection E as <- _ _. split; [|reflexivity]. eapply inst_inv_frame; [|exact Hi]. unfold same_frame; cbn; auto. }
        cbn [s_round set_rc set_containers].
        destruct (has_partial_quorum c _).
        2:{ intros E; injection E as <- _ _. split; [|reflexivity]. eapply inst_inv_frame; [|exact Hi]. unfold same_frame; cbn; auto. }
        destruct (N.leb_spec (min_round (filter (fun x => s_round s <? c_round (co x)) (call ct)) NO_ROUND) (s_round s)).
        { intros E; injection E as <- _ _. split; [|reflexivity]. eapply inst_inv_frame; [|exact Hi]. unfold same_frame; cbn; auto. }
        destruct (can_process _); intros E; injection E as <- _ _; (split; [|reflexivity]);
          eapply inst_inv_bump; eauto.
Qed.

Lemma upon_timeout_inst_inv c s s' o ok : inst_inv c s -> upon_timeout c s = (s', o, ok) ->
  inst_inv c s' /\ s_height s' = s_height s.
Proof.
  intros Hi. unfold upon_timeout. destruct (can_process s); cbn [negb]; intros E; injection E as <- _ _; auto.
  split; [|reflexivity]. eapply (inst_inv_bump c s _ (s_round s + 1)); eauto. lia.
Qed.

Lemma cget_cfilter_below k ct r : r < k -> cget (Compact.cfilter k ct) r = [].
Proof.
  intros H. induction ct as [|[r' l] tl IH]; [reflexivity|].
  rewrite Compact.cfilter_cons. destruct (N.ltb_spec r' k); [exact IH|].
  cbn [cget]. destruct (N.eqb_spec r' r); [lia|exact IH].
Qed.

Lemma compact_inst_inv c s : s_decided s = false -> inst_inv c s -> inst_inv c (compact s).
Proof.
  intros Hd (I1 & I2 & I3). unfold inst_inv.
  change (s_commit (compact s)) with (Compact.cfilter (s_round s) (s_commit s)).
  change (s_acc (compact s)) with (s_acc s). change (s_round (compact s)) with (s_round s).
  change (s_height (compact s)) with (s_height s).
  split; [exact I1|]. split.
  - intros p m E Hin. rewrite Compact.cget_cfilter in Hin by lia. eauto.
  - intros r Hne. destruct (N.ltb_spec r (s_round s)) as [Hlt|Hge].
    + rewrite cget_cfilter_below in Hne by exact Hlt. contradiction.
    + rewrite Compact.cget_cfilter in Hne by exact Hge. auto.
Qed.

(* ---- the controller level ----------------------------------------------------------------------------- *)

(* the instance invariant matters only while the instance is undecided *)
Definition ginv (c : cfg) (s : state) : Prop := s_decided s = false -> inst_inv c s.

Lemma new_instance_ginv c h : ginv c (new_instance h).
Proof.
  intros _. unfold inst_inv; cbn. split; [intros p E; discriminate|]. split; [intros p m E; discriminate|].
  intros r Hne. contradiction Hne. reflexivity.
Qed.

Lemma process_msg_decided_mono c s m s' o r : process_msg c s m = (s', o, r) -> s_decided s = true -> s_decided s' = true.
Proof.
  unfold process_msg. destruct (can_process s); cbn [negb]; [|intros E; injection E as <- _ _; auto].
  destruct (base_msg_validation c s m) as [[|]|]; try (intros E; injection E as <- _ _; auto).
  destruct (c_type (co m) =? T_PROPOSAL).
  { unfold upon_proposal. destruct (cadd_first _ _) as [ct [|]]; cbn [negb];
      [destruct (can_process _)|]; intros E; injection E as <- _ _; auto. }
  destruct (c_type (co m) =? T_PREPARE).
  { unfold upon_prepare. destruct (cadd_first _ _) as [ct [|]]; cbn [negb]; [|intros E; injection E as <- _ _; auto].
    destruct (has_quorum c (cget (s_prep s) (s_round s))); [intros E; injection E as <- _ _; auto|].
    destruct (has_quorum c (cget ct (s_round s))); cbn [negb]; [|intros E; injection E as <- _ _; auto].
    destruct (s_acc s); intros E; injection E as <- _ _; auto. }
  destruct (c_type (co m) =? T_COMMIT).
  { destruct (upon_commit c s m) as [s1 cr] eqn:E1.
    assert (Hd : s_decided s1 = s_decided s).
    { revert E1. unfold upon_commit. destruct (cadd_first _ _) as [ct [|]]; cbn [negb]; [|intros E; injection E as <- _; auto].
      destruct (longest_unique ct _ _) as [sg ms]. destruct (quorum c <=? _);
        [destruct (s_acc s); [destruct (aggregate_commits _ _ _)|]|]; intros E; injection E as <- _; auto. }
    destruct cr; intros E; injection E as <- _ _; cbn; auto; congruence. }
  destruct (upon_round_change c s m) as [[[s1 o1] ok]|] eqn:E1; [|intros E; injection E as <- _ _; auto].
  intros E; injection E as <- _ _. revert E1. unfold upon_round_change.
  destruct (cadd_first _ _) as [ct [|]]; cbn [negb]; [|intros E; injection E as <- _ _; auto].
  destruct (has_quorum c (cget (s_rc s) _)); [intros E; injection E as <- _ _; auto|].
  destruct (if has_quorum c _ then _ else _) as [[[jm v]|]|]; [| |discriminate].
  { intros E; injection E as <- _ _; auto. }
  cbn [s_round set_rc set_containers]. destruct (has_partial_quorum c _); [|intros E; injection E as <- _ _; auto].
  destruct (_ <=? s_round s); [intros E; injection E as <- _ _; auto|].
  destruct (can_process _); intros E; injection E as <- _ _; auto.
Qed.

Lemma ctl_process_ginv c s m s' o r : ginv c s -> ctl_process c s m = (s', o, r) -> ginv c s'.
Proof.
  intros Hg. unfold ctl_process. destruct (negb (c_ident (co m) =? 0)); [intros E; injection E as <- _ _; auto|].
  destruct (is_decided_msg c m).
  - destruct (negb (validate_decided c m)); [intros E; injection E as <- _ _; auto|].
    destruct (negb (c_height (co m) =? s_height s)); [intros E; injection E as <- _ _; auto|].
    unfold upon_decided. destruct (s_decided s) eqn:Ed.
    + destruct (longest_unique _ _ _) as [sg ms]. destruct (Nat.ltb _ _); intros E; injection E as <- _ _;
        intros Hd; cbn in Hd; congruence.
    + intros E; injection E as <- _ _. intros Hd; cbn in Hd; discriminate.
  - destruct (s_height s <? c_height (co m)); [intros E; injection E as <- _ _; auto|].
    destruct (negb (c_height (co m) =? s_height s)); [intros E; injection E as <- _ _; auto|].
    destruct (process_msg c s m) as [[s1 o1] r1] eqn:E1.
    assert (Hg1 : ginv c s1).
    { intros Hd. destruct (s_decided s) eqn:Ed.
      - rewrite (process_msg_decided_mono _ _ _ _ _ _ E1 Ed) in Hd. discriminate.
      - apply (process_msg_inst_inv _ _ _ _ _ _ (Hg Ed) E1). }
    destruct r1 as [|d v agg|]; try (intros E; injection E as <- _ _; exact Hg1).
    destruct d; cbn [negb]; [|intros E; injection E as <- _ _; exact Hg1].
    destruct agg; intros E; injection E as <- _ _; exact Hg1.
Qed.

Lemma runner_process_ginv c s m s' o r : ginv c s -> runner_process c s m = (s', o, r) -> ginv c s'.
Proof.
  intros Hg. unfold runner_process. destruct (ctl_process c s m) as [[s1 o1] r1] eqn:E1.
  pose proof (ctl_process_ginv _ _ _ _ _ _ Hg E1) as Hg1.
  destruct (needs_compact c s1 m); intros E; injection E as <- _ _; [|exact Hg1].
  intros Hd. change (s_decided (compact s1)) with (s_decided s1) in Hd.
  apply compact_inst_inv; [exact Hd|apply Hg1; exact Hd].
Qed.

(* A decision reported for anything but a decided message was reached by counting commits: it is a
   certificate, its value passed the operator's own value check and was proposed by the legitimate
   leader of the decision's round, and every listed signer sent a validated commit for exactly that
   (height, round, root). *)
Theorem local_decision_certified c s m s' o d :
  ginv c s -> is_decided_msg c m = false -> ctl_process c s m = (s', o, CRDecided d) ->
  certificate c d /\
  exists p, s_acc s = Some p /\ proposal_ok c (s_height s) p /\
    c_round (co p) = c_round (co d) /\ c_root (co p) = c_root (co d) /\ c_full (co p) = c_full (co d) /\
    c_height (co d) = s_height s /\
    forall x, In x (c_signers (co d)) ->
      exists cm, c_signers (co cm) = [x] /\ commit_ok c (s_height s) (c_round (co d)) (c_root (co d)) cm.
Proof.
  intros Hg Hnd. unfold ctl_process. destruct (negb (c_ident (co m) =? 0)); [discriminate|]. rewrite Hnd.
  destruct (s_height s <? c_height (co m)); [discriminate|].
  destruct (negb (c_height (co m) =? s_height s)); [discriminate|].
  destruct (process_msg c s m) as [[s1 o1] r1] eqn:E1. destruct r1 as [|dd v agg|]; try discriminate.
  destruct dd; cbn [negb]; [|discriminate]. destruct agg as [a|]; [|discriminate].
  destruct (s_decided s) eqn:Ed; [discriminate|]. intros E; injection E as _ _ <-.
  specialize (Hg Ed). revert E1. unfold process_msg.
  destruct (can_process s); cbn [negb]; [|discriminate].
  destruct (base_msg_validation c s m) as [[|]|] eqn:Hv; try discriminate.
  destruct (c_type (co m) =? T_PROPOSAL).
  { destruct (upon_proposal c s m) as [[? ?] [|]]; discriminate. }
  destruct (c_type (co m) =? T_PREPARE).
  { destruct (upon_prepare c s m) as [? ?]; discriminate. }
  destruct (N.eqb_spec (c_type (co m)) T_COMMIT) as [Ht|Ht].
  2:{ destruct (upon_round_change c s m) as [[[? ?] [|]]|]; discriminate. }
  destruct (bmv_commit _ _ _ Hv Ht) as (p & Hp & Hvc).
  pose proof (validate_commit_ok _ _ _ _ _ Hvc) as Hcok.
  pose proof (validate_commit_round _ _ _ _ _ Hvc) as Hcr.
  unfold upon_commit. destruct (cadd_first (s_commit s) m) as [ct added] eqn:Ea.
  destruct added; cbn [negb]; [|discriminate].
  rewrite Hp.
  destruct Hg as (I1 & I2 & I3). destruct (I1 p Hp) as [Hpok Hpr].
  assert (Hall : forall x, In x (cget ct (c_round (co m))) -> commit_ok c (s_height s) (s_round s) (c_root (co p)) x).
  { intros x Hin. rewrite Hcr in Hin. destruct (cadd_first_cget _ _ _ _ (s_round s) Ea x Hin) as [Hold|[Hxm _]]; [eauto|subst x; exact Hcok]. }
  pose proof (longest_unique_spec ct (c_round (co m)) (c_root (co m))
                (commit_ok c (s_height s) (s_round s) (c_root (co p)))) as Hsel.
  destruct (longest_unique ct (c_round (co m)) (c_root (co m))) as [sg ms].
  destruct Hsel as (S1 & S2 & S3).
  { intros x Hx. destruct (Hall x Hx) as (_ & _ & _ & _ & Hl & _ & _).
    destruct (c_signers (co x)) as [|y [|z t]]; try discriminate. constructor; [intros []|constructor]. }
  { exact Hall. }
  cbn [fst snd] in *.
  destruct (N.leb_spec (quorum c) (N.of_nat (length sg))) as [Hq|]; [|discriminate].
  destruct (aggregate_commits c ms (c_full (co p))) as [agg|] eqn:Eagg; [|discriminate].
  intros E; injection E as _ _ _ <-.
  pose proof Hpok as Hpok'. destruct Hpok as (Pt & Ph & Pl & Ps & Phash & Pv).
  destruct (aggregate_certificate c ms (c_full (co p)) agg (s_height s) (s_round s) (c_root (co p)) Eagg) as (C1 & C2 & C3 & C4 & C5 & C6).
  { rewrite <- S1. exact S2. }
  { rewrite <- S1. exact Hq. }
  { intros x Hx. apply S3. exact Hx. }
  { exact Phash. }
  split; [exact C1|]. exists p.
  split; [reflexivity|]. split; [exact Hpok'|].
  split; [congruence|]. split; [congruence|]. split; [congruence|]. split; [exact C4|].
  intros x Hx. apply C6 in Hx. destruct Hx as (cm & Hcm & Es). exists cm. split; [exact Es|].
  rewrite C2, C3. apply S3. exact Hcm.
Qed.

(* ---- histories at the controller level ------------------------------------------------------------------ *)

Definition no_cstart (ops : list cop) : Prop := forall v, ~ In (CStart v) ops.

Lemma on_timeout_ginv c s h r s' o ok : ginv c s -> on_timeout c s h r = (s', o, ok) -> ginv c s'.
Proof.
  intros Hg. unfold on_timeout. destruct (negb (h =? s_height s)); [intros E; injection E as <- _ _; auto|].
  destruct (r <? s_round s); [intros E; injection E as <- _ _; auto|].
  destruct (s_decided s) eqn:Ed; [intros E; injection E as <- _ _; auto|].
  intros E Hd. apply (upon_timeout_inst_inv _ _ _ _ _ (Hg Ed) E).
Qed.

Lemma crun_ginv c : forall ops s, ginv c s -> no_cstart ops -> ginv c (fst (crun c s ops)).
Proof.
  induction ops as [|o ops IH]; intros s Hg Hns; [exact Hg|].
  assert (Hns' : no_cstart ops) by (intros v Hin; apply (Hns v); right; exact Hin).
  cbn [crun]. destruct (cstep c s o) as [s1 b] eqn:E1.
  assert (Hg1 : ginv c s1).
  { destruct o as [v|m|h r]; cbn [cstep] in E1.
    - exfalso. apply (Hns v). left. reflexivity.
    - destruct (runner_process c s m) as [[s2 o2] r2] eqn:E2. injection E1 as <- _.
      eapply runner_process_ginv; eauto.
    - destruct (on_timeout c s h r) as [[s2 o2] ok] eqn:E2. injection E1 as <- _.
      eapply on_timeout_ginv; eauto. }
  specialize (IH s1 Hg1 Hns'). destruct (crun c s1 ops). exact IH.
Qed.

Lemma started_instance_ginv c h v s o : start c (new_instance h) v h = Some (s, o) -> ginv c s.
Proof.
  unfold start. cbn. destruct (proposer c h FIRST_ROUND); [|discriminate].
  intros E; injection E as <- _. intros _. unfold inst_inv; cbn.
  split; [intros p E; discriminate|]. split; [intros p m E; discriminate|].
  intros r Hne. contradiction Hne. reflexivity.
Qed.

(* what the runner adds after ProcessMsg does not change the reported decision *)
Lemma runner_process_result c s m s' o r : runner_process c s m = (s', o, r) ->
  exists s1, ctl_process c s m = (s1, o, r).
Proof.
  unfold runner_process. destruct (ctl_process c s m) as [[s1 o1] r1].
  destruct (needs_compact c s1 m); intros E; injection E as _ <- <-; eauto.
Qed.

(* Messages for another identifier never reach the instance. *)
Lemma foreign_identifier_rejected c s m : c_ident (co m) <> 0 -> ctl_process c s m = (s, [], CRErr).
Proof.
  intros H. unfold ctl_process. destruct (N.eqb_spec (c_ident (co m)) 0); [contradiction|reflexivity].
Qed.
