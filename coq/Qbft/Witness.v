(* Concrete histories: non-vacuity examples and the refutation witness for compaction after a
   decision (finding F4). *)
From Coq Require Import List NArith ZArith Bool.
From SSV Require Import Qbft.Model Qbft.Compact Qbft.CompactSim.
Import ListNotations.
Local Open Scope N_scope.

Definition w_cfg : cfg :=
  {| committee := [1; 2; 3; 4]; me := 2; quorum := 3; partial_quorum := 2; bad_values := [4; 9];
     var := node_variant |}.

Definition mk (ty r root dr signer : N) (full : option N) : smsg :=
  SM {| c_type := ty; c_height := 0; c_round := r; c_root := root; c_data_round := dr;
        c_signers := [signer]; c_full := full; c_sig_ok := true; c_fmt_ok := true; c_ident := 0 |} [] [].

Definition w_root := hash (Some 5).
Definition w_proposal := mk T_PROPOSAL 1 w_root 0 1 (Some 5).
Definition w_prepare (i : N) := mk T_PREPARE 1 w_root 0 i None.
Definition w_commit (i : N) := mk T_COMMIT 1 w_root 0 i None.
Definition w_rc (i r : N) := mk T_ROUNDCHANGE r ZERO_ROOT 0 i None.

(* decide in round 1, compact, then the same three prepares again *)
Definition f4_ops : list op :=
  [ OMsg w_proposal; OMsg (w_prepare 1); OMsg (w_prepare 3); OMsg (w_prepare 4);
    OMsg (w_commit 1); OMsg (w_commit 3); OMsg (w_commit 4);
    OCompact;
    OMsg (w_prepare 1); OMsg (w_prepare 3); OMsg (w_prepare 4) ].

Lemma f4_decides : s_decided (fst (run w_cfg (new_instance 0) (firstn 7 f4_ops))) = true.
Proof. vm_compute. reflexivity. Qed.

(* with the compaction the instance broadcasts a second commit; without it, nothing *)
Lemma f4_outputs_differ :
  erase_obs (snd (run w_cfg (new_instance 0) f4_ops)) <> snd (run w_cfg (new_instance 0) (erase f4_ops)).
Proof. intro H. vm_compute in H. discriminate H. Qed.

Lemma f4_last_output_with_compaction :
  nth_error (snd (run w_cfg (new_instance 0) f4_ops)) 10
  = Some (BMsg (POk true (Some 5) None) [OBcast (mk T_COMMIT 1 w_root 0 2 None)]).
Proof. vm_compute. reflexivity. Qed.

(* an undecided history with compactions at three points, reaching round 3 through a timeout and a
   partial round-change quorum: meets the hypotheses of the simulation theorem *)
Definition ok_ops : list op :=
  [ OMsg w_proposal; OCompact; OMsg (w_prepare 1); OTimeout; OCompact;
    OMsg (w_rc 3 3); OMsg (w_rc 4 3); OCompact; OMsg (w_prepare 3) ].

Lemma ok_ops_hypotheses :
  wfs (new_instance 0) /\ no_start ok_ops /\
  undecided_compactions w_cfg (new_instance 0) ok_ops = true /\
  s_round (fst (run w_cfg (new_instance 0) ok_ops)) = 3.
Proof.
  split; [|split; [|split]].
  - unfold wfs, wfc; cbn. repeat split; try (intros ? ? []); discriminate.
  - intros v H. cbn in H. repeat (destruct H as [H|H]; [discriminate H|]). exact H.
  - vm_compute. reflexivity.
  - vm_compute. reflexivity.
Qed.
