(* The committee as a whole: honest operators running the node's controller + runner compaction
   (Qbft/Controller.v) for ONE height, up to f Byzantine operators, and an asynchronous network.
   Definitions only.

   Signatures are ideal.  The network (= the adversary) may deliver to an honest operator any message
   m whatsoever, in any order, any number of times, provided that every part of m whose signature
   verifies was really signed: all its signers are committee members, and each HONEST signer has
   itself broadcast a message with the same signed content.  Loss, duplication, reordering, selective
   delivery, equivocation and forged justification sets are all inside this relation. *)
From Coq Require Import List NArith ZArith Bool.
From SSV Require Import Qbft.Model Qbft.Controller.
Import ListNotations.
Local Open Scope N_scope.

Section System.
Variable c0 : cfg.                 (* committee, quorum, value check; [me] is irrelevant *)
Variable byz : N -> bool.          (* the Byzantine operators *)
Variable h : N.                    (* the height *)

Definition cfg_of (i : N) : cfg :=
  {| committee := committee c0; me := i; quorum := quorum c0; partial_quorum := partial_quorum c0;
     bad_values := bad_values c0; var := var c0 |}.

Definition honest (i : N) : Prop := In i (committee c0) /\ byz i = false.

(* the content covered by a signature, as far as the protocol reads it *)
Definition same_content (y x : smsg) : Prop :=
  c_type (co y) = c_type (co x) /\ c_height (co y) = c_height (co x) /\ c_round (co y) = c_round (co x) /\
  c_root (co y) = c_root (co x) /\ c_data_round (co y) = c_data_round (co x).

(* x's signature is genuine w.r.t. what honest operators have broadcast *)
Definition sig_genuine (sent : list smsg) (x : smsg) : Prop :=
  forall s, In s (c_signers (co x)) ->
    In s (committee c0) /\
    (byz s = false -> exists y, In y sent /\ c_signers (co y) = [s] /\ same_content y x).

(* the parts of a message the validation looks at *)
Definition parts (m : smsg) : list smsg := m :: rcj m ++ pj m ++ flat_map rcj (rcj m).

Definition admissible (sent : list smsg) (m : smsg) : Prop :=
  forall x, In x (parts m) -> c_sig_ok (co x) = true -> sig_genuine sent x.

(* global state: the instance of every operator (only honest ones matter) and the chronological list
   of everything honest operators have broadcast *)
Record sys := { st : N -> state; sent : list smsg }.

Definition upd (f : N -> state) (i : N) (s : state) : N -> state :=
  fun j => if j =? i then s else f j.

Definition bcast_of (o : list out) : list smsg :=
  flat_map (fun x => match x with OBcast m => [m] | OTimer _ _ => [] end) o.

(* UponDecided would move the round of a not yet decided instance BACKWARDS (finding F6) *)
Definition rewinds (c : cfg) (s : state) (m : smsg) : bool :=
  is_decided_msg c m && validate_decided c m && (c_ident (co m) =? 0) && (c_height (co m) =? s_height s)
  && negb (s_decided s) && (c_round (co m) <? s_round s).

Inductive label :=
| LDeliver (i : N) (m : smsg)
| LTimeout (i : N).

Definition sys_step (g : sys) (l : label) : sys :=
  match l with
  | LDeliver i m =>
      let '(s', o, _) := runner_process (cfg_of i) (st g i) m in
      {| st := upd (st g) i s'; sent := sent g ++ bcast_of o |}
  | LTimeout i =>
      let s := st g i in
      let '(s', o, _) := on_timeout (cfg_of i) s (s_height s) (s_round s) in
      {| st := upd (st g) i s'; sent := sent g ++ bcast_of o |}
  end.

(* what the operator reports for this step *)
Definition reported (g : sys) (l : label) : option smsg :=
  match l with
  | LDeliver i m =>
      match runner_process (cfg_of i) (st g i) m with
      | (_, _, CRDecided d) => Some d
      | _ => None
      end
  | LTimeout _ => None
  end.

(* every operator starts the instance with some value that passes its value check *)
Definition started (vs : N -> option N) (i : N) : state * list out :=
  match start (cfg_of i) (new_instance h) (vs i) h with
  | Some r => r
  | None => (new_instance h, [])
  end.

Definition init (vs : N -> option N) : sys :=
  {| st := fun i => fst (started vs i);
     sent := flat_map (fun i => bcast_of (snd (started vs i))) (committee c0) |}.

Definition enabled (g : sys) (l : label) : Prop :=
  match l with
  | LDeliver i m => honest i /\ admissible (sent g) m
  | LTimeout i => honest i
  end.

(* no step rewinds an undecided instance (the hypothesis that characterises finding F6) *)
Definition no_rewind (g : sys) (l : label) : Prop :=
  match l with
  | LDeliver i m => rewinds (cfg_of i) (st g i) m = false
  | LTimeout _ => True
  end.

Fixpoint run_sys (g : sys) (tr : list label) : sys :=
  match tr with [] => g | l :: tl => run_sys (sys_step g l) tl end.

(* a trace all of whose steps are enabled (and, optionally, rewind-free) from g *)
Fixpoint valid_trace (P : sys -> label -> Prop) (g : sys) (tr : list label) : Prop :=
  match tr with
  | [] => True
  | l :: tl => enabled g l /\ P g l /\ valid_trace P (sys_step g l) tl
  end.

(* decisions reported along a trace: (operator, decided message) *)
Fixpoint reports (g : sys) (tr : list label) : list (N * smsg) :=
  match tr with
  | [] => []
  | l :: tl =>
      (match l, reported g l with
       | LDeliver i _, Some d => [(i, d)]
       | _, _ => []
       end) ++ reports (sys_step g l) tl
  end.

End System.
