(* C01: agreement of the decisions reported along every rewind-free execution of the committee. *)
From Coq Require Import List NArith ZArith Bool Lia.
From SSV Require Import Qbft.Model Qbft.Controller Qbft.System Qbft.DecidedProofs Qbft.SafetyCore Qbft.SafetyInv.
Import ListNotations.
Local Open Scope N_scope.

Section Safety.
Variable c0 : cfg.
Variable byz : N -> bool.
Variable h : N.
Variable f : nat.
Hypothesis Hnd : NoDup (committee c0).
Hypothesis Hsize : length (committee c0) = (3 * f + 1)%nat.
Hypothesis Hbyz : (length (filter byz (committee c0)) <= f)%nat.
Hypothesis Hq : quorum c0 = N.of_nat (2 * f + 1).
Hypothesis Hf : (1 <= f)%nat.
Hypothesis Hverify : v_verify (var c0) = true.

Notation ginv := (SafetyCore.ginv (committee c0) byz (quorum c0)).
Notation linv := (SafetyInv.linv c0 byz h).
Notation new_ok := (SafetyInv.new_ok c0 byz).
Notation CQ := (SafetyCore.CQ (committee c0) byz (quorum c0)).

Ltac clash := exfalso; unfold T_PROPOSAL, T_PREPARE, T_COMMIT, T_ROUNDCHANGE in *; congruence.

Lemma snoc_split {A} (l : list A) a s1 y s2 : l ++ [a] = s1 ++ y :: s2 ->
  (s2 = [] /\ y = a /\ s1 = l) \/ (exists s2', s2 = s2' ++ [a] /\ l = s1 ++ y :: s2').
Proof.
  intros E. destruct s2 as [|x s2'].
  - left. apply app_inj_tail in E. destruct E as [-> ->]. auto.
  - right. destruct (exists_last (l := x :: s2')) as (t' & b' & Et'); [discriminate|].
    rewrite Et' in E.
    replace (s1 ++ y :: t' ++ [b']) with ((s1 ++ y :: t') ++ [b']) in E by (rewrite <- app_assoc; reflexivity).
    apply app_inj_tail in E. destruct E as [-> ->].
    exists t'. split; [exact Et'|reflexivity].
Qed.

(* ---- the global facts survive a step ---------------------------------------------------------------------- *)

Lemma ginv_extend snt i news : byz i = false -> ginv snt -> new_ok snt i news -> ginv (snt ++ news).
Proof.
  intros Hbi G [Nsingle Nforeign Nprep Ncommit Nrc].
  destruct news as [|y0 [|y1 tl]]; [rewrite app_nil_r; exact G| |cbn in Nsingle; lia].
  assert (Hincl : incl snt (snt ++ [y0])) by apply incl_app_l.
  assert (Hin0 : In y0 [y0]) by (left; reflexivity).
  destruct G as [G1 G2 G3 G4 G5]. constructor.
  - intros k y y' Hb Hy Hy' By By' Hr.
    apply in_snoc in Hy. apply in_snoc in Hy'.
    destruct Hy as [Hy| ->], Hy' as [Hy'| ->]; [eauto| | |reflexivity].
    + pose proof (Nforeign y0 k _ Hin0 By') as ->. destruct (Nprep y0 Hin0 By') as (_ & Hfresh & _).
      exfalso. apply (Hfresh y Hy By). exact Hr.
    + pose proof (Nforeign y0 k _ Hin0 By) as ->. destruct (Nprep y0 Hin0 By) as (_ & Hfresh & _).
      exfalso. apply (Hfresh y' Hy' By'). symmetry. exact Hr.
  - intros k y Hb Hy By. apply in_snoc in Hy. destruct Hy as [Hy| ->].
    + eapply quorum_of_mono; [exact Hincl|]. eapply G2; eauto.
    + pose proof (Nforeign y0 k _ Hin0 By) as ->. destruct (Ncommit y0 Hin0 By) as [Hpq _].
      eapply quorum_of_mono; [exact Hincl|exact Hpq].
  - intros k s1 y s2 Hb E By Hne. apply snoc_split in E. destruct E as [(-> & -> & ->)|(s2' & -> & ->)].
    + pose proof (Nforeign y0 k _ Hin0 By) as ->. destruct (Nprep y0 Hin0 By) as (_ & _ & Hev). auto.
    + eapply G3; eauto.
  - intros k z y Hb Hz Hy Bz By Hlt. apply in_snoc in Hz. apply in_snoc in Hy.
    destruct Hz as [Hz| ->], Hy as [Hy| ->].
    + eauto.
    + pose proof (Nforeign y0 k _ Hin0 By) as ->. destruct (Ncommit y0 Hin0 By) as [_ Hle].
      specialize (Hle z Hz Bz). lia.
    + pose proof (Nforeign y0 k _ Hin0 Bz) as ->. eapply Nrc; eauto.
    + destruct Bz as [_ T]. destruct By as [_ T']. clash.
  - intros k y Hb Hy By. apply in_snoc in Hy. destruct Hy as [Hy| ->]; [eauto|].
    pose proof (Nforeign y0 k _ Hin0 By) as ->. apply (Nprep y0 Hin0 By).
Qed.

(* ---- the system invariant ------------------------------------------------------------------------------------- *)

Definition Inv (g : sys) : Prop :=
  ginv (sent g) /\ forall i, honest c0 byz i -> linv (sent g) i (st g i).

Lemma others_keep_linv snt i news j s : j <> i -> new_ok snt i news -> linv snt j s -> linv (snt ++ news) j s.
Proof.
  intros Hne N L. eapply linv_mono; [apply incl_app_l| |exact L].
  intros y Hy P. apply in_app_or in Hy. destruct Hy as [Hy|Hy]; [exact Hy|].
  exfalso. destruct N as [_ Nforeign _ _ _].
  destruct P as [B|[B|B]]; apply Hne; apply (Nforeign y j _ Hy B).
Qed.

Lemma upd_same fn i s : upd fn i s i = s.
Proof. unfold upd. rewrite N.eqb_refl. reflexivity. Qed.
Lemma upd_other fn i s j : j <> i -> upd fn i s j = fn j.
Proof. intros H. unfold upd. destruct (N.eqb_spec j i); [contradiction|reflexivity]. Qed.

Lemma step_Inv g l : Inv g -> enabled c0 byz g l -> no_rewind c0 g l ->
  Inv (sys_step c0 g l) /\
  (forall d, reported c0 g l = Some d ->
     exists rr rho, CQ (sent g) rr rho /\ c_root (co d) = rho /\ hash (c_full (co d)) = rho).
Proof.
  intros [G L] En Nr. destruct l as [i m|i]; cbn [sys_step reported enabled no_rewind] in *.
  - destruct En as [Hi Hadm].
    destruct (runner_process (cfg_of c0 i) (st g i) m) as [[s' o] r] eqn:E.
    destruct (runner_process_linv c0 byz h f Hsize Hbyz Hq Hf Hverify i (sent g) (st g i) m s' o r (L i Hi) Hadm Nr E) as (A & B & C).
    split.
    + split; cbn [sent st].
      * eapply ginv_extend; eauto. apply Hi.
      * intros j Hj. destruct (N.eq_dec j i) as [->|Hne]; [rewrite upd_same; exact A|].
        rewrite upd_other by exact Hne. eapply others_keep_linv; eauto.
    + intros d Hd. destruct r; try discriminate. injection Hd as <-. apply C. reflexivity.
  - destruct (on_timeout (cfg_of c0 i) (st g i) (s_height (st g i)) (s_round (st g i))) as [[s' o] ok] eqn:E.
    destruct (on_timeout_linv c0 byz h f Hsize Hbyz Hq Hf i (sent g) (st g i) s' o ok (L i En) E) as (A & B).
    split; [|intros d Hd; discriminate].
    split; cbn [sent st].
    + eapply ginv_extend; eauto. apply En.
    + intros j Hj. destruct (N.eq_dec j i) as [->|Hne]; [rewrite upd_same; exact A|].
      rewrite upd_other by exact Hne. eapply others_keep_linv; eauto.
Qed.

(* ---- the initial state ------------------------------------------------------------------------------------------ *)

Lemma started_shape vs i :
  let '(s, o) := started c0 h vs i in
  s_height s = h /\ s_round s = FIRST_ROUND /\ s_lpr s = NO_ROUND /\ s_acc s = None /\
  s_prep s = [] /\ s_commit s = [] /\
  forall y, In y (bcast_of o) -> forall j ty, by_ j ty y -> ty = T_PROPOSAL.
Proof.
  unfold started, start. cbn [new_instance s_started].
  destruct (proposer (cfg_of c0 i) h FIRST_ROUND) as [ld|]; cbn.
  - repeat split; auto. destruct ((ld =? i) && _); cbn; [|intros ? []].
    intros y [<-|[]] j ty [_ T]. cbn in T. auto.
  - repeat split; auto. intros ? [].
Qed.

Lemma init_only_proposals vs y : In y (sent (init c0 h vs)) -> forall j ty, by_ j ty y -> ty = T_PROPOSAL.
Proof.
  unfold init; cbn [sent]. intros Hy. apply in_flat_map in Hy. destruct Hy as (i & _ & Hy).
  pose proof (started_shape vs i) as Hs. destruct (started c0 h vs i) as [s o]. cbn [snd] in Hy.
  destruct Hs as (_ & _ & _ & _ & _ & _ & Hs). apply Hs. exact Hy.
Qed.

Lemma Inv_init vs : Inv (init c0 h vs).
Proof.
  split.
  - constructor.
    + intros i y y' _ Hy _ By _ _. pose proof (init_only_proposals vs y Hy _ _ By). clash.
    + intros i y _ Hy By. pose proof (init_only_proposals vs y Hy _ _ By). clash.
    + intros i s1 y s2 _ E By _.
      assert (Hy : In y (sent (init c0 h vs))) by (rewrite E; apply in_or_app; right; left; reflexivity).
      pose proof (init_only_proposals vs y Hy _ _ By). clash.
    + intros k z y _ Hz _ Bz _ _. pose proof (init_only_proposals vs z Hz _ _ Bz). clash.
    + intros i y _ Hy By. pose proof (init_only_proposals vs y Hy _ _ By). clash.
  - intros i Hi. unfold init; cbn [st sent].
    pose proof (started_shape vs i) as Hs. destruct (started c0 h vs i) as [s o]. cbn [fst].
    destruct Hs as (S1 & S2 & S3 & S4 & S5 & S6 & _).
    set (snt := flat_map _ _).
    assert (Hp : forall y, In y snt -> forall j ty, by_ j ty y -> ty = T_PROPOSAL).
    { intros y Hy. apply (init_only_proposals vs y). exact Hy. }
    constructor; rewrite ?S1, ?S2, ?S3, ?S4, ?S5, ?S6; unfold FIRST_ROUND, NO_ROUND; cbn; try lia; auto;
      try (intros; discriminate).
    + intros y Hy By. pose proof (Hp y Hy _ _ By). clash.
    + intros y Hy By. pose proof (Hp y Hy _ _ By). clash.
    + intros y Hy By. pose proof (Hp y Hy _ _ By). clash.
Qed.

(* ---- executions -------------------------------------------------------------------------------------------------- *)

Lemma sent_grows : forall tr g, incl (sent g) (sent (run_sys c0 g tr)).
Proof.
  induction tr as [|l tl IH]; intros g; cbn [run_sys]; [apply incl_refl|].
  eapply incl_tran; [|apply IH].
  destruct l as [i m|i]; cbn [sys_step].
  - destruct (runner_process _ _ _) as [[? ?] ?]. cbn. apply incl_app_l.
  - destruct (on_timeout _ _ _ _) as [[? ?] ?]. cbn. apply incl_app_l.
Qed.

Lemma run_Inv : forall tr g, Inv g -> valid_trace c0 byz (no_rewind c0) g tr ->
  Inv (run_sys c0 g tr) /\
  forall i d, In (i, d) (reports c0 g tr) ->
    exists rr rho, CQ (sent (run_sys c0 g tr)) rr rho /\ c_root (co d) = rho /\ hash (c_full (co d)) = rho.
Proof.
  induction tr as [|l tl IH]; intros g HI Hv; cbn [run_sys reports valid_trace] in *.
  - split; [exact HI|]. intros i d [].
  - destruct Hv as (En & Nr & Hv'). destruct (step_Inv g l HI En Nr) as [HI' Hrep].
    destruct (IH _ HI' Hv') as [HIf Hreps]. split; [exact HIf|].
    intros i d Hin. apply in_app_or in Hin. destruct Hin as [Hin|Hin]; [|eauto].
    destruct l as [j m|j]; [|destruct Hin].
    destruct (reported c0 g (LDeliver j m)) as [d0|] eqn:Er; [|destruct Hin].
    destruct Hin as [E|[]]. injection E as <- <-.
    destruct (Hrep d0 eq_refl) as (rr & rho & C1 & C2 & C3). exists rr, rho. split; [|auto].
    eapply quorum_of_mono; [|exact C1]. apply (sent_grows (LDeliver j m :: tl) g).
Qed.

(* every decision reported along a rewind-free execution is backed by a commit quorum: at least 2f+1
   distinct committee members, every honest one of which has itself broadcast a commit for exactly
   that round and root, and the reported value hashes to that root *)
Theorem reported_decisions_have_quorum vs tr :
  valid_trace c0 byz (no_rewind c0) (init c0 h vs) tr ->
  forall i d, In (i, d) (reports c0 (init c0 h vs) tr) ->
    exists rr, CQ (sent (run_sys c0 (init c0 h vs) tr)) rr (c_root (co d)) /\ hash (c_full (co d)) = c_root (co d).
Proof.
  intros Hv i d Hin. destruct (run_Inv tr _ (Inv_init vs) Hv) as [_ Hrep].
  destruct (Hrep i d Hin) as (rr & rho & C & R & Hh). exists rr. subst rho. auto.
Qed.

Lemma hash_inj a b : hash a = hash b -> a = b.
Proof. destruct a as [x|], b as [y|]; unfold hash; intros E; try lia; [|reflexivity]. f_equal. lia. Qed.

(* Agreement: along every execution of the committee from the start of the instance - any start
   values, any interleaving of deliveries and timeouts, any admissible (in particular any Byzantine,
   correctly signed, equivocating) messages - in which no decided message rewinds the round of an
   undecided instance, any two decisions reported by honest operators carry the same value. *)
Theorem agreement vs tr :
  valid_trace c0 byz (no_rewind c0) (init c0 h vs) tr ->
  forall i d j d', In (i, d) (reports c0 (init c0 h vs) tr) -> In (j, d') (reports c0 (init c0 h vs) tr) ->
    c_full (co d) = c_full (co d').
Proof.
  intros Hv i d j d' H1 H2.
  destruct (run_Inv tr _ (Inv_init vs) Hv) as [[G _] Hrep].
  destruct (Hrep i d H1) as (r1 & rho1 & C1 & R1 & Hh1). destruct (Hrep j d' H2) as (r2 & rho2 & C2 & R2 & Hh2).
  assert (rho1 = rho2) by (eapply (certificates_agree (committee c0) byz f (quorum c0)); eauto).
  apply hash_inj. congruence.
Qed.

End Safety.

(* Instances of different heights do not interact: a message for another height is refused by the
   instance and leaves it untouched (every validity predicate compares the height first; signatures
   cover it). *)
Lemma other_height_refused c s m :
  can_process s = true -> c_height (co m) <> s_height s -> c_type (co m) <= T_ROUNDCHANGE ->
  process_msg c s m = (s, [], PErr).
Proof.
  intros Hc Hh Ht. unfold process_msg. rewrite Hc. cbn [negb].
  assert (Hv : base_msg_validation c s m = Some false).
  { unfold base_msg_validation.
    destruct (signed_validate (co m)); cbn [negb]; [|reflexivity].
    destruct (c_round (co m) <? s_round s); [reflexivity|].
    assert (Hne : (c_height (co m) =? s_height s) = false) by (apply N.eqb_neq; exact Hh).
    destruct (N.eqb_spec (c_type (co m)) T_PROPOSAL) as [E0|E0].
    - unfold valid_proposal. rewrite E0, Hne. reflexivity.
    - destruct (N.eqb_spec (c_type (co m)) T_PREPARE) as [E1|E1].
      + destruct (s_acc s); [|reflexivity]. unfold valid_prepare. rewrite E1, Hne. reflexivity.
      + destruct (N.eqb_spec (c_type (co m)) T_COMMIT) as [E2|E2].
        * destruct (s_acc s); [|reflexivity]. unfold validate_commit, base_commit_validation. rewrite E2, Hne. reflexivity.
        * destruct (N.eqb_spec (c_type (co m)) T_ROUNDCHANGE) as [E3|E3]; [|reflexivity].
          unfold valid_round_change. rewrite E3, Hne. reflexivity. }
  rewrite Hv. reflexivity.
Qed.
