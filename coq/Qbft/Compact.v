(* Compaction of an UNDECIDED instance commutes with every step of the instance and changes no output
   (C06, second sentence).  The relation: the compacted state is the uncompacted one with each
   container restricted to the rounds >= some bound that does not exceed the round the code reads. *)
From Coq Require Import List NArith ZArith Bool Lia.
From SSV Require Import Qbft.Model.
Import ListNotations.
Local Open Scope N_scope.

Definition cfilter (k : N) (ct : container) : container := filter (fun e => negb (fst e <? k)) ct.

Lemma ccompact_cfilter ct k : ccompact ct k false = cfilter k ct.
Proof. reflexivity. Qed.

Lemma cfilter_cons k r l tl :
  cfilter k ((r, l) :: tl) = if r <? k then cfilter k tl else (r, l) :: cfilter k tl.
Proof. unfold cfilter; cbn. destruct (r <? k); reflexivity. Qed.

Lemma cget_cfilter k ct r : k <= r -> cget (cfilter k ct) r = cget ct r.
Proof.
  intros Hk. induction ct as [|[r' l] tl IH]; [reflexivity|].
  rewrite cfilter_cons. cbn [cget].
  destruct (N.ltb_spec r' k) as [Hlt|Hge].
  - destruct (N.eqb_spec r' r) as [->|Hne]; [lia|exact IH].
  - cbn [cget]. destruct (N.eqb_spec r' r); [reflexivity|exact IH].
Qed.

Lemma cput_cfilter k ct r m : k <= r -> cput (cfilter k ct) r m = cfilter k (cput ct r m).
Proof.
  intros Hk. induction ct as [|[r' l] tl IH].
  - cbn. destruct (N.ltb_spec r k); [lia|reflexivity].
  - rewrite cfilter_cons. cbn [cput].
    destruct (N.eqb_spec r' r) as [->|Hne].
    + destruct (N.ltb_spec r k) as [Hlt|Hge]; [lia|].
      cbn [cput]. rewrite N.eqb_refl, cfilter_cons.
      destruct (N.ltb_spec r k); [lia|reflexivity].
    + rewrite cfilter_cons. destruct (N.ltb_spec r' k) as [Hlt|Hge].
      * exact IH.
      * cbn [cput]. destruct (N.eqb_spec r' r); [contradiction|]. rewrite IH. reflexivity.
Qed.

Lemma cfilter_cfilter k1 k2 ct : cfilter k2 (cfilter k1 ct) = cfilter (N.max k1 k2) ct.
Proof.
  induction ct as [|[r l] tl IH]; [reflexivity|].
  rewrite !cfilter_cons.
  destruct (N.ltb_spec r k1); destruct (N.ltb_spec r (N.max k1 k2)); try lia.
  - exact IH.
  - rewrite cfilter_cons. destruct (N.ltb_spec r k2); [exact IH|lia].
  - rewrite cfilter_cons. destruct (N.ltb_spec r k2); [lia|]. rewrite IH. reflexivity.
Qed.

Lemma cfilter_0 ct : cfilter 0 ct = ct.
Proof.
  induction ct as [|[r l] tl IH]; [reflexivity|].
  rewrite cfilter_cons. destruct (N.ltb_spec r 0); [lia|]. rewrite IH. reflexivity.
Qed.

(* every message sits in the entry of its own round *)
Definition wfc (ct : container) : Prop :=
  forall r l, In (r, l) ct -> forall m, In m l -> c_round (co m) = r.

Lemma wfc_cput ct r m : wfc ct -> c_round (co m) = r -> wfc (cput ct r m).
Proof.
  intros Hw Hr. induction ct as [|[r' l] tl IH]; cbn.
  - intros r0 l0 [E|[]] m0 Hm0. injection E as <- <-. destruct Hm0 as [<-|[]]. exact Hr.
  - assert (Hw' : wfc tl) by (intros r0 l0 Hin; apply (Hw r0 l0); right; exact Hin).
    destruct (N.eqb_spec r' r) as [->|Hne].
    + intros r0 l0 [E|Hin] m0 Hm0.
      * injection E as <- <-. apply in_app_or in Hm0. destruct Hm0 as [Hm0|[<-|[]]]; [|exact Hr].
        apply (Hw r l); [left; reflexivity|exact Hm0].
      * apply (Hw r0 l0); [right; exact Hin|exact Hm0].
    + intros r0 l0 [E|Hin] m0 Hm0.
      * injection E as <- <-. apply (Hw r' l); [left; reflexivity|exact Hm0].
      * apply (IH Hw' r0 l0 Hin m0 Hm0).
Qed.

Lemma wfc_cadd_first ct m : wfc ct -> wfc (fst (cadd_first ct m)).
Proof.
  intros Hw. unfold cadd_first. destruct (existsb _ _); cbn; [exact Hw|].
  apply wfc_cput; [exact Hw|reflexivity].
Qed.

Lemma filter_all_false {A} (f : A -> bool) l : (forall x, In x l -> f x = false) -> filter f l = [].
Proof.
  induction l as [|x tl IH]; intros H; cbn; [reflexivity|].
  rewrite (H x (or_introl eq_refl)). apply IH. intros y Hy. apply H. right. exact Hy.
Qed.

(* the messages of rounds above b: the same before and after dropping rounds below k <= b *)
Lemma call_cfilter k b ct : wfc ct -> k <= b ->
  filter (fun x => b <? c_round (co x)) (call (cfilter k ct))
  = filter (fun x => b <? c_round (co x)) (call ct).
Proof.
  intros Hw Hk. induction ct as [|[r l] tl IH]; [reflexivity|].
  assert (Hw' : wfc tl) by (intros r0 l0 Hin; apply (Hw r0 l0); right; exact Hin).
  specialize (IH Hw'). rewrite cfilter_cons.
  assert (Hc : forall (x : N * list smsg) t, call (x :: t) = snd x ++ call t) by reflexivity.
  destruct (N.ltb_spec r k) as [Hlt|Hge].
  - rewrite IH, (Hc (r, l) tl), filter_app. cbn [snd].
    rewrite (filter_all_false _ l); [reflexivity|].
    intros x Hx. rewrite (Hw r l (or_introl eq_refl) x Hx). apply N.ltb_ge. lia.
  - rewrite !Hc, !filter_app, IH. reflexivity.
Qed.

Arguments cfilter : simpl never.

(* ---- restricted states ---------------------------------------------------------------------------- *)

Record bounds := { b_prop : N; b_prep : N; b_commit : N; b_rc : N }.

Definition restrict (k : bounds) (s : state) : state :=
  set_containers s (cfilter (b_prop k) (s_prop s)) (cfilter (b_prep k) (s_prep s))
                   (cfilter (b_commit k) (s_commit s)) (cfilter (b_rc k) (s_rc s)).

(* the bounds never exceed what the code still reads *)
Definition bounds_ok (k : bounds) (s : state) : Prop :=
  b_prop k <= s_round s /\ b_prep k <= s_lpr s /\ b_commit k <= s_round s /\ b_rc k <= s_round s.

Definition wfs (s : state) : Prop :=
  wfc (s_prop s) /\ wfc (s_prep s) /\ wfc (s_commit s) /\ wfc (s_rc s) /\ s_lpr s <= s_round s.

Lemma restrict_0 s : restrict {| b_prop := 0; b_prep := 0; b_commit := 0; b_rc := 0 |} s = s.
Proof. unfold restrict; cbn. rewrite !cfilter_0. destruct s; reflexivity. Qed.

Lemma cadd_first_cfilter k ct m : k <= c_round (co m) ->
  cadd_first (cfilter k ct) m = (cfilter k (fst (cadd_first ct m)), snd (cadd_first ct m)).
Proof.
  intros Hk. unfold cadd_first. rewrite cget_cfilter by exact Hk.
  destruct (existsb _ _); cbn; [reflexivity|]. rewrite cput_cfilter by exact Hk. reflexivity.
Qed.

(* compaction of an undecided state IS a restriction *)
Lemma compact_restrict k s : s_decided s = false ->
  compact (restrict k s) =
  restrict {| b_prop := N.max (b_prop k) (s_round s); b_prep := N.max (b_prep k) (s_lpr s);
              b_commit := N.max (b_commit k) (s_round s); b_rc := N.max (b_rc k) (s_round s) |} s.
Proof.
  intros Hd. unfold compact, restrict; cbn. rewrite Hd. unfold ccompact.
  repeat match goal with
  | |- context [filter (fun e : N * list smsg => negb (fst e <? ?x)) ?y] =>
      change (filter (fun e : N * list smsg => negb (fst e <? x)) y) with (cfilter x y)
  end.
  rewrite !cfilter_cfilter. reflexivity.
Qed.

Lemma compact_bounds_ok k s : bounds_ok k s ->
  bounds_ok {| b_prop := N.max (b_prop k) (s_round s); b_prep := N.max (b_prep k) (s_lpr s);
               b_commit := N.max (b_commit k) (s_round s); b_rc := N.max (b_rc k) (s_round s) |} s.
Proof. unfold bounds_ok; cbn. lia. Qed.

(* ---- the rules commute with restriction ---------------------------------------------------------------- *)

Section Commute.
Variable c : cfg.

Lemma can_process_restrict k s : can_process (restrict k s) = can_process s.
Proof. reflexivity. Qed.

Lemma base_validation_restrict k s m : base_msg_validation c (restrict k s) m = base_msg_validation c s m.
Proof. reflexivity. Qed.

Lemma create_round_change_restrict k s nr : bounds_ok k s ->
  create_round_change c (restrict k s) nr = create_round_change c s nr.
Proof.
  intros (_ & Hp & _ & _). unfold create_round_change. cbn.
  rewrite cget_cfilter by exact Hp. reflexivity.
Qed.

Lemma upon_proposal_restrict k s m : bounds_ok k s -> s_round s <= c_round (co m) ->
  upon_proposal c (restrict k s) m =
  let '(s', o, ok) := upon_proposal c s m in (restrict k s', o, ok).
Proof.
  intros (Hp & _) Hr. unfold upon_proposal. cbn [s_prop restrict set_containers].
  rewrite cadd_first_cfilter by lia.
  destruct (cadd_first (s_prop s) m) as [ct added]; cbn [fst snd].
  destruct added; cbn [negb]; [|reflexivity].
  cbn. destruct (can_process _); reflexivity.
Qed.

Lemma upon_prepare_restrict k s m : bounds_ok k s -> c_round (co m) = s_round s -> s_lpr s <= s_round s ->
  upon_prepare c (restrict k s) m =
  let '(s', o) := upon_prepare c s m in (restrict k s', o).
Proof.
  intros (_ & Hp & _) Hr Hl. unfold upon_prepare. cbn [s_prep s_round s_acc restrict set_containers].
  rewrite cget_cfilter by lia. rewrite cadd_first_cfilter by lia.
  destruct (cadd_first (s_prep s) m) as [ct added]; cbn [fst snd].
  destruct added; cbn [negb]; [|reflexivity].
  destruct (has_quorum c (cget (s_prep s) (s_round s))); [reflexivity|].
  rewrite cget_cfilter by lia.
  destruct (has_quorum c (cget ct (s_round s))); cbn [negb]; [|reflexivity].
  destruct (s_acc s); reflexivity.
Qed.

Lemma longest_unique_cfilter k ct r root : k <= r ->
  longest_unique (cfilter k ct) r root = longest_unique ct r root.
Proof. intros H. unfold longest_unique. rewrite cget_cfilter by exact H. reflexivity. Qed.

Lemma upon_commit_restrict k s m : bounds_ok k s -> c_round (co m) = s_round s ->
  upon_commit c (restrict k s) m =
  let '(s', r) := upon_commit c s m in (restrict k s', r).
Proof.
  intros (_ & _ & Hc & _) Hr. unfold upon_commit. cbn [s_commit s_acc restrict set_containers].
  rewrite cadd_first_cfilter by lia.
  destruct (cadd_first (s_commit s) m) as [ct added]; cbn [fst snd].
  destruct added; cbn [negb]; [|reflexivity].
  rewrite longest_unique_cfilter by lia.
  destruct (longest_unique ct (c_round (co m)) (c_root (co m))) as [signers msgs].
  destruct (quorum c <=? N.of_nat (length signers)); [|reflexivity].
  destruct (s_acc s); [|reflexivity].
  destruct (aggregate_commits c msgs (c_full (co s0))); reflexivity.
Qed.

Lemma justified_for_leading_restrict k s rcm rcs v nr :
  justified_for_leading c (restrict k s) rcm rcs v nr = justified_for_leading c s rcm rcs v nr.
Proof. reflexivity. Qed.

Lemma find_justified_restrict k s trig rcs all :
  find_justified c (restrict k s) trig rcs all = find_justified c s trig rcs all.
Proof.
  induction rcs as [|m tl IH]; cbn [find_justified]; [reflexivity|].
  rewrite justified_for_leading_restrict. cbn [s_start restrict set_containers].
  destruct (justified_for_leading c s m all _ _) as [[|]|]; try reflexivity. exact IH.
Qed.

Lemma upon_round_change_restrict k s m : bounds_ok k s -> wfs s -> s_round s <= c_round (co m) ->
  upon_round_change c (restrict k s) m =
  match upon_round_change c s m with
  | None => None
  | Some (s', o, ok) => Some (restrict k s', o, ok)
  end.
Proof.
  intros (Hp & Hpr & Hc & Hx) (_ & _ & _ & Hw & _) Hr. unfold upon_round_change.
  cbn [s_rc restrict set_containers].
  rewrite cget_cfilter by lia. rewrite cadd_first_cfilter by lia.
  pose proof (wfc_cadd_first (s_rc s) m Hw) as Hw'.
  destruct (cadd_first (s_rc s) m) as [ct added]; cbn [fst snd] in *.
  destruct added; cbn [negb]; [|reflexivity].
  destruct (has_quorum c (cget (s_rc s) (c_round (co m)))); [reflexivity|].
  rewrite cget_cfilter by lia.
  change (set_rc (restrict k s) (cfilter (b_rc k) ct)) with (restrict k (set_rc s ct)).
  rewrite find_justified_restrict.
  destruct (if has_quorum c (cget ct (c_round (co m)))
            then find_justified c (set_rc s ct) m (cget ct (c_round (co m))) (cget ct (c_round (co m)))
            else Some None) as [[[jm v]|]|]; [| |reflexivity].
  - cbn [s_round restrict set_containers set_rc]. rewrite cget_cfilter by lia. reflexivity.
  - cbn [s_round restrict set_containers set_rc].
    rewrite (call_cfilter (b_rc k) (s_round s) ct Hw' Hx).
    destruct (has_partial_quorum c _); [|reflexivity].
    destruct (_ <=? s_round s); [reflexivity|].
    assert (E : forall nr,
      create_round_change c (set_acc (set_round (restrict k (set_rc s ct)) nr) None) nr
      = create_round_change c (set_acc (set_round (set_rc s ct) nr) None) nr).
    { intros nr. unfold create_round_change. cbn. rewrite cget_cfilter by lia. reflexivity. }
    cbn. rewrite E. destruct (can_process _); reflexivity.
Qed.

End Commute.
