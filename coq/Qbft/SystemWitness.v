(* Boolean checkers for traces of Qbft/System.v (with reflection lemmas) and the concrete execution
   that refutes unrestricted agreement on the model (finding F6). *)
From Coq Require Import List NArith ZArith Bool Lia.
From SSV Require Import Qbft.Model Qbft.Controller Qbft.System Qbft.DecidedProofs.
Import ListNotations.
Local Open Scope N_scope.

Section Check.
Variable c0 : cfg.
Variable byz : N -> bool.
Variable h : N.

Definition same_contentb (y x : smsg) : bool :=
  (c_type (co y) =? c_type (co x)) && (c_height (co y) =? c_height (co x)) && (c_round (co y) =? c_round (co x))
  && (c_root (co y) =? c_root (co x)) && (c_data_round (co y) =? c_data_round (co x)).

Lemma same_contentb_ok y x : same_contentb y x = true -> same_content y x.
Proof.
  unfold same_contentb, same_content. intros H.
  repeat (apply andb_prop in H; destruct H as [H ?]).
  repeat split; apply N.eqb_eq; assumption.
Qed.

Definition sig_genuineb (sent : list smsg) (x : smsg) : bool :=
  forallb (fun s => mem s (committee c0) &&
                    (byz s || existsb (fun y => list_eqb (c_signers (co y)) [s] && same_contentb y x) sent))
          (c_signers (co x)).

Lemma list_eqb_eq a b : list_eqb a b = true -> a = b.
Proof.
  revert b. induction a as [|x ta IH]; intros [|y tb]; cbn; try discriminate; [reflexivity|].
  intros H. apply andb_prop in H. destruct H as [H1 H2]. apply N.eqb_eq in H1. subst. f_equal. auto.
Qed.

Lemma sig_genuineb_ok sent x : sig_genuineb sent x = true -> sig_genuine c0 byz sent x.
Proof.
  unfold sig_genuineb, sig_genuine. rewrite forallb_forall. intros H s Hs.
  specialize (H s Hs). apply andb_prop in H. destruct H as [H1 H2].
  split; [apply mem_In; exact H1|]. intros Hb. rewrite Hb in H2. cbn in H2.
  apply existsb_exists in H2. destruct H2 as (y & Hy & H2). apply andb_prop in H2. destruct H2 as [H2 H3].
  exists y. split; [exact Hy|]. split; [apply list_eqb_eq; exact H2|apply same_contentb_ok; exact H3].
Qed.

Definition admissibleb (sent : list smsg) (m : smsg) : bool :=
  forallb (fun x => negb (c_sig_ok (co x)) || sig_genuineb sent x) (parts m).

Lemma admissibleb_ok sent m : admissibleb sent m = true -> admissible c0 byz sent m.
Proof.
  unfold admissibleb, admissible. rewrite forallb_forall. intros H x Hx Hs.
  specialize (H x Hx). rewrite Hs in H. cbn in H. apply sig_genuineb_ok. exact H.
Qed.

Definition honestb (i : N) : bool := mem i (committee c0) && negb (byz i).

Lemma honestb_ok i : honestb i = true -> honest c0 byz i.
Proof.
  unfold honestb, honest. intros H. apply andb_prop in H. destruct H as [H1 H2].
  split; [apply mem_In; exact H1|]. destruct (byz i); [discriminate|reflexivity].
Qed.

Definition enabledb (g : sys) (l : label) : bool :=
  match l with
  | LDeliver i m => honestb i && admissibleb (sent g) m
  | LTimeout i => honestb i
  end.

Lemma enabledb_ok g l : enabledb g l = true -> enabled c0 byz g l.
Proof.
  destruct l as [i m|i]; cbn; intros H.
  - apply andb_prop in H. destruct H. split; [apply honestb_ok|apply admissibleb_ok]; assumption.
  - apply honestb_ok. exact H.
Qed.

Fixpoint check_trace (g : sys) (tr : list label) : bool :=
  match tr with
  | [] => true
  | l :: tl => enabledb g l && check_trace (sys_step c0 g l) tl
  end.

Lemma check_trace_ok : forall tr g, check_trace g tr = true -> valid_trace c0 byz (fun _ _ => True) g tr.
Proof.
  induction tr as [|l tl IH]; intros g H; cbn in *; [exact I|].
  apply andb_prop in H. destruct H as [H1 H2]. split; [apply enabledb_ok; exact H1|]. split; [exact I|auto].
Qed.

End Check.

(* ---- finding F6 on the model ------------------------------------------------------------------------ *)

Definition f6_cfg : cfg :=
  {| committee := [1; 2; 3; 4]; me := 0; quorum := 3; partial_quorum := 2; bad_values := [4; 9];
     var := node_variant |}.
Definition f6_byz (i : N) : bool := i =? 1.
Definition f6_h : N := 0.

Definition bmsg (ty root : N) (full : option N) : smsg :=     (* signed by the Byzantine operator 1 *)
  SM {| c_type := ty; c_height := f6_h; c_round := 1; c_root := root; c_data_round := 0; c_signers := [1];
        c_full := full; c_sig_ok := true; c_fmt_ok := true; c_ident := 0 |} [] [].

Definition vD := Some 1. Definition vS := Some 2.
Definition propD := bmsg T_PROPOSAL (hash vD) vD.
Definition propS := bmsg T_PROPOSAL (hash vS) vS.
Definition prepD1 := bmsg T_PREPARE (hash vD) None.
Definition prepS1 := bmsg T_PREPARE (hash vS) None.
Definition comD1 := bmsg T_COMMIT (hash vD) None.
Definition comS1 := bmsg T_COMMIT (hash vS) None.

Definition step6 := sys_step f6_cfg.
Definition lastm (g : sys) : smsg := last (sent g) propD.

Definition g0 := init f6_cfg f6_h (fun _ => Some 5).
(* (1) equivocating proposals *)
Definition g1 := step6 g0 (LDeliver 2 propD).   Definition prep2 := lastm g1.
Definition g2 := step6 g1 (LDeliver 3 propD).   Definition prep3 := lastm g2.
Definition g3 := step6 g2 (LDeliver 4 propS).   Definition prep4 := lastm g3.
Definition t_a := [LDeliver 2 propD; LDeliver 3 propD; LDeliver 4 propS].
Definition t_b := [LDeliver 2 prepD1; LDeliver 2 prep2; LDeliver 2 prep3].
Definition g4 := run_sys f6_cfg g3 t_b.         Definition com2 := lastm g4.
Definition t_c := [LDeliver 3 prepD1; LDeliver 3 prep2; LDeliver 3 prep3].
Definition g5 := run_sys f6_cfg g4 t_c.         Definition com3 := lastm g5.
Definition t_d := [LDeliver 3 comD1; LDeliver 3 com2; LDeliver 3 com3].
Definition g6 := run_sys f6_cfg g5 t_d.         Definition dec3 := lastm g6.
(* (2) operator 2 times out, (3) then learns the decision: round rewound, decided, compacted *)
Definition t_e := [LTimeout 2; LDeliver 2 dec3].
Definition g7 := run_sys f6_cfg g6 t_e.
(* (4) the leader's other proposal is accepted by operator 2 *)
Definition g8 := step6 g7 (LDeliver 2 propS).   Definition prepS2 := lastm g8.
(* (5) prepare and commit quorums for S *)
Definition t_f := [LDeliver 4 prepS1; LDeliver 4 prep4; LDeliver 4 prepS2].
Definition g9 := run_sys f6_cfg g8 t_f.         Definition com4 := lastm g9.
Definition t_g := [LDeliver 2 prepS1; LDeliver 2 prep4; LDeliver 2 prepS2].
Definition g10 := run_sys f6_cfg g9 t_g.        Definition comS2 := lastm g10.
Definition t_h := [LDeliver 4 comS1; LDeliver 4 comS2; LDeliver 4 com4].

Definition f6_trace : list label :=
  t_a ++ t_b ++ t_c ++ t_d ++ t_e ++ [LDeliver 2 propS] ++ t_f ++ t_g ++ t_h.

Definition report_values (rs : list (N * smsg)) : list (N * option N) :=
  map (fun r => (fst r, c_full (co (snd r)))) rs.

Lemma f6_trace_enabled : check_trace f6_cfg f6_byz g0 f6_trace = true.
Proof. vm_compute. reflexivity. Qed.

Lemma f6_reports : report_values (reports f6_cfg g0 f6_trace) = [(3, vD); (2, vD); (4, vS)].
Proof. vm_compute. reflexivity. Qed.

(* the rewind that characterises F6 happens exactly once, at the delivery of the decided message *)
Lemma f6_rewind_step : rewinds (cfg_of f6_cfg 2) (st (run_sys f6_cfg g6 [LTimeout 2]) 2) dec3 = true.
Proof. vm_compute. reflexivity. Qed.
