(* C01, the mathematical core: from four stable facts about the chronological list of messages that
   honest operators have broadcast (G1-G4 below) it follows that any two commit-quorum certificates
   carry the same root.  No reference to the step function here; Qbft/SafetyInv.v proves that G1-G4
   are invariants of the system of Qbft/System.v under the no-rewind hypothesis. *)
From Coq Require Import List NArith ZArith Bool Lia Wf_nat.
From SSV Require Import Qbft.Model Qbft.Quorum.
Import ListNotations.
Local Open Scope N_scope.

Section Core.
Variable committee : list N.
Variable byz : N -> bool.
Variable f : nat.
Variable q : N.
Hypothesis Hnd : NoDup committee.
Hypothesis Hsize : length committee = (3 * f + 1)%nat.
Hypothesis Hbyz : (length (filter byz committee) <= f)%nat.
Hypothesis Hq : q = N.of_nat (2 * f + 1).

Definition by_ (i : N) (ty : N) (y : smsg) : Prop := c_signers (co y) = [i] /\ c_type (co y) = ty.

Definition sent_by (snt : list smsg) (i ty r root : N) : Prop :=
  exists y, In y snt /\ by_ i ty y /\ c_round (co y) = r /\ c_root (co y) = root.

(* a quorum of distinct committee members whose honest members have sent (ty, r, root) *)
Definition quorum_of (snt : list smsg) (ty r root : N) : Prop :=
  exists S, NoDup S /\ incl S committee /\ q <= N.of_nat (length S) /\
            forall s, In s S -> byz s = false -> sent_by snt s ty r root.

Definition PQ snt := quorum_of snt T_PREPARE.
Definition CQ snt := quorum_of snt T_COMMIT.

Lemma sent_by_mono snt snt' i ty r root : incl snt snt' -> sent_by snt i ty r root -> sent_by snt' i ty r root.
Proof. intros Hi (y & Hy & H). exists y. split; [apply Hi; exact Hy|exact H]. Qed.

Lemma quorum_of_mono snt snt' ty r root : incl snt snt' -> quorum_of snt ty r root -> quorum_of snt' ty r root.
Proof.
  intros Hi (S & A & B & C & D). exists S. repeat split; auto.
  intros s Hs Hb. eapply sent_by_mono; eauto.
Qed.

(* the justification a round > 1 prepare rests on, all of it broadcast earlier (in [s1]) *)
Definition evidence (s1 : list smsg) (r' root' : N) : Prop :=
  exists rcs : list smsg,
    (forall x, In x rcs -> exists k, c_signers (co x) = [k] /\ In k committee /\ c_round (co x) = r' /\
        (byz k = false -> exists y, In y s1 /\ by_ k T_ROUNDCHANGE y /\ c_round (co y) = r' /\
                                    c_data_round (co y) = c_data_round (co x) /\ c_root (co y) = c_root (co x))) /\
    q <= unique_count rcs /\
    ((forall x, In x rcs -> c_data_round (co x) = NO_ROUND) \/
     (exists xh, In xh rcs /\ c_data_round (co xh) <> NO_ROUND /\
        (forall x, In x rcs -> c_data_round (co x) <= c_data_round (co xh)) /\
        c_data_round (co xh) <= r' /\
        root' = c_root (co xh) /\ PQ s1 (c_data_round (co xh)) (c_root (co xh)))).

Record ginv (snt : list smsg) : Prop := {
  (* G1 an honest operator prepares at most one root per round *)
  g1 : forall i y y', byz i = false -> In y snt -> In y' snt -> by_ i T_PREPARE y -> by_ i T_PREPARE y' ->
         c_round (co y) = c_round (co y') -> c_root (co y) = c_root (co y');
  (* G2 an honest commit rests on a prepare quorum *)
  g2 : forall i y, byz i = false -> In y snt -> by_ i T_COMMIT y -> PQ snt (c_round (co y)) (c_root (co y));
  (* G3 an honest prepare of a round > 1 rests on a justification broadcast before it *)
  g3 : forall i s1 y s2, byz i = false -> snt = s1 ++ y :: s2 -> by_ i T_PREPARE y ->
         c_round (co y) <> FIRST_ROUND -> evidence s1 (c_round (co y)) (c_root (co y));
  (* G4 an honest round change for a round above one the operator committed in carries that
        preparation or a later one *)
  g4 : forall k z y, byz k = false -> In z snt -> In y snt -> by_ k T_ROUNDCHANGE z -> by_ k T_COMMIT y ->
         c_round (co y) < c_round (co z) ->
         c_round (co y) < c_data_round (co z) \/
         (c_data_round (co z) = c_round (co y) /\ c_root (co z) = c_root (co y));
  (* rounds start at 1 *)
  g5 : forall i y, byz i = false -> In y snt -> by_ i T_PREPARE y -> FIRST_ROUND <= c_round (co y)
}.

(* ---- quorum facts -------------------------------------------------------------------------------------- *)

Lemma q_nat (S : list N) : q <= N.of_nat (length S) -> (2 * f + 1 <= length S)%nat.
Proof. rewrite Hq. lia. Qed.

Lemma two_quorums_share_honest (S1 S2 : list N) :
  NoDup S1 -> NoDup S2 -> incl S1 committee -> incl S2 committee ->
  q <= N.of_nat (length S1) -> q <= N.of_nat (length S2) ->
  exists x, In x S1 /\ In x S2 /\ byz x = false.
Proof.
  intros. eapply (quorum_intersection committee byz f); eauto using q_nat.
Qed.

Lemma quorum_has_honest (S : list N) : NoDup S -> incl S committee -> q <= N.of_nat (length S) ->
  exists x, In x S /\ byz x = false.
Proof.
  intros Hn Hi Hl. eapply (has_honest committee byz f); eauto. apply q_nat in Hl. lia.
Qed.

(* unique signers of single-signer messages, as a duplicate-free list *)
Lemma dedup_NoDup l : NoDup (dedup l).
Proof.
  induction l as [|x tl IH]; cbn; [constructor|].
  destruct (mem x tl) eqn:E; [exact IH|]. constructor; [|exact IH].
  intros Hin. assert (Hx : In x tl).
  { clear -Hin. induction tl as [|a t IHt]; cbn in *; [exact Hin|].
    destruct (mem a t); [right; auto|]. destruct Hin as [->|Hin]; [left; reflexivity|right; auto]. }
  assert (mem x tl = true).
  { unfold mem. apply existsb_exists. exists x. split; [exact Hx|apply N.eqb_refl]. }
  congruence.
Qed.

Lemma dedup_In l x : In x (dedup l) <-> In x l.
Proof.
  induction l as [|a tl IH]; cbn; [tauto|].
  destruct (mem a tl) eqn:E.
  - rewrite IH. split; [auto|]. intros [->|H]; [|exact H].
    unfold mem in E. apply existsb_exists in E. destruct E as (y & Hy & Ey). apply N.eqb_eq in Ey. subst. exact Hy.
  - cbn. rewrite IH. tauto.
Qed.

(* ---- same round ------------------------------------------------------------------------------------------- *)

Lemma PQ_same_round snt r rho rho' : ginv snt -> PQ snt r rho -> PQ snt r rho' -> rho = rho'.
Proof.
  intros G (S1 & N1 & I1 & L1 & H1) (S2 & N2 & I2 & L2 & H2).
  destruct (two_quorums_share_honest S1 S2 N1 N2 I1 I2 L1 L2) as (x & X1 & X2 & Xb).
  destruct (H1 x X1 Xb) as (y & Hy & By & Ry & Roy). destruct (H2 x X2 Xb) as (y' & Hy' & By' & Ry' & Roy').
  rewrite <- Roy, <- Roy'. eapply (g1 snt G x y y'); eauto. congruence.
Qed.

Lemma CQ_gives_PQ snt r rho : ginv snt -> CQ snt r rho -> PQ snt r rho.
Proof.
  intros G (S & Nd & Inc & Len & H).
  destruct (quorum_has_honest S Nd Inc Len) as (x & Hx & Hb).
  destruct (H x Hx Hb) as (y & Hy & By & Ry & Roy). rewrite <- Ry, <- Roy. eapply (g2 snt G x); eauto.
Qed.

(* ---- later rounds: every honest prepare after a certified round re-prepares the certified root ------ *)

Lemma unique_count_quorum (rcs : list smsg) :
  q <= unique_count rcs ->
  (forall x, In x rcs -> exists k, c_signers (co x) = [k] /\ In k committee) ->
  exists S, NoDup S /\ incl S committee /\ q <= N.of_nat (length S) /\
            forall s, In s S -> exists x, In x rcs /\ c_signers (co x) = [s].
Proof.
  intros Hc Hs. exists (dedup (all_signers rcs)). split; [apply dedup_NoDup|].
  assert (Hmem : forall s, In s (dedup (all_signers rcs)) -> exists x, In x rcs /\ c_signers (co x) = [s]).
  { intros s Hin. apply (proj1 (dedup_In _ _)) in Hin. unfold all_signers in Hin. apply (proj1 (in_flat_map _ _ _)) in Hin.
    destruct Hin as (x & Hx & Hsx). destruct (Hs x Hx) as (k & Ek & _). rewrite Ek in Hsx.
    destruct Hsx as [<-|[]]. exists x. auto. }
  split; [|split; [exact Hc|exact Hmem]].
  intros s Hin. destruct (Hmem s Hin) as (x & Hx & Ex). destruct (Hs x Hx) as (k & Ek & Hk).
  rewrite Ex in Ek. injection Ek as <-. exact Hk.
Qed.

Theorem lock snt r rho : ginv snt -> CQ snt r rho ->
  forall n s1 y s2 i, length s1 = n -> snt = s1 ++ y :: s2 -> byz i = false -> by_ i T_PREPARE y ->
    r < c_round (co y) -> c_root (co y) = rho.
Proof.
  intros G HC n. induction n as [n IH] using lt_wf_ind.
  intros s1 y s2 i Hlen Hsnt Hbi By Hr.
  assert (Hr1 : 1 <= r).
  { pose proof (CQ_gives_PQ snt r rho G HC) as (S' & N' & I' & L' & H').
    destruct (quorum_has_honest S' N' I' L') as (x' & Hx' & Hb'). destruct (H' x' Hx' Hb') as (yp & Hyp & Byp & Ryp & _).
    pose proof (g5 snt G x' yp Hb' Hyp Byp). unfold FIRST_ROUND in *. lia. }
  assert (Hne : c_round (co y) <> FIRST_ROUND) by (unfold FIRST_ROUND; lia).
  destruct (g3 snt G i s1 y s2 Hbi Hsnt By Hne) as (rcs & Hrc & Hcount & Hprep).
  (* the round-change quorum meets the commit quorum in an honest operator k *)
  destruct (unique_count_quorum rcs Hcount) as (Q & QN & QI & QL & QM).
  { intros x Hx. destruct (Hrc x Hx) as (k & Ek & Hk & _). eauto. }
  destruct HC as (S & Nd & Inc & Len & HS).
  destruct (two_quorums_share_honest S Q Nd QN Inc QI Len QL) as (k & KS & KQ & Kb).
  destruct (HS k KS Kb) as (yc & Hyc & Byc & Ryc & Royc).
  destruct (QM k KQ) as (x & Hx & Ex).
  destruct (Hrc x Hx) as (k' & Ek' & _ & Rx & Hgen). rewrite Ex in Ek'. injection Ek' as <-.
  destruct (Hgen Kb) as (z & Hz & Bz & Rz & Dz & Roz).
  assert (Hs1 : incl s1 snt) by (rewrite Hsnt; intros a Ha; apply in_or_app; left; exact Ha).
  (* k's round change carries a preparation of round >= r *)
  assert (Hk : r < c_data_round (co x) \/ (c_data_round (co x) = r /\ c_root (co x) = rho)).
  { rewrite <- Dz, <- Roz, <- Ryc, <- Royc. eapply (g4 snt G k z yc); eauto. rewrite Ryc, Rz. exact Hr. }
  destruct Hprep as [Hnone|(xh & Hxh & Hd & Hmax & Hle & Hroot & Hpq)].
  { specialize (Hnone x Hx). unfold NO_ROUND in Hnone. lia. }
  rewrite Hroot. specialize (Hmax x Hx).
  destruct (N.eq_dec (c_data_round (co xh)) r) as [Eh|Nh].
  - (* highest prepared round = r: two prepare quorums of round r *)
    assert (Hpq' : PQ snt r (c_root (co xh))) by (rewrite <- Eh; eapply quorum_of_mono; eauto).
    pose proof (CQ_gives_PQ snt r rho G (ex_intro _ S (conj Nd (conj Inc (conj Len HS))))) as Hpq0.
    eapply PQ_same_round; eauto.
  - (* highest prepared round > r: an honest member of its prepare quorum prepared earlier *)
    assert (Hgt : r < c_data_round (co xh)) by (destruct Hk as [Hk|[Hk _]]; lia).
    destruct Hpq as (P & PN & PI & PL & PH).
    destruct (quorum_has_honest P PN PI PL) as (j & Hj & Hbj).
    destruct (PH j Hj Hbj) as (yp & Hyp & Byp & Ryp & Royp).
    apply in_split in Hyp. destruct Hyp as (a & b & Es1).
    rewrite <- Royp.
    apply (IH (length a)) with (s1 := a) (s2 := b ++ y :: s2) (i := j); auto.
    + rewrite <- Hlen, Es1, app_length. cbn. lia.
    + rewrite Hsnt, Es1, <- app_assoc. reflexivity.
    + rewrite Ryp. exact Hgt.
Qed.

(* ---- agreement of certificates ---------------------------------------------------------------------------- *)

Theorem certificates_agree snt r rho r' rho' : ginv snt -> CQ snt r rho -> CQ snt r' rho' -> rho = rho'.
Proof.
  intros G C1 C2.
  assert (Hcase : forall r1 rho1 r2 rho2, CQ snt r1 rho1 -> CQ snt r2 rho2 -> r1 < r2 -> rho1 = rho2).
  { intros r1 rho1 r2 rho2 HC1 HC2 Hlt.
    pose proof (CQ_gives_PQ snt r2 rho2 G HC2) as (P & PN & PI & PL & PH).
    destruct (quorum_has_honest P PN PI PL) as (j & Hj & Hbj).
    destruct (PH j Hj Hbj) as (yp & Hyp & Byp & Ryp & Royp).
    apply in_split in Hyp. destruct Hyp as (a & b & Es).
    rewrite <- Royp. symmetry. eapply (lock snt r1 rho1 G HC1 (length a) a yp b j); eauto. rewrite Ryp. exact Hlt. }
  destruct (N.lt_trichotomy r r') as [Hlt|[Heq|Hgt]].
  - eapply Hcase; eauto.
  - subst r'. eapply PQ_same_round; eauto using CQ_gives_PQ.
  - symmetry. eapply Hcase; eauto.
Qed.

End Core.
