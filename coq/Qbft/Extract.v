(* Compiled from ocaml/qbft/ so that model.ml lands there.  ExtrOcamlBasic only. *)
From Coq Require Import Extraction ExtrOcamlBasic.
From SSV Require Import Qbft.Model Qbft.Controller.
Extraction "model.ml" step cstep new_instance node_variant spec_variant.
