(* C07 (b), generic: the fault-free synchronous first round for EVERY committee of distinct non-zero
   operator ids, every quorum between 1 and the committee size, every height and leader.
   The schedule is the one of Qbft/SyncRound.v (start; the leader's proposal; everybody's prepare and
   then everybody's commit, in committee order); [sync_node_ok] is the same checker. *)
From Coq Require Import List NArith ZArith Bool Lia Arith.
From SSV Require Import Qbft.Model Qbft.SyncRound.
Import ListNotations.
Local Open Scope N_scope.

(* ---- equality tests are reflexive ------------------------------------------------------------------ *)

Lemma list_eqb_refl : forall l, list_eqb l l = true.
Proof. induction l as [|x tl IH]; simpl; [reflexivity|]. rewrite N.eqb_refl, IH. reflexivity. Qed.

Lemma opt_eqb_refl : forall o, opt_eqb o o = true.
Proof. destruct o; simpl; [apply N.eqb_refl|reflexivity]. Qed.

Lemma core_eqb_refl : forall k, core_eqb k k = true.
Proof.
  intros k. unfold core_eqb. rewrite !N.eqb_refl, list_eqb_refl, opt_eqb_refl, !Bool.eqb_reflx. reflexivity.
Qed.

(* messages without justifications, which is all that a first round contains *)
Definition flat (m : smsg) : Prop := rcj m = [] /\ pj m = [].

Lemma smsg_eqb_flat_refl : forall m, flat m -> smsg_eqb m m = true.
Proof.
  intros [k r p] [Hr Hp]. simpl in Hr, Hp. subst r p. simpl. rewrite core_eqb_refl. reflexivity.
Qed.

Lemma smsgs_eqb_flat_refl : forall l, Forall flat l -> smsgs_eqb l l = true.
Proof.
  induction l as [|m tl IH]; intros H; simpl; [reflexivity|].
  inversion H; subst. rewrite smsg_eqb_flat_refl, IH; auto.
Qed.

(* ---- run over a concatenation ------------------------------------------------------------------------ *)

Lemma run_app : forall c a b s,
  run c s (a ++ b) =
  let '(s1, o1) := run c s a in let '(s2, o2) := run c s1 b in (s2, o1 ++ o2).
Proof.
  induction a as [|o tl IH]; intros b s; simpl.
  - destruct (run c s b); reflexivity.
  - destruct (step c s o) as [s1 b1]. rewrite IH.
    destruct (run c s1 tl) as [s2 o2]. destruct (run c s2 b) as [s3 o3]. reflexivity.
Qed.

(* ---- single-signer messages of distinct signers -------------------------------------------------------- *)

(* the message of type ty operator j sends in the first round of height h for root rt *)
Definition fmsg (h ty rt j : N) : smsg :=
  SM {| c_type := ty; c_height := h; c_round := FIRST_ROUND; c_root := rt; c_data_round := NO_ROUND;
        c_signers := [j]; c_full := None; c_sig_ok := true; c_fmt_ok := true; c_ident := 0 |} [] [].

Lemma msg_of_fmsg : forall c h ty j rt, msg_of c h ty j rt None = fmsg h ty rt j.
Proof. reflexivity. Qed.

Lemma all_signers_fmsg : forall h ty rt l, all_signers (map (fmsg h ty rt) l) = l.
Proof.
  unfold all_signers. induction l as [|j tl IH]; [reflexivity|].
  cbn [map flat_map]. rewrite IH. reflexivity.
Qed.

Lemma mem_In : forall x l, mem x l = true <-> In x l.
Proof.
  intros x l. unfold mem. rewrite existsb_exists. split.
  - intros [y [Hy E]]. apply N.eqb_eq in E. subst. exact Hy.
  - intros H. exists x. split; [exact H|apply N.eqb_refl].
Qed.

Lemma mem_false : forall x l, ~ In x l -> mem x l = false.
Proof. intros x l H. destruct (mem x l) eqn:E; [|reflexivity]. apply mem_In in E. contradiction. Qed.

Lemma dedup_NoDup : forall l, NoDup l -> dedup l = l.
Proof.
  induction l as [|x tl IH]; intros H; simpl; [reflexivity|].
  inversion H; subst. rewrite (mem_false x tl); auto. rewrite IH; auto.
Qed.

Lemma unique_count_fmsg : forall h ty rt l, NoDup l -> unique_count (map (fmsg h ty rt) l) = N.of_nat (length l).
Proof. intros. unfold unique_count. rewrite all_signers_fmsg, dedup_NoDup; auto. Qed.

(* the container of one round after the messages of the signers in l arrived in that order *)
Definition cont (h ty rt : N) (l : list N) : container :=
  match l with [] => [] | _ => [(FIRST_ROUND, map (fmsg h ty rt) l)] end.

Lemma cget_cont : forall h ty rt l, cget (cont h ty rt l) FIRST_ROUND = map (fmsg h ty rt) l.
Proof. intros. destruct l; simpl; reflexivity. Qed.

Lemma matched_single : forall a b, matched_signers [a] [b] = (a =? b).
Proof. intros. unfold matched_signers. simpl. rewrite orb_false_r, andb_true_r. reflexivity. Qed.

Lemma cadd_first_cont : forall h ty rt l j,
  ~ In j l ->
  cadd_first (cont h ty rt l) (fmsg h ty rt j) = (cont h ty rt (l ++ [j]), true).
Proof.
  intros h ty rt l j Hn. unfold cadd_first. simpl c_round. rewrite cget_cont.
  assert (E : existsb (fun e => matched_signers (c_signers (co e)) (c_signers (co (fmsg h ty rt j))))
                (map (fmsg h ty rt) l) = false).
  { apply not_true_is_false. intros H. apply existsb_exists in H. destruct H as [e [He Hm]].
    apply in_map_iff in He. destruct He as [x [<- Hx]]. simpl in Hm. rewrite matched_single in Hm.
    apply N.eqb_eq in Hm. subst. contradiction. }
  rewrite E. f_equal. destruct l as [|x tl]; simpl; [reflexivity|].
  rewrite map_app. reflexivity.
Qed.

(* LongestUniqueSignersForRoundAndRoot on such a container is everything it holds *)
Lemma greedy_all : forall h ty rt l signers msgs,
  NoDup l -> (forall x, In x l -> ~ In x signers) ->
  greedy rt (map (fmsg h ty rt) l) signers msgs = (signers ++ l, msgs ++ map (fmsg h ty rt) l).
Proof.
  induction l as [|x tl IH]; intros signers msgs Hnd Hdis; simpl.
  - rewrite !app_nil_r. reflexivity.
  - rewrite N.eqb_refl. simpl. unfold common_signers. simpl.
    rewrite (mem_false x signers) by (apply Hdis; left; reflexivity). simpl.
    inversion Hnd; subst. rewrite IH.
    + rewrite <- !app_assoc. reflexivity.
    + assumption.
    + intros y Hy Hin. apply in_app_or in Hin. destruct Hin as [Hin|[Hin|[]]].
      * apply (Hdis y); [right; exact Hy|exact Hin].
      * subst. contradiction.
Qed.

Lemma longest_from_keep : forall h ty rt l best,
  NoDup l -> (length l <= length (fst best))%nat ->
  longest_from rt (map (fmsg h ty rt) l) best = best.
Proof.
  induction l as [|x tl IH]; intros best Hnd Hle; simpl; [reflexivity|].
  rewrite N.eqb_refl. simpl. inversion Hnd; subst.
  rewrite greedy_all; [|assumption|intros y Hy [Hin|[]]; subst; contradiction].
  simpl fst. simpl length.
  assert (E : Nat.ltb (length (fst best)) (S (length tl)) = false).
  { apply Nat.ltb_ge. simpl in Hle. lia. }
  rewrite E. apply IH; [assumption|]. simpl in Hle. lia.
Qed.

Lemma longest_unique_cont : forall h ty rt l,
  NoDup l -> l <> [] ->
  longest_unique (cont h ty rt l) FIRST_ROUND rt = (l, map (fmsg h ty rt) l).
Proof.
  intros h ty rt l Hnd Hne. unfold longest_unique. rewrite cget_cont.
  destruct l as [|x tl]; [contradiction|]. simpl. rewrite N.eqb_refl. simpl.
  inversion Hnd; subst.
  rewrite greedy_all; [|assumption|intros y Hy [Hin|[]]; subst; contradiction].
  simpl. apply longest_from_keep; [assumption|]. simpl. lia.
Qed.

Lemma NoDup_app_l : forall (a b : list N), NoDup (a ++ b) -> NoDup a.
Proof.
  induction a as [|x tl IH]; intros b H; [constructor|].
  simpl in H. inversion H; subst. constructor.
  - intros Hin. apply H2. apply in_or_app. left. exact Hin.
  - eapply IH; eauto.
Qed.

Lemma same_signing_root_fmsg : forall h ty rt x y, same_signing_root (fmsg h ty rt x) (fmsg h ty rt y) = true.
Proof. intros. unfold same_signing_root. simpl. rewrite !N.eqb_refl. reflexivity. Qed.

Lemma aggregate_fmsg : forall c h ty rt l full, l <> [] ->
  exists agg, aggregate_commits c (map (fmsg h ty rt) l) full = Some agg.
Proof.
  intros c h ty rt l full Hne. destruct l as [|x tl]; [contradiction|]. simpl.
  assert (E : forallb (same_signing_root (fmsg h ty rt x)) (map (fmsg h ty rt) tl) = true).
  { apply forallb_forall. intros m Hm. apply in_map_iff in Hm. destruct Hm as [y [<- _]].
    apply same_signing_root_fmsg. }
  rewrite E. simpl. eexists. reflexivity.
Qed.

(* ---- the execution of operator i ---------------------------------------------------------------------------- *)

Section Sync.
  Variables (c : cfg) (h ld i : N) (v : option N).
  Hypothesis Hnd : NoDup (committee c).
  Hypothesis Hnz : ~ In 0 (committee c).
  Hypothesis Hi : In i (committee c).
  Hypothesis Hld : proposer c h FIRST_ROUND = Some ld.
  Hypothesis Hvc : value_check c v = true.
  Hypothesis Hq1 : 1 <= quorum c.
  Hypothesis Hqn : quorum c <= N.of_nat (length (committee c)).

  Let ci := with_me c i.
  Let q := quorum c.
  Let rt := hash v.
  Let P := msg_of c h T_PROPOSAL ld rt v.

  (* the state of operator i after the proposal, the prepares of [lp] and the commits of [lc] *)
  Definition st (lp lc : list N) : state :=
    let prepared := q <=? N.of_nat (length lp) in
    let dec := q <=? N.of_nat (length lc) in
    {| s_round := FIRST_ROUND; s_height := h;
       s_lpr := if prepared then FIRST_ROUND else NO_ROUND; s_lpv := if prepared then v else None;
       s_acc := Some P; s_decided := dec; s_dvalue := if dec then v else None;
       s_prop := [(FIRST_ROUND, [P])];
       s_prep := cont h T_PREPARE rt lp; s_commit := cont h T_COMMIT rt lc; s_rc := [];
       s_start := start_value i; s_started := true; s_stopped := false |}.

  Lemma ld_in : In ld (committee c).
  Proof.
    unfold proposer in Hld. destruct (Z.of_nat (length (committee c)) =? 0)%Z; [discriminate|].
    match type of Hld with (if ?b then _ else _) = _ => destruct b; [discriminate|] end.
    eapply nth_error_In; eauto.
  Qed.

  Lemma nz : forall j, In j (committee c) -> (0 =? j) = false.
  Proof. intros j Hj. apply N.eqb_neq. intros <-. contradiction. Qed.

  Lemma signed_validate_single : forall ty rt0 j full, In j (committee c) -> ty <= T_ROUNDCHANGE ->
    signed_validate {| c_type := ty; c_height := h; c_round := FIRST_ROUND; c_root := rt0; c_data_round := NO_ROUND;
        c_signers := [j]; c_full := full; c_sig_ok := true; c_fmt_ok := true; c_ident := 0 |} = true.
  Proof.
    intros ty rt0 j full Hj Hty. unfold signed_validate, message_validate. simpl.
    destruct j as [|pj]; [contradiction|]. simpl. apply N.leb_le. exact Hty.
  Qed.

  Lemma sv_own : forall ty rt0 j full, In j (committee c) -> ty <= T_ROUNDCHANGE ->
    signed_validate (own_core (with_me c j) ty h FIRST_ROUND rt0 NO_ROUND full) = true.
  Proof. intros. apply signed_validate_single; assumption. Qed.

  Lemma sig_check_true : forall k, c_sig_ok k = true -> sig_check ci k = true.
  Proof. intros k H. unfold sig_check. destruct (v_verify (var ci)); auto. Qed.

  (* start *)
  Lemma step_start :
    step ci (new_instance h) (OStart (start_value i)) =
    (set_start (set_round (new_instance h) FIRST_ROUND) h (start_value i),
     BStart false (OTimer h FIRST_ROUND ::
                   (if ld =? i then [OBcast (msg_of c h T_PROPOSAL i (hash (start_value i)) (start_value i))] else []))).
  Proof.
    unfold step, start. simpl s_started. simpl s_height.
    change (proposer ci h FIRST_ROUND) with (proposer c h FIRST_ROUND). rewrite Hld.
    simpl me. destruct (ld =? i); reflexivity.
  Qed.

  Let s1 := set_start (set_round (new_instance h) FIRST_ROUND) h (start_value i).

  Lemma q_gt0 : (q <=? N.of_nat 0) = false.
  Proof. apply N.leb_gt. unfold q. simpl. lia. Qed.

  Lemma valid_proposal_P : valid_proposal ci s1 P = Some true.
  Proof.
    unfold valid_proposal. cbn [co P msg_of own_core c_type c_height c_round c_signers c_full c_root s_height s1
      set_start set_round new_instance negb length Nat.eqb].
    rewrite !N.eqb_refl. cbn [negb].
    rewrite sig_check_true by reflexivity. cbn [negb].
    change (proposer ci h FIRST_ROUND) with (proposer c h FIRST_ROUND). rewrite Hld.
    cbn [me with_me]. rewrite matched_single, N.eqb_refl. cbn [negb].
    rewrite (sv_own T_PROPOSAL rt ld v ld_in) by (unfold T_PROPOSAL, T_ROUNDCHANGE; lia).
    cbn [negb].
    unfold proposal_justified. change (value_check ci v) with (value_check c v). rewrite Hvc.
    rewrite N.eqb_refl. cbn [andb negb]. reflexivity.
  Qed.

  Lemma can_process_first : forall s, s_stopped s = false -> s_round s = FIRST_ROUND -> can_process s = true.
  Proof. intros s H1 H2. unfold can_process. rewrite H1, H2. reflexivity. Qed.

  Lemma sv_P : signed_validate (co P) = true.
  Proof. apply (sv_own T_PROPOSAL rt ld v ld_in). unfold T_PROPOSAL, T_ROUNDCHANGE. lia. Qed.

  Lemma step_proposal :
    step ci s1 (OMsg P) = (st [] [], BMsg (POk false None None) [OBcast (fmsg h T_PREPARE rt i)]).
  Proof.
    unfold step, process_msg.
    rewrite (can_process_first s1) by reflexivity. cbn [negb].
    unfold base_msg_validation. rewrite sv_P. cbn [negb].
    change (c_round (co P) <? s_round s1) with (FIRST_ROUND <? FIRST_ROUND). rewrite N.ltb_irrefl.
    change (c_type (co P)) with T_PROPOSAL. rewrite N.eqb_refl.
    rewrite valid_proposal_P.
    unfold upon_proposal. change (s_prop s1) with (@nil (N * list smsg)).
    unfold cadd_first. cbn [cget existsb cput negb].
    change (c_round (co P)) with FIRST_ROUND. change (s_round s1) with FIRST_ROUND. rewrite N.ltb_irrefl.
    rewrite can_process_first by reflexivity.
    unfold st. cbn [length]. rewrite !q_gt0. reflexivity.
  Qed.

  (* one prepare *)
  Lemma NoDup_app_one : forall (l : list N) x, NoDup l -> ~ In x l -> NoDup (l ++ [x]).
  Proof.
    induction l as [|y tl IH]; intros x Hl Hx; simpl.
    - constructor; [intros []|constructor].
    - inversion Hl; subst. constructor.
      + intros Hin. apply in_app_or in Hin. destruct Hin as [Hin|[Hin|[]]]; [contradiction|].
        subst. apply Hx. left. reflexivity.
      + apply IH; [assumption|]. intros Hin. apply Hx. right. exact Hin.
  Qed.

  Lemma step_prepare : forall lp j,
    In j (committee c) -> NoDup lp -> ~ In j lp ->
    step ci (st lp []) (OMsg (fmsg h T_PREPARE rt j)) =
    (st (lp ++ [j]) [],
     BMsg (POk false None None)
          (if negb (q <=? N.of_nat (length lp)) && (q <=? N.of_nat (length (lp ++ [j])))
           then [OBcast (fmsg h T_COMMIT rt i)] else [])).
  Proof.
    intros lp j Hj Hlp Hn. unfold step, process_msg.
    rewrite (can_process_first (st lp [])) by reflexivity. cbn [negb].
    unfold base_msg_validation.
    change (co (fmsg h T_PREPARE rt j)) with
      {| c_type := T_PREPARE; c_height := h; c_round := FIRST_ROUND; c_root := rt; c_data_round := NO_ROUND;
         c_signers := [j]; c_full := None; c_sig_ok := true; c_fmt_ok := true; c_ident := 0 |}.
    rewrite (signed_validate_single T_PREPARE rt j None Hj) by (unfold T_PREPARE, T_ROUNDCHANGE; lia).
    cbn [negb c_round c_type s_round st]. rewrite N.ltb_irrefl.
    change (T_PREPARE =? T_PROPOSAL) with false. cbn iota. rewrite N.eqb_refl.
    change (s_acc (st lp [])) with (Some P). change (s_height (st lp [])) with h.
    assert (Hvp : valid_prepare ci (fmsg h T_PREPARE rt j) h FIRST_ROUND (c_root (co P)) = true).
    { unfold valid_prepare.
      change (co (fmsg h T_PREPARE rt j)) with
        {| c_type := T_PREPARE; c_height := h; c_round := FIRST_ROUND; c_root := rt; c_data_round := NO_ROUND;
           c_signers := [j]; c_full := None; c_sig_ok := true; c_fmt_ok := true; c_ident := 0 |}.
      rewrite (signed_validate_single T_PREPARE rt j None Hj) by (unfold T_PREPARE, T_ROUNDCHANGE; lia).
      cbn [c_type c_height c_round c_root c_signers length Nat.eqb].
      change (c_root (co P)) with rt. rewrite !N.eqb_refl.
      rewrite sig_check_true by reflexivity. reflexivity. }
    cbv beta iota. rewrite Hvp.
    unfold upon_prepare. change (s_prep (st lp [])) with (cont h T_PREPARE rt lp).
    change (s_round (st lp [])) with FIRST_ROUND. change (s_acc (st lp [])) with (Some P).
    rewrite cget_cont. unfold has_quorum at 1. rewrite unique_count_fmsg by exact Hlp.
    rewrite (cadd_first_cont h T_PREPARE rt lp j Hn). cbn [negb].
    change (quorum ci) with q.
    assert (Hlen : N.of_nat (length (lp ++ [j])) = N.of_nat (length lp) + 1).
    { rewrite app_length. simpl. lia. }
    assert (Hnd' : NoDup (lp ++ [j])).
    { apply NoDup_app_one; assumption. }
    destruct (q <=? N.of_nat (length lp)) eqn:Eb.
    - (* quorum reached before *)
      assert (Ea : (q <=? N.of_nat (length (lp ++ [j]))) = true).
      { apply N.leb_le. apply N.leb_le in Eb. lia. }
      cbn [negb andb].
      unfold set_prep, set_containers, st. cbn [s_round s_height s_lpr s_lpv s_acc s_decided s_dvalue s_prop s_prep s_commit s_rc s_start s_started s_stopped length].
      rewrite Ea, Eb, q_gt0. reflexivity.
    - cbn [negb andb]. rewrite cget_cont. unfold has_quorum. rewrite unique_count_fmsg by exact Hnd'.
      change (quorum ci) with q.
      destruct (q <=? N.of_nat (length (lp ++ [j]))) eqn:Ea; cbn [negb].
      + unfold set_prepared, set_prep, set_containers, st, create_commit.
        cbn [s_round s_height s_lpr s_lpv s_acc s_decided s_dvalue s_prop s_prep s_commit s_rc s_start s_started s_stopped length].
        rewrite Ea, q_gt0. reflexivity.
      + unfold set_prep, set_containers, st.
        cbn [s_round s_height s_lpr s_lpv s_acc s_decided s_dvalue s_prop s_prep s_commit s_rc s_start s_started s_stopped length].
        rewrite Ea, Eb, q_gt0. reflexivity.
  Qed.

  (* one commit *)
  Lemma step_commit : forall lp lc j,
    In j (committee c) -> NoDup lc -> ~ In j lc ->
    exists r, step ci (st lp lc) (OMsg (fmsg h T_COMMIT rt j)) = (st lp (lc ++ [j]), BMsg r []).
  Proof.
    intros lp lc j Hj Hlc Hn. unfold step, process_msg.
    rewrite (can_process_first (st lp lc)) by reflexivity. cbn [negb].
    unfold base_msg_validation.
    change (co (fmsg h T_COMMIT rt j)) with
      {| c_type := T_COMMIT; c_height := h; c_round := FIRST_ROUND; c_root := rt; c_data_round := NO_ROUND;
         c_signers := [j]; c_full := None; c_sig_ok := true; c_fmt_ok := true; c_ident := 0 |}.
    rewrite (signed_validate_single T_COMMIT rt j None Hj) by (unfold T_COMMIT, T_ROUNDCHANGE; lia).
    cbn [negb c_round c_type]. change (s_round (st lp lc)) with FIRST_ROUND. rewrite N.ltb_irrefl.
    change (T_COMMIT =? T_PROPOSAL) with false. change (T_COMMIT =? T_PREPARE) with false. cbv beta iota.
    rewrite N.eqb_refl.
    change (s_acc (st lp lc)) with (Some P). change (s_height (st lp lc)) with h.
    assert (Hvc' : validate_commit ci (fmsg h T_COMMIT rt j) h FIRST_ROUND P = true).
    { unfold validate_commit, base_commit_validation.
      change (co (fmsg h T_COMMIT rt j)) with
        {| c_type := T_COMMIT; c_height := h; c_round := FIRST_ROUND; c_root := rt; c_data_round := NO_ROUND;
           c_signers := [j]; c_full := None; c_sig_ok := true; c_fmt_ok := true; c_ident := 0 |}.
      rewrite (signed_validate_single T_COMMIT rt j None Hj) by (unfold T_COMMIT, T_ROUNDCHANGE; lia).
      cbn [c_type c_height c_round c_root c_signers length Nat.eqb].
      change (c_root (co P)) with rt. rewrite !N.eqb_refl.
      rewrite sig_check_true by reflexivity. reflexivity. }
    cbv beta iota. rewrite Hvc'.
    unfold upon_commit. change (s_commit (st lp lc)) with (cont h T_COMMIT rt lc).
    rewrite (cadd_first_cont h T_COMMIT rt lc j Hn). cbn [negb].
    change (c_round (co (fmsg h T_COMMIT rt j))) with FIRST_ROUND.
    change (c_root (co (fmsg h T_COMMIT rt j))) with rt.
    assert (Hnd' : NoDup (lc ++ [j])) by (apply NoDup_app_one; assumption).
    assert (Hne : lc ++ [j] <> []) by (destruct lc; discriminate).
    rewrite (longest_unique_cont h T_COMMIT rt (lc ++ [j]) Hnd' Hne).
    change (quorum ci) with q. change (s_acc (st lp lc)) with (Some P). change (c_full (co P)) with v.
    assert (Hlen : N.of_nat (length (lc ++ [j])) = N.of_nat (length lc) + 1).
    { rewrite app_length. simpl. lia. }
    destruct (q <=? N.of_nat (length (lc ++ [j]))) eqn:Ea.
    - destruct (aggregate_fmsg ci h T_COMMIT rt (lc ++ [j]) (c_full (co P)) Hne) as [agg Hagg]. rewrite Hagg.
      change (c_full (co P)) with v.
      eexists. f_equal.
      unfold set_decided, set_commit, set_containers, st.
      cbn [s_round s_height s_lpr s_lpv s_acc s_decided s_dvalue s_prop s_prep s_commit s_rc s_start s_started s_stopped].
      rewrite Ea. reflexivity.
    - assert (Eb : (q <=? N.of_nat (length lc)) = false).
      { apply N.leb_gt. apply N.leb_gt in Ea. lia. }
      eexists. f_equal.
      unfold set_commit, set_containers, st.
      cbn [s_round s_height s_lpr s_lpv s_acc s_decided s_dvalue s_prop s_prep s_commit s_rc s_start s_started s_stopped].
      rewrite Ea, Eb. reflexivity.
  Qed.

  Definition obcasts (b : obs) : list smsg :=
    flat_map (fun o => match o with OBcast m => [m] | OTimer _ _ => [] end) (outs_of b).

  Lemma bcasts_cons : forall b bs, bcasts (b :: bs) = obcasts b ++ bcasts bs.
  Proof. reflexivity. Qed.

  Lemma incl_committee_cons : forall x (l : list N), (forall y, In y (x :: l) -> In y (committee c)) ->
    In x (committee c) /\ (forall y, In y l -> In y (committee c)).
  Proof. intros x l H. split; [apply H; left; reflexivity|intros y Hy; apply H; right; exact Hy]. Qed.

  (* all prepares of [rest] after those of [done] *)
  Lemma run_prepares : forall rest done,
    NoDup (done ++ rest) -> (forall y, In y rest -> In y (committee c)) ->
    exists bs,
      run ci (st done []) (map (fun j => OMsg (fmsg h T_PREPARE rt j)) rest) = (st (done ++ rest) [], bs) /\
      bcasts bs = if negb (q <=? N.of_nat (length done)) && (q <=? N.of_nat (length (done ++ rest)))
                  then [fmsg h T_COMMIT rt i] else [].
  Proof.
    induction rest as [|x tl IH]; intros done Hnd0 Hin.
    - simpl. exists []. rewrite app_nil_r. split; [reflexivity|].
      destruct (q <=? N.of_nat (length done)); reflexivity.
    - destruct (incl_committee_cons x tl Hin) as [Hx Htl].
      assert (Hd : NoDup done /\ ~ In x done).
      { split.
        - eapply NoDup_app_l; exact Hnd0.
        - intros Hc. apply NoDup_remove_2 in Hnd0. apply Hnd0. apply in_or_app. left. exact Hc. }
      destruct Hd as [Hd Hxd].
      assert (Hnd2 : NoDup ((done ++ [x]) ++ tl)) by (rewrite <- app_assoc; exact Hnd0).
      destruct (IH (done ++ [x]) Hnd2 Htl) as [bs [Hrun Hb]].
      cbn [map run]. rewrite (step_prepare done x Hx Hd Hxd). rewrite Hrun.
      eexists. split; [rewrite <- app_assoc; reflexivity|].
      rewrite bcasts_cons, Hb. unfold obcasts, outs_of.
      assert (L1 : N.of_nat (length (done ++ [x])) = N.of_nat (length done) + 1).
      { rewrite app_length. simpl. lia. }
      assert (L2 : N.of_nat (length ((done ++ [x]) ++ tl)) = N.of_nat (length done) + 1 + N.of_nat (length tl)).
      { rewrite !app_length. simpl. lia. }
      assert (L3 : N.of_nat (length (done ++ x :: tl)) = N.of_nat (length done) + 1 + N.of_nat (length tl)).
      { rewrite !app_length. simpl. lia. }
      rewrite L1, L2, L3.
      destruct (N.leb_spec q (N.of_nat (length done))) as [A|A];
      destruct (N.leb_spec q (N.of_nat (length done) + 1)) as [B0|B0];
      destruct (N.leb_spec q (N.of_nat (length done) + 1 + N.of_nat (length tl))) as [C|C];
      cbn [negb andb flat_map app]; try reflexivity; lia.
  Qed.

  (* all commits of [rest] after those of [done] *)
  Lemma run_commits : forall rest lp done,
    NoDup (done ++ rest) -> (forall y, In y rest -> In y (committee c)) ->
    exists bs,
      run ci (st lp done) (map (fun j => OMsg (fmsg h T_COMMIT rt j)) rest) = (st lp (done ++ rest), bs) /\
      bcasts bs = [].
  Proof.
    induction rest as [|x tl IH]; intros lp done Hnd0 Hin.
    - simpl. exists []. rewrite app_nil_r. split; reflexivity.
    - destruct (incl_committee_cons x tl Hin) as [Hx Htl].
      assert (Hd : NoDup done /\ ~ In x done).
      { split.
        - eapply NoDup_app_l; exact Hnd0.
        - intros Hc. apply NoDup_remove_2 in Hnd0. apply Hnd0. apply in_or_app. left. exact Hc. }
      destruct Hd as [Hd Hxd].
      assert (Hnd2 : NoDup ((done ++ [x]) ++ tl)) by (rewrite <- app_assoc; exact Hnd0).
      destruct (IH lp (done ++ [x]) Hnd2 Htl) as [bs [Hrun Hb]].
      destruct (step_commit lp done x Hx Hd Hxd) as [r Hstep].
      cbn [map run]. rewrite Hstep, Hrun.
      eexists. split; [rewrite <- app_assoc; reflexivity|].
      rewrite bcasts_cons, Hb. reflexivity.
  Qed.

  (* the whole first round of operator i *)
  Lemma sync_run :
    v = start_value ld ->
    exists bs,
      run ci (new_instance h)
        (OStart (start_value i) :: OMsg P ::
         map (fun j => OMsg (fmsg h T_PREPARE rt j)) (committee c) ++
         map (fun j => OMsg (fmsg h T_COMMIT rt j)) (committee c))
      = (st (committee c) (committee c), bs) /\
      bcasts bs = (if i =? ld then [P] else []) ++ [fmsg h T_PREPARE rt i; fmsg h T_COMMIT rt i].
  Proof.
    intros Hv.
    destruct (run_prepares (committee c) [] Hnd (fun y Hy => Hy)) as [bp [Hrp Hbp]].
    destruct (run_commits (committee c) (committee c) [] Hnd (fun y Hy => Hy)) as [bc [Hrc Hbc]].
    simpl app in Hrp, Hrc, Hbp.
    cbn [run]. rewrite step_start.
    change (set_start (set_round (new_instance h) FIRST_ROUND) h (start_value i)) with s1.
    rewrite step_proposal. rewrite run_app, Hrp, Hrc.
    eexists. split; [reflexivity|].
    rewrite !bcasts_cons. unfold obcasts, outs_of.
    assert (Hb : bcasts (bp ++ bc) = bcasts bp ++ bcasts bc).
    { unfold bcasts. apply flat_map_app. }
    rewrite Hb, Hbp, Hbc. cbn [length]. rewrite q_gt0.
    assert (Hq : (q <=? N.of_nat (length (committee c))) = true) by (apply N.leb_le; exact Hqn).
    rewrite Hq. cbn [negb andb]. rewrite app_nil_r.
    rewrite (N.eqb_sym i ld).
    destruct (ld =? i) eqn:E.
    - apply N.eqb_eq in E. cbn [flat_map app]. unfold P, rt. rewrite Hv, <- E. reflexivity.
    - reflexivity.
  Qed.
End Sync.

(* C07 (b) for every committee: NoDup, no id 0, any quorum between 1 and the size (2f+1 of 3f+1 in
   particular), every height whose leader computation succeeds, every leader start value that passes
   the value check: operator i broadcasts exactly (its proposal if it leads,) its prepare and its commit,
   ends decided on the leader's value, still in round 1. *)
Theorem sync_fault_free_generic : forall (c : cfg) (h ld : N),
  NoDup (committee c) -> ~ In 0 (committee c) ->
  1 <= quorum c -> quorum c <= N.of_nat (length (committee c)) ->
  proposer c h FIRST_ROUND = Some ld ->
  value_check c (start_value ld) = true ->
  forall i, In i (committee c) -> sync_node_ok c h ld i = true.
Proof.
  intros c h ld Hnd Hnz Hq1 Hqn Hld Hvc i Hi.
  destruct (sync_run c h ld i (start_value ld) Hnd Hnz Hld Hvc Hq1 Hqn eq_refl) as [bs [Hrun Hb]].
  unfold sync_node_ok.
  assert (E1 : map (fun j => OMsg (msg_of c h T_PREPARE j (hash (start_value ld)) None)) (committee c)
             = map (fun j => OMsg (fmsg h T_PREPARE (hash (start_value ld)) j)) (committee c))
    by (apply map_ext; reflexivity).
  assert (E2 : map (fun j => OMsg (msg_of c h T_COMMIT j (hash (start_value ld)) None)) (committee c)
             = map (fun j => OMsg (fmsg h T_COMMIT (hash (start_value ld)) j)) (committee c))
    by (apply map_ext; reflexivity).
  rewrite E1, E2, Hrun, Hb.
  assert (Hq : (quorum c <=? N.of_nat (length (committee c))) = true) by (apply N.leb_le; exact Hqn).
  unfold st. cbn [s_decided s_dvalue s_round]. rewrite Hq. cbn [andb].
  rewrite opt_eqb_refl, N.eqb_refl. cbn [andb].
  apply smsgs_eqb_flat_refl.
  destruct (i =? ld); repeat constructor.
Qed.

(* in particular the statement left open in Qbft/SyncRound.v *)
Theorem sync_fault_free_statement_holds : sync_fault_free_statement.
Proof.
  intros c f h ld Hnd Hnz Hlen Hq Hld Hvc i Hi.
  apply sync_fault_free_generic; auto; rewrite Hq, ?Hlen; lia.
Qed.
