(* Quorum intersection for a committee of 3f+1 operators with at most f Byzantine ones. *)
From Coq Require Import List NArith Bool Lia.
Import ListNotations.

Section Quorum.
Variable committee : list N.
Variable byz : N -> bool.
Variable f : nat.
Hypothesis Hnd : NoDup committee.
Hypothesis Hsize : length committee = 3 * f + 1.
Hypothesis Hbyz : length (filter byz committee) <= f.

Definition inb (l : list N) (x : N) : bool := existsb (N.eqb x) l.

Lemma inb_In l x : inb l x = true <-> In x l.
Proof.
  unfold inb. rewrite existsb_exists. split.
  - intros (y & Hy & E). apply N.eqb_eq in E. subst. exact Hy.
  - intros H. exists x. split; [exact H|apply N.eqb_refl].
Qed.

Lemma filter_length_partition {A} (p : A -> bool) l :
  length l = length (filter p l) + length (filter (fun x => negb (p x)) l).
Proof. induction l as [|a tl IH]; cbn; [reflexivity|]. destruct (p a); cbn; lia. Qed.

Lemma NoDup_filter {A} (p : A -> bool) l : NoDup l -> NoDup (filter p l).
Proof.
  induction l as [|a tl IH]; cbn; intros H; [constructor|]. inversion H as [|? ? Hna Hnt]; subst.
  destruct (p a).
  - constructor; [|apply IH; exact Hnt]. intros Hin. apply filter_In in Hin. apply Hna. apply Hin.
  - apply IH. exact Hnt.
Qed.

Lemma NoDup_app_disjoint {A} (l1 l2 : list A) :
  NoDup l1 -> NoDup l2 -> (forall x, In x l1 -> ~ In x l2) -> NoDup (l1 ++ l2).
Proof.
  induction l1 as [|a tl IH]; cbn; intros H1 H2 Hd; [exact H2|].
  inversion H1 as [|? ? Hna Hnt]; subst. constructor.
  - intros Hin. apply in_app_or in Hin. destruct Hin as [Hin|Hin]; [contradiction|].
    apply (Hd a); [left; reflexivity|exact Hin].
  - apply IH; [exact Hnt|exact H2|]. intros x Hx. apply Hd. right. exact Hx.
Qed.

(* |A| + |B| <= |C| + |A /\ B| for duplicate-free subsets of C *)
Lemma inclusion_exclusion (A B C : list N) :
  NoDup A -> NoDup B -> NoDup C -> incl A C -> incl B C ->
  length A + length B <= length C + length (filter (inb B) A).
Proof.
  intros HA HB HC HAC HBC.
  rewrite (filter_length_partition (inb B) A).
  set (A' := filter (fun x => negb (inb B x)) A).
  assert (Hnd' : NoDup (A' ++ B)).
  { apply NoDup_app_disjoint; [apply NoDup_filter; exact HA|exact HB|].
    intros x Hx Hb. unfold A' in Hx. apply filter_In in Hx. destruct Hx as [_ Hx].
    apply inb_In in Hb. rewrite Hb in Hx. discriminate. }
  assert (Hincl : incl (A' ++ B) C).
  { intros x Hx. apply in_app_or in Hx. destruct Hx as [Hx|Hx]; [|auto].
    unfold A' in Hx. apply filter_In in Hx. apply HAC. apply Hx. }
  pose proof (NoDup_incl_length Hnd' Hincl) as Hlen. rewrite app_length in Hlen. lia.
Qed.

(* a duplicate-free subset of the committee with more than f members contains an honest one *)
Lemma has_honest (A : list N) :
  NoDup A -> incl A committee -> f + 1 <= length A -> exists x, In x A /\ byz x = false.
Proof.
  intros HA Hincl Hlen.
  destruct (filter (fun x => negb (byz x)) A) as [|x tl] eqn:E.
  - exfalso. pose proof (filter_length_partition byz A) as Hp. rewrite E in Hp. cbn in Hp.
    assert (Hb : length (filter byz A) <= length (filter byz committee)).
    { apply NoDup_incl_length; [apply NoDup_filter; exact HA|].
      intros y Hy. apply filter_In in Hy. apply filter_In. split; [apply Hincl; apply Hy|apply Hy]. }
    lia.
  - exists x. assert (Hin : In x (filter (fun x => negb (byz x)) A)) by (rewrite E; left; reflexivity).
    apply filter_In in Hin. destruct Hin as [Hin Hb]. split; [exact Hin|]. destruct (byz x); [discriminate|reflexivity].
Qed.

Theorem quorum_intersection (A B : list N) :
  NoDup A -> NoDup B -> incl A committee -> incl B committee ->
  2 * f + 1 <= length A -> 2 * f + 1 <= length B ->
  exists x, In x A /\ In x B /\ byz x = false.
Proof.
  intros HA HB HAC HBC HlA HlB.
  pose proof (inclusion_exclusion A B committee HA HB Hnd HAC HBC) as Hie.
  set (I := filter (inb B) A) in *.
  assert (HI : f + 1 <= length I) by lia.
  destruct (has_honest I) as (x & Hx & Hb).
  - apply NoDup_filter. exact HA.
  - intros y Hy. unfold I in Hy. apply filter_In in Hy. apply HAC. apply Hy.
  - exact HI.
  - unfold I in Hx. apply filter_In in Hx. destruct Hx as [HxA HxB].
    exists x. split; [exact HxA|]. split; [apply inb_In; exact HxB|exact Hb].
Qed.

End Quorum.
