(* C10, second sentence, composed: rounds of the protocol model (every committee, quorum, height, leader) through
   the validation model's entry point.  Every message the correct operators broadcast in such a round - delivered
   to a correct peer in ANY order, each at most once, while the peer's beacon clock is in the duty's slot - is
   Accepted (never Ignored, never Rejected):
   - the fault-free first round (C07_sync_fault_free_generic),
   - round 2 of the recovery from a silent first round (C07_recovery_from_silent_round),
   - round 2 of the recovery from a prepared first round (C07_recovery_from_prepared_round). *)
From Coq Require Import List NArith ZArith Bool Lia.
From SSV Require Import Qbft.Model Qbft.SyncRound Qbft.SyncGeneric Qbft.RecoverGeneric Qbft.RecoverPrepared
     Qbft.Bridge Qbft.HonestGate.
From SSV Require Validation.Model Gen.ValidationConsts Validation.ProofsPanic Validation.HonestRound
     Validation.HonestEnvelope.
Import ListNotations.
Local Open Scope N_scope.

Module HE := SSV.Validation.HonestEnvelope.
Module VP := SSV.Validation.ProofsPanic.

Definition item_of (m : smsg) : N * N := match m with SM k _ _ => (c_type k, hd 0 (c_signers k)) end.

Lemma NoDup_map_inj_on : forall (A B : Type) (f : A -> B) (l : list A),
  (forall x y, In x l -> In y l -> f x = f y -> x = y) -> NoDup l -> NoDup (map f l).
Proof.
  intros A B f l Hinj Hnd. induction Hnd as [|a l Hni Hnd IH]; [constructor|].
  cbn [map]. constructor.
  - intros Hin. apply in_map_iff in Hin. destruct Hin as (y & Ey & Hy).
    assert (y = a) by (apply Hinj; [right; exact Hy|left; reflexivity|exact Ey]). subst. contradiction.
  - apply IH. intros x y Hx Hy. apply Hinj; right; assumption.
Qed.

Lemma item_of_gate : forall fdlen m h rho v nrc rcfull nrcj npj t s,
  gate_msg fdlen true m = HR.hmsg h rho v fdlen nrc rcfull nrcj npj t s -> item_of m = (t, s).
Proof.
  intros fdlen [k rcj pj] h rho v nrc rcfull nrcj npj t s Eg.
  pose proof (f_equal V.c_type Eg) as E1. pose proof (f_equal V.c_signers Eg) as E2.
  cbn in E1, E2. unfold item_of. rewrite E1, E2. reflexivity.
Qed.

(* ---- any bundle of one round's messages ---------------------------------------------------------------------- *)

Section Bundle.
(* the peer's validator *)
Variables (vc : V.cfg) (sh : V.share) (vid role fdlen : N) (p2p : bool) (rawlen dlen pkprefix : N).
Hypothesis W : VP.wf_cfg vc.
Hypothesis Hshare : V.get_share vc vid = Some sh.
Hypothesis Hliq : V.s_liquidated sh = false.
Hypothesis Hmeta : V.s_has_meta sh = true.
Hypothesis Hatt : V.s_attesting sh = true.
Hypothesis Hd0 : dlen <> 0.
Hypothesis Hd1 : dlen <= VC.maxConsensusMsgSize.
Hypothesis Hr0 : VC.messageOffset < rawlen.
Hypothesis Hr1 : rawlen <= VC.maxEncodedMsgSize.
Hypothesis Hrole : (N.eqb role VC.roleValidatorRegistration || N.eqb role VC.roleVoluntaryExit) = false.
Hypothesis Hvalid : V.valid_role role = true.
Hypothesis Hfd : fdlen <> 0.

(* the envelope a peer receives for protocol message [m] *)
Definition envelope_of (m : smsg) : V.envelope :=
  {| V.e_p2p := p2p; V.e_raw_len := rawlen; V.e_topic := Some (pkprefix mod VC.subnetsCount);
     V.e_op_found := true; V.e_op_key_ok := true; V.e_rsa_ok := true; V.e_ssv_decode_ok := true;
     V.e_data_len := dlen; V.e_domain := V.c_domain vc; V.e_pk_prefix := pkprefix; V.e_role := role;
     V.e_pk_deser_ok := true; V.e_vid := vid; V.e_msg_type := VC.ssvConsensusMsgType;
     V.e_body := V.BConsensus (gate_msg fdlen true m) |}.

Variables (B : list smsg) (h rho ldr v nrc : N) (rcfull : bool) (nrcj npj : N).
Hypothesis Hitem : forall m, In m B ->
  exists t s, gate_msg fdlen true m = HR.hmsg h rho v fdlen nrc rcfull nrcj npj t s /\ HR.honest_item sh ldr (t, s).
Hypothesis Hinj : forall m1 m2, In m1 B -> In m2 B -> item_of m1 = item_of m2 -> m1 = m2.
Hypothesis Hleader : V.round_robin (V.s_committee sh) h rho = V.LeaderIs ldr.
Hypothesis Hrr : V.rr_defined sh h rho = true.
Hypothesis Hrho1 : VC.firstRound <= rho.
Hypothesis Hrho2 : rho <= 2.

Lemma bundle_is_accepted : forall (l : list ((Z * Z) * smsg)) (vs : V.vstate),
  HR.before_round h rho (V.get_cs (vid, role) vs) ->
  NoDup (map snd l) ->
  Forall (fun x => HE.in_slot vc h (fst x) /\ In (snd x) B) l ->
  Forall (eq V.Accept) (snd (V.run vc vs (map (fun x => (fst x, envelope_of (snd x))) l))).
Proof.
  intros l vs Hfresh Hndl Hall.
  set (l' := map (fun x => (fst x, item_of (snd x))) l).
  assert (Hit : forall m, In m B ->
            gate_msg fdlen true m = HR.hmsg h rho v fdlen nrc rcfull nrcj npj (fst (item_of m)) (snd (item_of m)) /\
            HR.honest_item sh ldr (item_of m)).
  { intros m Hm. destruct (Hitem m Hm) as (t & s & Eg & Hi).
    pose proof (item_of_gate _ _ _ _ _ _ _ _ _ _ _ Eg) as Et. rewrite Et. cbn [fst snd]. split; assumption. }
  assert (Hmap : map (fun x => (fst x, envelope_of (snd x))) l =
                 map (fun x => (fst x, HE.henv vc vid role h rho v fdlen nrc rcfull nrcj npj p2p rawlen dlen pkprefix
                                        (fst (snd x)) (snd (snd x)))) l').
  { unfold l'. rewrite map_map. apply map_ext_in. intros [now m] Hx. cbn [fst snd].
    rewrite Forall_forall in Hall. destruct (Hall _ Hx) as [_ Hm]. cbn [snd] in Hm.
    destruct (Hit m Hm) as [Eg _]. unfold envelope_of, HE.henv. rewrite Eg. reflexivity. }
  rewrite Hmap.
  apply (HE.honest_round_accepted_at_the_gate vc sh vid role h rho ldr v fdlen nrc rcfull nrcj npj p2p rawlen dlen pkprefix
           W Hshare Hliq Hmeta Hatt Hd0 Hd1 Hr0 Hr1 Hrole Hvalid Hleader Hrr Hfd Hrho1 Hrho2 l' vs Hfresh).
  - unfold l'. rewrite map_map. cbn [snd].
    rewrite <- (map_map snd item_of). apply NoDup_map_inj_on; [|exact Hndl].
    intros x y Hx Hy. rewrite Forall_forall in Hall.
    apply in_map_iff in Hx. destruct Hx as (x0 & <- & Hx0). apply in_map_iff in Hy. destruct Hy as (y0 & <- & Hy0).
    apply Hinj; [exact (proj2 (Hall _ Hx0))|exact (proj2 (Hall _ Hy0))].
  - unfold l'. rewrite Forall_forall. intros x Hx. apply in_map_iff in Hx. destruct Hx as ([now m] & <- & Hx0).
    cbn [fst snd]. rewrite Forall_forall in Hall. destruct (Hall _ Hx0) as [Hs Hm]. cbn [fst snd] in Hs, Hm.
    split; [exact Hs|]. exact (proj2 (Hit m Hm)).
Qed.

End Bundle.

(* ---- the three bundles ----------------------------------------------------------------------------------------- *)

Definition all_broadcasts (c : cfg) (h ld : N) : list smsg := flat_map (round_broadcasts c h ld) (committee c).

Definition rebuild (c : cfg) (h ld : N) (x : N * N) : smsg :=
  let v := start_value ld in
  msg_of c h (fst x) (snd x) (hash v) (if fst x =? T_PROPOSAL then v else None).

Lemma broadcast_rebuild : forall c h ld m, In m (all_broadcasts c h ld) -> m = rebuild c h ld (item_of m).
Proof.
  intros c h ld m Hm. unfold all_broadcasts in Hm. apply in_flat_map in Hm. destruct Hm as (i & _ & Hm).
  unfold round_broadcasts in Hm. apply in_app_or in Hm. destruct Hm as [Hm|[<-|[<-|[]]]]; try reflexivity.
  destruct (i =? ld); [|destruct Hm]. destruct Hm as [<-|[]]. reflexivity.
Qed.

Lemma item_of_inj : forall c h ld m1 m2,
  In m1 (all_broadcasts c h ld) -> In m2 (all_broadcasts c h ld) -> item_of m1 = item_of m2 -> m1 = m2.
Proof.
  intros c h ld m1 m2 H1 H2 E. rewrite (broadcast_rebuild c h ld m1 H1), (broadcast_rebuild c h ld m2 H2), E.
  reflexivity.
Qed.

Definition all_broadcasts2 (c : cfg) (h ld2 : N) (live : list N) : list smsg :=
  flat_map (round2_broadcasts c h ld2 live) live.

Definition rebuild2 (c : cfg) (h ld2 : N) (live : list N) (x : N * N) : smsg :=
  if fst x =? T_PROPOSAL then prop2 c h (snd x) (firstn (N.to_nat (quorum c)) live)
  else if fst x =? T_ROUNDCHANGE then rcm h (snd x)
  else fm2 h (fst x) (hash (start_value ld2)) (snd x).

Lemma broadcast2_rebuild : forall c h ld2 live m,
  In m (all_broadcasts2 c h ld2 live) -> m = rebuild2 c h ld2 live (item_of m).
Proof.
  intros c h ld2 live m Hm. unfold all_broadcasts2 in Hm. apply in_flat_map in Hm. destruct Hm as (i & _ & Hm).
  unfold round2_broadcasts in Hm. cbn [app] in Hm. destruct Hm as [<-|Hm]; [reflexivity|].
  apply in_app_or in Hm. destruct Hm as [Hm|[<-|[<-|[]]]]; try reflexivity.
  destruct (N.eqb_spec ld2 i) as [->|]; [|destruct Hm]. destruct Hm as [<-|[]]. reflexivity.
Qed.

Lemma item_of_inj2 : forall c h ld2 live m1 m2,
  In m1 (all_broadcasts2 c h ld2 live) -> In m2 (all_broadcasts2 c h ld2 live) -> item_of m1 = item_of m2 -> m1 = m2.
Proof.
  intros c h ld2 live m1 m2 H1 H2 E.
  rewrite (broadcast2_rebuild c h ld2 live m1 H1), (broadcast2_rebuild c h ld2 live m2 H2), E. reflexivity.
Qed.

Definition all_broadcasts2p (c : cfg) (h ld1 ld2 : N) (live : list N) : list smsg :=
  flat_map (round2p_broadcasts c h ld1 ld2 live) live.

Definition rebuild2p (c : cfg) (h ld1 : N) (live : list N) (x : N * N) : smsg :=
  if fst x =? T_PROPOSAL then prop2p c h ld1 live (snd x) (firstn (N.to_nat (quorum c)) live)
  else if fst x =? T_ROUNDCHANGE then rcp h ld1 live (start_value ld1) (snd x)
  else fm2 h (fst x) (hash (start_value ld1)) (snd x).

Lemma broadcast2p_rebuild : forall c h ld1 ld2 live m,
  In m (all_broadcasts2p c h ld1 ld2 live) -> m = rebuild2p c h ld1 live (item_of m).
Proof.
  intros c h ld1 ld2 live m Hm. unfold all_broadcasts2p in Hm. apply in_flat_map in Hm. destruct Hm as (i & _ & Hm).
  unfold round2p_broadcasts in Hm. cbn [app] in Hm. destruct Hm as [<-|Hm]; [reflexivity|].
  apply in_app_or in Hm. destruct Hm as [Hm|[<-|[<-|[]]]]; try reflexivity.
  destruct (N.eqb_spec ld2 i) as [->|]; [|destruct Hm]. destruct Hm as [<-|[]]. reflexivity.
Qed.

Lemma item_of_inj2p : forall c h ld1 ld2 live m1 m2,
  In m1 (all_broadcasts2p c h ld1 ld2 live) -> In m2 (all_broadcasts2p c h ld1 ld2 live) ->
  item_of m1 = item_of m2 -> m1 = m2.
Proof.
  intros c h ld1 ld2 live m1 m2 H1 H2 E.
  rewrite (broadcast2p_rebuild c h ld1 ld2 live m1 H1), (broadcast2p_rebuild c h ld1 ld2 live m2 H2), E. reflexivity.
Qed.

(* 1. the operators of the protocol model broadcast exactly [round_broadcasts] in the fault-free round (C07) *)
Theorem every_operator_broadcasts_round_broadcasts : forall (qc : cfg) (h ld : N),
  NoDup (committee qc) -> ~ In 0 (committee qc) ->
  1 <= quorum qc -> quorum qc <= N.of_nat (length (committee qc)) ->
  proposer qc h FIRST_ROUND = Some ld -> value_check qc (start_value ld) = true ->
  forall i, In i (committee qc) ->
  exists s bs, run (with_me qc i) (new_instance h)
                   (OStart (start_value i)
                    :: OMsg (msg_of qc h T_PROPOSAL ld (hash (start_value ld)) (start_value ld))
                    :: map (fun j => OMsg (msg_of qc h T_PREPARE j (hash (start_value ld)) None)) (committee qc)
                    ++ map (fun j => OMsg (msg_of qc h T_COMMIT j (hash (start_value ld)) None)) (committee qc))
               = (s, bs) /\
              smsgs_eqb (bcasts bs) (round_broadcasts qc h ld i) = true.
Proof.
  intros qc h ld Hnd Hz Hq1 Hq2 Hld Hvc i Hi. apply sync_node_ok_broadcasts.
  apply (sync_fault_free_generic qc h ld Hnd Hz Hq1 Hq2 Hld Hvc i Hi).
Qed.

Section Rounds.
Variables (qc : cfg) (h : N).
Hypothesis Hz : ~ In 0 (committee qc).
Hypothesis Hh : h <= 9223372036854775807.
Variables (vc : V.cfg) (sh : V.share) (vid role fdlen : N) (p2p : bool) (rawlen dlen pkprefix : N).
Hypothesis W : VP.wf_cfg vc.
Hypothesis Hshare : V.get_share vc vid = Some sh.
Hypothesis Hcomm : V.s_committee sh = committee qc.
Hypothesis Hliq : V.s_liquidated sh = false.
Hypothesis Hmeta : V.s_has_meta sh = true.
Hypothesis Hatt : V.s_attesting sh = true.
Hypothesis Hd0 : dlen <> 0.
Hypothesis Hd1 : dlen <= VC.maxConsensusMsgSize.
Hypothesis Hr0 : VC.messageOffset < rawlen.
Hypothesis Hr1 : rawlen <= VC.maxEncodedMsgSize.
Hypothesis Hrole : (N.eqb role VC.roleValidatorRegistration || N.eqb role VC.roleVoluntaryExit) = false.
Hypothesis Hvalid : V.valid_role role = true.
Hypothesis Hfd : fdlen <> 0.

Let env := envelope_of vc vid role fdlen p2p rawlen dlen pkprefix.

Lemma h64 : h < 18446744073709551616.
Proof. lia. Qed.

Lemma committee_not_empty : forall rho ldr, V.round_robin (V.s_committee sh) h rho = V.LeaderIs ldr -> committee qc <> [].
Proof.
  intros rho ldr L E. rewrite Hcomm, E in L. unfold V.round_robin in L. cbn in L. discriminate.
Qed.

(* 2. a correct peer accepts every broadcast of the fault-free first round *)
Theorem fault_free_round_is_accepted : forall ld,
  proposer qc h FIRST_ROUND = Some ld ->
  forall (l : list ((Z * Z) * smsg)) (vs : V.vstate),
  HR.before_round h VC.firstRound (V.get_cs (vid, role) vs) ->
  NoDup (map snd l) ->
  Forall (fun x => HE.in_slot vc h (fst x) /\ In (snd x) (all_broadcasts qc h ld)) l ->
  Forall (eq V.Accept) (snd (V.run vc vs (map (fun x => (fst x, env (snd x))) l))).
Proof.
  intros ld Hld. pose proof (leader_is qc sh h ld Hcomm Hld h64) as Hleader.
  assert (Hrr : V.rr_defined sh h VC.firstRound = true).
  { apply rr_defined_in_range; try (unfold VC.firstRound; lia). rewrite Hcomm.
    exact (committee_not_empty _ _ Hleader). }
  apply (bundle_is_accepted vc sh vid role fdlen p2p rawlen dlen pkprefix W Hshare Hliq Hmeta Hatt Hd0 Hd1 Hr0 Hr1
           Hrole Hvalid Hfd (all_broadcasts qc h ld) h VC.firstRound ld (value_name ld) 0 false 0 0).
  - intros m Hm. unfold all_broadcasts in Hm. apply in_flat_map in Hm. destruct Hm as (i & Hi & Hm).
    exact (round_broadcasts_are_honest_items qc sh h ld fdlen Hcomm Hz i m Hi Hm).
  - apply item_of_inj.
  - exact Hleader.
  - exact Hrr.
  - unfold VC.firstRound. lia.
  - unfold VC.firstRound. lia.
Qed.

(* 3. round 2 of the recovery from a silent first round *)
Theorem recovery_round_is_accepted : forall ld2 (live : list N),
  (forall y, In y live -> In y (committee qc)) ->
  proposer qc h R2 = Some ld2 ->
  forall (l : list ((Z * Z) * smsg)) (vs : V.vstate),
  HR.before_round h 2 (V.get_cs (vid, role) vs) ->
  NoDup (map snd l) ->
  Forall (fun x => HE.in_slot vc h (fst x) /\ In (snd x) (all_broadcasts2 qc h ld2 live)) l ->
  Forall (eq V.Accept) (snd (V.run vc vs (map (fun x => (fst x, env (snd x))) l))).
Proof.
  intros ld2 live Hlive Hld. pose proof (leader2_is qc sh h ld2 Hcomm Hld h64) as Hleader.
  assert (Hrr : V.rr_defined sh h 2 = true).
  { apply rr_defined_in_range; try lia. rewrite Hcomm. exact (committee_not_empty _ _ Hleader). }
  apply (bundle_is_accepted vc sh vid role fdlen p2p rawlen dlen pkprefix W Hshare Hliq Hmeta Hatt Hd0 Hd1 Hr0 Hr1
           Hrole Hvalid Hfd (all_broadcasts2 qc h ld2 live) h 2 ld2 (value_name ld2) (nrc2 qc live) false 0 0).
  - intros m Hm. unfold all_broadcasts2 in Hm. apply in_flat_map in Hm. destruct Hm as (i & Hi & Hm).
    exact (round2_broadcasts_are_honest_items qc sh h ld2 fdlen live Hcomm Hz Hlive Hld i m Hi Hm).
  - apply item_of_inj2.
  - exact Hleader.
  - exact Hrr.
  - unfold VC.firstRound. lia.
  - lia.
Qed.

(* 4. round 2 of the recovery from a prepared first round: the round changes carry the prepared value *)
Theorem prepared_recovery_round_is_accepted : forall ld1 ld2 (live : list N),
  (forall y, In y live -> In y (committee qc)) ->
  proposer qc h R2 = Some ld2 ->
  forall (l : list ((Z * Z) * smsg)) (vs : V.vstate),
  HR.before_round h 2 (V.get_cs (vid, role) vs) ->
  NoDup (map snd l) ->
  Forall (fun x => HE.in_slot vc h (fst x) /\ In (snd x) (all_broadcasts2p qc h ld1 ld2 live)) l ->
  Forall (eq V.Accept) (snd (V.run vc vs (map (fun x => (fst x, env (snd x))) l))).
Proof.
  intros ld1 ld2 live Hlive Hld. pose proof (leader2_is qc sh h ld2 Hcomm Hld h64) as Hleader.
  assert (Hrr : V.rr_defined sh h 2 = true).
  { apply rr_defined_in_range; try lia. rewrite Hcomm. exact (committee_not_empty _ _ Hleader). }
  apply (bundle_is_accepted vc sh vid role fdlen p2p rawlen dlen pkprefix W Hshare Hliq Hmeta Hatt Hd0 Hd1 Hr0 Hr1
           Hrole Hvalid Hfd (all_broadcasts2p qc h ld1 ld2 live) h 2 ld2 (value_name ld1) (nrc2 qc live) true
           (nlive live) (nlive live)).
  - intros m Hm. unfold all_broadcasts2p in Hm. apply in_flat_map in Hm. destruct Hm as (i & Hi & Hm).
    exact (round2p_broadcasts_are_honest_items qc sh h ld1 ld2 fdlen live Hcomm Hz Hlive i m Hi Hm).
  - apply item_of_inj2p.
  - exact Hleader.
  - exact Hrr.
  - unfold VC.firstRound. lia.
  - lia.
Qed.

End Rounds.
