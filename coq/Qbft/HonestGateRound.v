(* C10, second sentence, composed: rounds of the protocol model (every committee, quorum, height, leader) through
   the validation model's entry point.  Every message the correct operators broadcast in such a round - delivered
   to a correct peer in ANY order, each at most once, while the peer's beacon clock is in the duty's slot - is
   Accepted (never Ignored, never Rejected):
   - the fault-free first round (C07_sync_fault_free_generic),
   - round 2 of the recovery from a silent first round (C07_recovery_from_silent_round),
   - round 2 of the recovery from a prepared first round (C07_recovery_from_prepared_round). *)
From Coq Require Import List NArith ZArith Bool Lia.
From SSV Require Import Qbft.Model Qbft.SyncRound Qbft.SyncGeneric Qbft.RecoverGeneric Qbft.RecoverPrepared
     Qbft.Bridge Qbft.HonestGate.
From SSV Require Validation.Model Gen.ValidationConsts Validation.ProofsPanic Validation.HonestRound
     Validation.HonestEnvelope.
Import ListNotations.
Local Open Scope N_scope.

Module HE := SSV.Validation.HonestEnvelope.
Module VP := SSV.Validation.ProofsPanic.

(* the item of a protocol message: (type, signer) of a single-signer message, (decided, first signer) of an aggregate *)
Definition item_of (m : smsg) : N * N :=
  match m with
  | SM k _ _ => if (1 <? length (c_signers k))%nat then (HR.tDecided, hd 0 (c_signers k)) else (c_type k, hd 0 (c_signers k))
  end.

Lemma NoDup_map_inj_on : forall (A B : Type) (f : A -> B) (l : list A),
  (forall x y, In x l -> In y l -> f x = f y -> x = y) -> NoDup l -> NoDup (map f l).
Proof.
  intros A B f l Hinj Hnd. induction Hnd as [|a l Hni Hnd IH]; [constructor|].
  cbn [map]. constructor.
  - intros Hin. apply in_map_iff in Hin. destruct Hin as (y & Ey & Hy).
    assert (y = a) by (apply Hinj; [right; exact Hy|left; reflexivity|exact Ey]). subst. contradiction.
  - apply IH. intros x y Hx Hy. apply Hinj; right; assumption.
Qed.

Lemma item_of_gate : forall fdlen m h rho v nrc rcfull nrcj npj dsig t s,
  HR.is_dec t = false ->
  gate_msg fdlen true m = HR.hmsg h rho v fdlen nrc rcfull nrcj npj dsig t s -> item_of m = (t, s).
Proof.
  intros fdlen [k rcj pj] h rho v nrc rcfull nrcj npj dsig t s Ed Eg.
  pose proof (f_equal V.c_type Eg) as E1. pose proof (f_equal V.c_signers Eg) as E2.
  cbn in E1, E2. unfold HR.mtype in E1. unfold HR.msigners in E2. rewrite Ed in E1, E2.
  unfold item_of. rewrite E1, E2. reflexivity.
Qed.

Lemma single_items_not_decided : forall sh ld dsig t s,
  HR.honest_item sh ld dsig (t, s) -> t <> HR.tDecided -> HR.is_dec t = false.
Proof. intros sh ld dsig t s _ Ht. unfold HR.is_dec. apply N.eqb_neq. exact Ht. Qed.

(* ---- any bundle of one round's messages ---------------------------------------------------------------------- *)

Section Bundle.
(* the peer's validator *)
Variables (vc : V.cfg) (sh : V.share) (vid role fdlen : N) (p2p : bool) (rawlen dlen pkprefix : N).
Hypothesis W : VP.wf_cfg vc.
Hypothesis Hshare : V.get_share vc vid = Some sh.
Hypothesis Hliq : V.s_liquidated sh = false.
Hypothesis Hmeta : V.s_has_meta sh = true.
Hypothesis Hatt : V.s_attesting sh = true.
Hypothesis Hd0 : dlen <> 0.
Hypothesis Hd1 : dlen <= VC.maxConsensusMsgSize.
Hypothesis Hr0 : VC.messageOffset < rawlen.
Hypothesis Hr1 : rawlen <= VC.maxEncodedMsgSize.
Hypothesis Hrole : (N.eqb role VC.roleValidatorRegistration || N.eqb role VC.roleVoluntaryExit) = false.
Hypothesis Hvalid : V.valid_role role = true.
Hypothesis Hfd : fdlen <> 0.

(* the envelope a peer receives for protocol message [m] *)
Definition envelope_of (m : smsg) : V.envelope :=
  {| V.e_p2p := p2p; V.e_raw_len := rawlen; V.e_topic := Some (pkprefix mod VC.subnetsCount);
     V.e_op_found := true; V.e_op_key_ok := true; V.e_rsa_ok := true; V.e_ssv_decode_ok := true;
     V.e_data_len := dlen; V.e_domain := V.c_domain vc; V.e_pk_prefix := pkprefix; V.e_role := role;
     V.e_pk_deser_ok := true; V.e_vid := vid; V.e_msg_type := VC.ssvConsensusMsgType;
     V.e_body := V.BConsensus (gate_msg fdlen true m) |}.

Variables (B : list smsg) (h rho ldr v nrc : N) (rcfull : bool) (nrcj npj : N) (dsig : N -> list N).
Hypothesis Hitem : forall m, In m B ->
  gate_msg fdlen true m = HR.hmsg h rho v fdlen nrc rcfull nrcj npj dsig (fst (item_of m)) (snd (item_of m)) /\
  HR.honest_item sh ldr dsig (item_of m).
(* at most one aggregated decided message in the bundle (the operators' aggregates of a fault-free round are one and
   the same message) *)
Hypothesis Hdec1 : forall m1 m2, In m1 B -> In m2 B ->
  HR.is_dec (fst (item_of m1)) = true -> HR.is_dec (fst (item_of m2)) = true -> m1 = m2.
Hypothesis Hmaxpos : (1 <= V.max_decided (Z.of_nat (length (V.s_committee sh))))%Z.
Hypothesis Hinj : forall m1 m2, In m1 B -> In m2 B -> item_of m1 = item_of m2 -> m1 = m2.
Hypothesis Hleader : V.round_robin (V.s_committee sh) h rho = V.LeaderIs ldr.
Hypothesis Hrr : V.rr_defined sh h rho = true.
Hypothesis Hrho1 : VC.firstRound <= rho.
Hypothesis Hrho2 : rho <= 2.

Lemma bundle_is_accepted : forall (l : list ((Z * Z) * smsg)) (vs : V.vstate),
  HR.before_round h rho (V.get_cs (vid, role) vs) ->
  NoDup (map snd l) ->
  Forall (fun x => HE.in_slot vc h (fst x) /\ In (snd x) B) l ->
  Forall (eq V.Accept) (snd (V.run vc vs (map (fun x => (fst x, envelope_of (snd x))) l))).
Proof.
  intros l vs Hfresh Hndl Hall.
  set (l' := map (fun x => (fst x, item_of (snd x))) l).
  pose proof Hitem as Hit.
  assert (Hlim : HR.decided_within_limit sh [] (map snd l')).
  { unfold HR.decided_within_limit, l'. rewrite map_map. cbn [snd]. change (HR.ndec []) with 0%Z.
    assert (G : forall l0 : list ((Z * Z) * smsg), NoDup (map snd l0) -> (forall x, In x l0 -> In (snd x) B) ->
              (HR.ndec (map (fun x => item_of (snd x)) l0) <= 1)%Z).
    { induction l0 as [|[now m] tl IH]; intros Hn0 Hin0; [unfold HR.ndec; cbn; lia|].
      cbn [map snd] in *. inversion Hn0 as [|? ? Hni0 Hn1]; subst. rewrite HR.ndec_cons.
      assert (Htl : (HR.ndec (map (fun x => item_of (snd x)) tl) <= 1)%Z).
      { apply IH; [exact Hn1|]. intros x Hx. apply Hin0. right. exact Hx. }
      destruct (HR.is_dec (fst (item_of m))) eqn:Ed; [|lia].
      assert (Hz : HR.ndec (map (fun x => item_of (snd x)) tl) = 0%Z).
      { clear IH Htl. induction tl as [|[now2 m2] tl2 IH2]; [reflexivity|]. cbn [map snd] in *. rewrite HR.ndec_cons.
        destruct (HR.is_dec (fst (item_of m2))) eqn:Ed2.
        - exfalso. apply Hni0. left.
          apply (Hdec1 m2 m); [apply (Hin0 (now2, m2)); right; left; reflexivity|apply (Hin0 (now, m)); left; reflexivity|exact Ed2|exact Ed].
        - rewrite IH2; [reflexivity| | | |].
          + inversion Hn0 as [|? ? A1 A2]; subst. inversion A2 as [|? ? A3 A4]; subst.
            constructor; [|exact A4]. intros Hin. apply A1. right. exact Hin.
          + intros x [E|Hx]; [apply Hin0; left; exact E|apply Hin0; right; right; exact Hx].
          + intros Hin. apply Hni0. right. exact Hin.
          + inversion Hn1; assumption. }
      lia. }
    specialize (G l Hndl). rewrite Forall_forall in Hall.
    specialize (G (fun x Hx => proj2 (Hall x Hx))). lia. }
  assert (Hmap : map (fun x => (fst x, envelope_of (snd x))) l =
                 map (fun x => (fst x, HE.henv vc vid role h rho v fdlen nrc rcfull nrcj npj dsig p2p rawlen dlen pkprefix
                                        (fst (snd x)) (snd (snd x)))) l').
  { unfold l'. rewrite map_map. apply map_ext_in. intros [now m] Hx. cbn [fst snd].
    rewrite Forall_forall in Hall. destruct (Hall _ Hx) as [_ Hm]. cbn [snd] in Hm.
    destruct (Hit m Hm) as [Eg _]. unfold envelope_of, HE.henv. rewrite Eg. reflexivity. }
  rewrite Hmap.
  apply (HE.honest_round_accepted_at_the_gate vc sh vid role h rho ldr v fdlen nrc rcfull nrcj npj dsig p2p rawlen dlen pkprefix
           W Hshare Hliq Hmeta Hatt Hd0 Hd1 Hr0 Hr1 Hrole Hvalid Hleader Hrr Hfd Hrho1 Hrho2 l' vs Hfresh); [| |exact Hlim].
  - unfold l'. rewrite map_map. cbn [snd].
    rewrite <- (map_map snd item_of). apply NoDup_map_inj_on; [|exact Hndl].
    intros x y Hx Hy. rewrite Forall_forall in Hall.
    apply in_map_iff in Hx. destruct Hx as (x0 & <- & Hx0). apply in_map_iff in Hy. destruct Hy as (y0 & <- & Hy0).
    apply Hinj; [exact (proj2 (Hall _ Hx0))|exact (proj2 (Hall _ Hy0))].
  - unfold l'. rewrite Forall_forall. intros x Hx. apply in_map_iff in Hx. destruct Hx as ([now m] & <- & Hx0).
    cbn [fst snd]. rewrite Forall_forall in Hall. destruct (Hall _ Hx0) as [Hs Hm]. cbn [fst snd] in Hs, Hm.
    split; [exact Hs|]. exact (proj2 (Hit m Hm)).
Qed.

End Bundle.

(* ---- the three bundles ----------------------------------------------------------------------------------------- *)

Definition all_broadcasts (c : cfg) (h ld : N) : list smsg := flat_map (round_broadcasts c h ld) (committee c).

Definition rebuild (c : cfg) (h ld : N) (x : N * N) : smsg :=
  let v := start_value ld in
  msg_of c h (fst x) (snd x) (hash v) (if fst x =? T_PROPOSAL then v else None).

Lemma broadcast_rebuild : forall c h ld m, In m (all_broadcasts c h ld) -> m = rebuild c h ld (item_of m).
Proof.
  intros c h ld m Hm. unfold all_broadcasts in Hm. apply in_flat_map in Hm. destruct Hm as (i & _ & Hm).
  unfold round_broadcasts in Hm. apply in_app_or in Hm. destruct Hm as [Hm|[<-|[<-|[]]]]; try reflexivity.
  destruct (i =? ld); [|destruct Hm]. destruct Hm as [<-|[]]. reflexivity.
Qed.

Lemma item_of_inj : forall c h ld m1 m2,
  In m1 (all_broadcasts c h ld) -> In m2 (all_broadcasts c h ld) -> item_of m1 = item_of m2 -> m1 = m2.
Proof.
  intros c h ld m1 m2 H1 H2 E. rewrite (broadcast_rebuild c h ld m1 H1), (broadcast_rebuild c h ld m2 H2), E.
  reflexivity.
Qed.

Definition all_broadcasts2 (c : cfg) (h ld2 : N) (live : list N) : list smsg :=
  flat_map (round2_broadcasts c h ld2 live) live.

Definition rebuild2 (c : cfg) (h ld2 : N) (live : list N) (x : N * N) : smsg :=
  if fst x =? T_PROPOSAL then prop2 c h (snd x) (firstn (N.to_nat (quorum c)) live)
  else if fst x =? T_ROUNDCHANGE then rcm h (snd x)
  else fm2 h (fst x) (hash (start_value ld2)) (snd x).

Lemma broadcast2_rebuild : forall c h ld2 live m,
  In m (all_broadcasts2 c h ld2 live) -> m = rebuild2 c h ld2 live (item_of m).
Proof.
  intros c h ld2 live m Hm. unfold all_broadcasts2 in Hm. apply in_flat_map in Hm. destruct Hm as (i & _ & Hm).
  unfold round2_broadcasts in Hm. cbn [app] in Hm. destruct Hm as [<-|Hm]; [reflexivity|].
  apply in_app_or in Hm. destruct Hm as [Hm|[<-|[<-|[]]]]; try reflexivity.
  destruct (N.eqb_spec ld2 i) as [->|]; [|destruct Hm]. destruct Hm as [<-|[]]. reflexivity.
Qed.

Lemma item_of_inj2 : forall c h ld2 live m1 m2,
  In m1 (all_broadcasts2 c h ld2 live) -> In m2 (all_broadcasts2 c h ld2 live) -> item_of m1 = item_of m2 -> m1 = m2.
Proof.
  intros c h ld2 live m1 m2 H1 H2 E.
  rewrite (broadcast2_rebuild c h ld2 live m1 H1), (broadcast2_rebuild c h ld2 live m2 H2), E. reflexivity.
Qed.

Definition all_broadcasts2p (c : cfg) (h ld1 ld2 : N) (live : list N) : list smsg :=
  flat_map (round2p_broadcasts c h ld1 ld2 live) live.

Definition rebuild2p (c : cfg) (h ld1 : N) (live : list N) (x : N * N) : smsg :=
  if fst x =? T_PROPOSAL then prop2p c h ld1 live (snd x) (firstn (N.to_nat (quorum c)) live)
  else if fst x =? T_ROUNDCHANGE then rcp h ld1 live (start_value ld1) (snd x)
  else fm2 h (fst x) (hash (start_value ld1)) (snd x).

Lemma broadcast2p_rebuild : forall c h ld1 ld2 live m,
  In m (all_broadcasts2p c h ld1 ld2 live) -> m = rebuild2p c h ld1 live (item_of m).
Proof.
  intros c h ld1 ld2 live m Hm. unfold all_broadcasts2p in Hm. apply in_flat_map in Hm. destruct Hm as (i & _ & Hm).
  unfold round2p_broadcasts in Hm. cbn [app] in Hm. destruct Hm as [<-|Hm]; [reflexivity|].
  apply in_app_or in Hm. destruct Hm as [Hm|[<-|[<-|[]]]]; try reflexivity.
  destruct (N.eqb_spec ld2 i) as [->|]; [|destruct Hm]. destruct Hm as [<-|[]]. reflexivity.
Qed.

Lemma item_of_inj2p : forall c h ld1 ld2 live m1 m2,
  In m1 (all_broadcasts2p c h ld1 ld2 live) -> In m2 (all_broadcasts2p c h ld1 ld2 live) ->
  item_of m1 = item_of m2 -> m1 = m2.
Proof.
  intros c h ld1 ld2 live m1 m2 H1 H2 E.
  rewrite (broadcast2p_rebuild c h ld1 ld2 live m1 H1), (broadcast2p_rebuild c h ld1 ld2 live m2 H2), E. reflexivity.
Qed.

(* 1. the operators of the protocol model broadcast exactly [round_broadcasts] in the fault-free round (C07) *)
Theorem every_operator_broadcasts_round_broadcasts : forall (qc : cfg) (h ld : N),
  NoDup (committee qc) -> ~ In 0 (committee qc) ->
  1 <= quorum qc -> quorum qc <= N.of_nat (length (committee qc)) ->
  proposer qc h FIRST_ROUND = Some ld -> value_check qc (start_value ld) = true ->
  forall i, In i (committee qc) ->
  exists s bs, run (with_me qc i) (new_instance h)
                   (OStart (start_value i)
                    :: OMsg (msg_of qc h T_PROPOSAL ld (hash (start_value ld)) (start_value ld))
                    :: map (fun j => OMsg (msg_of qc h T_PREPARE j (hash (start_value ld)) None)) (committee qc)
                    ++ map (fun j => OMsg (msg_of qc h T_COMMIT j (hash (start_value ld)) None)) (committee qc))
               = (s, bs) /\
              smsgs_eqb (bcasts bs) (round_broadcasts qc h ld i) = true.
Proof.
  intros qc h ld Hnd Hz Hq1 Hq2 Hld Hvc i Hi. apply sync_node_ok_broadcasts.
  apply (sync_fault_free_generic qc h ld Hnd Hz Hq1 Hq2 Hld Hvc i Hi).
Qed.

Section Rounds.
Variables (qc : cfg) (h : N).
Hypothesis Hz : ~ In 0 (committee qc).
Hypothesis Hh : h <= 9223372036854775807.
Variables (vc : V.cfg) (sh : V.share) (vid role fdlen : N) (p2p : bool) (rawlen dlen pkprefix : N).
Hypothesis W : VP.wf_cfg vc.
Hypothesis Hshare : V.get_share vc vid = Some sh.
Hypothesis Hcomm : V.s_committee sh = committee qc.
Hypothesis Hliq : V.s_liquidated sh = false.
Hypothesis Hmeta : V.s_has_meta sh = true.
Hypothesis Hatt : V.s_attesting sh = true.
Hypothesis Hd0 : dlen <> 0.
Hypothesis Hd1 : dlen <= VC.maxConsensusMsgSize.
Hypothesis Hr0 : VC.messageOffset < rawlen.
Hypothesis Hr1 : rawlen <= VC.maxEncodedMsgSize.
Hypothesis Hrole : (N.eqb role VC.roleValidatorRegistration || N.eqb role VC.roleVoluntaryExit) = false.
Hypothesis Hvalid : V.valid_role role = true.
Hypothesis Hfd : fdlen <> 0.

Let env := envelope_of vc vid role fdlen p2p rawlen dlen pkprefix.

Lemma h64 : h < 18446744073709551616.
Proof. lia. Qed.

Lemma committee_not_empty : forall rho ldr, V.round_robin (V.s_committee sh) h rho = V.LeaderIs ldr -> committee qc <> [].
Proof.
  intros rho ldr L E. rewrite Hcomm, E in L. unfold V.round_robin in L. cbn in L. discriminate.
Qed.

Lemma max_decided_pos : forall rho ldr, V.round_robin (V.s_committee sh) h rho = V.LeaderIs ldr ->
  (1 <= V.max_decided (Z.of_nat (length (V.s_committee sh))))%Z.
Proof.
  intros rho ldr L. pose proof (committee_not_empty rho ldr L) as Hne. rewrite Hcomm.
  destruct (committee qc) as [|a tl]; [congruence|]. unfold V.max_decided. cbn [length].
  assert (0 <= Z.quot (Z.of_nat (S (length tl)) - 1) 3)%Z by (apply Z.quot_pos; lia). nia.
Qed.

(* bundles of single-signer messages *)
Lemma singles : forall (B : list smsg) rho ldr v nrc rcfull nrcj npj dsig,
  (forall m, In m B -> exists t s,
     gate_msg fdlen true m = HR.hmsg h rho v fdlen nrc rcfull nrcj npj dsig t s /\
     HR.honest_item sh ldr dsig (t, s) /\ HR.is_dec t = false) ->
  (forall m, In m B ->
     gate_msg fdlen true m = HR.hmsg h rho v fdlen nrc rcfull nrcj npj dsig (fst (item_of m)) (snd (item_of m)) /\
     HR.honest_item sh ldr dsig (item_of m)) /\
  (forall m1 m2, In m1 B -> In m2 B ->
     HR.is_dec (fst (item_of m1)) = true -> HR.is_dec (fst (item_of m2)) = true -> m1 = m2).
Proof.
  intros B rho ldr v nrc rcfull nrcj npj dsig H. split.
  - intros m Hm. destruct (H m Hm) as (t & s & Eg & Hi & Ed).
    rewrite (item_of_gate _ _ _ _ _ _ _ _ _ _ _ _ Ed Eg). cbn [fst snd]. split; assumption.
  - intros m1 m2 H1 _ E1 _. destruct (H m1 H1) as (t & s & Eg & Hi & Ed).
    rewrite (item_of_gate _ _ _ _ _ _ _ _ _ _ _ _ Ed Eg) in E1. cbn [fst] in E1. congruence.
Qed.

Let nodsig : N -> list N := fun _ => [].

(* 2. a correct peer accepts every broadcast of the fault-free first round *)
Theorem fault_free_round_is_accepted : forall ld,
  proposer qc h FIRST_ROUND = Some ld ->
  forall (l : list ((Z * Z) * smsg)) (vs : V.vstate),
  HR.before_round h VC.firstRound (V.get_cs (vid, role) vs) ->
  NoDup (map snd l) ->
  Forall (fun x => HE.in_slot vc h (fst x) /\ In (snd x) (all_broadcasts qc h ld)) l ->
  Forall (eq V.Accept) (snd (V.run vc vs (map (fun x => (fst x, env (snd x))) l))).
Proof.
  intros ld Hld. pose proof (leader_is qc sh h ld Hcomm Hld h64) as Hleader.
  assert (Hrr : V.rr_defined sh h VC.firstRound = true).
  { apply rr_defined_in_range; try (unfold VC.firstRound; lia). rewrite Hcomm.
    exact (committee_not_empty _ _ Hleader). }
  destruct (singles (all_broadcasts qc h ld) VC.firstRound ld (value_name ld) 0 false 0 0 nodsig) as [S1 S2].
  { intros m Hm. unfold all_broadcasts in Hm. apply in_flat_map in Hm. destruct Hm as (i & Hi & Hm).
    exact (round_broadcasts_are_honest_items qc sh h ld fdlen Hcomm Hz nodsig i m Hi Hm). }
  apply (bundle_is_accepted vc sh vid role fdlen p2p rawlen dlen pkprefix W Hshare Hliq Hmeta Hatt Hd0 Hd1 Hr0 Hr1
           Hrole Hvalid Hfd (all_broadcasts qc h ld) h VC.firstRound ld (value_name ld) 0 false 0 0 nodsig
           S1 S2 (max_decided_pos _ _ Hleader)).
  - apply item_of_inj.
  - exact Hleader.
  - exact Hrr.
  - unfold VC.firstRound. lia.
  - unfold VC.firstRound. lia.
Qed.

(* 3. round 2 of the recovery from a silent first round *)
Theorem recovery_round_is_accepted : forall ld2 (live : list N),
  (forall y, In y live -> In y (committee qc)) ->
  proposer qc h R2 = Some ld2 ->
  forall (l : list ((Z * Z) * smsg)) (vs : V.vstate),
  HR.before_round h 2 (V.get_cs (vid, role) vs) ->
  NoDup (map snd l) ->
  Forall (fun x => HE.in_slot vc h (fst x) /\ In (snd x) (all_broadcasts2 qc h ld2 live)) l ->
  Forall (eq V.Accept) (snd (V.run vc vs (map (fun x => (fst x, env (snd x))) l))).
Proof.
  intros ld2 live Hlive Hld. pose proof (leader2_is qc sh h ld2 Hcomm Hld h64) as Hleader.
  assert (Hrr : V.rr_defined sh h 2 = true).
  { apply rr_defined_in_range; try lia. rewrite Hcomm. exact (committee_not_empty _ _ Hleader). }
  destruct (singles (all_broadcasts2 qc h ld2 live) 2 ld2 (value_name ld2) (nrc2 qc live) false 0 0 nodsig) as [S1 S2].
  { intros m Hm. unfold all_broadcasts2 in Hm. apply in_flat_map in Hm. destruct Hm as (i & Hi & Hm).
    exact (round2_broadcasts_are_honest_items qc sh h ld2 fdlen live Hcomm Hz Hlive Hld nodsig i m Hi Hm). }
  apply (bundle_is_accepted vc sh vid role fdlen p2p rawlen dlen pkprefix W Hshare Hliq Hmeta Hatt Hd0 Hd1 Hr0 Hr1
           Hrole Hvalid Hfd (all_broadcasts2 qc h ld2 live) h 2 ld2 (value_name ld2) (nrc2 qc live) false 0 0 nodsig
           S1 S2 (max_decided_pos _ _ Hleader)).
  - apply item_of_inj2.
  - exact Hleader.
  - exact Hrr.
  - unfold VC.firstRound. lia.
  - lia.
Qed.

(* 4. round 2 of the recovery from a prepared first round: the round changes carry the prepared value *)
Theorem prepared_recovery_round_is_accepted : forall ld1 ld2 (live : list N),
  (forall y, In y live -> In y (committee qc)) ->
  proposer qc h R2 = Some ld2 ->
  forall (l : list ((Z * Z) * smsg)) (vs : V.vstate),
  HR.before_round h 2 (V.get_cs (vid, role) vs) ->
  NoDup (map snd l) ->
  Forall (fun x => HE.in_slot vc h (fst x) /\ In (snd x) (all_broadcasts2p qc h ld1 ld2 live)) l ->
  Forall (eq V.Accept) (snd (V.run vc vs (map (fun x => (fst x, env (snd x))) l))).
Proof.
  intros ld1 ld2 live Hlive Hld. pose proof (leader2_is qc sh h ld2 Hcomm Hld h64) as Hleader.
  assert (Hrr : V.rr_defined sh h 2 = true).
  { apply rr_defined_in_range; try lia. rewrite Hcomm. exact (committee_not_empty _ _ Hleader). }
  destruct (singles (all_broadcasts2p qc h ld1 ld2 live) 2 ld2 (value_name ld1) (nrc2 qc live) true
              (nlive live) (nlive live) nodsig) as [S1 S2].
  { intros m Hm. unfold all_broadcasts2p in Hm. apply in_flat_map in Hm. destruct Hm as (i & Hi & Hm).
    exact (round2p_broadcasts_are_honest_items qc sh h ld1 ld2 fdlen live Hcomm Hz Hlive nodsig i m Hi Hm). }
  apply (bundle_is_accepted vc sh vid role fdlen p2p rawlen dlen pkprefix W Hshare Hliq Hmeta Hatt Hd0 Hd1 Hr0 Hr1
           Hrole Hvalid Hfd (all_broadcasts2p qc h ld1 ld2 live) h 2 ld2 (value_name ld1) (nrc2 qc live) true
           (nlive live) (nlive live) nodsig S1 S2 (max_decided_pos _ _ Hleader)).
  - apply item_of_inj2p.
  - exact Hleader.
  - exact Hrr.
  - unfold VC.firstRound. lia.
  - lia.
Qed.

(* 5. the fault-free first round together with the decided message the operators' controllers broadcast when they
      decide (the aggregate of the first quorum of commits - one and the same message at every operator) *)
Definition all_broadcasts_and_decided (c : cfg) (hh ld : N) : list smsg := all_broadcasts c hh ld ++ [decided_msg c hh ld].

Theorem fault_free_round_with_decided_is_accepted : forall ld,
  NoDup (committee qc) -> V.s_quorum sh = quorum qc -> 2 <= quorum qc -> quorum qc <= N.of_nat (length (committee qc)) ->
  proposer qc h FIRST_ROUND = Some ld ->
  forall (l : list ((Z * Z) * smsg)) (vs : V.vstate),
  HR.before_round h VC.firstRound (V.get_cs (vid, role) vs) ->
  NoDup (map snd l) ->
  Forall (fun x => HE.in_slot vc h (fst x) /\ In (snd x) (all_broadcasts_and_decided qc h ld)) l ->
  Forall (eq V.Accept) (snd (V.run vc vs (map (fun x => (fst x, env (snd x))) l))).
Proof.
  intros ld Hnd Hquo Hq2 Hqn Hld. pose proof (leader_is qc sh h ld Hcomm Hld h64) as Hleader.
  assert (Hrr : V.rr_defined sh h VC.firstRound = true).
  { apply rr_defined_in_range; try (unfold VC.firstRound; lia). rewrite Hcomm.
    exact (committee_not_empty _ _ Hleader). }
  set (D := decided_signers qc). set (dsig := fun _ : N => D).
  destruct (singles (all_broadcasts qc h ld) VC.firstRound ld (value_name ld) 0 false 0 0 dsig) as [S1 S2].
  { intros m Hm. unfold all_broadcasts in Hm. apply in_flat_map in Hm. destruct Hm as (i & Hi & Hm).
    exact (round_broadcasts_are_honest_items qc sh h ld fdlen Hcomm Hz dsig i m Hi Hm). }
  assert (Hlen : (1 < length D)%nat).
  { unfold D. rewrite (decided_signers_length qc sh Hquo Hq2 Hqn). lia. }
  assert (Hitd : item_of (decided_msg qc h ld) = (HR.tDecided, hd 0 D)).
  { unfold item_of, decided_msg. cbn [c_signers]. fold D.
    destruct (Nat.ltb_spec 1 (length D)); [reflexivity|lia]. }
  assert (Hsingle : forall m, In m (all_broadcasts qc h ld) -> HR.is_dec (fst (item_of m)) = false).
  { intros m Hm. unfold all_broadcasts in Hm. apply in_flat_map in Hm. destruct Hm as (i & Hi & Hm).
    destruct (round_broadcasts_are_honest_items qc sh h ld fdlen Hcomm Hz dsig i m Hi Hm) as (t & s & Eg & _ & Ed).
    rewrite (item_of_gate _ _ _ _ _ _ _ _ _ _ _ _ Ed Eg). exact Ed. }
  apply (bundle_is_accepted vc sh vid role fdlen p2p rawlen dlen pkprefix W Hshare Hliq Hmeta Hatt Hd0 Hd1 Hr0 Hr1
           Hrole Hvalid Hfd (all_broadcasts_and_decided qc h ld) h VC.firstRound ld (value_name ld) 0 false 0 0 dsig).
  - intros m Hm. unfold all_broadcasts_and_decided in Hm. apply in_app_or in Hm. destruct Hm as [Hm|[<-|[]]].
    + exact (S1 m Hm).
    + rewrite Hitd. cbn [fst snd].
      exact (decided_msg_is_an_honest_item qc sh Hcomm Hquo Hnd Hz Hq2 Hqn h ld fdlen (hd 0 D)).
  - intros m1 m2 H1 H2 E1 E2. unfold all_broadcasts_and_decided in H1, H2.
    apply in_app_or in H1. apply in_app_or in H2.
    destruct H1 as [H1|[<-|[]]]; [rewrite (Hsingle m1 H1) in E1; discriminate|].
    destruct H2 as [H2|[<-|[]]]; [rewrite (Hsingle m2 H2) in E2; discriminate|]. reflexivity.
  - exact (max_decided_pos _ _ Hleader).
  - intros m1 m2 H1 H2 E. unfold all_broadcasts_and_decided in H1, H2.
    apply in_app_or in H1. apply in_app_or in H2.
    destruct H1 as [H1|[<-|[]]]; destruct H2 as [H2|[<-|[]]].
    + exact (item_of_inj qc h ld m1 m2 H1 H2 E).
    + pose proof (Hsingle m1 H1) as A. rewrite E, Hitd in A. discriminate.
    + pose proof (Hsingle m2 H2) as A. rewrite <- E, Hitd in A. discriminate.
    + reflexivity.
  - exact Hleader.
  - exact Hrr.
  - unfold VC.firstRound. lia.
  - unfold VC.firstRound. lia.
Qed.

End Rounds.
