(* C07 (b): the fault-free synchronous first round.  The schedule is explicit: every operator starts,
   the leader's proposal reaches everybody, then everybody's prepare reaches everybody, then
   everybody's commit reaches everybody (each in committee order).  [sync_ok] checks, by running the
   model, that every operator broadcasts exactly the messages the schedule delivers (so the schedule
   is a real execution of the whole committee) and decides the leader's value in round 1.
   Proved for the four committee sizes the registry admits (4, 7, 10, 13) and every height modulo the
   committee size (every leader), by evaluation; the statement for arbitrary committees is kept
   visible below. *)
From Coq Require Import List NArith ZArith Bool Lia.
From SSV Require Import Qbft.Model.
Import ListNotations.
Local Open Scope N_scope.

Definition with_me (c : cfg) (j : N) : cfg :=
  {| committee := committee c; me := j; quorum := quorum c; partial_quorum := partial_quorum c;
     bad_values := bad_values c; var := var c |}.

Definition msg_of (c : cfg) (h ty j root : N) (full : option N) : smsg :=
  SM (own_core (with_me c j) ty h FIRST_ROUND root NO_ROUND full) [] [].

Definition outs_of (b : obs) : list out :=
  match b with BStart _ o => o | BMsg _ o => o | BTimeout _ o => o | BCompact => [] end.

Definition bcasts (bs : list obs) : list smsg :=
  flat_map (fun b => flat_map (fun o => match o with OBcast m => [m] | OTimer _ _ => [] end) (outs_of b)) bs.

(* start values: operator j starts with value 100 + j *)
Definition start_value (j : N) : option N := Some (100 + j).

Definition sync_node_ok (c : cfg) (h ld : N) (i : N) : bool :=
  let ci := with_me c i in
  let v := start_value ld in
  let ops := OStart (start_value i)
             :: OMsg (msg_of c h T_PROPOSAL ld (hash v) v)
             :: map (fun j => OMsg (msg_of c h T_PREPARE j (hash v) None)) (committee c)
             ++ map (fun j => OMsg (msg_of c h T_COMMIT j (hash v) None)) (committee c) in
  let '(s, bs) := run ci (new_instance h) ops in
  let expected := (if i =? ld then [msg_of c h T_PROPOSAL ld (hash v) v] else [])
                  ++ [msg_of c h T_PREPARE i (hash v) None; msg_of c h T_COMMIT i (hash v) None] in
  s_decided s && opt_eqb (s_dvalue s) v && (s_round s =? FIRST_ROUND) && smsgs_eqb (bcasts bs) expected.

Definition committee_of (n : nat) : list N := map N.of_nat (seq 1 n).

Definition sync_cfg (n : nat) : cfg :=
  let f := ((n - 1) / 3)%nat in
  {| committee := committee_of n; me := 0; quorum := N.of_nat (2 * f + 1); partial_quorum := N.of_nat (f + 1);
     bad_values := [4; 9]; var := node_variant |}.

Definition sync_ok (n : nat) (h : N) : bool :=
  match proposer (sync_cfg n) h FIRST_ROUND with
  | None => false
  | Some ld => forallb (sync_node_ok (sync_cfg n) h ld) (committee_of n)
  end.

Definition sizes : list nat := [4; 7; 10; 13]%nat.

Definition sync_all_ok : bool :=
  forallb (fun n => forallb (fun h => sync_ok n (N.of_nat h)) (seq 0 n)) sizes.

Lemma sync_all_ok_true : sync_all_ok = true.
Proof. vm_compute. reflexivity. Qed.

Lemma sync_fault_free_bounded : forall n h,
  In n sizes -> (h < n)%nat -> sync_ok n (N.of_nat h) = true.
Proof.
  intros n h Hn Hh. pose proof sync_all_ok_true as H. unfold sync_all_ok in H.
  rewrite forallb_forall in H. specialize (H n Hn). rewrite forallb_forall in H.
  apply H. apply in_seq. lia.
Qed.

(* The statement for arbitrary committees (any ids, any f, any height in the int range), not proved: *)
Definition sync_fault_free_statement : Prop :=
  forall (c : cfg) (f : nat) (h ld : N),
    NoDup (committee c) -> ~ In 0 (committee c) -> length (committee c) = (3 * f + 1)%nat ->
    quorum c = N.of_nat (2 * f + 1) -> proposer c h FIRST_ROUND = Some ld ->
    value_check c (start_value ld) = true ->
    forall i, In i (committee c) -> sync_node_ok c h ld i = true.
