(* C10, the two models joined: what the protocol model's correct operators broadcast in the fault-free first
   round (Qbft/SyncGeneric.v, C07_sync_fault_free_generic: exactly [round_broadcasts]) is, seen through the
   gate's abstraction of a signed message, what Validation/HonestRound.v calls an honest item - so every one of
   them is accepted by every correct peer's validator, in any arrival order (honest_round_accepted_at_the_gate). *)
From Coq Require Import List NArith ZArith Bool Lia.
From SSV Require Import Qbft.Model Qbft.SyncRound Qbft.SyncGeneric Qbft.RecoverGeneric Qbft.RecoverPrepared Qbft.Bridge
     Qbft.Honest Qbft.DecidedProofs.
From SSV Require Validation.Model Gen.ValidationConsts Validation.HonestRound.
Import ListNotations.
Local Open Scope N_scope.

Module HR := SSV.Validation.HonestRound.

(* The validator's view of a protocol message.  [jok] stands for instance.IsProposalJustification (called with
   verification off and a trivial value check); for the proposals a correct operator emits it holds by
   C10_first_round_proposal_valid / C10_leader_proposal_valid with C10_validator_justification_is_weaker. *)
Definition gate_msg (fdlen : N) (jok : bool) (m : smsg) : V.cmsg :=
  match m with
  | SM k rcj pj =>
      {| V.c_sig_len := VC.signatureSize; V.c_sig_zero := false;
         V.c_type := c_type k; V.c_height := c_height k; V.c_round := c_round k;
         V.c_signers := c_signers k;
         V.c_fd_len := match c_full k with Some _ => fdlen | None => 0 end;
         V.c_fd_id := match c_full k with Some x => x | None => 0 end;
         V.c_root_ok := match c_full k with Some _ => hash (c_full k) =? c_root k | None => false end;
         V.c_pj_ok := c_fmt_ok k; V.c_pj_len := N.of_nat (length pj);
         V.c_rcj_ok := c_fmt_ok k; V.c_rcj_len := N.of_nat (length rcj);
         V.c_just_ok := jok; V.c_duty_ok := true |}
  end.

(* everything operator [i] broadcasts in the fault-free first round (sync_node_ok's [expected]) *)
Definition round_broadcasts (c : cfg) (h ld i : N) : list smsg :=
  let v := start_value ld in
  (if i =? ld then [msg_of c h T_PROPOSAL ld (hash v) v] else [])
  ++ [msg_of c h T_PREPARE i (hash v) None; msg_of c h T_COMMIT i (hash v) None].

Lemma sync_node_ok_broadcasts : forall c h ld i,
  sync_node_ok c h ld i = true ->
  exists s bs, run (with_me c i) (new_instance h)
                   (OStart (start_value i)
                    :: OMsg (msg_of c h T_PROPOSAL ld (hash (start_value ld)) (start_value ld))
                    :: map (fun j => OMsg (msg_of c h T_PREPARE j (hash (start_value ld)) None)) (committee c)
                    ++ map (fun j => OMsg (msg_of c h T_COMMIT j (hash (start_value ld)) None)) (committee c))
               = (s, bs) /\
              smsgs_eqb (bcasts bs) (round_broadcasts c h ld i) = true.
Proof.
  intros c h ld i H. unfold sync_node_ok in H.
  match type of H with (let '(s, bs) := ?R in _) = true => destruct R as [s bs] eqn:Er end.
  exists s, bs. split; [reflexivity|].
  apply andb_true_iff in H. destruct H as [_ H]. exact H.
Qed.

Section Gate.
Variables (qc : cfg) (sh : V.share) (h ld fdlen : N).
Hypothesis Hcomm : V.s_committee sh = committee qc.
Hypothesis Hz : ~ In 0 (committee qc).
Hypothesis Hld : proposer qc h FIRST_ROUND = Some ld.
Hypothesis Hh : h < 18446744073709551616.

Definition value_name : N := match start_value ld with Some x => x | None => 0 end.

Lemma in_committee_iff : forall s, In s (committee qc) -> V.in_committee s sh = true.
Proof.
  intros s Hs. unfold V.in_committee. rewrite Hcomm. apply existsb_exists. exists s.
  split; [exact Hs|apply N.eqb_refl].
Qed.

Lemma leader_is : V.round_robin (V.s_committee sh) h VC.firstRound = V.LeaderIs ld.
Proof.
  rewrite Hcomm. pose proof (leader_models_agree qc h 1 Hh ltac:(reflexivity)) as A.
  change VC.firstRound with 1. change FIRST_ROUND with 1 in Hld.
  destruct (V.round_robin (committee qc) h 1) as [x|p]; rewrite Hld in A; [|discriminate].
  inversion A; reflexivity.
Qed.

Lemma leader_in_committee : In ld (committee qc).
Proof.
  pose proof leader_is as L. rewrite Hcomm in L. unfold V.round_robin in L.
  destruct (Z.of_nat (length (committee qc)) =? 0)%Z; [discriminate|].
  match type of L with (if ?b then _ else _) = _ => destruct b; [discriminate|] end.
  match type of L with match nth_error _ ?k with _ => _ end = _ => destruct (nth_error (committee qc) k) eqn:E end;
    [|discriminate].
  inversion L; subst. eapply nth_error_In; eauto.
Qed.

(* every broadcast of every operator is an honest item of the gate *)
Theorem round_broadcasts_are_honest_items : forall dsig i m,
  In i (committee qc) -> In m (round_broadcasts qc h ld i) ->
  exists t s, gate_msg fdlen true m = HR.hmsg h VC.firstRound value_name fdlen 0 false 0 0 dsig t s /\ HR.honest_item sh ld dsig (t, s) /\ HR.is_dec t = false.
Proof.
  intros dsig i m Hi Hm. unfold round_broadcasts in Hm. apply in_app_or in Hm.
  assert (Hi0 : i <> 0) by (intros ->; contradiction).
  destruct Hm as [Hm|[<-|[<-|[]]]].
  - destruct (N.eqb_spec i ld) as [->|]; [|destruct Hm]. destruct Hm as [<-|[]].
    exists VC.qbftProposalMsgType, ld. split.
    + unfold gate_msg, msg_of, own_core, HR.hmsg, value_name, start_value. cbn.
      rewrite N.eqb_refl. reflexivity.
    + split; [unfold HR.honest_item, HR.member; left; repeat split; auto; apply in_committee_iff; exact Hi|reflexivity].
  - exists VC.qbftPrepareMsgType, i. split; [reflexivity|].
    split; [unfold HR.honest_item, HR.member; left; repeat split; auto; [apply in_committee_iff; exact Hi|discriminate]|reflexivity].
  - exists VC.qbftCommitMsgType, i. split; [reflexivity|].
    split; [unfold HR.honest_item, HR.member; left; repeat split; auto; [apply in_committee_iff; exact Hi|discriminate]|reflexivity].
Qed.

End Gate.

(* ---- the recovery round after a silent first round (C07_recovery_from_silent_round) ------------------------ *)

(* what operator [i] broadcasts in round 2 (recover_bcasts without the round-1 proposal of a live first leader,
   which nobody was given): its round change, the leader's proposal justified by the first quorum of round
   changes, its prepare and its commit *)
Definition round2_broadcasts (c : cfg) (h ld2 : N) (live : list N) (i : N) : list smsg :=
  let rt := hash (start_value ld2) in
  [rcm h i] ++
  (if ld2 =? i then [prop2 c h ld2 (firstn (N.to_nat (quorum c)) live)] else []) ++
  [fm2 h T_PREPARE rt i; fm2 h T_COMMIT rt i].

Lemma round2_in_recover_bcasts : forall c h ld1 ld2 live i m,
  In m (round2_broadcasts c h ld2 live i) -> In m (recover_bcasts c h ld1 ld2 live i).
Proof.
  intros c h ld1 ld2 live i m H. unfold recover_bcasts. apply in_or_app. right. exact H.
Qed.

Section Gate2.
Variables (qc : cfg) (sh : V.share) (h ld2 fdlen : N) (live : list N).
Hypothesis Hcomm : V.s_committee sh = committee qc.
Hypothesis Hz : ~ In 0 (committee qc).
Hypothesis Hlive : forall y, In y live -> In y (committee qc).
Hypothesis Hld : proposer qc h R2 = Some ld2.
Hypothesis Hh : h < 18446744073709551616.

Definition nrc2 : N := N.of_nat (length (firstn (N.to_nat (quorum qc)) live)).

Lemma leader2_is : V.round_robin (V.s_committee sh) h 2 = V.LeaderIs ld2.
Proof.
  rewrite Hcomm. pose proof (leader_models_agree qc h 2 Hh ltac:(reflexivity)) as A.
  change R2 with 2 in Hld.
  destruct (V.round_robin (committee qc) h 2) as [x|p]; rewrite Hld in A; [|discriminate].
  inversion A; reflexivity.
Qed.

Theorem round2_broadcasts_are_honest_items : forall dsig i m,
  In i live -> In m (round2_broadcasts qc h ld2 live i) ->
  exists t s, gate_msg fdlen true m = HR.hmsg h 2 (value_name ld2) fdlen nrc2 false 0 0 dsig t s /\ HR.honest_item sh ld2 dsig (t, s) /\ HR.is_dec t = false.
Proof.
  intros dsig i m Hi Hm. unfold round2_broadcasts in Hm. cbn [app] in Hm.
  assert (Hic : In i (committee qc)) by (apply Hlive; exact Hi).
  assert (Hi0 : i <> 0) by (intros ->; contradiction).
  assert (Hin : V.in_committee i sh = true) by (apply (in_committee_iff qc sh Hcomm); exact Hic).
  destruct Hm as [<-|Hm].
  - exists VC.qbftRoundChangeMsgType, i. split; [reflexivity|].
    split; [unfold HR.honest_item, HR.member; left; repeat split; auto; discriminate|reflexivity].
  - apply in_app_or in Hm. destruct Hm as [Hm|[<-|[<-|[]]]].
    + destruct (N.eqb_spec ld2 i) as [->|]; [|destruct Hm]. destruct Hm as [<-|[]].
      exists VC.qbftProposalMsgType, i. split.
      * unfold gate_msg, prop2, own_core, HR.hmsg, value_name, start_value, nrc2. cbn.
        rewrite N.eqb_refl, map_length. reflexivity.
      * split; [unfold HR.honest_item, HR.member; left; repeat split; auto|reflexivity].
    + exists VC.qbftPrepareMsgType, i. split; [reflexivity|].
      split; [unfold HR.honest_item, HR.member; left; repeat split; auto; discriminate|reflexivity].
    + exists VC.qbftCommitMsgType, i. split; [reflexivity|].
      split; [unfold HR.honest_item, HR.member; left; repeat split; auto; discriminate|reflexivity].
Qed.

End Gate2.

(* ---- the recovery round after a PREPARED first round (C07_recovery_from_prepared_round) -------------------- *)

(* round 2 of that recovery: every live operator's round change carries the value prepared in round 1 and its
   prepares; the leader re-proposes that value with a quorum of round changes and the prepares *)
Definition round2p_broadcasts (c : cfg) (h ld1 ld2 : N) (live : list N) (i : N) : list smsg :=
  let v := start_value ld1 in
  let rt := hash v in
  [rcp h ld1 live v i] ++
  (if ld2 =? i then [prop2p c h ld1 live ld2 (firstn (N.to_nat (quorum c)) live)] else []) ++
  [fm2 h T_PREPARE rt i; fm2 h T_COMMIT rt i].

Lemma round2p_in_prepared_bcasts : forall c h ld1 ld2 live i m,
  In m (round2p_broadcasts c h ld1 ld2 live i) -> In m (prepared_bcasts c h ld1 ld2 live i).
Proof.
  intros c h ld1 ld2 live i m H. unfold prepared_bcasts. apply in_or_app. right. exact H.
Qed.

Section Gate3.
Variables (qc : cfg) (sh : V.share) (h ld1 ld2 fdlen : N) (live : list N).
Hypothesis Hcomm : V.s_committee sh = committee qc.
Hypothesis Hz : ~ In 0 (committee qc).
Hypothesis Hlive : forall y, In y live -> In y (committee qc).

Definition nlive : N := N.of_nat (length live).

Theorem round2p_broadcasts_are_honest_items : forall dsig i m,
  In i live -> In m (round2p_broadcasts qc h ld1 ld2 live i) ->
  exists t s, gate_msg fdlen true m = HR.hmsg h 2 (value_name ld1) fdlen (nrc2 qc live) true nlive nlive dsig t s /\
              HR.honest_item sh ld2 dsig (t, s) /\ HR.is_dec t = false.
Proof.
  intros dsig i m Hi Hm. unfold round2p_broadcasts in Hm. cbn [app] in Hm.
  assert (Hic : In i (committee qc)) by (apply Hlive; exact Hi).
  assert (Hi0 : i <> 0) by (intros ->; contradiction).
  assert (Hin : V.in_committee i sh = true) by (apply (in_committee_iff qc sh Hcomm); exact Hic).
  destruct Hm as [<-|Hm].
  - exists VC.qbftRoundChangeMsgType, i. split.
    + unfold gate_msg, rcp, HR.hmsg, HR.carries, value_name, start_value, nlive. cbn.
      rewrite N.eqb_refl, map_length. reflexivity.
    + split; [unfold HR.honest_item, HR.member; left; repeat split; auto; discriminate|reflexivity].
  - apply in_app_or in Hm. destruct Hm as [Hm|[<-|[<-|[]]]].
    + destruct (N.eqb_spec ld2 i) as [->|]; [|destruct Hm]. destruct Hm as [<-|[]].
      exists VC.qbftProposalMsgType, i. split.
      * unfold gate_msg, prop2p, own_core, HR.hmsg, HR.carries, value_name, start_value, nrc2, nlive. cbn.
        rewrite N.eqb_refl, !map_length. reflexivity.
      * split; [unfold HR.honest_item, HR.member; left; repeat split; auto|reflexivity].
    + exists VC.qbftPrepareMsgType, i. split; [reflexivity|].
      split; [unfold HR.honest_item, HR.member; left; repeat split; auto; discriminate|reflexivity].
    + exists VC.qbftCommitMsgType, i. split; [reflexivity|].
      split; [unfold HR.honest_item, HR.member; left; repeat split; auto; discriminate|reflexivity].
Qed.

End Gate3.

(* ---- the decided message of the fault-free round ------------------------------------------------------------- *)

(* Every operator of the fault-free round decides when the first quorum of commits (delivered in committee order) has
   arrived, and its controller broadcasts the aggregate of exactly those commits: signers sorted (node variant). *)
Definition decided_signers (c : cfg) : list N := sort_n (firstn (N.to_nat (quorum c)) (committee c)).

Definition decided_msg (c : cfg) (h ld : N) : smsg :=
  SM {| c_type := T_COMMIT; c_height := h; c_round := FIRST_ROUND; c_root := hash (start_value ld);
        c_data_round := NO_ROUND; c_signers := decided_signers c; c_full := start_value ld;
        c_sig_ok := true; c_fmt_ok := true; c_ident := 0 |} [] [].

Lemma same_root_fmsg : forall h ty rt a b, same_signing_root (fmsg h ty rt a) (fmsg h ty rt b) = true.
Proof. intros. unfold same_signing_root, fmsg. cbn. rewrite !N.eqb_refl. reflexivity. Qed.

Lemma decided_msg_is_the_aggregate : forall c h ld,
  v_sort_agg (var c) = true -> firstn (N.to_nat (quorum c)) (committee c) <> [] ->
  aggregate_commits c (map (fmsg h T_COMMIT (hash (start_value ld))) (firstn (N.to_nat (quorum c)) (committee c)))
                    (start_value ld) = Some (decided_msg c h ld).
Proof.
  intros c h ld Hs Hne. unfold aggregate_commits, decided_msg, decided_signers.
  destruct (firstn (N.to_nat (quorum c)) (committee c)) as [|a tl] eqn:E; [congruence|].
  cbn [map].
  assert (Hall : forallb (same_signing_root (fmsg h T_COMMIT (hash (start_value ld)) a))
                         (map (fmsg h T_COMMIT (hash (start_value ld))) tl) = true).
  { apply forallb_forall. intros m Hm. apply in_map_iff in Hm. destruct Hm as (b & <- & _). apply same_root_fmsg. }
  rewrite Hall. cbn [negb]. rewrite Hs.
  change (fmsg h T_COMMIT (hash (start_value ld)) a :: map (fmsg h T_COMMIT (hash (start_value ld))) tl)
    with (map (fmsg h T_COMMIT (hash (start_value ld))) (a :: tl)).
  rewrite all_signers_fmsg.
  assert (Hsig : forallb (fun m => c_sig_ok (co m)) (map (fmsg h T_COMMIT (hash (start_value ld))) (a :: tl)) = true).
  { apply forallb_forall. intros m Hm. apply in_map_iff in Hm. destruct Hm as (b & <- & _). reflexivity. }
  rewrite Hsig. reflexivity.
Qed.

Lemma sorted_le_head : forall tl a, sorted_le (a :: tl) = true -> Forall (fun x => a <= x) tl.
Proof.
  induction tl as [|b tl2 IH]; intros a Hs; constructor.
  - cbn [sorted_le] in Hs. apply andb_true_iff in Hs. apply N.leb_le. apply Hs.
  - cbn [sorted_le] in Hs. apply andb_true_iff in Hs. destruct Hs as [Hab Hs2]. apply N.leb_le in Hab.
    eapply Forall_impl; [|exact (IH b Hs2)]. intros x Hx. cbn in Hx. lia.
Qed.

Lemma sorted_le_tail : forall a tl, sorted_le (a :: tl) = true -> sorted_le tl = true.
Proof.
  intros a [|b tl2] Hs; [reflexivity|]. cbn [sorted_le] in Hs. apply andb_true_iff in Hs. apply Hs.
Qed.

Lemma sorted_nodup_increasing : forall l p,
  sorted_le l = true -> NoDup l -> Forall (fun x => (p < x)) l -> HR.increasing p l.
Proof.
  induction l as [|a tl IH]; intros p Hs Hn Hf; [exact I|].
  inversion Hf as [|? ? Hpa Hf']; subst. inversion Hn as [|? ? Hni Hn']; subst.
  split; [exact Hpa|]. apply IH; [exact (sorted_le_tail a tl Hs)|exact Hn'|].
  pose proof (sorted_le_head tl a Hs) as Hle. rewrite Forall_forall in *. intros x Hx.
  specialize (Hle x Hx). assert (a <> x) by (intros ->; contradiction). lia.
Qed.

Section Decided.
Variables (qc : cfg) (sh : V.share).
Hypothesis Hcomm : V.s_committee sh = committee qc.
Hypothesis Hquorum : V.s_quorum sh = quorum qc.
Hypothesis Hnd : NoDup (committee qc).
Hypothesis Hz : ~ In 0 (committee qc).
Hypothesis Hq2 : 2 <= quorum qc.
Hypothesis Hqn : quorum qc <= N.of_nat (length (committee qc)).

Lemma decided_signers_length : length (decided_signers qc) = N.to_nat (quorum qc).
Proof. unfold decided_signers. rewrite sort_n_length, firstn_length. lia. Qed.

Theorem decided_signers_are_ok : HR.decided_signers_ok sh (decided_signers qc).
Proof.
  unfold HR.decided_signers_ok. rewrite decided_signers_length.
  assert (Hin : forall x, In x (decided_signers qc) -> In x (committee qc)).
  { intros x Hx. unfold decided_signers in Hx. apply (proj1 (sort_n_In _ x)) in Hx. exact (in_firstn_in N _ _ x Hx). }
  split; [lia|]. split; [unfold V.has_quorum; rewrite Hquorum; apply N.leb_le; lia|].
  split; [rewrite Hcomm; lia|]. split.
  - apply sorted_nodup_increasing.
    + unfold decided_signers. apply sort_n_sorted.
    + unfold decided_signers. apply sort_n_NoDup. apply NoDup_firstn. exact Hnd.
    + apply Forall_forall. intros x Hx. assert (x <> 0) by (intros ->; apply Hz; apply Hin; exact Hx). lia.
  - apply Forall_forall. intros x Hx. split.
    + intros ->. apply Hz. apply Hin. exact Hx.
    + apply (in_committee_iff qc sh Hcomm). apply Hin. exact Hx.
Qed.

(* the gate's view of operator i's decided message is the decided item of sender i *)
Theorem decided_msg_is_an_honest_item : forall h ld fdlen i,
  gate_msg fdlen true (decided_msg qc h ld) =
    HR.hmsg h VC.firstRound (value_name ld) fdlen 0 false 0 0 (fun _ => decided_signers qc) HR.tDecided i /\
  HR.honest_item sh ld (fun _ => decided_signers qc) (HR.tDecided, i).
Proof.
  intros h ld fdlen i. split.
  - unfold gate_msg, decided_msg, HR.hmsg, HR.carries, HR.mtype, HR.msigners, value_name, start_value. cbn.
    rewrite N.eqb_refl. reflexivity.
  - right. split; [reflexivity|]. exact decided_signers_are_ok.
Qed.

End Decided.
