(* C10, the two models joined: what the protocol model's correct operators broadcast in the fault-free first
   round (Qbft/SyncGeneric.v, C07_sync_fault_free_generic: exactly [round_broadcasts]) is, seen through the
   gate's abstraction of a signed message, what Validation/HonestRound.v calls an honest item - so every one of
   them is accepted by every correct peer's validator, in any arrival order (honest_round_accepted_at_the_gate). *)
From Coq Require Import List NArith ZArith Bool Lia.
From SSV Require Import Qbft.Model Qbft.SyncRound Qbft.SyncGeneric Qbft.RecoverGeneric Qbft.RecoverPrepared Qbft.Bridge.
From SSV Require Validation.Model Gen.ValidationConsts Validation.HonestRound.
Import ListNotations.
Local Open Scope N_scope.

Module HR := SSV.Validation.HonestRound.

(* The validator's view of a protocol message.  [jok] stands for instance.IsProposalJustification (called with
   verification off and a trivial value check); for the proposals a correct operator emits it holds by
   C10_first_round_proposal_valid / C10_leader_proposal_valid with C10_validator_justification_is_weaker. *)
Definition gate_msg (fdlen : N) (jok : bool) (m : smsg) : V.cmsg :=
  match m with
  | SM k rcj pj =>
      {| V.c_sig_len := VC.signatureSize; V.c_sig_zero := false;
         V.c_type := c_type k; V.c_height := c_height k; V.c_round := c_round k;
         V.c_signers := c_signers k;
         V.c_fd_len := match c_full k with Some _ => fdlen | None => 0 end;
         V.c_fd_id := match c_full k with Some x => x | None => 0 end;
         V.c_root_ok := match c_full k with Some _ => hash (c_full k) =? c_root k | None => false end;
         V.c_pj_ok := c_fmt_ok k; V.c_pj_len := N.of_nat (length pj);
         V.c_rcj_ok := c_fmt_ok k; V.c_rcj_len := N.of_nat (length rcj);
         V.c_just_ok := jok; V.c_duty_ok := true |}
  end.

(* everything operator [i] broadcasts in the fault-free first round (sync_node_ok's [expected]) *)
Definition round_broadcasts (c : cfg) (h ld i : N) : list smsg :=
  let v := start_value ld in
  (if i =? ld then [msg_of c h T_PROPOSAL ld (hash v) v] else [])
  ++ [msg_of c h T_PREPARE i (hash v) None; msg_of c h T_COMMIT i (hash v) None].

Lemma sync_node_ok_broadcasts : forall c h ld i,
  sync_node_ok c h ld i = true ->
  exists s bs, run (with_me c i) (new_instance h)
                   (OStart (start_value i)
                    :: OMsg (msg_of c h T_PROPOSAL ld (hash (start_value ld)) (start_value ld))
                    :: map (fun j => OMsg (msg_of c h T_PREPARE j (hash (start_value ld)) None)) (committee c)
                    ++ map (fun j => OMsg (msg_of c h T_COMMIT j (hash (start_value ld)) None)) (committee c))
               = (s, bs) /\
              smsgs_eqb (bcasts bs) (round_broadcasts c h ld i) = true.
Proof.
  intros c h ld i H. unfold sync_node_ok in H.
  match type of H with (let '(s, bs) := ?R in _) = true => destruct R as [s bs] eqn:Er end.
  exists s, bs. split; [reflexivity|].
  apply andb_true_iff in H. destruct H as [_ H]. exact H.
Qed.

Section Gate.
Variables (qc : cfg) (sh : V.share) (h ld fdlen : N).
Hypothesis Hcomm : V.s_committee sh = committee qc.
Hypothesis Hz : ~ In 0 (committee qc).
Hypothesis Hld : proposer qc h FIRST_ROUND = Some ld.
Hypothesis Hh : h < 18446744073709551616.

Definition value_name : N := match start_value ld with Some x => x | None => 0 end.

Lemma in_committee_iff : forall s, In s (committee qc) -> V.in_committee s sh = true.
Proof.
  intros s Hs. unfold V.in_committee. rewrite Hcomm. apply existsb_exists. exists s.
  split; [exact Hs|apply N.eqb_refl].
Qed.

Lemma leader_is : V.round_robin (V.s_committee sh) h VC.firstRound = V.LeaderIs ld.
Proof.
  rewrite Hcomm. pose proof (leader_models_agree qc h 1 Hh ltac:(reflexivity)) as A.
  change VC.firstRound with 1. change FIRST_ROUND with 1 in Hld.
  destruct (V.round_robin (committee qc) h 1) as [x|p]; rewrite Hld in A; [|discriminate].
  inversion A; reflexivity.
Qed.

Lemma leader_in_committee : In ld (committee qc).
Proof.
  pose proof leader_is as L. rewrite Hcomm in L. unfold V.round_robin in L.
  destruct (Z.of_nat (length (committee qc)) =? 0)%Z; [discriminate|].
  match type of L with (if ?b then _ else _) = _ => destruct b; [discriminate|] end.
  match type of L with match nth_error _ ?k with _ => _ end = _ => destruct (nth_error (committee qc) k) eqn:E end;
    [|discriminate].
  inversion L; subst. eapply nth_error_In; eauto.
Qed.

(* every broadcast of every operator is an honest item of the gate *)
Theorem round_broadcasts_are_honest_items : forall i m,
  In i (committee qc) -> In m (round_broadcasts qc h ld i) ->
  exists t s, gate_msg fdlen true m = HR.hmsg h VC.firstRound value_name fdlen 0 false 0 0 t s /\ HR.honest_item sh ld (t, s).
Proof.
  intros i m Hi Hm. unfold round_broadcasts in Hm. apply in_app_or in Hm.
  assert (Hi0 : i <> 0) by (intros ->; contradiction).
  destruct Hm as [Hm|[<-|[<-|[]]]].
  - destruct (N.eqb_spec i ld) as [->|]; [|destruct Hm]. destruct Hm as [<-|[]].
    exists VC.qbftProposalMsgType, ld. split.
    + unfold gate_msg, msg_of, own_core, HR.hmsg, value_name, start_value. cbn.
      rewrite N.eqb_refl. reflexivity.
    + unfold HR.honest_item. repeat split; auto. apply in_committee_iff. exact Hi.
  - exists VC.qbftPrepareMsgType, i. split; [reflexivity|].
    unfold HR.honest_item. repeat split; auto; [apply in_committee_iff; exact Hi|discriminate].
  - exists VC.qbftCommitMsgType, i. split; [reflexivity|].
    unfold HR.honest_item. repeat split; auto; [apply in_committee_iff; exact Hi|discriminate].
Qed.

End Gate.

(* ---- the recovery round after a silent first round (C07_recovery_from_silent_round) ------------------------ *)

(* what operator [i] broadcasts in round 2 (recover_bcasts without the round-1 proposal of a live first leader,
   which nobody was given): its round change, the leader's proposal justified by the first quorum of round
   changes, its prepare and its commit *)
Definition round2_broadcasts (c : cfg) (h ld2 : N) (live : list N) (i : N) : list smsg :=
  let rt := hash (start_value ld2) in
  [rcm h i] ++
  (if ld2 =? i then [prop2 c h ld2 (firstn (N.to_nat (quorum c)) live)] else []) ++
  [fm2 h T_PREPARE rt i; fm2 h T_COMMIT rt i].

Lemma round2_in_recover_bcasts : forall c h ld1 ld2 live i m,
  In m (round2_broadcasts c h ld2 live i) -> In m (recover_bcasts c h ld1 ld2 live i).
Proof.
  intros c h ld1 ld2 live i m H. unfold recover_bcasts. apply in_or_app. right. exact H.
Qed.

Section Gate2.
Variables (qc : cfg) (sh : V.share) (h ld2 fdlen : N) (live : list N).
Hypothesis Hcomm : V.s_committee sh = committee qc.
Hypothesis Hz : ~ In 0 (committee qc).
Hypothesis Hlive : forall y, In y live -> In y (committee qc).
Hypothesis Hld : proposer qc h R2 = Some ld2.
Hypothesis Hh : h < 18446744073709551616.

Definition nrc2 : N := N.of_nat (length (firstn (N.to_nat (quorum qc)) live)).

Lemma leader2_is : V.round_robin (V.s_committee sh) h 2 = V.LeaderIs ld2.
Proof.
  rewrite Hcomm. pose proof (leader_models_agree qc h 2 Hh ltac:(reflexivity)) as A.
  change R2 with 2 in Hld.
  destruct (V.round_robin (committee qc) h 2) as [x|p]; rewrite Hld in A; [|discriminate].
  inversion A; reflexivity.
Qed.

Theorem round2_broadcasts_are_honest_items : forall i m,
  In i live -> In m (round2_broadcasts qc h ld2 live i) ->
  exists t s, gate_msg fdlen true m = HR.hmsg h 2 (value_name ld2) fdlen nrc2 false 0 0 t s /\ HR.honest_item sh ld2 (t, s).
Proof.
  intros i m Hi Hm. unfold round2_broadcasts in Hm. cbn [app] in Hm.
  assert (Hic : In i (committee qc)) by (apply Hlive; exact Hi).
  assert (Hi0 : i <> 0) by (intros ->; contradiction).
  assert (Hin : V.in_committee i sh = true) by (apply (in_committee_iff qc sh Hcomm); exact Hic).
  destruct Hm as [<-|Hm].
  - exists VC.qbftRoundChangeMsgType, i. split; [reflexivity|].
    unfold HR.honest_item. repeat split; auto; discriminate.
  - apply in_app_or in Hm. destruct Hm as [Hm|[<-|[<-|[]]]].
    + destruct (N.eqb_spec ld2 i) as [->|]; [|destruct Hm]. destruct Hm as [<-|[]].
      exists VC.qbftProposalMsgType, i. split.
      * unfold gate_msg, prop2, own_core, HR.hmsg, value_name, start_value, nrc2. cbn.
        rewrite N.eqb_refl, map_length. reflexivity.
      * unfold HR.honest_item. repeat split; auto.
    + exists VC.qbftPrepareMsgType, i. split; [reflexivity|].
      unfold HR.honest_item. repeat split; auto; discriminate.
    + exists VC.qbftCommitMsgType, i. split; [reflexivity|].
      unfold HR.honest_item. repeat split; auto; discriminate.
Qed.

End Gate2.

(* ---- the recovery round after a PREPARED first round (C07_recovery_from_prepared_round) -------------------- *)

(* round 2 of that recovery: every live operator's round change carries the value prepared in round 1 and its
   prepares; the leader re-proposes that value with a quorum of round changes and the prepares *)
Definition round2p_broadcasts (c : cfg) (h ld1 ld2 : N) (live : list N) (i : N) : list smsg :=
  let v := start_value ld1 in
  let rt := hash v in
  [rcp h ld1 live v i] ++
  (if ld2 =? i then [prop2p c h ld1 live ld2 (firstn (N.to_nat (quorum c)) live)] else []) ++
  [fm2 h T_PREPARE rt i; fm2 h T_COMMIT rt i].

Lemma round2p_in_prepared_bcasts : forall c h ld1 ld2 live i m,
  In m (round2p_broadcasts c h ld1 ld2 live i) -> In m (prepared_bcasts c h ld1 ld2 live i).
Proof.
  intros c h ld1 ld2 live i m H. unfold prepared_bcasts. apply in_or_app. right. exact H.
Qed.

Section Gate3.
Variables (qc : cfg) (sh : V.share) (h ld1 ld2 fdlen : N) (live : list N).
Hypothesis Hcomm : V.s_committee sh = committee qc.
Hypothesis Hz : ~ In 0 (committee qc).
Hypothesis Hlive : forall y, In y live -> In y (committee qc).

Definition nlive : N := N.of_nat (length live).

Theorem round2p_broadcasts_are_honest_items : forall i m,
  In i live -> In m (round2p_broadcasts qc h ld1 ld2 live i) ->
  exists t s, gate_msg fdlen true m = HR.hmsg h 2 (value_name ld1) fdlen (nrc2 qc live) true nlive nlive t s /\
              HR.honest_item sh ld2 (t, s).
Proof.
  intros i m Hi Hm. unfold round2p_broadcasts in Hm. cbn [app] in Hm.
  assert (Hic : In i (committee qc)) by (apply Hlive; exact Hi).
  assert (Hi0 : i <> 0) by (intros ->; contradiction).
  assert (Hin : V.in_committee i sh = true) by (apply (in_committee_iff qc sh Hcomm); exact Hic).
  destruct Hm as [<-|Hm].
  - exists VC.qbftRoundChangeMsgType, i. split.
    + unfold gate_msg, rcp, HR.hmsg, HR.carries, value_name, start_value, nlive. cbn.
      rewrite N.eqb_refl, map_length. reflexivity.
    + unfold HR.honest_item. repeat split; auto; discriminate.
  - apply in_app_or in Hm. destruct Hm as [Hm|[<-|[<-|[]]]].
    + destruct (N.eqb_spec ld2 i) as [->|]; [|destruct Hm]. destruct Hm as [<-|[]].
      exists VC.qbftProposalMsgType, i. split.
      * unfold gate_msg, prop2p, own_core, HR.hmsg, HR.carries, value_name, start_value, nrc2, nlive. cbn.
        rewrite N.eqb_refl, !map_length. reflexivity.
      * unfold HR.honest_item. repeat split; auto.
    + exists VC.qbftPrepareMsgType, i. split; [reflexivity|].
      unfold HR.honest_item. repeat split; auto; discriminate.
    + exists VC.qbftCommitMsgType, i. split; [reflexivity|].
      unfold HR.honest_item. repeat split; auto; discriminate.
Qed.

End Gate3.
