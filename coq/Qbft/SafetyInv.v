(* C01: G1-G5 of Qbft/SafetyCore.v are invariants of the system of Qbft/System.v, provided no step
   rewinds the round of an undecided instance.  Part 1: the per-operator invariant and the facts
   extracted from message validation. *)
From Coq Require Import List NArith ZArith Bool Lia.
From SSV Require Import Qbft.Model Qbft.Controller Qbft.System Qbft.Compact Qbft.CompactSim
     Qbft.DecidedProofs Qbft.SafetyCore.
Import ListNotations.
Local Open Scope N_scope.

Section Inv.
Variable c0 : cfg.
Variable byz : N -> bool.
Variable h : N.
Variable f : nat.
Hypothesis Hnd : NoDup (committee c0).
Hypothesis Hsize : length (committee c0) = (3 * f + 1)%nat.
Hypothesis Hbyz : (length (filter byz (committee c0)) <= f)%nat.
Hypothesis Hq : quorum c0 = N.of_nat (2 * f + 1).
Hypothesis Hf : (1 <= f)%nat.
Hypothesis Hverify : v_verify (var c0) = true.

Notation cfg_of := (cfg_of c0).
Notation sent_by := (sent_by).
Notation PQ := (PQ (committee c0) byz (quorum c0)).
Notation CQ := (CQ (committee c0) byz (quorum c0)).
Notation evidence := (evidence (committee c0) byz (quorum c0)).
Notation ginv := (ginv (committee c0) byz (quorum c0)).

(* a single-signer message whose signer is a committee member and, if honest, has really sent it *)
Definition genuine (snt : list smsg) (ty r root : N) (m : smsg) : Prop :=
  exists x, c_signers (co m) = [x] /\ In x (committee c0) /\ (byz x = false -> sent_by snt x ty r root).

Lemma genuine_mono snt snt' ty r root m : incl snt snt' -> genuine snt ty r root m -> genuine snt' ty r root m.
Proof.
  intros Hi (x & A & B & C). exists x. repeat split; auto. intros Hb. eapply sent_by_mono; eauto.
Qed.

(* ---- the invariant of one honest operator i, relative to what has been broadcast ------------------ *)

Record linv (snt : list smsg) (i : N) (s : state) : Prop := {
  l_height : s_height s = h;
  l_round1 : 1 <= s_round s;
  l_lpr : s_lpr s <= s_round s;
  l_prep : forall y, In y snt -> by_ i T_PREPARE y ->
             1 <= c_round (co y) /\ c_round (co y) <= s_round s /\
             (c_round (co y) = s_round s -> exists p, s_acc s = Some p /\ c_root (co p) = c_root (co y));
  l_rc : forall y, In y snt -> by_ i T_ROUNDCHANGE y -> c_round (co y) <= s_round s;
  l_commit : forall y, In y snt -> by_ i T_COMMIT y ->
             1 <= c_round (co y) /\ c_round (co y) <= s_round s /\
             (c_round (co y) = s_round s -> exists p, s_acc s = Some p /\ c_root (co p) = c_root (co y)) /\
             (c_round (co y) < s_lpr s \/ (s_lpr s = c_round (co y) /\ hash (s_lpv s) = c_root (co y))) /\
             s_lpv s <> None;
  l_prepc : forall p, s_acc s = Some p -> forall m, In m (cget (s_prep s) (s_round s)) ->
             genuine snt T_PREPARE (s_round s) (c_root (co p)) m;
  l_prepc_future : forall r, s_round s < r -> cget (s_prep s) r = [];
  l_prepc_none : s_acc s = None -> cget (s_prep s) (s_round s) = [];
  l_acc : forall p, s_acc s = Some p -> hash (c_full (co p)) = c_root (co p) /\ c_full (co p) <> None;
  l_commitc : s_decided s = false -> forall p, s_acc s = Some p ->
             forall m, In m (cget (s_commit s) (s_round s)) -> genuine snt T_COMMIT (s_round s) (c_root (co p)) m
}.

(* ---- admissibility gives genuineness ------------------------------------------------------------------ *)

Lemma sig_check_ok i k : sig_check (cfg_of i) k = true -> c_sig_ok k = true.
Proof. unfold sig_check. cbn. rewrite Hverify. auto. Qed.

Lemma genuine_of_sig snt x ty r root :
  sig_genuine c0 byz snt x -> length (c_signers (co x)) = 1%nat ->
  c_type (co x) = ty -> c_round (co x) = r -> c_root (co x) = root ->
  genuine snt ty r root x.
Proof.
  intros Hg Hl Ht Hr Hro. unfold genuine. destruct (c_signers (co x)) as [|k [|k' t]] eqn:E; try discriminate.
  exists k. split; [reflexivity|]. destruct (Hg k) as [Hk Hs]; [rewrite E; left; reflexivity|]. split; [exact Hk|].
  intros Hb. destruct (Hs Hb) as (y & Hy & Ey & (C1 & C2 & C3 & C4 & C5)).
  exists y. split; [exact Hy|]. split; [split; [exact Ey|congruence]|]. split; congruence.
Qed.

Lemma valid_prepare_facts i m hh r root : valid_prepare (cfg_of i) m hh r root = true ->
  c_type (co m) = T_PREPARE /\ c_round (co m) = r /\ c_root (co m) = root /\
  length (c_signers (co m)) = 1%nat /\ c_sig_ok (co m) = true.
Proof.
  unfold valid_prepare. intros H. split_andb H.
  repeat split; try (apply N.eqb_eq; assumption); try (apply Nat.eqb_eq; assumption).
  eapply sig_check_ok; eauto.
Qed.

(* unique signers of genuine single-signer messages form a quorum *)
Lemma genuine_quorum snt ty r root (ms : list smsg) :
  has_quorum (cfg_of 0) ms = true -> (forall m, In m ms -> genuine snt ty r root m) ->
  quorum_of (committee c0) byz (quorum c0) snt ty r root.
Proof.
  intros Hhq Hg. unfold has_quorum in Hhq. cbn in Hhq. apply N.leb_le in Hhq.
  destruct (unique_count_quorum (committee c0) (quorum c0) ms Hhq) as (S & SN & SI & SL & SM).
  { intros x Hx. destruct (Hg x Hx) as (k & Ek & Hk & _). eauto. }
  exists S. repeat split; auto. intros s Hs Hb. destruct (SM s Hs) as (x & Hx & Ex).
  destruct (Hg x Hx) as (k & Ek & _ & Hsent). rewrite Ex in Ek. injection Ek as <-. auto.
Qed.

Lemma has_quorum_cfg i ms : has_quorum (cfg_of i) ms = has_quorum (cfg_of 0) ms.
Proof. reflexivity. Qed.

(* ---- the justification of an accepted proposal for a round > 1 ---------------------------------------- *)

Lemma highest_prepared_spec : forall rcs best,
  (forall b, best = Some b -> rc_prepared (co b) = true) ->
  match highest_prepared rcs best with
  | None => best = None /\ forall x, In x rcs -> rc_prepared (co x) = false
  | Some xh =>
      rc_prepared (co xh) = true /\ (In xh rcs \/ best = Some xh) /\
      (forall x, In x rcs -> rc_prepared (co x) = true -> c_data_round (co x) <= c_data_round (co xh)) /\
      (forall b, best = Some b -> c_data_round (co b) <= c_data_round (co xh))
  end.
Proof.
  induction rcs as [|m tl IH]; intros best Hb; cbn [highest_prepared].
  - destruct best as [b|]; [|split; [reflexivity|intros ? []]].
    repeat split; auto. intros ? []. intros b0 E. injection E as <-. lia.
  - destruct (rc_prepared (co m)) eqn:Ep.
    + destruct best as [b|].
      * destruct (N.ltb_spec (c_data_round (co b)) (c_data_round (co m))) as [Hlt|Hge].
        -- specialize (IH (Some m)). destruct (highest_prepared tl (Some m)) as [xh|].
           ++ destruct IH as (A & B & C & D); [intros ? E; injection E as <-; exact Ep|].
              repeat split; auto.
              ** destruct B as [B|B]; [left; right; exact B|left; left; injection B as <-; reflexivity].
              ** intros x [<-|Hx] Hp; [apply D; reflexivity|auto].
              ** intros b0 E. injection E as <-. specialize (D m eq_refl). lia.
           ++ destruct IH as [E _]; [intros ? E; injection E as <-; exact Ep|discriminate].
        -- specialize (IH (Some b) Hb). destruct (highest_prepared tl (Some b)) as [xh|].
           ++ destruct IH as (A & B & C & D). repeat split; auto.
              ** destruct B as [B|B]; [left; right; exact B|right; exact B].
              ** intros x [<-|Hx] Hp; [specialize (D b eq_refl); lia|auto].
           ++ destruct IH as [E _]. discriminate.
      * specialize (IH (Some m)). destruct (highest_prepared tl (Some m)) as [xh|].
        -- destruct IH as (A & B & C & D); [intros ? E; injection E as <-; exact Ep|].
           repeat split; auto.
           ** destruct B as [B|B]; [left; right; exact B|left; left; injection B as <-; reflexivity].
           ** intros x [<-|Hx] Hp; [apply D; reflexivity|auto].
           ** intros b0 E. discriminate.
        -- destruct IH as [E _]; [intros ? E; injection E as <-; exact Ep|discriminate].
    + specialize (IH best Hb). destruct (highest_prepared tl best) as [xh|].
      * destruct IH as (A & B & C & D). repeat split; auto.
        -- destruct B as [B|B]; [left; right; exact B|right; exact B].
        -- intros x [<-|Hx] Hp; [congruence|auto].
      * destruct IH as [E Hn]. split; [exact E|]. intros x [<-|Hx]; auto.
Qed.

Lemma valid_round_change_facts i hh x height round full :
  valid_round_change (cfg_of i) hh x height round full = true ->
  c_type (co x) = T_ROUNDCHANGE /\ c_round (co x) = round /\ length (c_signers (co x)) = 1%nat /\
  c_sig_ok (co x) = true /\
  (rc_prepared (co x) = true -> c_data_round (co x) <= round /\ hash full = c_root (co x)).
Proof.
  unfold valid_round_change. intros H. split_andb H.
  split; [apply N.eqb_eq; assumption|]. split; [apply N.eqb_eq; assumption|].
  split; [apply Nat.eqb_eq; assumption|]. split; [eapply sig_check_ok; eauto|].
  intros Hp.
  match goal with Hx : (if rc_prepared (co x) then _ else true) = true |- _ => rewrite Hp in Hx; split_andb Hx end.
  split; [apply N.leb_le; assumption|apply N.eqb_eq; assumption].
Qed.

Lemma rc_prepared_dr k : c_type k = T_ROUNDCHANGE -> (rc_prepared k = true <-> c_data_round k <> NO_ROUND).
Proof.
  intros Ht. unfold rc_prepared. rewrite Ht. cbn. destruct (N.eqb_spec (c_data_round k) NO_ROUND); cbn; split; congruence.
Qed.

(* what a justified proposal for a round > 1 establishes, in the vocabulary of SafetyCore *)
Lemma justified_evidence i snt m r :
  admissible c0 byz snt m -> r <> FIRST_ROUND ->
  proposal_justified (cfg_of i) (value_check (cfg_of i)) h (rcj m) (pj m) h r (c_full (co m)) = true ->
  evidence snt r (hash (c_full (co m))).
Proof.
  intros Hadm Hr Hj. unfold proposal_justified in Hj. apply andb_prop in Hj. destruct Hj as [_ Hj].
  destruct (N.eqb_spec r FIRST_ROUND) as [|_]; [contradiction|].
  apply andb_prop in Hj. destruct Hj as [Hj Hprep]. apply andb_prop in Hj. destruct Hj as [Hvalid Hquorum].
  rewrite forallb_forall in Hvalid.
  exists (rcj m).
  assert (Hparts_rc : forall x, In x (rcj m) -> In x (parts m)).
  { intros x Hx. unfold parts. right. apply in_or_app. left. exact Hx. }
  assert (Hparts_pj : forall x, In x (pj m) -> In x (parts m)).
  { intros x Hx. unfold parts. right. apply in_or_app. right. apply in_or_app. left. exact Hx. }
  split.
  - intros x Hx. destruct (valid_round_change_facts _ _ _ _ _ _ (Hvalid x Hx)) as (T & R & L & Sg & _).
    pose proof (Hadm x (Hparts_rc x Hx) Sg) as Hg.
    destruct (c_signers (co x)) as [|k [|k' t]] eqn:E; try discriminate.
    exists k. split; [reflexivity|]. destruct (Hg k) as [Hk Hs]; [rewrite E; left; reflexivity|].
    split; [exact Hk|]. split; [exact R|]. intros Hb. destruct (Hs Hb) as (y & Hy & Ey & (C1 & C2 & C3 & C4 & C5)).
    exists y. split; [exact Hy|]. split; [split; [exact Ey|congruence]|]. repeat split; congruence.
  - split; [unfold has_quorum in Hquorum; cbn in Hquorum; apply N.leb_le; exact Hquorum|].
    destruct (existsb (fun rc => rc_prepared (co rc)) (rcj m)) eqn:Eex.
    + right. apply andb_prop in Hprep. destruct Hprep as [Hpq Hh].
      pose proof (highest_prepared_spec (rcj m) None ltac:(intros ? E; discriminate)) as Hsp.
      destruct (highest_prepared (rcj m) None) as [xh|]; [|discriminate].
      destruct Hsp as (A & B & C & _). destruct B as [B|B]; [|discriminate].
      apply andb_prop in Hh. destruct Hh as [Hroot Hpv]. apply N.eqb_eq in Hroot.
      destruct (valid_round_change_facts _ _ _ _ _ _ (Hvalid xh B)) as (T & R & _ & _ & Hdr).
      exists xh. split; [exact B|]. split; [apply rc_prepared_dr; assumption|].
      split.
      { intros x Hx. destruct (valid_round_change_facts _ _ _ _ _ _ (Hvalid x Hx)) as (Tx & _).
        destruct (rc_prepared (co x)) eqn:Epx; [apply C; assumption|].
        assert (c_data_round (co x) = NO_ROUND).
        { destruct (N.eq_dec (c_data_round (co x)) NO_ROUND); [assumption|].
          apply (rc_prepared_dr _ Tx) in n. congruence. }
        unfold NO_ROUND in *. lia. }
      split; [apply Hdr; exact A|]. split; [exact Hroot|].
      rewrite forallb_forall in Hpv.
      eapply genuine_quorum; [rewrite <- (has_quorum_cfg i); exact Hpq|].
      intros p Hp. destruct (valid_prepare_facts _ _ _ _ _ (Hpv p Hp)) as (Tp & Rp & Rop & Lp & Sp).
      eapply genuine_of_sig; eauto.
    + left. intros x Hx. destruct (valid_round_change_facts _ _ _ _ _ _ (Hvalid x Hx)) as (Tx & _).
      destruct (N.eq_dec (c_data_round (co x)) NO_ROUND) as [E|E]; [exact E|].
      apply (rc_prepared_dr _ Tx) in E.
      assert (existsb (fun rc => rc_prepared (co rc)) (rcj m) = true) by (apply existsb_exists; eauto).
      congruence.
Qed.


(* ---- what the invariant reads of a state --------------------------------------------------------------- *)

Definition same_view (s s' : state) : Prop :=
  s_height s' = s_height s /\ s_round s' = s_round s /\ s_lpr s' = s_lpr s /\ s_lpv s' = s_lpv s /\
  s_acc s' = s_acc s /\ s_decided s' = s_decided s /\
  (forall r, s_round s <= r -> cget (s_prep s') r = cget (s_prep s) r) /\
  cget (s_commit s') (s_round s) = cget (s_commit s) (s_round s).

Lemma linv_view snt i s s' : same_view s s' -> linv snt i s -> linv snt i s'.
Proof.
  intros (Hh & Hr & Hl & Hv & Ha & Hd & Hp & Hc) L. destruct L.
  constructor; rewrite ?Hh, ?Hr, ?Hl, ?Hv, ?Ha, ?Hd; auto.
  - intros p E m Hm. rewrite Hp in Hm by lia. eauto.
  - intros r Hlt. rewrite Hp by lia. auto.
  - intros E. rewrite Hp by lia. auto.
  - intros E p Ea m Hm. rewrite Hc in Hm. eauto.
Qed.

Lemma linv_mono snt snt' i s : incl snt snt' ->
  (forall y ty, In y snt' -> by_ i ty y -> In y snt) -> linv snt i s -> linv snt' i s.
Proof.
  intros Hi Hnew L. destruct L. constructor; auto.
  - intros y Hy By. apply l_prep0; eauto.
  - intros y Hy By. apply l_rc0; eauto.
  - intros y Hy By. apply l_commit0; eauto.
  - intros p E m Hm. eapply genuine_mono; eauto.
  - intros E p Ea m Hm. eapply genuine_mono; eauto.
Qed.

(* ---- obligations of the messages a step adds ------------------------------------------------------------- *)

Record new_ok (snt : list smsg) (i : N) (news : list smsg) : Prop := {
  n_single : (length news <= 1)%nat;
  n_foreign : forall y j ty, In y news -> by_ j ty y -> j = i;
  n_prep : forall y, In y news -> by_ i T_PREPARE y ->
      1 <= c_round (co y) /\
      (forall y0, In y0 snt -> by_ i T_PREPARE y0 -> c_round (co y0) <> c_round (co y)) /\
      (c_round (co y) <> FIRST_ROUND -> evidence snt (c_round (co y)) (c_root (co y)));
  n_commit : forall y, In y news -> by_ i T_COMMIT y ->
      PQ snt (c_round (co y)) (c_root (co y)) /\
      (forall z, In z snt -> by_ i T_ROUNDCHANGE z -> c_round (co z) <= c_round (co y));
  n_rc : forall z, In z news -> by_ i T_ROUNDCHANGE z ->
      forall y0, In y0 snt -> by_ i T_COMMIT y0 -> c_round (co y0) < c_round (co z) ->
        c_round (co y0) < c_data_round (co z) \/
        (c_data_round (co z) = c_round (co y0) /\ c_root (co z) = c_root (co y0))
}.

Lemma new_ok_nil snt i : new_ok snt i [].
Proof. constructor; cbn; try lia; intros; contradiction. Qed.

(* a message that is neither prepare, commit nor round change, or that has several signers *)
Lemma new_ok_other snt i y :
  (forall j ty, by_ j ty y -> j = i /\ ty <> T_PREPARE /\ ty <> T_COMMIT /\ ty <> T_ROUNDCHANGE) ->
  new_ok snt i [y].
Proof.
  intros H. constructor; cbn; try lia.
  - intros y0 j ty [<-|[]] B. apply (H j ty B).
  - intros y0 [<-|[]] B. destruct (H i _ B) as (_ & A & _). contradiction.
  - intros y0 [<-|[]] B. destruct (H i _ B) as (_ & _ & A & _). contradiction.
  - intros y0 [<-|[]] B. destruct (H i _ B) as (_ & _ & _ & A). contradiction.
Qed.

End Inv.
