(* C01: G1-G5 of Qbft/SafetyCore.v are invariants of the system of Qbft/System.v, provided no step
   rewinds the round of an undecided instance.  Part 1: the per-operator invariant and the facts
   extracted from message validation. *)
From Coq Require Import List NArith ZArith Bool Lia.
From SSV Require Import Qbft.Model Qbft.Controller Qbft.System Qbft.Compact Qbft.CompactSim
     Qbft.DecidedProofs Qbft.SafetyCore.
Import ListNotations.
Local Open Scope N_scope.

Section Inv.
Variable c0 : cfg.
Variable byz : N -> bool.
Variable h : N.
Variable f : nat.
Hypothesis Hnd : NoDup (committee c0).
Hypothesis Hsize : length (committee c0) = (3 * f + 1)%nat.
Hypothesis Hbyz : (length (filter byz (committee c0)) <= f)%nat.
Hypothesis Hq : quorum c0 = N.of_nat (2 * f + 1).
Hypothesis Hf : (1 <= f)%nat.
Hypothesis Hverify : v_verify (var c0) = true.

Notation cfg_of := (cfg_of c0).
Notation sent_by := (sent_by).
Notation PQ := (PQ (committee c0) byz (quorum c0)).
Notation CQ := (CQ (committee c0) byz (quorum c0)).
Notation evidence := (evidence (committee c0) byz (quorum c0)).
Notation ginv := (ginv (committee c0) byz (quorum c0)).

(* a single-signer message whose signer is a committee member and, if honest, has really sent it *)
Definition genuine (snt : list smsg) (ty r root : N) (m : smsg) : Prop :=
  exists x, c_signers (co m) = [x] /\ In x (committee c0) /\ (byz x = false -> sent_by snt x ty r root).

Lemma genuine_mono snt snt' ty r root m : incl snt snt' -> genuine snt ty r root m -> genuine snt' ty r root m.
Proof.
  intros Hi (x & A & B & C). exists x. repeat split; auto. intros Hb. eapply sent_by_mono; eauto.
Qed.

(* ---- the invariant of one honest operator i, relative to what has been broadcast ------------------ *)

Record linv (snt : list smsg) (i : N) (s : state) : Prop := {
  l_height : s_height s = h;
  l_round1 : 1 <= s_round s;
  l_lpr : s_lpr s <= s_round s;
  l_prep : forall y, In y snt -> by_ i T_PREPARE y ->
             1 <= c_round (co y) /\ c_round (co y) <= s_round s /\
             (c_round (co y) = s_round s -> exists p, s_acc s = Some p /\ c_root (co p) = c_root (co y));
  l_rc : forall y, In y snt -> by_ i T_ROUNDCHANGE y -> c_round (co y) <= s_round s;
  l_commit : forall y, In y snt -> by_ i T_COMMIT y ->
             1 <= c_round (co y) /\ c_round (co y) <= s_round s /\
             (c_round (co y) = s_round s -> exists p, s_acc s = Some p /\ c_root (co p) = c_root (co y)) /\
             (c_round (co y) < s_lpr s \/ (s_lpr s = c_round (co y) /\ hash (s_lpv s) = c_root (co y))) /\
             s_lpv s <> None;
  l_prepc : forall p, s_acc s = Some p -> forall m, In m (cget (s_prep s) (s_round s)) ->
             genuine snt T_PREPARE (s_round s) (c_root (co p)) m;
  l_prepc_future : forall r, s_round s < r -> cget (s_prep s) r = [];
  l_prepc_none : s_acc s = None -> cget (s_prep s) (s_round s) = [];
  l_acc : forall p, s_acc s = Some p -> hash (c_full (co p)) = c_root (co p) /\ c_full (co p) <> None;
  l_commitc : s_decided s = false -> forall p, s_acc s = Some p ->
             forall m, In m (cget (s_commit s) (s_round s)) -> genuine snt T_COMMIT (s_round s) (c_root (co p)) m;
  l_commitc_future : s_decided s = false -> forall r, s_round s < r -> cget (s_commit s) r = [];
  l_commitc_none : s_decided s = false -> s_acc s = None -> cget (s_commit s) (s_round s) = []
}.

(* ---- admissibility gives genuineness ------------------------------------------------------------------ *)

Lemma sig_check_ok i k : sig_check (cfg_of i) k = true -> c_sig_ok k = true.
Proof. unfold sig_check. cbn. rewrite Hverify. auto. Qed.

Lemma genuine_of_sig snt x ty r root :
  sig_genuine c0 byz snt x -> length (c_signers (co x)) = 1%nat ->
  c_type (co x) = ty -> c_round (co x) = r -> c_root (co x) = root ->
  genuine snt ty r root x.
Proof.
  intros Hg Hl Ht Hr Hro. unfold genuine. destruct (c_signers (co x)) as [|k [|k' t]] eqn:E; try discriminate.
  exists k. split; [reflexivity|]. destruct (Hg k) as [Hk Hs]; [rewrite E; left; reflexivity|]. split; [exact Hk|].
  intros Hb. destruct (Hs Hb) as (y & Hy & Ey & (C1 & C2 & C3 & C4 & C5)).
  exists y. split; [exact Hy|]. split; [split; [exact Ey|congruence]|]. split; congruence.
Qed.

Lemma valid_prepare_facts i m hh r root : valid_prepare (cfg_of i) m hh r root = true ->
  c_type (co m) = T_PREPARE /\ c_round (co m) = r /\ c_root (co m) = root /\
  length (c_signers (co m)) = 1%nat /\ c_sig_ok (co m) = true.
Proof.
  unfold valid_prepare. intros H. split_andb H.
  repeat split; try (apply N.eqb_eq; assumption); try (apply Nat.eqb_eq; assumption).
  eapply sig_check_ok; eauto.
Qed.

(* unique signers of genuine single-signer messages form a quorum *)
Lemma genuine_quorum snt ty r root (ms : list smsg) :
  has_quorum (cfg_of 0) ms = true -> (forall m, In m ms -> genuine snt ty r root m) ->
  quorum_of (committee c0) byz (quorum c0) snt ty r root.
Proof.
  intros Hhq Hg. unfold has_quorum in Hhq. cbn in Hhq. apply N.leb_le in Hhq.
  destruct (unique_count_quorum (committee c0) (quorum c0) ms Hhq) as (S & SN & SI & SL & SM).
  { intros x Hx. destruct (Hg x Hx) as (k & Ek & Hk & _). eauto. }
  exists S. repeat split; auto. intros s Hs Hb. destruct (SM s Hs) as (x & Hx & Ex).
  destruct (Hg x Hx) as (k & Ek & _ & Hsent). rewrite Ex in Ek. injection Ek as <-. auto.
Qed.

Lemma has_quorum_cfg i ms : has_quorum (cfg_of i) ms = has_quorum (cfg_of 0) ms.
Proof. reflexivity. Qed.

(* ---- the justification of an accepted proposal for a round > 1 ---------------------------------------- *)

Lemma highest_prepared_spec : forall rcs best,
  (forall b, best = Some b -> rc_prepared (co b) = true) ->
  match highest_prepared rcs best with
  | None => best = None /\ forall x, In x rcs -> rc_prepared (co x) = false
  | Some xh =>
      rc_prepared (co xh) = true /\ (In xh rcs \/ best = Some xh) /\
      (forall x, In x rcs -> rc_prepared (co x) = true -> c_data_round (co x) <= c_data_round (co xh)) /\
      (forall b, best = Some b -> c_data_round (co b) <= c_data_round (co xh))
  end.
Proof.
  induction rcs as [|m tl IH]; intros best Hb; cbn [highest_prepared].
  - destruct best as [b|]; [|split; [reflexivity|intros ? []]].
    repeat split; auto. intros ? []. intros b0 E. injection E as <-. lia.
  - destruct (rc_prepared (co m)) eqn:Ep.
    + destruct best as [b|].
      * destruct (N.ltb_spec (c_data_round (co b)) (c_data_round (co m))) as [Hlt|Hge].
        -- specialize (IH (Some m)). destruct (highest_prepared tl (Some m)) as [xh|].
           ++ destruct IH as (A & B & C & D); [intros ? E; injection E as <-; exact Ep|].
              repeat split; auto.
              ** destruct B as [B|B]; [left; right; exact B|left; left; injection B as <-; reflexivity].
              ** intros x [<-|Hx] Hp; [apply D; reflexivity|auto].
              ** intros b0 E. injection E as <-. specialize (D m eq_refl). lia.
           ++ destruct IH as [E _]; [intros ? E; injection E as <-; exact Ep|discriminate].
        -- specialize (IH (Some b) Hb). destruct (highest_prepared tl (Some b)) as [xh|].
           ++ destruct IH as (A & B & C & D). repeat split; auto.
              ** destruct B as [B|B]; [left; right; exact B|right; exact B].
              ** intros x [<-|Hx] Hp; [specialize (D b eq_refl); lia|auto].
           ++ destruct IH as [E _]. discriminate.
      * specialize (IH (Some m)). destruct (highest_prepared tl (Some m)) as [xh|].
        -- destruct IH as (A & B & C & D); [intros ? E; injection E as <-; exact Ep|].
           repeat split; auto.
           ** destruct B as [B|B]; [left; right; exact B|left; left; injection B as <-; reflexivity].
           ** intros x [<-|Hx] Hp; [apply D; reflexivity|auto].
           ** intros b0 E. discriminate.
        -- destruct IH as [E _]; [intros ? E; injection E as <-; exact Ep|discriminate].
    + specialize (IH best Hb). destruct (highest_prepared tl best) as [xh|].
      * destruct IH as (A & B & C & D). repeat split; auto.
        -- destruct B as [B|B]; [left; right; exact B|right; exact B].
        -- intros x [<-|Hx] Hp; [congruence|auto].
      * destruct IH as [E Hn]. split; [exact E|]. intros x [<-|Hx]; auto.
Qed.

Lemma valid_round_change_facts i hh x height round full :
  valid_round_change (cfg_of i) hh x height round full = true ->
  c_type (co x) = T_ROUNDCHANGE /\ c_round (co x) = round /\ length (c_signers (co x)) = 1%nat /\
  c_sig_ok (co x) = true /\
  (rc_prepared (co x) = true -> c_data_round (co x) <= round /\ hash full = c_root (co x)).
Proof.
  unfold valid_round_change. intros H. split_andb H.
  split; [apply N.eqb_eq; assumption|]. split; [apply N.eqb_eq; assumption|].
  split; [apply Nat.eqb_eq; assumption|]. split; [eapply sig_check_ok; eauto|].
  intros Hp.
  match goal with Hx : (if rc_prepared (co x) then _ else true) = true |- _ => rewrite Hp in Hx; split_andb Hx end.
  split; [apply N.leb_le; assumption|apply N.eqb_eq; assumption].
Qed.

Lemma rc_prepared_dr k : c_type k = T_ROUNDCHANGE -> (rc_prepared k = true <-> c_data_round k <> NO_ROUND).
Proof.
  intros Ht. unfold rc_prepared. rewrite Ht. cbn. destruct (N.eqb_spec (c_data_round k) NO_ROUND); cbn; split; congruence.
Qed.

(* what a justified proposal for a round > 1 establishes, in the vocabulary of SafetyCore *)
Lemma justified_evidence i snt m r :
  admissible c0 byz snt m -> r <> FIRST_ROUND ->
  proposal_justified (cfg_of i) (value_check (cfg_of i)) h (rcj m) (pj m) h r (c_full (co m)) = true ->
  evidence snt r (hash (c_full (co m))).
Proof.
  intros Hadm Hr Hj. unfold proposal_justified in Hj. apply andb_prop in Hj. destruct Hj as [_ Hj].
  destruct (N.eqb_spec r FIRST_ROUND) as [|_]; [contradiction|].
  apply andb_prop in Hj. destruct Hj as [Hj Hprep]. apply andb_prop in Hj. destruct Hj as [Hvalid Hquorum].
  rewrite forallb_forall in Hvalid.
  exists (rcj m).
  assert (Hparts_rc : forall x, In x (rcj m) -> In x (parts m)).
  { intros x Hx. unfold parts. right. apply in_or_app. left. exact Hx. }
  assert (Hparts_pj : forall x, In x (pj m) -> In x (parts m)).
  { intros x Hx. unfold parts. right. apply in_or_app. right. apply in_or_app. left. exact Hx. }
  split.
  - intros x Hx. destruct (valid_round_change_facts _ _ _ _ _ _ (Hvalid x Hx)) as (T & R & L & Sg & _).
    pose proof (Hadm x (Hparts_rc x Hx) Sg) as Hg.
    destruct (c_signers (co x)) as [|k [|k' t]] eqn:E; try discriminate.
    exists k. split; [reflexivity|]. destruct (Hg k) as [Hk Hs]; [rewrite E; left; reflexivity|].
    split; [exact Hk|]. split; [exact R|]. intros Hb. destruct (Hs Hb) as (y & Hy & Ey & (C1 & C2 & C3 & C4 & C5)).
    exists y. split; [exact Hy|]. split; [split; [exact Ey|congruence]|]. repeat split; congruence.
  - split; [unfold has_quorum in Hquorum; cbn in Hquorum; apply N.leb_le; exact Hquorum|].
    destruct (existsb (fun rc => rc_prepared (co rc)) (rcj m)) eqn:Eex.
    + right. apply andb_prop in Hprep. destruct Hprep as [Hpq Hh].
      pose proof (highest_prepared_spec (rcj m) None ltac:(intros ? E; discriminate)) as Hsp.
      destruct (highest_prepared (rcj m) None) as [xh|]; [|discriminate].
      destruct Hsp as (A & B & C & _). destruct B as [B|B]; [|discriminate].
      apply andb_prop in Hh. destruct Hh as [Hroot Hpv]. apply N.eqb_eq in Hroot.
      destruct (valid_round_change_facts _ _ _ _ _ _ (Hvalid xh B)) as (T & R & _ & _ & Hdr).
      exists xh. split; [exact B|]. split; [apply rc_prepared_dr; assumption|].
      split.
      { intros x Hx. destruct (valid_round_change_facts _ _ _ _ _ _ (Hvalid x Hx)) as (Tx & _).
        destruct (rc_prepared (co x)) eqn:Epx; [apply C; assumption|].
        assert (c_data_round (co x) = NO_ROUND).
        { destruct (N.eq_dec (c_data_round (co x)) NO_ROUND); [assumption|].
          apply (rc_prepared_dr _ Tx) in n. congruence. }
        unfold NO_ROUND in *. lia. }
      split; [apply Hdr; exact A|]. split; [exact Hroot|].
      rewrite forallb_forall in Hpv.
      eapply genuine_quorum; [rewrite <- (has_quorum_cfg i); exact Hpq|].
      intros p Hp. destruct (valid_prepare_facts _ _ _ _ _ (Hpv p Hp)) as (Tp & Rp & Rop & Lp & Sp).
      eapply genuine_of_sig; eauto.
    + left. intros x Hx. destruct (valid_round_change_facts _ _ _ _ _ _ (Hvalid x Hx)) as (Tx & _).
      destruct (N.eq_dec (c_data_round (co x)) NO_ROUND) as [E|E]; [exact E|].
      apply (rc_prepared_dr _ Tx) in E.
      assert (existsb (fun rc => rc_prepared (co rc)) (rcj m) = true) by (apply existsb_exists; eauto).
      congruence.
Qed.


(* ---- what the invariant reads of a state --------------------------------------------------------------- *)

Definition same_view (s s' : state) : Prop :=
  s_height s' = s_height s /\ s_round s' = s_round s /\ s_lpr s' = s_lpr s /\ s_lpv s' = s_lpv s /\
  s_acc s' = s_acc s /\ s_decided s' = s_decided s /\
  (forall r, s_round s <= r -> cget (s_prep s') r = cget (s_prep s) r) /\
  (forall r, s_round s <= r -> cget (s_commit s') r = cget (s_commit s) r).

Lemma linv_view snt i s s' : same_view s s' -> linv snt i s -> linv snt i s'.
Proof.
  intros (Hh & Hr & Hl & Hv & Ha & Hd & Hp & Hc) L. destruct L.
  constructor; rewrite ?Hh, ?Hr, ?Hl, ?Hv, ?Ha, ?Hd; auto.
  - intros p E m Hm. rewrite Hp in Hm by lia. eauto.
  - intros r Hlt. rewrite Hp by lia. auto.
  - intros E. rewrite Hp by lia. auto.
  - intros E p Ea m Hm. rewrite Hc in Hm by lia. eauto.
  - intros E r Hlt. rewrite Hc by lia. auto.
  - intros E Ea. rewrite Hc by lia. auto.
Qed.

Definition pcr (i : N) (y : smsg) : Prop :=
  by_ i T_PREPARE y \/ by_ i T_COMMIT y \/ by_ i T_ROUNDCHANGE y.

Lemma linv_mono snt snt' i s : incl snt snt' ->
  (forall y, In y snt' -> pcr i y -> In y snt) -> linv snt i s -> linv snt' i s.
Proof.
  intros Hi Hnew L. destruct L. constructor; auto.
  - intros y Hy By. apply l_prep0; [apply Hnew; unfold pcr; auto|exact By].
  - intros y Hy By. apply l_rc0; [apply Hnew; unfold pcr; auto|exact By].
  - intros y Hy By. apply l_commit0; [apply Hnew; unfold pcr; auto|exact By].
  - intros p E m Hm. eapply genuine_mono; eauto.
  - intros E p Ea m Hm. eapply genuine_mono; eauto.
Qed.

(* ---- obligations of the messages a step adds ------------------------------------------------------------- *)

Record new_ok (snt : list smsg) (i : N) (news : list smsg) : Prop := {
  n_single : (length news <= 1)%nat;
  n_foreign : forall y j ty, In y news -> by_ j ty y -> j = i;
  n_prep : forall y, In y news -> by_ i T_PREPARE y ->
      1 <= c_round (co y) /\
      (forall y0, In y0 snt -> by_ i T_PREPARE y0 -> c_round (co y0) <> c_round (co y)) /\
      (c_round (co y) <> FIRST_ROUND -> evidence snt (c_round (co y)) (c_root (co y)));
  n_commit : forall y, In y news -> by_ i T_COMMIT y ->
      PQ snt (c_round (co y)) (c_root (co y)) /\
      (forall z, In z snt -> by_ i T_ROUNDCHANGE z -> c_round (co z) <= c_round (co y));
  n_rc : forall z, In z news -> by_ i T_ROUNDCHANGE z ->
      forall y0, In y0 snt -> by_ i T_COMMIT y0 -> c_round (co y0) < c_round (co z) ->
        c_round (co y0) < c_data_round (co z) \/
        (c_data_round (co z) = c_round (co y0) /\ c_root (co z) = c_root (co y0))
}.

Lemma new_ok_nil snt i : new_ok snt i [].
Proof. constructor; cbn; try lia; intros; contradiction. Qed.

(* a message that is neither prepare, commit nor round change, or that has several signers *)
Lemma new_ok_other snt i y :
  (forall j ty, by_ j ty y -> j = i /\ ty <> T_PREPARE /\ ty <> T_COMMIT /\ ty <> T_ROUNDCHANGE) ->
  new_ok snt i [y].
Proof.
  intros H. constructor; cbn; try lia.
  - intros y0 j ty [<-|[]] B. apply (H j ty B).
  - intros y0 [<-|[]] B. destruct (H i _ B) as (_ & A & _). contradiction.
  - intros y0 [<-|[]] B. destruct (H i _ B) as (_ & _ & A & _). contradiction.
  - intros y0 [<-|[]] B. destruct (H i _ B) as (_ & _ & _ & A). contradiction.
Qed.


(* ---- rule: a proposal is accepted ------------------------------------------------------------------------- *)

Lemma valid_proposal_justified c s m : valid_proposal c s m = Some true ->
  proposal_justified c (value_check c) (s_height s) (rcj m) (pj m) (s_height s) (c_round (co m)) (c_full (co m)) = true.
Proof.
  unfold valid_proposal.
  repeat match goal with
  | |- context [if ?b then Some false else _] => destruct b; [discriminate|]
  end.
  destruct (proposer c (s_height s) (c_round (co m))); [|discriminate].
  repeat match goal with
  | |- context [if negb ?b then Some false else _] => destruct b eqn:?; cbn [negb]; [|discriminate]
  end.
  intros _. reflexivity.
Qed.

Lemma by_create_prepare i s r root ty j :
  by_ j ty (create_prepare (cfg_of i) s r root) -> j = i /\ ty = T_PREPARE.
Proof. unfold by_; cbn. intros [E1 E2]. injection E1 as <-. auto. Qed.

Lemma upon_proposal_linv i snt s m s' o ok :
  linv snt i s -> admissible c0 byz snt m -> valid_proposal (cfg_of i) s m = Some true ->
  upon_proposal (cfg_of i) s m = (s', o, ok) ->
  linv (snt ++ bcast_of o) i s' /\ new_ok snt i (bcast_of o).
Proof.
  intros L Hadm Hv. unfold upon_proposal.
  destruct (cadd_first (s_prop s) m) as [ct added]. destruct added; cbn [negb].
  2:{ intros E; injection E as <- <- _. cbn. rewrite app_nil_r. split; [exact L|apply new_ok_nil]. }
  pose proof (valid_proposal_ok _ _ _ Hv) as (Pt & Ph & Pl & Ps & Phash & Pval).
  pose proof (valid_proposal_round _ _ _ Hv) as Hrd.
  pose proof (valid_proposal_justified _ _ _ Hv) as Hj.
  set (r := c_round (co m)) in *.
  set (s2 := set_round (set_acc (set_prop s ct) (Some m)) r).
  destruct L as [Lh L1 Ll Lp Lr Lc Lpc Lpf Lpn La Lcc Lcf Lcn].
  assert (HR : s_round s <= r) by (destruct Hrd as [[_ E]|E]; lia).
  assert (Hfull : c_full (co m) <> None).
  { intros E. rewrite E in Pval. cbn in Pval. discriminate. }
  (* no earlier prepare / commit of this operator is for round r *)
  assert (Hfresh : forall p, s_acc s = Some p -> s_round s < r).
  { intros p E. destruct Hrd as [[E' _]|Hlt]; [congruence|exact Hlt]. }
  set (prep := create_prepare (cfg_of i) s2 r (hash (c_full (co m)))).
  assert (Hold_prep : forall y, In y snt -> by_ i T_PREPARE y -> c_round (co y) <> r).
  { intros y Hy By E. destruct (Lp y Hy By) as (_ & Hle & Hacc).
    assert (c_round (co y) = s_round s) by lia. destruct (Hacc H) as (p & Ep & _). specialize (Hfresh p Ep). lia. }
  assert (Hold_commit : forall y, In y snt -> by_ i T_COMMIT y -> c_round (co y) <> r).
  { intros y Hy By E. destruct (Lc y Hy By) as (_ & Hle & Hacc & _).
    assert (c_round (co y) = s_round s) by lia. destruct (Hacc H) as (p & Ep & _). specialize (Hfresh p Ep). lia. }
  assert (Hempty_prep : cget (s_prep s) r = []).
  { destruct (N.eq_dec r (s_round s)) as [E|E]; [|apply Lpf; lia].
    rewrite E. apply Lpn. destruct (s_acc s) eqn:Ea; [|reflexivity]. specialize (Hfresh _ eq_refl). lia. }
  assert (Hempty_commit : s_decided s = false -> cget (s_commit s) r = []).
  { intros Hd. destruct (N.eq_dec r (s_round s)) as [E|E]; [|apply Lcf; [exact Hd|lia]].
    rewrite E. apply Lcn; [exact Hd|]. destruct (s_acc s) eqn:Ea; [|reflexivity]. specialize (Hfresh _ eq_refl). lia. }
  (* the invariant of the new state w.r.t. the old messages *)
  assert (L2 : linv snt i s2).
  { constructor; cbn.
    - exact Lh.
    - lia.
    - lia.
    - intros y Hy By. destruct (Lp y Hy By) as (A & B & C). split; [exact A|]. split; [lia|].
      intros E. exfalso. apply (Hold_prep y Hy By E).
    - intros y Hy By. specialize (Lr y Hy By). lia.
    - intros y Hy By. destruct (Lc y Hy By) as (A & B & C & D & E). split; [exact A|]. split; [lia|].
      split; [intros E'; exfalso; apply (Hold_commit y Hy By E')|]. split; [exact D|exact E].
    - intros p E m0 Hm0. rewrite Hempty_prep in Hm0. destruct Hm0.
    - intros r0 Hlt. apply Lpf. lia.
    - intros E. discriminate.
    - intros p E. injection E as <-. split; [exact Phash|exact Hfull].
    - intros Hd p E m0 Hm0. rewrite (Hempty_commit Hd) in Hm0. destruct Hm0.
    - intros Hd r0 Hlt. apply Lcf; [exact Hd|lia].
    - intros Hd E. discriminate. }
  destruct (can_process s2); intros E; injection E as <- <- _.
  2:{ (* the prepare could not be broadcast: only the state changed *)
    assert (Hb : bcast_of (if s_round s <? r then [OTimer (c_height (co m)) r] else []) = [])
      by (destruct (s_round s <? r); reflexivity).
    rewrite Hb, app_nil_r. split; [exact L2|apply new_ok_nil]. }
  assert (Hb : bcast_of ((if s_round s <? r then [OTimer (c_height (co m)) r] else []) ++ [OBcast prep]) = [prep])
    by (destruct (s_round s <? r); reflexivity).
  fold s2 in Hb |- *. fold prep. rewrite Hb.
  assert (Hprep : by_ i T_PREPARE prep /\ c_round (co prep) = r /\ c_root (co prep) = hash (c_full (co m))).
  { unfold by_, prep; cbn. auto. }
  destruct Hprep as (Bp & Rp & Rop).
  split.
  - (* the invariant with the new prepare *)
    destruct L2 as [Mh M1 Ml Mp Mr Mc Mpc Mpf Mpn Ma Mcc Mcf Mcn].
    constructor; auto.
    + intros y Hy By. apply in_app_or in Hy. destruct Hy as [Hy|[<-|[]]]; [auto|].
      rewrite Rp. split; [cbn in M1; exact M1|]. split; [cbn; lia|].
      intros _. exists m. split; [reflexivity|]. rewrite Rop. symmetry. exact Phash.
    + intros y Hy By. apply in_app_or in Hy. destruct Hy as [Hy|[<-|[]]]; [auto|].
      destruct By as [_ T]. destruct Bp as [_ T']. exfalso; unfold T_PROPOSAL, T_PREPARE, T_COMMIT, T_ROUNDCHANGE in *; congruence.
    + intros y Hy By. apply in_app_or in Hy. destruct Hy as [Hy|[<-|[]]]; [auto|].
      destruct By as [_ T]. destruct Bp as [_ T']. exfalso; unfold T_PROPOSAL, T_PREPARE, T_COMMIT, T_ROUNDCHANGE in *; congruence.
    + intros p E m0 Hm0. eapply genuine_mono; [|eauto]. intros a Ha. apply in_or_app. left. exact Ha.
    + intros Hd p E m0 Hm0. eapply genuine_mono; [|eauto]. intros a Ha. apply in_or_app. left. exact Ha.
  - constructor; cbn; try lia.
    + intros y j ty [<-|[]] B. apply (by_create_prepare _ _ _ _ _ _ B).
    + intros y [<-|[]] _. rewrite Rp, Rop. split; [lia|]. split; [exact Hold_prep|].
      intros Hne. rewrite Lh in Hj. eapply justified_evidence; eauto.
    + intros y [<-|[]] [_ T]. destruct Bp as [_ T']. exfalso; unfold T_PROPOSAL, T_PREPARE, T_COMMIT, T_ROUNDCHANGE in *; congruence.
    + intros y [<-|[]] [_ T]. destruct Bp as [_ T']. exfalso; unfold T_PROPOSAL, T_PREPARE, T_COMMIT, T_ROUNDCHANGE in *; congruence.
Qed.


(* ---- rule: a prepare is counted ------------------------------------------------------------------------------ *)

Lemma cadd_first_added ct m ct' : cadd_first ct m = (ct', true) -> ct' = cput ct (c_round (co m)) m.
Proof. unfold cadd_first. destruct (existsb _ _); intros E; injection E as <-; [discriminate|reflexivity]. Qed.

Lemma cadd_first_not_added ct m ct' : cadd_first ct m = (ct', false) -> ct' = ct.
Proof. unfold cadd_first. destruct (existsb _ _); intros E; injection E as <-; [reflexivity|discriminate]. Qed.

Ltac clash := exfalso; unfold T_PROPOSAL, T_PREPARE, T_COMMIT, T_ROUNDCHANGE in *; congruence.

Lemma in_snoc {A} (l : list A) x y : In y (l ++ [x]) -> In y l \/ y = x.
Proof. intros H. apply in_app_or in H. destruct H as [H|[H|[]]]; auto. Qed.

Lemma incl_app_l {A} (l l' : list A) : incl l (l ++ l').
Proof. intros a Ha. apply in_or_app. left. exact Ha. Qed.

Lemma upon_prepare_linv i snt s m s' o p :
  linv snt i s -> admissible c0 byz snt m -> s_acc s = Some p ->
  valid_prepare (cfg_of i) m (s_height s) (s_round s) (c_root (co p)) = true ->
  upon_prepare (cfg_of i) s m = (s', o) ->
  linv (snt ++ bcast_of o) i s' /\ new_ok snt i (bcast_of o).
Proof.
  intros L Hadm Hp Hv. unfold upon_prepare.
  destruct (cadd_first (s_prep s) m) as [ct added] eqn:Ea. destruct added; cbn [negb].
  2:{ intros E; injection E as <- <-. cbn. rewrite app_nil_r. split; [exact L|apply new_ok_nil]. }
  apply cadd_first_added in Ea.
  destruct (valid_prepare_facts _ _ _ _ _ Hv) as (Tm & Rm & Rom & Lm & Sm).
  rewrite Rm in Ea.
  assert (Hgen : genuine snt T_PREPARE (s_round s) (c_root (co p)) m).
  { eapply genuine_of_sig; eauto. apply Hadm; [left; reflexivity|exact Sm]. }
  pose proof L as L0.
  destruct L as [Lh L1 Ll Lp Lr Lc Lpc Lpf Lpn La Lcc Lcf Lcn].
  set (s1 := set_prep s ct).
  assert (Hentry : cget ct (s_round s) = cget (s_prep s) (s_round s) ++ [m]) by (rewrite Ea; apply cget_cput_same).
  assert (Hother : forall r, r <> s_round s -> cget ct r = cget (s_prep s) r).
  { intros r Hr. rewrite Ea. apply cget_cput_other. congruence. }
  assert (L1' : linv snt i s1).
  { constructor; cbn; auto.
    - intros p0 E m0 Hm0. rewrite Hentry in Hm0. apply in_snoc in Hm0. rewrite Hp in E. injection E as <-.
      destruct Hm0 as [Hm0| ->]; [eauto|exact Hgen].
    - intros r Hlt. rewrite Hother by lia. auto.
    - intros E. congruence. }
  rewrite Hp.
  destruct (has_quorum (cfg_of i) (cget (s_prep s) (s_round s))).
  { intros E; injection E as <- <-. cbn. rewrite app_nil_r. split; [exact L1'|apply new_ok_nil]. }
  destruct (has_quorum (cfg_of i) (cget ct (s_round s))) eqn:Hq2; cbn [negb].
  2:{ intros E; injection E as <- <-. cbn. rewrite app_nil_r. split; [exact L1'|apply new_ok_nil]. }
  intros E; injection E as <- <-.
  set (s2 := set_prepared s1 (s_round s) (c_full (co p))).
  set (cm := create_commit (cfg_of i) s2 (c_root (co p))).
  change (bcast_of [OBcast cm]) with [cm].
  destruct (La p Hp) as [Hhash Hfull].
  assert (Bc : by_ i T_COMMIT cm /\ c_round (co cm) = s_round s /\ c_root (co cm) = c_root (co p))
    by (unfold by_, cm; cbn; auto).
  destruct Bc as (Bc & Rc & Roc).
  split.
  - destruct L1' as [Mh M1 Ml Mp Mr Mc Mpc Mpf Mpn Ma Mcc Mcf Mcn].
    constructor; cbn.
    + exact Lh.
    + exact L1.
    + lia.
    + intros y Hy By. apply in_snoc in Hy. destruct Hy as [Hy| ->]; [apply (Lp y Hy By)|].
      destruct By as [_ T]. destruct Bc as [_ T']. clash.
    + intros y Hy By. apply in_snoc in Hy. destruct Hy as [Hy| ->]; [apply (Lr y Hy By)|].
      destruct By as [_ T]. destruct Bc as [_ T']. clash.
    + intros y Hy By. apply in_snoc in Hy. destruct Hy as [Hy| ->].
      * destruct (Lc y Hy By) as (A & B & C & D & E). split; [exact A|]. split; [exact B|]. split; [exact C|].
        split; [|congruence].
        destruct (N.eq_dec (c_round (co y)) (s_round s)) as [Eq|Ne]; [|left; lia].
        right. split; [symmetry; exact Eq|]. destruct (C Eq) as (p' & Ep' & Rp'). rewrite Hp in Ep'. injection Ep' as <-.
        congruence.
      * rewrite Rc, Roc. split; [exact L1|]. split; [lia|]. split; [intros _; exists p; auto|].
        split; [right; auto|congruence].
    + intros p0 E m0 Hm0. eapply genuine_mono; [apply incl_app_l|]. apply (Mpc p0 E m0 Hm0).
    + exact Mpf.
    + exact Mpn.
    + exact La.
    + intros Hd p0 E m0 Hm0. eapply genuine_mono; [apply incl_app_l|]. apply (Lcc Hd p0 E m0 Hm0).
    + exact Lcf.
    + exact Lcn.
  - constructor; cbn; try lia.
    + intros y j ty [<-|[]] [B _]. destruct Bc as [B' _]. rewrite B' in B. injection B as <-. reflexivity.
    + intros y [<-|[]] [_ T]. destruct Bc as [_ T']. clash.
    + intros y [<-|[]] _. rewrite Rc, Roc. split.
      * eapply genuine_quorum; [rewrite <- (has_quorum_cfg i); exact Hq2|].
        intros m0 Hm0. rewrite Hentry in Hm0. apply in_snoc in Hm0. destruct Hm0 as [Hm0| ->]; [eauto|exact Hgen].
      * intros z Hz Bz. apply (Lr z Hz Bz).
    + intros y [<-|[]] [_ T]. destruct Bc as [_ T']. clash.
Qed.


(* ---- rule: a commit is counted ---------------------------------------------------------------------------------- *)

Lemma greedy_signers root : forall rest sg ms,
  sg = all_signers ms -> fst (greedy root rest sg ms) = all_signers (snd (greedy root rest sg ms)).
Proof.
  induction rest as [|m tl IH]; intros sg ms E; cbn [greedy]; [exact E|].
  destruct (negb (c_root (co m) =? root)); [auto|].
  destruct (common_signers (c_signers (co m)) sg); [auto|].
  apply IH. unfold all_signers. rewrite flat_map_app. cbn. rewrite app_nil_r, E. reflexivity.
Qed.

Lemma longest_from_signers root : forall l best,
  fst best = all_signers (snd best) ->
  fst (longest_from root l best) = all_signers (snd (longest_from root l best)).
Proof.
  induction l as [|m tl IH]; intros best E; cbn [longest_from]; [exact E|].
  destruct (negb (c_root (co m) =? root)); [auto|].
  apply IH. destruct (Nat.ltb _ _); [|exact E].
  apply greedy_signers. unfold all_signers. cbn. rewrite app_nil_r. reflexivity.
Qed.

Lemma longest_unique_signers ct r root :
  fst (longest_unique ct r root) = all_signers (snd (longest_unique ct r root)).
Proof. unfold longest_unique. apply longest_from_signers. reflexivity. Qed.

Lemma quorum_ge_3 : 3 <= quorum c0.
Proof. rewrite Hq. lia. Qed.

Lemma upon_commit_linv i snt s m s' cr p :
  linv snt i s -> admissible c0 byz snt m -> s_acc s = Some p ->
  validate_commit (cfg_of i) m (s_height s) (s_round s) p = true ->
  upon_commit (cfg_of i) s m = (s', cr) ->
  linv snt i s' /\
  (forall v agg, cr = CDecide v agg ->
     (2 <= length (c_signers (co agg)))%nat /\
     (s_decided s = false ->
        CQ snt (s_round s) (c_root (co p)) /\ v = c_full (co p) /\ c_root (co agg) = c_root (co p) /\
        c_full (co agg) = c_full (co p))).
Proof.
  intros L Hadm Hp Hv. unfold upon_commit.
  destruct (cadd_first (s_commit s) m) as [ct added] eqn:Ea. destruct added; cbn [negb].
  2:{ intros E; injection E as <- <-. split; [exact L|]. intros v agg E. discriminate. }
  apply cadd_first_added in Ea.
  pose proof (validate_commit_ok _ _ _ _ _ Hv) as (Tm & Hm & Rm & Rom & Lm & Sm & Vm).
  rewrite Rm in Ea.
  assert (Hgen : genuine snt T_COMMIT (s_round s) (c_root (co p)) m).
  { eapply genuine_of_sig; eauto. apply Hadm; [left; reflexivity|eapply sig_check_ok; eauto]. }
  destruct L as [Lh L1 Ll Lp Lr Lc Lpc Lpf Lpn La Lcc Lcf Lcn].
  set (s1 := set_commit s ct).
  assert (Hentry : cget ct (s_round s) = cget (s_commit s) (s_round s) ++ [m]) by (rewrite Ea; apply cget_cput_same).
  assert (Hother : forall r, r <> s_round s -> cget ct r = cget (s_commit s) r).
  { intros r Hr. rewrite Ea. apply cget_cput_other. congruence. }
  assert (L1' : linv snt i s1).
  { constructor; cbn; auto.
    - intros Hd p0 E m0 Hm0. rewrite Hentry in Hm0. apply in_snoc in Hm0. rewrite Hp in E. injection E as <-.
      destruct Hm0 as [Hm0| ->]; [eauto|exact Hgen].
    - intros Hd r Hlt. rewrite Hother by lia. auto.
    - intros Hd E. congruence. }
  rewrite Rm, Rom.
  pose proof (longest_unique_spec ct (s_round s) (c_root (co p))
                (genuine snt T_COMMIT (s_round s) (c_root (co p)))) as Hsel.
  pose proof (longest_unique_signers ct (s_round s) (c_root (co p))) as Hsig.
  destruct (longest_unique ct (s_round s) (c_root (co p))) as [sg ms]. cbn [fst snd] in Hsig.
  destruct (N.leb_spec (quorum c0) (N.of_nat (length sg))) as [Hle|Hgt].
  2:{ cbn. destruct (N.leb_spec (quorum c0) (N.of_nat (length sg))); [lia|].
      intros E; injection E as <- <-. split; [exact L1'|]. intros v agg E. discriminate. }
  cbn [quorum cfg_of System.cfg_of]. destruct (N.leb_spec (quorum c0) (N.of_nat (length sg))); [|lia].
  rewrite Hp.
  destruct (aggregate_commits (cfg_of i) ms (c_full (co p))) as [agg|] eqn:Eagg.
  2:{ intros E; injection E as <- <-. split; [exact L1'|]. intros v a E. discriminate. }
  intros E; injection E as <- <-. split; [exact L1'|].
  intros v a E. injection E as <- <-.
  assert (Hagg0 : c_full (co agg) = c_full (co p) /\ length (c_signers (co agg)) = length sg /\
                  (forall m0, In m0 ms -> c_root (co m0) = c_root (co p)) -> c_root (co agg) = c_root (co p)).
  { revert Eagg. unfold aggregate_commits. destruct ms as [|m0 tl]; [discriminate|].
    destruct (forallb (same_signing_root m0) tl); cbn [negb]; [|discriminate].
    intros E; injection E as <-. cbn [co c_root c_full c_signers]. intros (_ & _ & Hx). apply Hx. left. reflexivity. }
  assert (Hagg1 : c_full (co agg) = c_full (co p) /\ length (c_signers (co agg)) = length sg).
  { revert Eagg. unfold aggregate_commits. destruct ms as [|m0 tl]; [discriminate|].
    destruct (forallb (same_signing_root m0) tl); cbn [negb]; [|discriminate].
    intros E; injection E as <-. cbn [co c_root c_full c_signers]. split; [reflexivity|].
    rewrite Hsig. cbn. destruct (v_sort_agg (var c0)); [apply sort_n_length|reflexivity]. }
  destruct Hagg1 as (A2 & A3).
  split; [rewrite A3; pose proof quorum_ge_3; lia|].
  intros Hd.
  assert (Hall : forall x, In x (cget ct (s_round s)) -> genuine snt T_COMMIT (s_round s) (c_root (co p)) x).
  { intros x Hx. rewrite Hentry in Hx. apply in_snoc in Hx. destruct Hx as [Hx| ->]; [eauto|exact Hgen]. }
  destruct Hsel as (S1 & S2 & S3).
  { intros x Hx. destruct (Hall x Hx) as (k & Ek & _). rewrite Ek. constructor; [intros []|constructor]. }
  { exact Hall. }
  cbn [fst snd] in *.
  assert (A1 : c_root (co agg) = c_root (co p)).
  { apply Hagg0. split; [exact A2|]. split; [exact A3|]. intros m0 Hm0. apply (S3 m0 Hm0). }
  split.
  - exists sg. split; [exact S2|]. split.
    + intros x Hx. rewrite S1 in Hx. apply all_signers_In in Hx. destruct Hx as (m0 & Hm0 & Hx).
      destruct (S3 m0 Hm0) as [_ (k & Ek & Hk & _)]. rewrite Ek in Hx. destruct Hx as [<-|[]]. exact Hk.
    + split; [exact Hle|]. intros x Hx Hb. rewrite S1 in Hx. apply all_signers_In in Hx.
      destruct Hx as (m0 & Hm0 & Hx). destruct (S3 m0 Hm0) as [_ (k & Ek & _ & Hs)].
      rewrite Ek in Hx. destruct Hx as [<-|[]]. auto.
  - split; [reflexivity|]. split; [exact A1|exact A2].
Qed.

Lemma set_decided_linv snt i s v : linv snt i s -> linv snt i (set_decided s v).
Proof.
  intros [Lh L1 Ll Lp Lr Lc Lpc Lpf Lpn La Lcc Lcf Lcn].
  constructor; cbn; auto; intros Hd; discriminate.
Qed.

(* ---- rule: the round is bumped and a round change announced (timeout, partial quorum) --------------------- *)

Lemma rc_facts i sx nr :
  let rc := create_round_change (cfg_of i) sx nr in
  by_ i T_ROUNDCHANGE rc /\ c_round (co rc) = nr /\
  (s_lpr sx <> NO_ROUND -> s_lpv sx <> None ->
     c_data_round (co rc) = s_lpr sx /\ c_root (co rc) = hash (s_lpv sx)).
Proof.
  unfold create_round_change.
  destruct (N.eqb_spec (s_lpr sx) NO_ROUND) as [E|E]; cbn [negb andb].
  - unfold by_; cbn. split; [auto|]. split; [reflexivity|]. intros H. contradiction.
  - destruct (s_lpv sx) eqn:Ev; unfold by_; cbn.
    + split; [auto|]. split; [reflexivity|]. intros _ _. auto.
    + split; [auto|]. split; [reflexivity|]. intros _ H. contradiction.
Qed.

Lemma bump_linv i snt s s2 nr rc :
  linv snt i s -> s_round s < nr ->
  s_height s2 = s_height s -> s_round s2 = nr -> s_lpr s2 = s_lpr s -> s_lpv s2 = s_lpv s ->
  s_acc s2 = None -> s_decided s2 = s_decided s ->
  (forall r, s_round s <= r -> cget (s_prep s2) r = cget (s_prep s) r) ->
  (forall r, s_round s <= r -> cget (s_commit s2) r = cget (s_commit s) r) ->
  by_ i T_ROUNDCHANGE rc -> c_round (co rc) = nr ->
  (s_lpr s <> NO_ROUND -> s_lpv s <> None -> c_data_round (co rc) = s_lpr s /\ c_root (co rc) = hash (s_lpv s)) ->
  linv snt i s2 /\ linv (snt ++ [rc]) i s2 /\ new_ok snt i [rc].
Proof.
  intros L Hlt Hh Hr Hl Hv Ha Hd Hp Hc Brc Rrc Drc.
  destruct L as [Lh L1 Ll Lp Lr Lc Lpc Lpf Lpn La Lcc Lcf Lcn].
  assert (L2 : linv snt i s2).
  { constructor; rewrite ?Hh, ?Hr, ?Hl, ?Hv, ?Ha, ?Hd.
    - exact Lh.
    - lia.
    - lia.
    - intros y Hy By. destruct (Lp y Hy By) as (A & B & C). split; [exact A|]. split; [lia|]. intros E. lia.
    - intros y Hy By. specialize (Lr y Hy By). lia.
    - intros y Hy By. destruct (Lc y Hy By) as (A & B & C & D & E). split; [exact A|]. split; [lia|].
      split; [intros E'; lia|]. split; [exact D|exact E].
    - intros p E. discriminate.
    - intros r Hr'. rewrite Hp by lia. apply Lpf. lia.
    - intros _. rewrite Hp by lia. apply Lpf. lia.
    - intros p E. discriminate.
    - intros _ p E. discriminate.
    - intros Hd' r Hr'. rewrite Hc by lia. apply Lcf; [exact Hd'|lia].
    - intros Hd' _. rewrite Hc by lia. apply Lcf; [exact Hd'|lia]. }
  split; [exact L2|]. split.
  - destruct L2 as [Mh M1 Ml Mp Mr Mc Mpc Mpf Mpn Ma Mcc Mcf Mcn].
    constructor; auto.
    + intros y Hy By. apply in_snoc in Hy. destruct Hy as [Hy| ->]; [auto|].
      destruct By as [_ T]. destruct Brc as [_ T']. clash.
    + intros y Hy By. apply in_snoc in Hy. destruct Hy as [Hy| ->]; [auto|]. rewrite Rrc, Hr. lia.
    + intros y Hy By. apply in_snoc in Hy. destruct Hy as [Hy| ->]; [auto|].
      destruct By as [_ T]. destruct Brc as [_ T']. clash.
    + intros p E. rewrite Ha in E. discriminate.
    + intros Hd' p E. rewrite Ha in E. discriminate.
  - constructor; cbn; try lia.
    + intros y j ty [<-|[]] [B _]. destruct Brc as [B' _]. rewrite B' in B. injection B as <-. reflexivity.
    + intros y [<-|[]] [_ T]. destruct Brc as [_ T']. clash.
    + intros y [<-|[]] [_ T]. destruct Brc as [_ T']. clash.
    + intros z [<-|[]] _ y0 Hy0 By0 Hlt0. destruct (Lc y0 Hy0 By0) as (A & B & C & D & E).
      destruct Drc as [Dd Dr]; [destruct D as [D|[D _]]; unfold NO_ROUND; lia|exact E|].
      rewrite Dd, Dr. destruct D as [D|[D1 D2]]; [left; exact D|right; auto].
Qed.


(* a new message of the operator that is not a prepare, commit or round change *)
Lemma linv_other snt i s y : linv snt i s -> ~ pcr i y -> linv (snt ++ [y]) i s.
Proof.
  intros L Hn. eapply linv_mono; [apply incl_app_l| |exact L].
  intros y0 Hy0 P. apply in_snoc in Hy0. destruct Hy0 as [H| ->]; [exact H|contradiction].
Qed.

Lemma view_linv snt i s s' :
  s_height s' = s_height s -> s_round s' = s_round s -> s_lpr s' = s_lpr s -> s_lpv s' = s_lpv s ->
  s_acc s' = s_acc s -> s_decided s' = s_decided s -> s_prep s' = s_prep s -> s_commit s' = s_commit s ->
  linv snt i s -> linv snt i s'.
Proof.
  intros A B C D E F G H L. eapply linv_view; [|exact L]. unfold same_view. rewrite A, B, C, D, E, F, G, H. auto 10.
Qed.

(* ---- rule: a round change is processed ----------------------------------------------------------------------- *)

Lemma upon_round_change_linv i snt s m s' o ok :
  linv snt i s -> upon_round_change (cfg_of i) s m = Some (s', o, ok) ->
  linv (snt ++ bcast_of o) i s' /\ new_ok snt i (bcast_of o).
Proof.
  intros L. unfold upon_round_change.
  destruct (cadd_first (s_rc s) m) as [ct added]. destruct added; cbn [negb].
  2:{ intros E; injection E as <- <- _. cbn. rewrite app_nil_r. split; [exact L|apply new_ok_nil]. }
  set (s1 := set_rc s ct).
  assert (L1 : linv snt i s1) by (eapply view_linv; [..|exact L]; reflexivity).
  destruct (has_quorum (cfg_of i) (cget (s_rc s) (c_round (co m)))).
  { intros E; injection E as <- <- _. cbn. rewrite app_nil_r. split; [exact L1|apply new_ok_nil]. }
  destruct (if has_quorum (cfg_of i) (cget ct (c_round (co m)))
            then find_justified (cfg_of i) s1 m (cget ct (c_round (co m))) (cget ct (c_round (co m)))
            else Some None) as [[[jm v]|]|]; [| |discriminate].
  - (* the leader proposes *)
    intros E; injection E as <- <- _.
    set (pr := create_proposal (cfg_of i) s1 v (cget ct (s_round s1)) (rcj jm)).
    change (bcast_of [OBcast pr]) with [pr].
    assert (Hpr : forall j ty, by_ j ty pr -> j = i /\ ty = T_PROPOSAL).
    { intros j ty [B T]. unfold pr in B, T; cbn in B, T. injection B as <-. auto. }
    split.
    + apply linv_other; [exact L1|]. intros [B|[B|B]]; destruct (Hpr _ _ B) as [_ T]; clash.
    + apply new_ok_other. intros j ty B. destruct (Hpr _ _ B) as [-> ->]. split; [reflexivity|].
      repeat split; intros X; clash.
  - change (s_round s1) with (s_round s).
    destruct (has_partial_quorum (cfg_of i) _).
    2:{ intros E; injection E as <- <- _. cbn. rewrite app_nil_r. split; [exact L1|apply new_ok_nil]. }
    set (nr := min_round (filter (fun x => s_round s <? c_round (co x)) (call ct)) NO_ROUND).
    destruct (N.leb_spec nr (s_round s)) as [Hle|Hgt].
    { intros E; injection E as <- <- _. cbn. rewrite app_nil_r. split; [exact L1|apply new_ok_nil]. }
    set (s2 := set_acc (set_round s1 nr) None).
    set (rc := create_round_change (cfg_of i) s2 nr).
    destruct (rc_facts i s2 nr) as (Brc & Rrc & Drc). fold rc in Brc, Rrc, Drc.
    destruct (bump_linv i snt s s2 nr rc L Hgt) as (La & Lb & Lc); try reflexivity; auto.
    destruct (can_process s2); intros E; injection E as <- <- _.
    + change (bcast_of [OTimer (s_height s2) nr; OBcast rc]) with [rc]. auto.
    + cbn. rewrite app_nil_r. split; [exact La|apply new_ok_nil].
Qed.

(* ---- rule: timeout ---------------------------------------------------------------------------------------------- *)

Lemma upon_timeout_linv i snt s s' o ok :
  linv snt i s -> upon_timeout (cfg_of i) s = (s', o, ok) ->
  linv (snt ++ bcast_of o) i s' /\ new_ok snt i (bcast_of o).
Proof.
  intros L. unfold upon_timeout. destruct (can_process s); cbn [negb].
  2:{ intros E; injection E as <- <- _. cbn. rewrite app_nil_r. split; [exact L|apply new_ok_nil]. }
  intros E; injection E as <- <- _.
  set (nr := s_round s + 1). set (rc := create_round_change (cfg_of i) s nr).
  set (s2 := set_acc (set_round s nr) None).
  destruct (rc_facts i s nr) as (Brc & Rrc & Drc). fold rc in Brc, Rrc, Drc.
  assert (Hlt : s_round s < nr) by (unfold nr; lia).
  change (bcast_of [OBcast rc; OTimer (s_height s) nr]) with [rc].
  destruct (bump_linv i snt s s2 nr rc L Hlt) as (La & Lb & Lc); try reflexivity; auto.
Qed.

(* ---- Instance.ProcessMsg ------------------------------------------------------------------------------------------ *)

Lemma bmv_prepare c s m : base_msg_validation c s m = Some true -> c_type (co m) = T_PREPARE ->
  exists p, s_acc s = Some p /\ valid_prepare c m (s_height s) (s_round s) (c_root (co p)) = true.
Proof.
  unfold base_msg_validation. intros H Ht. rewrite Ht in H. cbn in H.
  destruct (negb (signed_validate (co m))); [discriminate|].
  destruct (c_round (co m) <? s_round s); [discriminate|].
  destruct (s_acc s) as [p|]; [|discriminate]. injection H as H. eauto.
Qed.

Lemma process_msg_linv i snt s m s' o r :
  linv snt i s -> admissible c0 byz snt m -> process_msg (cfg_of i) s m = (s', o, r) ->
  linv (snt ++ bcast_of o) i s' /\ new_ok snt i (bcast_of o) /\
  (forall v agg, r = POk true v (Some agg) ->
     o = [] /\ (2 <= length (c_signers (co agg)))%nat /\
     (s_decided s = false ->
       exists rr rho, CQ snt rr rho /\ c_root (co agg) = rho /\ c_full (co agg) = v /\ hash v = rho)).
Proof.
  intros L Hadm. unfold process_msg.
  assert (Hsame : linv (snt ++ bcast_of []) i s /\ new_ok snt i (bcast_of [])).
  { cbn. rewrite app_nil_r. split; [exact L|apply new_ok_nil]. }
  destruct (can_process s); cbn [negb].
  2:{ intros E; injection E as <- <- <-. destruct Hsame. split; [assumption|]. split; [assumption|]. intros ? ? E; discriminate. }
  destruct (base_msg_validation (cfg_of i) s m) as [[|]|] eqn:Hv;
    try (intros E; injection E as <- <- <-; destruct Hsame; split; [assumption|]; split; [assumption|]; intros ? ? E; discriminate).
  destruct (N.eqb_spec (c_type (co m)) T_PROPOSAL) as [Ht|Ht].
  - destruct (upon_proposal (cfg_of i) s m) as [[s1 o1] ok] eqn:E1. intros E; injection E as <- <- <-.
    destruct (upon_proposal_linv i snt s m s1 o1 ok L Hadm (bmv_proposal _ _ _ Hv Ht) E1) as [A B].
    split; [assumption|]. split; [assumption|]. intros v agg E. destruct ok; discriminate.
  - destruct (N.eqb_spec (c_type (co m)) T_PREPARE) as [Ht1|Ht1].
    + destruct (upon_prepare (cfg_of i) s m) as [s1 o1] eqn:E1. intros E; injection E as <- <- <-.
      destruct (bmv_prepare _ _ _ Hv Ht1) as (p & Hp & Hvp).
      destruct (upon_prepare_linv i snt s m s1 o1 p L Hadm Hp Hvp E1) as [A B].
      split; [assumption|]. split; [assumption|]. intros v agg E. discriminate.
    + destruct (N.eqb_spec (c_type (co m)) T_COMMIT) as [Ht2|Ht2].
      * destruct (bmv_commit _ _ _ Hv Ht2) as (p & Hp & Hvc).
        destruct (upon_commit (cfg_of i) s m) as [s1 cr] eqn:E1.
        destruct (upon_commit_linv i snt s m s1 cr p L Hadm Hp Hvc E1) as [A B].
        destruct cr as [| |v agg]; intros E; injection E as <- <- <-; cbn; rewrite app_nil_r.
        -- split; [assumption|]. split; [apply new_ok_nil|]. intros ? ? E; discriminate.
        -- split; [assumption|]. split; [apply new_ok_nil|]. intros ? ? E; discriminate.
        -- split; [apply set_decided_linv; exact A|]. split; [apply new_ok_nil|].
           intros v0 agg0 E. injection E as <- <-. split; [reflexivity|].
           destruct (B v agg eq_refl) as (C5 & B'). split; [exact C5|]. intros Hd.
           destruct (B' Hd) as (C1 & C2 & C3 & C4).
           exists (s_round s), (c_root (co p)).
           split; [exact C1|]. split; [exact C3|]. split; [congruence|].
           subst v. destruct L. apply (l_acc0 p Hp).
      * destruct (upon_round_change (cfg_of i) s m) as [[[s1 o1] ok]|] eqn:E1.
        -- intros E; injection E as <- <- <-.
           destruct (upon_round_change_linv i snt s m s1 o1 ok L E1) as [A B].
           split; [assumption|]. split; [assumption|]. intros v agg E. destruct ok; discriminate.
        -- intros E; injection E as <- <- <-. destruct Hsame. split; [assumption|]. split; [assumption|]. intros ? ? E; discriminate.
Qed.


(* ---- decided messages ------------------------------------------------------------------------------------------ *)

(* a state that is decided satisfies the commit-container clauses vacuously *)
Lemma linv_decided snt i s s' :
  s_decided s' = true ->
  s_height s' = s_height s -> s_round s <= s_round s' -> s_lpr s' = s_lpr s -> s_lpv s' = s_lpv s ->
  s_acc s' = s_acc s -> s_prep s' = s_prep s ->
  (s_round s < s_round s' \/ s_round s' = s_round s) ->
  linv snt i s -> linv snt i s'.
Proof.
  intros Hd Hh Hr Hl Hv Ha Hp Hcase [Lh L1 Ll Lp Lr Lc Lpc Lpf Lpn La Lcc Lcf Lcn].
  constructor; rewrite ?Hh, ?Hl, ?Hv, ?Ha, ?Hp, ?Hd; try (intros; discriminate).
  - exact Lh.
  - lia.
  - lia.
  - intros y Hy By. destruct (Lp y Hy By) as (A & B & C). split; [exact A|]. split; [lia|].
    intros E. apply C. lia.
  - intros y Hy By. specialize (Lr y Hy By). lia.
  - intros y Hy By. destruct (Lc y Hy By) as (A & B & C & D & E). split; [exact A|]. split; [lia|].
    split; [intros E'; apply C; lia|]. split; [exact D|exact E].
  - intros p E m Hm. destruct Hcase as [Hlt|Heq].
    + rewrite Lpf in Hm by exact Hlt. destruct Hm.
    + rewrite Heq in *. eauto.
  - intros r Hlt. apply Lpf. lia.
  - intros E. destruct Hcase as [Hlt|Heq]; [apply Lpf; exact Hlt|rewrite Heq; auto].
  - exact La.
Qed.

Lemma certificate_CQ i snt m :
  admissible c0 byz snt m -> certificate (cfg_of i) m ->
  CQ snt (c_round (co m)) (c_root (co m)) /\ hash (c_full (co m)) = c_root (co m).
Proof.
  intros Hadm (T & Nd & Nz & Len & Sg & Hh). split; [|exact Hh].
  pose proof (Hadm m (or_introl eq_refl) (sig_check_ok _ _ Sg)) as Hg.
  exists (c_signers (co m)). split; [exact Nd|]. split; [intros s Hs; apply (Hg s Hs)|]. split; [exact Len|].
  intros s Hs Hb. destruct (Hg s Hs) as [_ H]. destruct (H Hb) as (y & Hy & Ey & (C1 & C2 & C3 & C4 & C5)).
  exists y. split; [exact Hy|]. split; [split; [exact Ey|congruence]|]. split; congruence.
Qed.

Lemma agg_not_single a j ty : (2 <= length (c_signers (co a)))%nat -> ~ by_ j ty a.
Proof. intros H [E _]. rewrite E in H. cbn in H. lia. Qed.

Lemma ctl_process_linv i snt s m s' o r :
  linv snt i s -> admissible c0 byz snt m -> rewinds (cfg_of i) s m = false ->
  ctl_process (cfg_of i) s m = (s', o, r) ->
  linv (snt ++ bcast_of o) i s' /\ new_ok snt i (bcast_of o) /\
  (forall d, r = CRDecided d ->
     exists rr rho, CQ snt rr rho /\ c_root (co d) = rho /\ hash (c_full (co d)) = rho).
Proof.
  intros L Hadm Hnr. unfold ctl_process.
  assert (Hsame : linv (snt ++ bcast_of []) i s /\ new_ok snt i (bcast_of [])).
  { cbn. rewrite app_nil_r. split; [exact L|apply new_ok_nil]. }
  destruct (N.eqb_spec (c_ident (co m)) 0) as [Hid|Hid]; cbn [negb].
  2:{ intros E; injection E as <- <- <-. destruct Hsame. split; [assumption|]. split; [assumption|]. intros ? E; discriminate. }
  destruct (is_decided_msg (cfg_of i) m) eqn:Hdm.
  - destruct (validate_decided (cfg_of i) m) eqn:Hvd; cbn [negb].
    2:{ intros E; injection E as <- <- <-. destruct Hsame. split; [assumption|]. split; [assumption|]. intros ? E; discriminate. }
    destruct (N.eqb_spec (c_height (co m)) (s_height s)) as [Hhe|Hhe]; cbn [negb].
    2:{ intros E; injection E as <- <- <-. destruct Hsame. split; [assumption|]. split; [assumption|]. intros ? E; discriminate. }
    unfold upon_decided. destruct (s_decided s) eqn:Hd.
    + (* already decided: only the commit container may change *)
      destruct (longest_unique (s_commit s) _ _) as [sg ms].
      destruct (Nat.ltb (length sg) (length (c_signers (co m)))); intros E; injection E as <- <- <-; cbn; rewrite app_nil_r.
      * split; [|split; [apply new_ok_nil|intros ? E; discriminate]].
        eapply linv_decided; [..|exact L]; try reflexivity; auto; try lia.
      * split; [exact L|]. split; [apply new_ok_nil|intros ? E; discriminate].
    + (* first decision: the round moves to the certificate's round, never backwards *)
      intros E; injection E as <- <- <-. cbn. rewrite app_nil_r.
      assert (Hfw : s_round s <= c_round (co m)).
      { unfold rewinds in Hnr. rewrite Hdm, Hvd, Hd in Hnr. rewrite Hid, Hhe in Hnr. cbn in Hnr.
        rewrite N.eqb_refl in Hnr. cbn in Hnr. apply N.ltb_ge in Hnr. exact Hnr. }
      split; [|split; [apply new_ok_nil|]].
      * eapply linv_decided; [..|exact L]; try reflexivity; cbn; auto; try lia.
      * intros d E. injection E as <-.
        destruct (certificate_CQ i snt m Hadm (validate_decided_certificate _ _ Hvd)) as [C1 C2].
        eauto.
  - destruct (s_height s <? c_height (co m)).
    { intros E; injection E as <- <- <-. destruct Hsame. split; [assumption|]. split; [assumption|]. intros ? E; discriminate. }
    destruct (negb (c_height (co m) =? s_height s)).
    { intros E; injection E as <- <- <-. destruct Hsame. split; [assumption|]. split; [assumption|]. intros ? E; discriminate. }
    destruct (process_msg (cfg_of i) s m) as [[s1 o1] r1] eqn:E1.
    destruct (process_msg_linv i snt s m s1 o1 r1 L Hadm E1) as (A & B & C).
    destruct r1 as [|dd v agg|]; try (intros E; injection E as <- <- <-; split; [assumption|]; split; [assumption|]; intros ? E; discriminate).
    destruct dd; cbn [negb].
    2:{ intros E; injection E as <- <- <-. split; [assumption|]. split; [assumption|]. intros ? E; discriminate. }
    destruct agg as [a|].
    2:{ intros E; injection E as <- <- <-. split; [assumption|]. split; [assumption|]. intros ? E; discriminate. }
    destruct (C v a eq_refl) as (Ho & C5 & Hc). subst o1. cbn in A.
    intros E; injection E as <- <- <-. cbn. rewrite app_nil_r in A.
    split; [apply linv_other; [exact A|]; intros [P|[P|P]]; apply (agg_not_single a _ _ C5 P)|].
    split; [apply new_ok_other; intros j ty P; exfalso; apply (agg_not_single a _ _ C5 P)|].
    destruct (s_decided s) eqn:Hd; [intros ? E; discriminate|].
    destruct (Hc eq_refl) as (rr & rho & C1 & C2 & C3 & C4).
    intros d E. injection E as <-. exists rr, rho. split; [exact C1|]. split; [exact C2|]. congruence.
Qed.


(* ---- compaction, the runner, the controller's timeout ------------------------------------------------------------ *)

Lemma cget_nil r : cget [] r = [].
Proof. reflexivity. Qed.

Lemma compact_linv snt i s : linv snt i s -> linv snt i (compact s).
Proof.
  intros L. destruct (s_decided s) eqn:Hd.
  - (* decided: the prepare container is cleared; the commit clauses are vacuous *)
    destruct L as [Lh L1 Ll Lp Lr Lc Lpc Lpf Lpn La Lcc Lcf Lcn].
    constructor; unfold compact; cbn; rewrite ?Hd; cbn; auto; try (intros; discriminate).
    intros p E m Hm. destruct Hm.
  - eapply linv_view; [|exact L]. unfold same_view, compact; cbn. rewrite Hd.
    repeat split; auto.
    + intros r Hr. change (ccompact (s_prep s) (s_lpr s) false) with (cfilter (s_lpr s) (s_prep s)).
      apply cget_cfilter. destruct L. lia.
    + intros r Hr. change (ccompact (s_commit s) (s_round s) false) with (cfilter (s_round s) (s_commit s)).
      apply cget_cfilter. exact Hr.
Qed.

Lemma runner_process_linv i snt s m s' o r :
  linv snt i s -> admissible c0 byz snt m -> rewinds (cfg_of i) s m = false ->
  runner_process (cfg_of i) s m = (s', o, r) ->
  linv (snt ++ bcast_of o) i s' /\ new_ok snt i (bcast_of o) /\
  (forall d, r = CRDecided d ->
     exists rr rho, CQ snt rr rho /\ c_root (co d) = rho /\ hash (c_full (co d)) = rho).
Proof.
  intros L Hadm Hnr. unfold runner_process.
  destruct (ctl_process (cfg_of i) s m) as [[s1 o1] r1] eqn:E1.
  destruct (ctl_process_linv i snt s m s1 o1 r1 L Hadm Hnr E1) as (A & B & C).
  destruct (needs_compact (cfg_of i) s1 m); intros E; injection E as <- <- <-.
  - split; [apply compact_linv; exact A|]. split; assumption.
  - split; [exact A|]. split; assumption.
Qed.

Lemma on_timeout_linv i snt s s' o ok :
  linv snt i s -> on_timeout (cfg_of i) s (s_height s) (s_round s) = (s', o, ok) ->
  linv (snt ++ bcast_of o) i s' /\ new_ok snt i (bcast_of o).
Proof.
  intros L. unfold on_timeout.
  assert (Hsame : linv (snt ++ bcast_of []) i s /\ new_ok snt i (bcast_of [])).
  { cbn. rewrite app_nil_r. split; [exact L|apply new_ok_nil]. }
  destruct (negb (s_height s =? s_height s)); [intros E; injection E as <- <- _; exact Hsame|].
  destruct (s_round s <? s_round s); [intros E; injection E as <- <- _; exact Hsame|].
  destruct (s_decided s); [intros E; injection E as <- <- _; exact Hsame|].
  apply upon_timeout_linv. exact L.
Qed.

End Inv.
