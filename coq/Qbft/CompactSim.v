(* Compaction simulation over whole histories (C06). *)
From Coq Require Import List NArith ZArith Bool Lia.
From SSV Require Import Qbft.Model Qbft.Compact.
Import ListNotations.
Local Open Scope N_scope.

Ltac break_match :=
  match goal with
  | |- context [match ?x with _ => _ end] => destruct x eqn:?
  | H : context [match ?x with _ => _ end] |- _ => destruct x eqn:?
  end.

(* ---- what base validation guarantees about the round -------------------------------------------- *)

Lemma bmv_round c s m : base_msg_validation c s m = Some true -> s_round s <= c_round (co m).
Proof.
  unfold base_msg_validation. destruct (negb (signed_validate (co m))); [discriminate|].
  destruct (N.ltb_spec (c_round (co m)) (s_round s)); [discriminate|]. intros _. lia.
Qed.

Lemma andb_true_l a b : a && b = true -> a = true.
Proof. destruct a; [reflexivity|discriminate]. Qed.
Lemma andb_true_r a b : a && b = true -> b = true.
Proof. destruct a; [auto|discriminate]. Qed.

Ltac split_andb H :=
  repeat match goal with
  | Hx : _ && _ = true |- _ => let H' := fresh "Hb" in apply andb_prop in Hx; destruct Hx as [Hx H']
  end.

Lemma valid_prepare_round c m h r root : valid_prepare c m h r root = true -> c_round (co m) = r.
Proof.
  unfold valid_prepare. intros H. split_andb H.
  match goal with Hx : (c_round (co m) =? r) = true |- _ => apply N.eqb_eq in Hx; exact Hx end.
Qed.

Lemma validate_commit_round c m h r p : validate_commit c m h r p = true -> c_round (co m) = r.
Proof.
  unfold validate_commit. intros H. split_andb H.
  match goal with Hx : (c_round (co m) =? r) = true |- _ => apply N.eqb_eq in Hx; exact Hx end.
Qed.

Lemma bmv_prepare_round c s m : base_msg_validation c s m = Some true ->
  c_type (co m) = T_PREPARE -> c_round (co m) = s_round s.
Proof.
  unfold base_msg_validation. intros H Ht. rewrite Ht in H. cbn in H.
  destruct (negb (signed_validate (co m))); [discriminate|].
  destruct (c_round (co m) <? s_round s); [discriminate|].
  destruct (s_acc s); [|discriminate]. injection H as H. eapply valid_prepare_round; eauto.
Qed.

Lemma bmv_commit_round c s m : base_msg_validation c s m = Some true ->
  c_type (co m) = T_COMMIT -> c_round (co m) = s_round s.
Proof.
  unfold base_msg_validation. intros H Ht. rewrite Ht in H. cbn in H.
  destruct (negb (signed_validate (co m))); [discriminate|].
  destruct (c_round (co m) <? s_round s); [discriminate|].
  destruct (s_acc s); [|discriminate]. injection H as H. eapply validate_commit_round; eauto.
Qed.

(* ---- process_msg commutes with restriction ------------------------------------------------------------ *)

Lemma process_msg_restrict c k s m : bounds_ok k s -> wfs s ->
  process_msg c (restrict k s) m =
  let '(s', o, r) := process_msg c s m in (restrict k s', o, r).
Proof.
  intros Hb Hw. unfold process_msg. rewrite can_process_restrict, base_validation_restrict.
  destruct (can_process s); cbn [negb]; [|reflexivity].
  destruct (base_msg_validation c s m) as [[|]|] eqn:Hv; try reflexivity.
  pose proof (bmv_round _ _ _ Hv) as Hr.
  destruct (N.eqb_spec (c_type (co m)) T_PROPOSAL) as [Ht|Ht].
  - rewrite (upon_proposal_restrict c k s m Hb Hr).
    destruct (upon_proposal c s m) as [[s' o] ok]. destruct ok; reflexivity.
  - destruct (N.eqb_spec (c_type (co m)) T_PREPARE) as [Ht1|Ht1].
    + rewrite (upon_prepare_restrict c k s m Hb (bmv_prepare_round _ _ _ Hv Ht1)); [|apply Hw].
      destruct (upon_prepare c s m) as [s' o]. reflexivity.
    + destruct (N.eqb_spec (c_type (co m)) T_COMMIT) as [Ht2|Ht2].
      * rewrite (upon_commit_restrict c k s m Hb (bmv_commit_round _ _ _ Hv Ht2)).
        destruct (upon_commit c s m) as [s' [| |v agg]]; reflexivity.
      * rewrite (upon_round_change_restrict c k s m Hb Hw Hr).
        destruct (upon_round_change c s m) as [[[s' o] ok]|]; [|reflexivity].
        destruct ok; reflexivity.
Qed.

(* ---- invariants: rounds only grow, containers stay well-formed ---------------------------------------- *)

Definition mono (s s' : state) : Prop := s_round s <= s_round s' /\ s_lpr s <= s_lpr s'.

Lemma upon_proposal_inv c s m s' o ok : wfs s -> s_round s <= c_round (co m) ->
  upon_proposal c s m = (s', o, ok) -> wfs s' /\ mono s s'.
Proof.
  intros (H1 & H2 & H3 & H4 & H5) Hr. unfold upon_proposal.
  pose proof (wfc_cadd_first (s_prop s) m H1) as Hw.
  destruct (cadd_first (s_prop s) m) as [ct added]; cbn [fst] in Hw.
  destruct added; cbn [negb].
  - destruct (can_process _); intros E; injection E as <- _ _; unfold wfs, mono; cbn; repeat split; auto; lia.
  - intros E; injection E as <- _ _. unfold wfs, mono; repeat split; auto; lia.
Qed.

Lemma upon_prepare_inv c s m s' o : wfs s ->
  upon_prepare c s m = (s', o) -> wfs s' /\ mono s s'.
Proof.
  intros (H1 & H2 & H3 & H4 & H5). unfold upon_prepare.
  pose proof (wfc_cadd_first (s_prep s) m H2) as Hw.
  destruct (cadd_first (s_prep s) m) as [ct added]; cbn [fst] in Hw.
  destruct added; cbn [negb].
  - destruct (has_quorum c (cget (s_prep s) (s_round s))).
    + intros E; injection E as <- _. unfold wfs, mono; cbn; repeat split; auto; lia.
    + destruct (has_quorum c (cget ct (s_round s))); cbn [negb].
      * destruct (s_acc s); intros E; injection E as <- _; unfold wfs, mono; cbn; repeat split; auto; lia.
      * intros E; injection E as <- _. unfold wfs, mono; cbn; repeat split; auto; lia.
  - intros E; injection E as <- _. unfold wfs, mono; repeat split; auto; lia.
Qed.

Lemma upon_commit_inv c s m s' r : wfs s ->
  upon_commit c s m = (s', r) -> wfs s' /\ mono s s'.
Proof.
  intros (H1 & H2 & H3 & H4 & H5). unfold upon_commit.
  pose proof (wfc_cadd_first (s_commit s) m H3) as Hw.
  destruct (cadd_first (s_commit s) m) as [ct added]; cbn [fst] in Hw.
  destruct added; cbn [negb].
  - destruct (longest_unique ct _ _) as [signers msgs].
    destruct (quorum c <=? _).
    + destruct (s_acc s); [destruct (aggregate_commits _ _ _)|];
        intros E; injection E as <- _; unfold wfs, mono; cbn; repeat split; auto; lia.
    + intros E; injection E as <- _; unfold wfs, mono; cbn; repeat split; auto; lia.
  - intros E; injection E as <- _. unfold wfs, mono; repeat split; auto; lia.
Qed.

Lemma upon_round_change_inv c s m s' o ok : wfs s ->
  upon_round_change c s m = Some (s', o, ok) -> wfs s' /\ mono s s'.
Proof.
  intros (H1 & H2 & H3 & H4 & H5). unfold upon_round_change.
  pose proof (wfc_cadd_first (s_rc s) m H4) as Hw.
  destruct (cadd_first (s_rc s) m) as [ct added]; cbn [fst] in Hw.
  destruct added; cbn [negb].
  - destruct (has_quorum c (cget (s_rc s) _)).
    + intros E; injection E as <- _ _. unfold wfs, mono; cbn; repeat split; auto; lia.
    + destruct (if has_quorum c _ then _ else _) as [[[jm v]|]|]; [| |discriminate].
      * intros E; injection E as <- _ _. unfold wfs, mono; cbn; repeat split; auto; lia.
      * cbn [s_round set_rc set_containers].
        destruct (has_partial_quorum c _).
        -- destruct (N.leb_spec (min_round (filter (fun x => s_round s <? c_round (co x)) (call ct)) NO_ROUND) (s_round s)).
           ++ intros E; injection E as <- _ _. unfold wfs, mono; cbn; repeat split; auto; lia.
           ++ destruct (can_process _); intros E; injection E as <- _ _;
                unfold wfs, mono; cbn; repeat split; auto; lia.
        -- intros E; injection E as <- _ _. unfold wfs, mono; cbn; repeat split; auto; lia.
  - intros E; injection E as <- _ _. unfold wfs, mono; repeat split; auto; lia.
Qed.

Lemma set_decided_inv s v : wfs s -> wfs (set_decided s v) /\ mono s (set_decided s v).
Proof. intros (H1 & H2 & H3 & H4 & H5). unfold wfs, mono; cbn; repeat split; auto; lia. Qed.

Lemma mono_refl s : mono s s.
Proof. unfold mono; lia. Qed.
Lemma mono_trans a b d : mono a b -> mono b d -> mono a d.
Proof. unfold mono; lia. Qed.

Lemma process_msg_inv c s m s' o r : wfs s ->
  process_msg c s m = (s', o, r) -> wfs s' /\ mono s s'.
Proof.
  intros Hw. unfold process_msg.
  destruct (can_process s); cbn [negb]; [|intros E; injection E as <- _ _; split; [exact Hw|apply mono_refl]].
  destruct (base_msg_validation c s m) as [[|]|] eqn:Hv;
    try (intros E; injection E as <- _ _; split; [exact Hw|apply mono_refl]).
  pose proof (bmv_round _ _ _ Hv) as Hr.
  destruct (c_type (co m) =? T_PROPOSAL).
  - destruct (upon_proposal c s m) as [[s1 o1] ok] eqn:E1. intros E; injection E as <- _ _.
    eapply upon_proposal_inv; eauto.
  - destruct (c_type (co m) =? T_PREPARE).
    + destruct (upon_prepare c s m) as [s1 o1] eqn:E1. intros E; injection E as <- _ _.
      eapply upon_prepare_inv; eauto.
    + destruct (c_type (co m) =? T_COMMIT).
      * destruct (upon_commit c s m) as [s1 [| |v agg]] eqn:E1; intros E; injection E as <- _ _;
          pose proof (upon_commit_inv _ _ _ _ _ Hw E1) as [Hw1 Hm1]; split; assumption.
      * destruct (upon_round_change c s m) as [[[s1 o1] ok]|] eqn:E1.
        -- intros E; injection E as <- _ _. eapply upon_round_change_inv; eauto.
        -- intros E; injection E as <- _ _. split; [exact Hw|apply mono_refl].
Qed.

Lemma bounds_ok_mono k s s' : bounds_ok k s -> mono s s' -> bounds_ok k s'.
Proof. unfold bounds_ok, mono. lia. Qed.

(* ---- Start and timeout --------------------------------------------------------------------------------- *)

Lemma start_restrict c k s v h :
  start c (restrict k s) v h =
  match start c s v h with None => None | Some (s', o) => Some (restrict k s', o) end.
Proof.
  unfold start. cbn [s_started restrict set_containers].
  destruct (s_started s); [reflexivity|]. destruct (proposer c h FIRST_ROUND); reflexivity.
Qed.

Lemma upon_timeout_restrict c k s : bounds_ok k s ->
  upon_timeout c (restrict k s) =
  let '(s', o, ok) := upon_timeout c s in (restrict k s', o, ok).
Proof.
  intros Hb. unfold upon_timeout. rewrite can_process_restrict.
  destruct (can_process s); cbn [negb]; [|reflexivity].
  rewrite (create_round_change_restrict c k s _ Hb). reflexivity.
Qed.

Lemma upon_timeout_inv c s s' o ok : wfs s -> upon_timeout c s = (s', o, ok) -> wfs s' /\ mono s s'.
Proof.
  intros (H1 & H2 & H3 & H4 & H5). unfold upon_timeout.
  destruct (can_process s); cbn [negb]; intros E; injection E as <- _ _;
    unfold wfs, mono; cbn; repeat split; auto; lia.
Qed.

(* A started instance is at round >= 1; Start itself resets the round to 1, so the simulation is
   stated for histories whose Start (if any) happens while the bounds are still below round 1,
   which is the case for every bound produced by compaction of a fresh instance ... to keep the
   theorem simple, histories are considered from a state that was already started. *)

(* ---- histories ------------------------------------------------------------------------------------------- *)

Fixpoint erase (ops : list op) : list op :=
  match ops with
  | [] => []
  | OCompact :: tl => erase tl
  | o :: tl => o :: erase tl
  end.

Fixpoint erase_obs (bs : list obs) : list obs :=
  match bs with
  | [] => []
  | BCompact :: tl => erase_obs tl
  | b :: tl => b :: erase_obs tl
  end.

(* every compaction in the history happens while the instance is undecided *)
Fixpoint undecided_compactions (c : cfg) (s : state) (ops : list op) : bool :=
  match ops with
  | [] => true
  | o :: tl =>
      (match o with OCompact => negb (s_decided s) | _ => true end)
      && undecided_compactions c (fst (step c s o)) tl
  end.

Definition no_start (ops : list op) : Prop := forall v, ~ In (OStart v) ops.

Lemma step_restrict c k s o : bounds_ok k s -> wfs s -> (forall v, o <> OStart v) -> o <> OCompact ->
  step c (restrict k s) o = let '(s', b) := step c s o in (restrict k s', b).
Proof.
  intros Hb Hw Hns Hnc. destruct o as [v|m| |]; cbn [step].
  - exfalso. apply (Hns v). reflexivity.
  - rewrite (process_msg_restrict c k s m Hb Hw). destruct (process_msg c s m) as [[s' o] r]. reflexivity.
  - rewrite (upon_timeout_restrict c k s Hb). destruct (upon_timeout c s) as [[s' o] ok]. reflexivity.
  - contradiction.
Qed.

Lemma step_inv c s o s' b : wfs s -> (forall v, o <> OStart v) -> o <> OCompact ->
  step c s o = (s', b) -> wfs s' /\ mono s s'.
Proof.
  intros Hw Hns Hnc. destruct o as [v|m| |]; cbn [step].
  - exfalso. apply (Hns v). reflexivity.
  - destruct (process_msg c s m) as [[s1 o1] r] eqn:E. intros E2; injection E2 as <- _.
    eapply process_msg_inv; eauto.
  - destruct (upon_timeout c s) as [[s1 o1] ok] eqn:E. intros E2; injection E2 as <- _.
    eapply upon_timeout_inv; eauto.
  - contradiction.
Qed.

(* decidedness is a scalar: the same in the restricted state *)
Lemma decided_restrict k s : s_decided (restrict k s) = s_decided s.
Proof. reflexivity. Qed.

Theorem compaction_simulation c : forall ops s k,
  wfs s -> bounds_ok k s -> no_start ops ->
  undecided_compactions c (restrict k s) ops = true ->
  exists k',
    fst (run c (restrict k s) ops) = restrict k' (fst (run c s (erase ops))) /\
    bounds_ok k' (fst (run c s (erase ops))) /\
    erase_obs (snd (run c (restrict k s) ops)) = snd (run c s (erase ops)).
Proof.
  induction ops as [|o ops IH]; intros s k Hw Hb Hns Hu.
  - exists k. cbn. auto.
  - assert (Hns' : no_start ops) by (intros v Hin; apply (Hns v); right; exact Hin).
    cbn [undecided_compactions] in Hu. apply andb_prop in Hu. destruct Hu as [Hu1 Hu2].
    destruct o as [v|m| |].
    + exfalso. apply (Hns v). left. reflexivity.
    + (* message *)
      cbn [erase run].
      assert (Hs := step_restrict c k s (OMsg m) Hb Hw ltac:(discriminate) ltac:(discriminate)).
      destruct (step c s (OMsg m)) as [s1 b1] eqn:E1.
      assert (Hb1 : match b1 with BCompact => False | _ => True end).
      { cbn [step] in E1. destruct (process_msg c s m) as [[? ?] ?]. injection E1 as _ <-. exact I. }
      destruct (step_inv c s (OMsg m) s1 b1 Hw ltac:(discriminate) ltac:(discriminate) E1) as [Hw1 Hm1].
      rewrite Hs in Hu2 |- *. cbn [fst] in Hu2.
      destruct (IH s1 k Hw1 (bounds_ok_mono _ _ _ Hb Hm1) Hns' Hu2) as (k' & A & B & C).
      exists k'. destruct (run c (restrict k s1) ops) as [s2 bs2]. destruct (run c s1 (erase ops)) as [s3 bs3].
      cbn in *. subst. destruct b1; try contradiction; auto.
    + (* timeout *)
      cbn [erase run].
      assert (Hs := step_restrict c k s OTimeout Hb Hw ltac:(discriminate) ltac:(discriminate)).
      destruct (step c s OTimeout) as [s1 b1] eqn:E1.
      assert (Hb1 : match b1 with BCompact => False | _ => True end).
      { cbn [step] in E1. destruct (upon_timeout c s) as [[? ?] ?]. injection E1 as _ <-. exact I. }
      destruct (step_inv c s OTimeout s1 b1 Hw ltac:(discriminate) ltac:(discriminate) E1) as [Hw1 Hm1].
      rewrite Hs in Hu2 |- *. cbn [fst] in Hu2.
      destruct (IH s1 k Hw1 (bounds_ok_mono _ _ _ Hb Hm1) Hns' Hu2) as (k' & A & B & C).
      exists k'. destruct (run c (restrict k s1) ops) as [s2 bs2]. destruct (run c s1 (erase ops)) as [s3 bs3].
      cbn in *. subst. destruct b1; try contradiction; auto.
    + (* compaction: erased on the right, a tighter restriction on the left *)
      cbn [erase]. cbn [run step].
      rewrite decided_restrict in Hu1. apply negb_true_iff in Hu1.
      cbn [step fst] in Hu2. rewrite (compact_restrict k s Hu1) in Hu2 |- *.
      destruct (IH s _ Hw (compact_bounds_ok k s Hb) Hns' Hu2) as (k' & A & B & C).
      exists k'. destruct (run c (restrict _ s) ops) as [s2 bs2]. destruct (run c s (erase ops)) as [s3 bs3].
      cbn in *. subst. auto.
Qed.

(* The special case the property speaks about: start from any well-formed uncompacted state. *)
Corollary compaction_preserves_outputs c s ops :
  wfs s -> no_start ops -> undecided_compactions c s ops = true ->
  erase_obs (snd (run c s ops)) = snd (run c s (erase ops)).
Proof.
  intros Hw Hns Hu.
  pose (k0 := {| b_prop := 0; b_prep := 0; b_commit := 0; b_rc := 0 |}).
  assert (Hb : bounds_ok k0 s) by (unfold bounds_ok; cbn; lia).
  rewrite <- (restrict_0 s) in Hu.
  destruct (compaction_simulation c ops s k0 Hw Hb Hns Hu) as (k' & _ & _ & C).
  fold k0 in C. unfold k0 in C. rewrite restrict_0 in C. exact C.
Qed.
