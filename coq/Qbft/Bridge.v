(* Two independently written models of specqbft.RoundRobinProposer - Qbft/Model.v (proposer) and
   Validation/Model.v (round_robin) - compute the same leader, panic on the same inputs, for ALL
   uint64 heights and rounds and all committees.  With C10_leader_proposal_valid this gives: the
   proposal of a correct leader passes the validator's leader rule (not ErrSignerNotLeader). *)
From Coq Require Import List NArith ZArith Bool Lia.
From SSV Require Import Qbft.Model.
From SSV Require Validation.Model Gen.ValidationConsts.
Import ListNotations.
Local Open Scope Z_scope.

Module V := SSV.Validation.Model.
Module VC := SSV.Gen.ValidationConsts.

Lemma wrap64_to_i64 z : wrap64 z = V.to_i64 z.
Proof.
  unfold wrap64, V.to_i64, V.two64, V.two63. cbv zeta.
  destruct (Z.ltb_spec (z mod 18446744073709551616) 9223372036854775808); Z.div_mod_to_equations; lia.
Qed.

Lemma to_int_to_i64 x : (x < 18446744073709551616)%N -> to_int x = V.to_i64 (Z.of_N x).
Proof.
  intros Hx. unfold to_int, V.to_i64, V.two64, V.two63.
  rewrite Z.mod_small by lia.
  destruct (N.ltb_spec x 9223372036854775808); destruct (Z.ltb_spec (Z.of_N x) 9223372036854775808); lia.
Qed.

Theorem leader_models_agree c h r :
  (h < 18446744073709551616)%N -> (r < 18446744073709551616)%N ->
  match V.round_robin (committee c) h r with
  | V.LeaderIs x => proposer c h r = Some x
  | V.LeaderPanic _ => proposer c h r = None
  end.
Proof.
  intros Hh Hr. unfold V.round_robin, proposer.
  destruct (Z.eqb_spec (Z.of_nat (length (committee c))) 0) as [E|E]; [reflexivity|].
  unfold FIRST_HEIGHT. change VC.firstHeight with 0%N.
  rewrite (to_int_to_i64 h Hh), (to_int_to_i64 r Hr), !wrap64_to_i64.
  change (V.to_i64 (Z.of_N VC.firstRound)) with 1.
  destruct (h =? 0)%N;
    match goal with |- context [Z.rem ?a ?n <? 0] => destruct (Z.ltb_spec (Z.rem a n) 0) end;
    try reflexivity;
    match goal with |- context [nth_error ?l ?k] => destruct (nth_error l k) end; reflexivity.
Qed.

(* the guard the validator applies before calling the leader function (the F1 repair) never
   excludes a round the protocol can reach *)
Lemma rr_defined_in_range sh h r :
  V.s_committee sh <> [] -> (1 <= r)%N -> (r <= 4611686018427387903)%N -> (h <= 9223372036854775807)%N ->
  V.rr_defined sh h r = true.
Proof.
  intros Hc H1 H2 H3. unfold V.rr_defined, V.max_i64. change VC.firstRound with 1%N.
  destruct (V.s_committee sh); [contradiction|]. cbn [length Nat.eqb negb andb].
  destruct (N.leb_spec 1 r); [|lia]. cbn [andb].
  destruct (Z.leb_spec (Z.of_N r) (Z.quot 9223372036854775807 2)) as [_|Hx].
  - destruct (Z.leb_spec (Z.of_N h) 9223372036854775807); [reflexivity|lia].
  - exfalso. change (Z.quot 9223372036854775807 2) with 4611686018427387903 in Hx. lia.
Qed.
