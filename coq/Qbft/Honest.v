(* C10, protocol side: what the messages a correct operator emits look like to a correct peer's
   validation.  (1) message validation calls the instance's justification predicate with a WEAKER
   configuration (no signature verification, no value check): whatever the instance accepts, the
   validator's call accepts; (2) the proposal a correct leader broadcasts for its current round
   passes that predicate, is signed by the round's leader and carries data matching its root;
   (3) the aggregated decided message lists its signers sorted. *)
From Coq Require Import List NArith ZArith Bool Lia.
From SSV Require Import Qbft.Model Qbft.Compact Qbft.CompactSim Qbft.DecidedProofs.
Import ListNotations.
Local Open Scope N_scope.

(* ---- (1) monotonicity of the justification predicate ------------------------------------------------- *)

Definition noverify (c : cfg) : cfg :=
  {| committee := committee c; me := me c; quorum := quorum c; partial_quorum := partial_quorum c;
     bad_values := bad_values c; var := {| v_verify := false; v_sort_agg := v_sort_agg (var c) |} |}.

Lemma andb_mono a b a' b' : (a = true -> a' = true) -> (b = true -> b' = true) -> a && b = true -> a' && b' = true.
Proof. intros Ha Hb H. apply andb_prop in H. destruct H. rewrite Ha, Hb; auto. Qed.

Lemma forallb_mono {A} (p p' : A -> bool) l : (forall x, p x = true -> p' x = true) ->
  forallb p l = true -> forallb p' l = true.
Proof. intros H. rewrite !forallb_forall. auto. Qed.

Lemma sig_check_noverify c k : sig_check (noverify c) k = true.
Proof. reflexivity. Qed.

Lemma valid_prepare_weaker c m h r root : valid_prepare c m h r root = true -> valid_prepare (noverify c) m h r root = true.
Proof.
  unfold valid_prepare. intros H. split_andb H.
  repeat match goal with Hx : ?t = true |- context [?t] => rewrite Hx end. reflexivity.
Qed.

Lemma has_quorum_noverify c ms : has_quorum (noverify c) ms = has_quorum c ms.
Proof. reflexivity. Qed.

Lemma valid_round_change_weaker c sh m h r full :
  valid_round_change c sh m h r full = true -> valid_round_change (noverify c) sh m h r full = true.
Proof.
  unfold valid_round_change. intros H.
  apply andb_prop in H. destruct H as [H Hprep]. split_andb H.
  repeat match goal with Hx : ?t = true |- context [?t] => rewrite Hx end. cbn [andb].
  rewrite sig_check_noverify. cbn [andb].
  destruct (rc_prepared (co m)); [|reflexivity].
  split_andb Hprep.
  repeat match goal with Hx : ?t = true |- context [?t] => rewrite Hx end.
  assert (Hf : forallb (fun p : smsg => valid_prepare (noverify c) p sh (c_data_round (co m)) (c_root (co m))) (rcj m) = true).
  { eapply forallb_mono; [|exact Hprep]. intros p. apply valid_prepare_weaker. }
  rewrite Hf, has_quorum_noverify, Hb5. reflexivity.
Qed.

Theorem justification_weaker c vc sh rcs prs h r full :
  proposal_justified c vc sh rcs prs h r full = true ->
  proposal_justified (noverify c) (fun _ => true) sh rcs prs h r full = true.
Proof.
  unfold proposal_justified. intros H. apply andb_prop in H. destruct H as [_ H]. cbn [andb].
  destruct (r =? FIRST_ROUND); [reflexivity|].
  apply andb_prop in H. destruct H as [H Hp]. apply andb_prop in H. destruct H as [Hv Hq].
  apply andb_true_intro. split; [apply andb_true_intro; split|].
  - eapply forallb_mono; [|exact Hv]. intros x. apply valid_round_change_weaker.
  - exact Hq.
  - destruct (existsb (fun rc => rc_prepared (co rc)) rcs); [|reflexivity].
    apply andb_prop in Hp. destruct Hp as [Hq2 Hh]. apply andb_true_intro. split; [exact Hq2|].
    destruct (highest_prepared rcs None) as [xh|]; [|discriminate].
    apply andb_prop in Hh. destruct Hh as [Hr Hpv]. apply andb_true_intro. split; [exact Hr|].
    eapply forallb_mono; [|exact Hpv]. intros p. apply valid_prepare_weaker.
Qed.

(* ---- justifications travel without their full data ---------------------------------------------------- *)

Lemma co_without_full_fields m :
  c_type (co (without_full m)) = c_type (co m) /\ c_height (co (without_full m)) = c_height (co m) /\
  c_round (co (without_full m)) = c_round (co m) /\ c_root (co (without_full m)) = c_root (co m) /\
  c_data_round (co (without_full m)) = c_data_round (co m) /\
  c_signers (co (without_full m)) = c_signers (co m) /\ c_sig_ok (co (without_full m)) = c_sig_ok (co m) /\
  c_fmt_ok (co (without_full m)) = c_fmt_ok (co m) /\ rcj (without_full m) = rcj m.
Proof. destruct m as [k a b]. cbn. repeat split. Qed.

Lemma valid_prepare_without_full c m h r root : valid_prepare c (without_full m) h r root = valid_prepare c m h r root.
Proof. destruct m as [k a b]. reflexivity. Qed.

Lemma valid_round_change_without_full c sh m h r full :
  valid_round_change c sh (without_full m) h r full = valid_round_change c sh m h r full.
Proof. destruct m as [k a b]. reflexivity. Qed.

Lemma all_signers_without_full ms : all_signers (map without_full ms) = all_signers ms.
Proof.
  unfold all_signers. induction ms as [|m tl IH]; cbn; [reflexivity|]. rewrite IH. destruct m. reflexivity.
Qed.

Lemma has_quorum_without_full c ms : has_quorum c (map without_full ms) = has_quorum c ms.
Proof. unfold has_quorum, unique_count. rewrite all_signers_without_full. reflexivity. Qed.

Lemma rc_prepared_without_full m : rc_prepared (co (without_full m)) = rc_prepared (co m).
Proof. destruct m. reflexivity. Qed.

Lemma highest_prepared_without_full : forall ms best,
  highest_prepared (map without_full ms) (option_map without_full best)
  = option_map without_full (highest_prepared ms best).
Proof.
  induction ms as [|m tl IH]; intros best; cbn [map highest_prepared]; [reflexivity|].
  rewrite rc_prepared_without_full. destruct (rc_prepared (co m)); [|apply IH].
  destruct best as [b|]; cbn [option_map].
  - destruct b as [kb ab bb], m as [km am bm]. cbn. destruct (c_data_round kb <? c_data_round km).
    + apply (IH (Some (SM km am bm))).
    + apply (IH (Some (SM kb ab bb))).
  - apply (IH (Some m)).
Qed.

Lemma existsb_map {A B} (g : A -> B) (p : B -> bool) l : existsb p (map g l) = existsb (fun x => p (g x)) l.
Proof. induction l as [|a tl IH]; cbn; [reflexivity|]. rewrite IH. reflexivity. Qed.

Lemma forallb_map {A B} (g : A -> B) (p : B -> bool) l : forallb p (map g l) = forallb (fun x => p (g x)) l.
Proof. induction l as [|a tl IH]; cbn; [reflexivity|]. rewrite IH. reflexivity. Qed.

Lemma forallb_ext {A} (p p' : A -> bool) l : (forall x, p x = p' x) -> forallb p l = forallb p' l.
Proof. intros H. induction l as [|a tl IH]; cbn; [reflexivity|]. rewrite H, IH. reflexivity. Qed.

Lemma existsb_ext {A} (p p' : A -> bool) l : (forall x, p x = p' x) -> existsb p l = existsb p' l.
Proof. intros H. induction l as [|a tl IH]; cbn; [reflexivity|]. rewrite H, IH. reflexivity. Qed.

Theorem justification_without_full c vc sh rcs prs h r full :
  proposal_justified c vc sh (map without_full rcs) (map without_full prs) h r full
  = proposal_justified c vc sh rcs prs h r full.
Proof.
  unfold proposal_justified. f_equal. destruct (r =? FIRST_ROUND); [reflexivity|].
  rewrite forallb_map, (forallb_ext _ (fun rc => valid_round_change c sh rc h r full))
    by (intros x; apply valid_round_change_without_full).
  rewrite has_quorum_without_full. f_equal.
  rewrite existsb_map, (existsb_ext _ (fun rc => rc_prepared (co rc))) by (intros x; apply rc_prepared_without_full).
  destruct (existsb (fun rc => rc_prepared (co rc)) rcs); [|reflexivity].
  rewrite has_quorum_without_full. f_equal.
  pose proof (highest_prepared_without_full rcs None) as Hh. cbn [option_map] in Hh. rewrite Hh.
  destruct (highest_prepared rcs None) as [xh|]; cbn [option_map]; [|reflexivity].
  destruct (co_without_full_fields xh) as (_ & _ & _ & Hr & Hd & _). rewrite Hr, Hd. f_equal.
  rewrite forallb_map. apply forallb_ext. intros p. apply valid_prepare_without_full.
Qed.

(* ---- (2) the proposal of a correct leader ---------------------------------------------------------------- *)

Lemma find_justified_spec c s trig : forall rcs all jm v,
  find_justified c s trig rcs all = Some (Some (jm, v)) ->
  In jm rcs /\ justified_for_leading c s jm all v (c_round (co trig)) = Some true /\
  v = (if rc_prepared (co jm) then c_full (co trig) else s_start s).
Proof.
  induction rcs as [|m tl IH]; intros all jm v; cbn [find_justified]; [discriminate|].
  destruct (justified_for_leading c s m all _ (c_round (co trig))) as [[|]|] eqn:E; [| |discriminate].
  - intros H. injection H as <- <-. split; [left; reflexivity|]. split; [exact E|reflexivity].
  - intros H. destruct (IH all jm v H) as (A & B & C). split; [right; exact A|]. auto.
Qed.

Lemma justified_for_leading_facts c s rcm rcs v nr :
  justified_for_leading c s rcm rcs v nr = Some true ->
  proposal_justified c (value_check c) (s_height s) rcs (rcj rcm) (s_height s) (c_round (co rcm)) v = true /\
  proposer c (s_height s) (c_round (co rcm)) = Some (me c).
Proof.
  unfold justified_for_leading.
  destruct (proposal_justified _ _ _ _ _ _ _ _) eqn:Hj; cbn [negb]; [|discriminate].
  destruct (proposer c (s_height s) (c_round (co rcm))) as [ld|]; [|discriminate].
  destruct (N.eqb_spec ld (me c)) as [->|]; cbn [negb]; [|discriminate]. auto.
Qed.

(* The proposal a correct operator broadcasts upon a round-change quorum for the round it is in. *)
Lemma create_round_change_type c s nr : c_type (co (create_round_change c s nr)) = T_ROUNDCHANGE.
Proof. unfold create_round_change. destruct (negb _ && _); reflexivity. Qed.

Ltac no_proposal :=
  intros E; injection E as _ <- _; intros Hin T; cbn [In] in Hin;
  repeat match goal with
  | H : _ \/ _ |- _ => destruct H as [H|H]
  | H : False |- _ => destruct H
  | H : OTimer _ _ = OBcast _ |- _ => discriminate H
  | H : OBcast _ = OBcast _ |- _ => injection H as <-; rewrite create_round_change_type in T; unfold T_ROUNDCHANGE, T_PROPOSAL in T; discriminate T
  end.

Theorem honest_proposal_valid c s m s' o ok pr :
  wfc (s_rc s) -> c_round (co m) = s_round s ->
  upon_round_change c s m = Some (s', o, ok) -> In (OBcast pr) o -> c_type (co pr) = T_PROPOSAL ->
  c_signers (co pr) = [me c] /\ c_round (co pr) = s_round s /\ c_height (co pr) = s_height s /\
  proposer c (s_height s) (c_round (co pr)) = Some (me c) /\
  hash (c_full (co pr)) = c_root (co pr) /\
  proposal_justified c (value_check c) (s_height s) (rcj pr) (pj pr) (s_height s) (c_round (co pr)) (c_full (co pr)) = true.
Proof.
  intros Hw Hr. unfold upon_round_change.
  pose proof (wfc_cadd_first (s_rc s) m Hw) as Hw'.
  destruct (cadd_first (s_rc s) m) as [ct added]. cbn [fst] in Hw'. destruct added; cbn [negb]; [|no_proposal].
  destruct (has_quorum c (cget (s_rc s) (c_round (co m)))); [no_proposal|].
  assert (Hpart : forall X : Prop,
    (if has_partial_quorum c (filter (fun x => s_round (set_rc s ct) <? c_round (co x)) (call ct))
     then
       let nr := min_round (filter (fun x => s_round (set_rc s ct) <? c_round (co x)) (call ct)) NO_ROUND in
       if nr <=? s_round (set_rc s ct) then Some (set_rc s ct, [], true)
       else let s2 := set_acc (set_round (set_rc s ct) nr) None in
            if can_process s2
            then Some (s2, [OTimer (s_height s2) nr; OBcast (create_round_change c s2 nr)], true)
            else Some (s2, [OTimer (s_height s2) nr], false)
     else Some (set_rc s ct, [], true)) = Some (s', o, ok) -> In (OBcast pr) o -> c_type (co pr) = T_PROPOSAL -> X).
  { intros X. destruct (has_partial_quorum c _); [|no_proposal]. cbv zeta.
    destruct (_ <=? _); [no_proposal|]. destruct (can_process _); no_proposal. }
  destruct (has_quorum c (cget ct (c_round (co m)))); [|apply Hpart].
  destruct (find_justified c (set_rc s ct) m (cget ct (c_round (co m))) (cget ct (c_round (co m))))
    as [[[jm v]|]|] eqn:Ef; [| apply Hpart |discriminate].
  intros E; injection E as _ <- _. intros [E|[]] _. injection E as <-.
  destruct (find_justified_spec _ _ _ _ _ _ _ Ef) as (Hin & Hj & Hv).
  destruct (justified_for_leading_facts _ _ _ _ _ _ Hj) as (Hpj & Hld).
  assert (Hjr : c_round (co jm) = s_round s).
  { rewrite <- Hr. clear -Hw' Hin. induction ct as [|[r0 l0] tl IH]; cbn in Hin; [destruct Hin|].
    destruct (N.eqb_spec r0 (c_round (co m))) as [->|Hne].
    - apply (Hw' (c_round (co m)) l0 (or_introl eq_refl) jm Hin).
    - apply IH; [intros r1 l1 H1; apply (Hw' r1 l1); right; exact H1|exact Hin]. }
  cbn [set_rc set_containers s_round s_height] in *.
  unfold create_proposal. cbn [co rcj pj own_core c_signers c_round c_height c_full c_root s_round s_height set_rc set_containers].
  rewrite Hjr in Hpj, Hld. rewrite Hr in Hpj.
  repeat split; auto.
  rewrite justification_without_full. exact Hpj.
Qed.

(* the first-round proposal of the leader *)
Theorem start_proposal_valid c s v hh s' o pr :
  start c s v hh = Some (s', o) -> In (OBcast pr) o -> value_check c v = true ->
  c_signers (co pr) = [me c] /\ c_round (co pr) = FIRST_ROUND /\ c_height (co pr) = hh /\
  proposer c hh FIRST_ROUND = Some (me c) /\ hash (c_full (co pr)) = c_root (co pr) /\
  proposal_justified c (value_check c) hh (rcj pr) (pj pr) hh (c_round (co pr)) (c_full (co pr)) = true.
Proof.
  unfold start. destruct (s_started s); [intros E; injection E as _ <-; intros []|].
  destruct (proposer c hh FIRST_ROUND) as [ld|] eqn:Hp; [|discriminate].
  intros E; injection E as _ <-. intros [E|Hin] Hv; [discriminate|].
  destruct (N.eqb_spec ld (me c)) as [->|]; cbn [andb] in Hin; [|destruct Hin].
  destruct (can_process _); [|destruct Hin]. destruct Hin as [E|[]]. injection E as <-.
  unfold create_proposal; cbn. repeat split; auto. unfold proposal_justified. rewrite Hv. reflexivity.
Qed.

(* ---- (3) the aggregated decided message ------------------------------------------------------------------ *)

Fixpoint sorted_le (l : list N) : bool :=
  match l with
  | a :: ((b :: _) as tl) => (a <=? b) && sorted_le tl
  | _ => true
  end.

Lemma insert_sorted_sorted x l : sorted_le l = true -> sorted_le (insert_sorted x l) = true.
Proof.
  induction l as [|a tl IH]; cbn [insert_sorted]; [reflexivity|]. intros H.
  destruct (N.leb_spec x a) as [Hle|Hgt].
  - cbn [sorted_le]. apply andb_true_intro. split; [apply N.leb_le; exact Hle|exact H].
  - destruct tl as [|b tl'].
    + cbn. apply andb_true_intro. split; [apply N.leb_le; lia|reflexivity].
    + cbn [sorted_le] in H. apply andb_prop in H. destruct H as [Hab Hs]. specialize (IH Hs).
      cbn [insert_sorted] in IH |- *. destruct (N.leb_spec x b).
      * cbn [sorted_le]. apply andb_true_intro. split; [apply N.leb_le; lia|].
        apply andb_true_intro. split; [apply N.leb_le; assumption|exact Hs].
      * cbn [sorted_le]. apply andb_true_intro. split; [exact Hab|exact IH].
Qed.

Lemma sort_n_sorted l : sorted_le (sort_n l) = true.
Proof.
  induction l as [|a tl IH]; [reflexivity|]. rewrite sort_n_cons. apply insert_sorted_sorted. exact IH.
Qed.

Theorem aggregate_signers_sorted c msgs full agg :
  v_sort_agg (var c) = true -> aggregate_commits c msgs full = Some agg -> sorted_le (c_signers (co agg)) = true.
Proof.
  intros Hs. unfold aggregate_commits. destruct msgs as [|m0 tl]; [discriminate|].
  destruct (forallb (same_signing_root m0) tl); cbn [negb]; [|discriminate].
  intros E; injection E as <-. cbn [co c_signers]. rewrite Hs. apply sort_n_sorted.
Qed.
