(* Executable model of the QBFT instance (protocol/v2/qbft/instance) and of the pinned reference
   instance (ssv-spec v0.3.7 qbft), which the former is a line-by-line port of.  One step function
   parameterised by a [variant] covers both.  Definitions only. *)
From Coq Require Import List NArith ZArith Bool.
Import ListNotations.
Local Open Scope N_scope.

(* ---- messages ---------------------------------------------------------------------------------- *)

(* The flat part of a specqbft.SignedMessage.
   c_full    : FullData as a value identifier (None = empty)
   c_sig_ok  : what types.VerifyByOperators returns for this (sub)message against the committee
   c_fmt_ok  : the part of Message.Validate that is about encoding: identifier non-empty and both
               justification fields decodable
   c_ident   : 0 = the instance's identifier, anything else = a foreign one *)
Record core := {
  c_type : N; c_height : N; c_round : N; c_root : N; c_data_round : N;
  c_signers : list N; c_full : option N; c_sig_ok : bool; c_fmt_ok : bool; c_ident : N }.

(* A message with its decoded RoundChangeJustification / PrepareJustification lists. *)
Inductive smsg := SM (c : core) (rcj : list smsg) (pj : list smsg).

Definition opt_eqb (a b : option N) : bool :=
  match a, b with None, None => true | Some x, Some y => x =? y | _, _ => false end.
Fixpoint list_eqb (a b : list N) : bool :=
  match a, b with [], [] => true | x :: ta, y :: tb => (x =? y) && list_eqb ta tb | _, _ => false end.
Definition core_eqb (a b : core) : bool :=
  (c_type a =? c_type b) && (c_height a =? c_height b) && (c_round a =? c_round b)
  && (c_root a =? c_root b) && (c_data_round a =? c_data_round b)
  && list_eqb (c_signers a) (c_signers b) && opt_eqb (c_full a) (c_full b)
  && Bool.eqb (c_sig_ok a) (c_sig_ok b) && Bool.eqb (c_fmt_ok a) (c_fmt_ok b) && (c_ident a =? c_ident b).
Fixpoint smsg_eqb (a b : smsg) {struct a} : bool :=
  match a, b with
  | SM ka ra pa, SM kb rb pb =>
      core_eqb ka kb
      && (fix leq (l1 l2 : list smsg) {struct l1} : bool :=
            match l1, l2 with
            | [], [] => true
            | x :: t1, y :: t2 => smsg_eqb x y && leq t1 t2
            | _, _ => false
            end) ra rb
      && (fix leq (l1 l2 : list smsg) {struct l1} : bool :=
            match l1, l2 with
            | [], [] => true
            | x :: t1, y :: t2 => smsg_eqb x y && leq t1 t2
            | _, _ => false
            end) pa pb
  end.
Fixpoint smsgs_eqb (l1 l2 : list smsg) : bool :=
  match l1, l2 with
  | [], [] => true
  | x :: t1, y :: t2 => smsg_eqb x y && smsgs_eqb t1 t2
  | _, _ => false
  end.

Definition co (m : smsg) : core := match m with SM c _ _ => c end.
Definition rcj (m : smsg) : list smsg := match m with SM _ l _ => l end.
Definition pj (m : smsg) : list smsg := match m with SM _ _ l => l end.

Definition T_PROPOSAL := 0. Definition T_PREPARE := 1. Definition T_COMMIT := 2.
Definition T_ROUNDCHANGE := 3.
Definition NO_ROUND := 0. Definition FIRST_ROUND := 1. Definition FIRST_HEIGHT := 0.
Definition CUTOFF_ROUND : Z := 15.

(* HashDataRoot as an injective function value -> root.  Root identifiers: 0 = the all-zero root,
   even numbers >= 2 = hashes, odd numbers = roots that are the hash of no value in the history. *)
Definition ZERO_ROOT := 0.
Definition hash (v : option N) : N := match v with None => 2 | Some x => 2 * x + 4 end.

(* ---- configuration ----------------------------------------------------------------------------- *)

Record variant := {
  v_verify : bool;       (* config.VerifySignatures(); the reference always verifies *)
  v_sort_agg : bool }.   (* aggregateCommitMsgs sorts the signers (node only) *)

Definition node_variant := {| v_verify := true; v_sort_agg := true |}.
Definition spec_variant := {| v_verify := true; v_sort_agg := false |}.

Record cfg := {
  committee : list N;          (* Share.Committee operator ids, in order *)
  me : N;                      (* Share.OperatorID *)
  quorum : N; partial_quorum : N;
  bad_values : list N;         (* values the ProposedValueCheckF rejects; empty data is rejected too *)
  var : variant }.

Definition value_check (c : cfg) (v : option N) : bool :=
  match v with None => false | Some x => negb (existsb (N.eqb x) (bad_values c)) end.

(* Go's int(x) for a uint64 *)
Definition to_int (x : N) : Z :=
  if x <? 9223372036854775808 then Z.of_N x else (Z.of_N x - 18446744073709551616)%Z.

(* Go's int arithmetic wraps silently (two's complement, 64 bits) *)
Definition wrap64 (z : Z) : Z :=
  ((z + 9223372036854775808) mod 18446744073709551616 - 9223372036854775808)%Z.

(* specqbft.RoundRobinProposer; None = index out of range / division by zero (a Go panic) *)
Definition proposer (c : cfg) (height round : N) : option N :=
  let n := Z.of_nat (length (committee c)) in
  if (n =? 0)%Z then None else
  let first := if height =? FIRST_HEIGHT then 0%Z else Z.rem (to_int height) n in
  let idx := Z.rem (wrap64 (wrap64 (first + to_int round) - 1)) n in
  if (idx <? 0)%Z then None else nth_error (committee c) (Z.to_nat idx).

(* ---- small list helpers ------------------------------------------------------------------------- *)

Definition mem (x : N) (l : list N) : bool := existsb (N.eqb x) l.

Fixpoint dedup (l : list N) : list N :=
  match l with [] => [] | x :: tl => if mem x tl then dedup tl else x :: dedup tl end.

Fixpoint nodupb (l : list N) : bool :=
  match l with [] => true | x :: tl => negb (mem x tl) && nodupb tl end.

Definition all_signers (ms : list smsg) : list N := flat_map (fun m => c_signers (co m)) ms.

Definition unique_count (ms : list smsg) : N := N.of_nat (length (dedup (all_signers ms))).

(* specqbft.HasQuorum / HasPartialQuorum: unique signers, no committee check *)
Definition has_quorum (c : cfg) (ms : list smsg) : bool := quorum c <=? unique_count ms.
Definition has_partial_quorum (c : cfg) (ms : list smsg) : bool := partial_quorum c <=? unique_count ms.

(* SignedMessage.MatchedSigners / CommonSigners *)
Definition matched_signers (a b : list N) : bool :=
  Nat.eqb (length a) (length b) && forallb (fun x => mem x b) a.
Definition common_signers (a b : list N) : bool := existsb (fun x => mem x b) a.

(* Message.Validate / SignedMessage.Validate *)
Definition message_validate (k : core) : bool := c_fmt_ok k && (c_type k <=? T_ROUNDCHANGE).
Definition signed_validate (k : core) : bool :=
  negb (Nat.eqb (length (c_signers k)) 0) && nodupb (c_signers k) && negb (mem 0 (c_signers k))
  && message_validate k.

Definition sig_check (c : cfg) (k : core) : bool := if v_verify (var c) then c_sig_ok k else true.

(* ---- containers: round -> messages in arrival order --------------------------------------------- *)

Definition container := list (N * list smsg).

Fixpoint cget (ct : container) (r : N) : list smsg :=
  match ct with [] => [] | (r', l) :: tl => if r' =? r then l else cget tl r end.

Fixpoint cput (ct : container) (r : N) (m : smsg) : container :=
  match ct with
  | [] => [(r, [m])]
  | (r', l) :: tl => if r' =? r then (r', l ++ [m]) :: tl else (r', l) :: cput tl r m
  end.

Definition call (ct : container) : list smsg := flat_map snd ct.

(* AddFirstMsgForSignerAndRound *)
Definition cadd_first (ct : container) (m : smsg) : container * bool :=
  let r := c_round (co m) in
  if existsb (fun e => matched_signers (c_signers (co e)) (c_signers (co m))) (cget ct r)
  then (ct, false) else (cput ct r m, true).

(* LongestUniqueSignersForRoundAndRoot *)
Fixpoint greedy (root : N) (rest : list smsg) (signers : list N) (msgs : list smsg)
  : list N * list smsg :=
  match rest with
  | [] => (signers, msgs)
  | m :: tl =>
      if negb (c_root (co m) =? root) then greedy root tl signers msgs
      else if common_signers (c_signers (co m)) signers then greedy root tl signers msgs
      else greedy root tl (signers ++ c_signers (co m)) (msgs ++ [m])
  end.

Fixpoint longest_from (root : N) (l : list smsg) (best : list N * list smsg) : list N * list smsg :=
  match l with
  | [] => best
  | m :: tl =>
      if negb (c_root (co m) =? root) then longest_from root tl best
      else
        let cur := greedy root tl (c_signers (co m)) [m] in
        longest_from root tl (if Nat.ltb (length (fst best)) (length (fst cur)) then cur else best)
  end.

Definition longest_unique (ct : container) (round root : N) : list N * list smsg :=
  longest_from root (cget ct round) ([], []).

(* compactContainer: clear, or drop the rounds below [bound] *)
Definition ccompact (ct : container) (bound : N) (clear : bool) : container :=
  if clear then [] else filter (fun e => negb (fst e <? bound)) ct.

(* ---- instance state ------------------------------------------------------------------------------ *)

Record state := {
  s_round : N; s_height : N;
  s_lpr : N;                       (* LastPreparedRound *)
  s_lpv : option N;                (* LastPreparedValue; None = nil *)
  s_acc : option smsg;             (* ProposalAcceptedForCurrentRound *)
  s_decided : bool; s_dvalue : option N;
  s_prop : container; s_prep : container; s_commit : container; s_rc : container;
  s_start : option N;              (* Instance.StartValue *)
  s_started : bool;                (* startOnce *)
  s_stopped : bool }.              (* forceStop *)

Definition new_instance (height : N) : state :=
  {| s_round := FIRST_ROUND; s_height := height; s_lpr := NO_ROUND; s_lpv := None; s_acc := None;
     s_decided := false; s_dvalue := None; s_prop := []; s_prep := []; s_commit := []; s_rc := [];
     s_start := None; s_started := false; s_stopped := false |}.

Definition set_round (s : state) (r : N) : state :=
  {| s_round := r; s_height := s_height s; s_lpr := s_lpr s; s_lpv := s_lpv s; s_acc := s_acc s;
     s_decided := s_decided s; s_dvalue := s_dvalue s; s_prop := s_prop s; s_prep := s_prep s;
     s_commit := s_commit s; s_rc := s_rc s; s_start := s_start s; s_started := s_started s;
     s_stopped := s_stopped s |}.
Definition set_acc (s : state) (a : option smsg) : state :=
  {| s_round := s_round s; s_height := s_height s; s_lpr := s_lpr s; s_lpv := s_lpv s; s_acc := a;
     s_decided := s_decided s; s_dvalue := s_dvalue s; s_prop := s_prop s; s_prep := s_prep s;
     s_commit := s_commit s; s_rc := s_rc s; s_start := s_start s; s_started := s_started s;
     s_stopped := s_stopped s |}.
Definition set_prepared (s : state) (r : N) (v : option N) : state :=
  {| s_round := s_round s; s_height := s_height s; s_lpr := r; s_lpv := v; s_acc := s_acc s;
     s_decided := s_decided s; s_dvalue := s_dvalue s; s_prop := s_prop s; s_prep := s_prep s;
     s_commit := s_commit s; s_rc := s_rc s; s_start := s_start s; s_started := s_started s;
     s_stopped := s_stopped s |}.
Definition set_decided (s : state) (v : option N) : state :=
  {| s_round := s_round s; s_height := s_height s; s_lpr := s_lpr s; s_lpv := s_lpv s; s_acc := s_acc s;
     s_decided := true; s_dvalue := v; s_prop := s_prop s; s_prep := s_prep s;
     s_commit := s_commit s; s_rc := s_rc s; s_start := s_start s; s_started := s_started s;
     s_stopped := s_stopped s |}.
Definition set_containers (s : state) (p pr cm rc : container) : state :=
  {| s_round := s_round s; s_height := s_height s; s_lpr := s_lpr s; s_lpv := s_lpv s; s_acc := s_acc s;
     s_decided := s_decided s; s_dvalue := s_dvalue s; s_prop := p; s_prep := pr;
     s_commit := cm; s_rc := rc; s_start := s_start s; s_started := s_started s;
     s_stopped := s_stopped s |}.
Definition set_prop (s : state) (p : container) := set_containers s p (s_prep s) (s_commit s) (s_rc s).
Definition set_prep (s : state) (p : container) := set_containers s (s_prop s) p (s_commit s) (s_rc s).
Definition set_commit (s : state) (p : container) := set_containers s (s_prop s) (s_prep s) p (s_rc s).
Definition set_rc (s : state) (p : container) := set_containers s (s_prop s) (s_prep s) (s_commit s) p.
Definition set_start (s : state) (h : N) (v : option N) : state :=
  {| s_round := s_round s; s_height := h; s_lpr := s_lpr s; s_lpv := s_lpv s; s_acc := s_acc s;
     s_decided := s_decided s; s_dvalue := s_dvalue s; s_prop := s_prop s; s_prep := s_prep s;
     s_commit := s_commit s; s_rc := s_rc s; s_start := v; s_started := true;
     s_stopped := s_stopped s |}.
Definition set_stopped (s : state) : state :=
  {| s_round := s_round s; s_height := s_height s; s_lpr := s_lpr s; s_lpv := s_lpv s; s_acc := s_acc s;
     s_decided := s_decided s; s_dvalue := s_dvalue s; s_prop := s_prop s; s_prep := s_prep s;
     s_commit := s_commit s; s_rc := s_rc s; s_start := s_start s; s_started := s_started s;
     s_stopped := true |}.

(* CanProcessMessages: !forceStop && int(Round) < CutoffRound *)
Definition can_process (s : state) : bool := negb (s_stopped s) && (to_int (s_round s) <? CUTOFF_ROUND)%Z.

(* ---- outputs -------------------------------------------------------------------------------------- *)

Inductive out := OBcast (m : smsg) | OTimer (height round : N).

(* result of ProcessMsg: error / (decided, value, aggregated commit) / panic *)
Inductive presult :=
| PErr
| POk (decided : bool) (value : option N) (agg : option smsg)
| PPanic.

(* ---- message construction (own key: signature verifies, encoding fine, own identifier) ------------ *)

Definition own_core (c : cfg) (ty h r root dr : N) (full : option N) : core :=
  {| c_type := ty; c_height := h; c_round := r; c_root := root; c_data_round := dr;
     c_signers := [me c]; c_full := full; c_sig_ok := true; c_fmt_ok := true; c_ident := 0 |}.

(* SignedMessage.WithoutFUllData, used by MarshalJustifications *)
Definition without_full (m : smsg) : smsg :=
  match m with SM k a b =>
    SM {| c_type := c_type k; c_height := c_height k; c_round := c_round k; c_root := c_root k;
          c_data_round := c_data_round k; c_signers := c_signers k; c_full := None;
          c_sig_ok := c_sig_ok k; c_fmt_ok := c_fmt_ok k; c_ident := c_ident k |} a b end.

Definition create_proposal (c : cfg) (s : state) (v : option N) (rcs prepares : list smsg) : smsg :=
  SM (own_core c T_PROPOSAL (s_height s) (s_round s) (hash v) NO_ROUND v)
     (map without_full rcs) (map without_full prepares).
Definition create_prepare (c : cfg) (s : state) (round root : N) : smsg :=
  SM (own_core c T_PREPARE (s_height s) round root NO_ROUND None) [] [].
Definition create_commit (c : cfg) (s : state) (root : N) : smsg :=
  SM (own_core c T_COMMIT (s_height s) (s_round s) root NO_ROUND None) [] [].

(* ---- validation ------------------------------------------------------------------------------------ *)

(* validSignedPrepareForHeightRoundAndRoot *)
Definition valid_prepare (c : cfg) (m : smsg) (height round root : N) : bool :=
  let k := co m in
  (c_type k =? T_PREPARE) && (c_height k =? height) && (c_round k =? round) && signed_validate k
  && (c_root k =? root) && Nat.eqb (length (c_signers k)) 1 && sig_check c k.

Definition rc_prepared (k : core) : bool := (c_type k =? T_ROUNDCHANGE) && negb (c_data_round k =? NO_ROUND).

(* validRoundChangeForData *)
Definition valid_round_change (c : cfg) (s_h : N) (m : smsg) (height round : N) (full : option N) : bool :=
  let k := co m in
  (c_type k =? T_ROUNDCHANGE) && (c_height k =? height) && (c_round k =? round)
  && Nat.eqb (length (c_signers k)) 1 && sig_check c k && message_validate k
  && (if rc_prepared k then
        forallb (fun p => valid_prepare c p s_h (c_data_round k) (c_root k)) (rcj m)
        && (hash full =? c_root k) && has_quorum c (rcj m) && (c_data_round k <=? round)
      else true).

(* highestPrepared *)
Fixpoint highest_prepared (rcs : list smsg) (best : option smsg) : option smsg :=
  match rcs with
  | [] => best
  | m :: tl =>
      if rc_prepared (co m) then
        match best with
        | None => highest_prepared tl (Some m)
        | Some b => highest_prepared tl
                      (if c_data_round (co b) <? c_data_round (co m) then Some m else best)
        end
      else highest_prepared tl best
  end.

(* isProposalJustification; [vc] is the value check to apply *)
Definition proposal_justified (c : cfg) (vc : option N -> bool) (s_h : N) (rcs prepares : list smsg)
           (height round : N) (full : option N) : bool :=
  vc full &&
  (if round =? FIRST_ROUND then true else
     forallb (fun rc => valid_round_change c s_h rc height round full) rcs
     && has_quorum c rcs
     && (if existsb (fun rc => rc_prepared (co rc)) rcs then
           has_quorum c prepares
           && match highest_prepared rcs None with
              | None => false
              | Some h =>
                  (hash full =? c_root (co h))
                  && forallb (fun p => valid_prepare c p height (c_data_round (co h)) (c_root (co h))) prepares
              end
         else true)).

(* isValidProposal; None = panic in the leader computation *)
Definition valid_proposal (c : cfg) (s : state) (m : smsg) : option bool :=
  let k := co m in
  if negb (c_type k =? T_PROPOSAL) then Some false else
  if negb (c_height k =? s_height s) then Some false else
  if negb (Nat.eqb (length (c_signers k)) 1) then Some false else
  if negb (sig_check c k) then Some false else
  match proposer c (s_height s) (c_round k) with
  | None => None
  | Some leader =>
      if negb (matched_signers (c_signers k) [leader]) then Some false else
      if negb (signed_validate k) then Some false else
      if negb (hash (c_full k) =? c_root k) then Some false else
      if negb (proposal_justified c (value_check c) (s_height s) (rcj m) (pj m) (s_height s) (c_round k) (c_full k))
      then Some false else
      Some ((match s_acc s with None => c_round k =? s_round s | Some _ => false end)
            || (s_round s <? c_round k))
  end.

(* BaseCommitValidation / validateCommit *)
Definition base_commit_validation (c : cfg) (m : smsg) (height : N) : bool :=
  let k := co m in
  (c_type k =? T_COMMIT) && (c_height k =? height) && signed_validate k && sig_check c k.

Definition validate_commit (c : cfg) (m : smsg) (height round : N) (proposed : smsg) : bool :=
  base_commit_validation c m height && Nat.eqb (length (c_signers (co m))) 1
  && (c_round (co m) =? round) && (c_root (co proposed) =? c_root (co m)).

(* Instance.BaseMsgValidation *)
Definition base_msg_validation (c : cfg) (s : state) (m : smsg) : option bool :=
  let k := co m in
  if negb (signed_validate k) then Some false else
  if c_round k <? s_round s then Some false else
  if c_type k =? T_PROPOSAL then valid_proposal c s m
  else if c_type k =? T_PREPARE then
    match s_acc s with
    | None => Some false
    | Some p => Some (valid_prepare c m (s_height s) (s_round s) (c_root (co p)))
    end
  else if c_type k =? T_COMMIT then
    match s_acc s with
    | None => Some false
    | Some p => Some (validate_commit c m (s_height s) (s_round s) p)
    end
  else if c_type k =? T_ROUNDCHANGE then
    Some (valid_round_change c (s_height s) m (s_height s) (c_round k) (c_full k))
  else Some false.

(* ---- the four upon-rules ---------------------------------------------------------------------------- *)

(* uponProposal.  The boolean is false when Instance.Broadcast refused (CanProcessMessages false after
   the round was bumped) - the state change stays. *)
Definition upon_proposal (c : cfg) (s : state) (m : smsg) : state * list out * bool :=
  let '(ct, added) := cadd_first (s_prop s) m in
  if negb added then (s, [], true) else
  let s1 := set_acc (set_prop s ct) (Some m) in
  let r := c_round (co m) in
  let timer := if s_round s <? r then [OTimer (c_height (co m)) r] else [] in
  let s2 := set_round s1 r in
  if can_process s2 then (s2, timer ++ [OBcast (create_prepare c s2 r (hash (c_full (co m))))], true)
  else (s2, timer, false).

(* uponPrepare *)
Definition upon_prepare (c : cfg) (s : state) (m : smsg) : state * list out :=
  let before := has_quorum c (cget (s_prep s) (s_round s)) in
  let '(ct, added) := cadd_first (s_prep s) m in
  if negb added then (s, []) else
  let s1 := set_prep s ct in
  if before then (s1, []) else
  if negb (has_quorum c (cget ct (s_round s))) then (s1, []) else
  match s_acc s with
  | None => (s1, [])      (* unreachable: base validation requires an accepted proposal *)
  | Some p =>
      let s2 := set_prepared s1 (s_round s) (c_full (co p)) in
      (s2, [OBcast (create_commit c s2 (c_root (co p)))])
  end.

Fixpoint insert_sorted (x : N) (l : list N) : list N :=
  match l with [] => [x] | y :: tl => if x <=? y then x :: l else y :: insert_sorted x tl end.
Definition sort_n (l : list N) : list N := fold_right insert_sorted [] l.

(* Two messages have the same signing root iff their Message parts are equal (everything but
   signature, signers and full data). *)
Definition same_signing_root (a b : smsg) : bool :=
  let ka := co a in let kb := co b in
  (c_type ka =? c_type kb) && (c_height ka =? c_height kb) && (c_round ka =? c_round kb)
  && (c_root ka =? c_root kb) && (c_data_round ka =? c_data_round kb) && (c_ident ka =? c_ident kb)
  && Bool.eqb (c_fmt_ok ka) (c_fmt_ok kb) && smsgs_eqb (rcj a) (rcj b) && smsgs_eqb (pj a) (pj b).

(* aggregateCommitMsgs: the first message's fields, all signers (sorted by the node), the full data.
   The aggregate verifies iff every part does.  None = Aggregate refused (different signing roots;
   common signers cannot happen in a set chosen by LongestUniqueSigners). *)
Definition aggregate_commits (c : cfg) (msgs : list smsg) (full : option N) : option smsg :=
  match msgs with
  | [] => None
  | m0 :: tl =>
      if negb (forallb (same_signing_root m0) tl) then None else
      let k := co m0 in
      let signers := all_signers msgs in
      Some (SM {| c_type := c_type k; c_height := c_height k; c_round := c_round k; c_root := c_root k;
                  c_data_round := c_data_round k;
                  c_signers := if v_sort_agg (var c) then sort_n signers else signers;
                  c_full := full; c_sig_ok := forallb (fun m => c_sig_ok (co m)) msgs;
                  c_fmt_ok := c_fmt_ok k; c_ident := c_ident k |} (rcj m0) (pj m0))
  end.

(* UponCommit *)
Inductive commit_result := CNoQuorum | CAggError | CDecide (v : option N) (agg : smsg).
Definition upon_commit (c : cfg) (s : state) (m : smsg) : state * commit_result :=
  let '(ct, added) := cadd_first (s_commit s) m in
  if negb added then (s, CNoQuorum) else
  let s1 := set_commit s ct in
  let '(signers, msgs) := longest_unique ct (c_round (co m)) (c_root (co m)) in
  if quorum c <=? N.of_nat (length signers) then
    match s_acc s with
    | None => (s1, CAggError)    (* unreachable, see validate_commit *)
    | Some p =>
        match aggregate_commits c msgs (c_full (co p)) with
        | None => (s1, CAggError)
        | Some agg => (s1, CDecide (c_full (co p)) agg)
        end
    end
  else (s1, CNoQuorum).

(* getRoundChangeJustification + getRoundChangeData + CreateRoundChange *)
Definition create_round_change (c : cfg) (s : state) (new_round : N) : smsg :=
  if negb (s_lpr s =? NO_ROUND) && (match s_lpv s with Some _ => true | None => false end) then
    let root := hash (s_lpv s) in
    let just := filter (fun p => valid_prepare c p (s_height s) (s_lpr s) root) (cget (s_prep s) (s_lpr s)) in
    let just' := if has_quorum c just then just else [] in
    SM (own_core c T_ROUNDCHANGE (s_height s) new_round root (s_lpr s) (s_lpv s))
       (map without_full just') []
  else SM (own_core c T_ROUNDCHANGE (s_height s) new_round ZERO_ROOT NO_ROUND None) [] [].

(* minRound *)
Fixpoint min_round (ms : list smsg) (acc : N) : N :=
  match ms with
  | [] => acc
  | m :: tl => min_round tl (if (acc =? NO_ROUND) || (c_round (co m) <? acc) then c_round (co m) else acc)
  end.

(* isProposalJustificationForLeadingRound; None = panic in the leader computation *)
Definition justified_for_leading (c : cfg) (s : state) (rcm : smsg) (rcs : list smsg)
           (value : option N) (new_round : N) : option bool :=
  if negb (proposal_justified c (value_check c) (s_height s) rcs (rcj rcm) (s_height s)
                              (c_round (co rcm)) value) then Some false else
  match proposer c (s_height s) (c_round (co rcm)) with
  | None => None
  | Some ld =>
      if negb (ld =? me c) then Some false else
      Some ((match s_acc s with None => s_round s =? new_round | Some _ => false end)
            || (s_round s <? new_round))
  end.

(* hasReceivedProposalJustificationForLeadingRound: first justified round change, in arrival order *)
Fixpoint find_justified (c : cfg) (s : state) (trigger : smsg) (rcs all : list smsg)
  : option (option (smsg * option N)) :=
  match rcs with
  | [] => Some None
  | m :: tl =>
      let v := if rc_prepared (co m) then c_full (co trigger) else s_start s in
      match justified_for_leading c s m all v (c_round (co trigger)) with
      | None => None
      | Some true => Some (Some (m, v))
      | Some false => find_justified c s trigger tl all
      end
  end.

(* uponRoundChange; None = panic; the boolean as in upon_proposal *)
Definition upon_round_change (c : cfg) (s : state) (m : smsg) : option (state * list out * bool) :=
  let r := c_round (co m) in
  let before := has_quorum c (cget (s_rc s) r) in
  let '(ct, added) := cadd_first (s_rc s) m in
  if negb added then Some (s, [], true) else
  let s1 := set_rc s ct in
  if before then Some (s1, [], true) else
  let rcs := cget ct r in
  match (if has_quorum c rcs then find_justified c s1 m rcs rcs else Some None) with
  | None => None
  | Some (Some (jm, v)) =>
      Some (s1, [OBcast (create_proposal c s1 v (cget ct (s_round s1)) (rcj jm))], true)
  | Some None =>
      let future := filter (fun x => s_round s1 <? c_round (co x)) (call ct) in
      if has_partial_quorum c future then
        let nr := min_round future NO_ROUND in
        if nr <=? s_round s1 then Some (s1, [], true) else
        let s2 := set_acc (set_round s1 nr) None in
        if can_process s2
        then Some (s2, [OTimer (s_height s2) nr; OBcast (create_round_change c s2 nr)], true)
        else Some (s2, [OTimer (s_height s2) nr], false)
      else Some (s1, [], true)
  end.

(* ---- Instance.ProcessMsg / Start / UponRoundTimeout / Compact --------------------------------------- *)

Definition process_msg (c : cfg) (s : state) (m : smsg) : state * list out * presult :=
  if negb (can_process s) then (s, [], PErr) else
  match base_msg_validation c s m with
  | None => (s, [], PPanic)
  | Some false => (s, [], PErr)
  | Some true =>
      let ty := c_type (co m) in
      if ty =? T_PROPOSAL then
        let '(s', o, ok) := upon_proposal c s m in
        (s', o, if ok then POk (s_decided s') (s_dvalue s') None else PErr)
      else if ty =? T_PREPARE then
        let '(s', o) := upon_prepare c s m in (s', o, POk (s_decided s') (s_dvalue s') None)
      else if ty =? T_COMMIT then
        match upon_commit c s m with
        | (s', CDecide v agg) => let s'' := set_decided s' v in (s'', [], POk true v (Some agg))
        | (s', CAggError) => (s', [], PErr)
        | (s', CNoQuorum) => (s', [], POk (s_decided s') (s_dvalue s') None)
        end
      else
        match upon_round_change c s m with
        | None => (s, [], PPanic)
        | Some (s', o, ok) => (s', o, if ok then POk (s_decided s') (s_dvalue s') None else PErr)
        end
  end.

(* Instance.Start (startOnce).  A broadcast is dropped when CanProcessMessages is false. *)
Definition start (c : cfg) (s : state) (v : option N) (height : N) : option (state * list out) :=
  if s_started s then Some (s, []) else
  let s1 := set_start (set_round s FIRST_ROUND) height v in
  match proposer c height FIRST_ROUND with
  | None => None
  | Some ld =>
      Some (s1, OTimer height FIRST_ROUND ::
                (if (ld =? me c) && can_process s1 then [OBcast (create_proposal c s1 v [] [])] else []))
  end.

(* UponRoundTimeout: the round change is created with the old round's state, then the round is bumped *)
Definition upon_timeout (c : cfg) (s : state) : state * list out * bool :=
  if negb (can_process s) then (s, [], false) else
  let nr := s_round s + 1 in
  let rc := create_round_change c s nr in
  let s' := set_acc (set_round s nr) None in
  (s', [OBcast rc; OTimer (s_height s) nr], true).

(* instance.Compact *)
Definition compact (s : state) : state :=
  set_containers s
    (ccompact (s_prop s) (s_round s) (s_decided s))
    (ccompact (s_prep s) (s_lpr s) (s_decided s))
    (ccompact (s_commit s) (s_round s) false)
    (ccompact (s_rc s) (s_round s) (s_decided s)).

(* ---- operations on one instance ---------------------------------------------------------------------- *)

Inductive op :=
| OStart (v : option N)
| OMsg (m : smsg)
| OTimeout
| OCompact.

Inductive obs :=
| BStart (panic : bool) (o : list out)
| BMsg (r : presult) (o : list out)
| BTimeout (ok : bool) (o : list out)
| BCompact.

Definition step (c : cfg) (s : state) (o : op) : state * obs :=
  match o with
  | OStart v =>
      match start c s v (s_height s) with
      | None => (s, BStart true [])
      | Some (s', outs) => (s', BStart false outs)
      end
  | OMsg m => let '(s', outs, r) := process_msg c s m in (s', BMsg r outs)
  | OTimeout => let '(s', outs, ok) := upon_timeout c s in (s', BTimeout ok outs)
  | OCompact => (compact s, BCompact)
  end.

Fixpoint run (c : cfg) (s : state) (ops : list op) : state * list obs :=
  match ops with
  | [] => (s, [])
  | o :: tl => let '(s1, b) := step c s o in let '(s2, bs) := run c s1 tl in (s2, b :: bs)
  end.
