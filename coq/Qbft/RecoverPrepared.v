(* C07 (a), a second continuation proved for every committee: recovery when round 1 PREPARED a value and
   then stalled.  The leader of round 1 is correct and live; its proposal and the prepares of the live
   operators reached every live operator (so all of them are prepared on the leader's value v), but no
   commit was delivered.  The live operators time out; their round changes carry the preparation
   (round 1, v, the prepare quorum); the leader of round 2 must re-propose v, justified by the round
   changes and the prepares; everybody prepares and commits v in round 2 and decides v - the value
   that might already have been decided elsewhere in round 1.  For every committee of distinct non-zero
   ids, every quorum q <= |live|, every height and leaders. *)
From Coq Require Import List NArith ZArith Bool Lia Arith.
From SSV Require Import Qbft.Model Qbft.SyncRound Qbft.SyncGeneric Qbft.RecoverGeneric.
Import ListNotations.
Local Open Scope N_scope.

(* ---- containers of single-signer messages given by a function of the signer -------------------------- *)

Section OneRound.
  Variables (r : N) (f : N -> smsg).
  Hypothesis Hsig : forall j, c_signers (co (f j)) = [j].
  Hypothesis Hrd : forall j, c_round (co (f j)) = r.

  Definition contf (l : list N) : container := match l with [] => [] | _ => [(r, map f l)] end.

  Lemma all_signers_f : forall l, all_signers (map f l) = l.
  Proof.
    unfold all_signers. induction l as [|j tl IH]; [reflexivity|].
    cbn [map flat_map]. rewrite IH, Hsig. reflexivity.
  Qed.

  Lemma unique_count_f : forall l, NoDup l -> unique_count (map f l) = N.of_nat (length l).
  Proof. intros. unfold unique_count. rewrite all_signers_f, dedup_NoDup; auto. Qed.

  Lemma exists_matched_false : forall l j, ~ In j l ->
    existsb (fun e => matched_signers (c_signers (co e)) (c_signers (co (f j)))) (map f l) = false.
  Proof.
    intros l j Hn. apply not_true_is_false. intros H. apply existsb_exists in H. destruct H as [e [He Hm]].
    apply in_map_iff in He. destruct He as [x [<- Hx]]. rewrite !Hsig, matched_single in Hm.
    apply N.eqb_eq in Hm. subst. contradiction.
  Qed.

  (* adding to a container that holds other rounds in front *)
  Lemma cadd_first_after : forall (pre : container) l j,
    (forall e, In e pre -> fst e <> r) -> ~ In j l ->
    cadd_first (pre ++ contf l) (f j) = (pre ++ contf (l ++ [j]), true) /\
    cget (pre ++ contf l) r = map f l.
  Proof.
    intros pre l j Hpre Hn.
    assert (G : cget (pre ++ contf l) r = map f l).
    { induction pre as [|[r' m'] tl IH]; simpl.
      - destruct l; simpl; [reflexivity|]. rewrite N.eqb_refl. reflexivity.
      - assert (r' <> r) by (apply (Hpre (r', m')); left; reflexivity).
        destruct (r' =? r) eqn:E; [apply N.eqb_eq in E; contradiction|].
        apply IH. intros e He. apply Hpre. right. exact He. }
    split; [|exact G].
    unfold cadd_first. rewrite Hrd, G, (exists_matched_false l j Hn). f_equal. clear G.
    induction pre as [|[r' m'] tl IH]; simpl.
    - destruct l as [|x xs]; simpl; [reflexivity|]. rewrite N.eqb_refl, map_app. reflexivity.
    - assert (r' <> r) by (apply (Hpre (r', m')); left; reflexivity).
      destruct (r' =? r) eqn:E; [apply N.eqb_eq in E; contradiction|].
      f_equal. apply IH. intros e He. apply Hpre. right. exact He.
  Qed.
End OneRound.

Lemma cont_ne : forall h ty rt l, l <> [] -> cont h ty rt l = [(FIRST_ROUND, map (fmsg h ty rt) l)].
Proof. intros h ty rt l H. destruct l; [contradiction|reflexivity]. Qed.

Section RecoverPrepared.
  Variables (c : cfg) (h ld1 ld2 i : N) (live : list N).
  Hypothesis Hnz : ~ In 0 (committee c).
  Hypothesis Hlnd : NoDup live.
  Hypothesis Hlin : forall y, In y live -> In y (committee c).
  Hypothesis Hld1 : proposer c h FIRST_ROUND = Some ld1.
  Hypothesis Hl1 : In ld1 live.
  Hypothesis Hld2 : proposer c h R2 = Some ld2.
  Hypothesis Hl2 : In ld2 live.
  Hypothesis Hvc : value_check c (start_value ld1) = true.
  Hypothesis Hq1 : 1 <= quorum c.
  Hypothesis Hqn : quorum c <= N.of_nat (length live).
  Hypothesis Hpq : 1 <= partial_quorum c.

  Let ci := with_me c i.
  Let q := quorum c.
  Let v := start_value ld1.
  Let rt := hash v.
  Let P1 := msg_of c h T_PROPOSAL ld1 rt v.
  Let prep1 := fmsg h T_PREPARE rt.
  Let prep2 := fm2 h T_PREPARE rt.
  Let com2 := fm2 h T_COMMIT rt.

  (* the prepared round change of operator j, and what MarshalJustifications leaves of it *)
  Definition rcp (full : option N) (j : N) : smsg :=
    SM {| c_type := T_ROUNDCHANGE; c_height := h; c_round := R2; c_root := rt; c_data_round := FIRST_ROUND;
          c_signers := [j]; c_full := full; c_sig_ok := true; c_fmt_ok := true; c_ident := 0 |}
       (map prep1 live) [].

  Let Q := firstn (N.to_nat q) live.
  Let P2 := SM (own_core (with_me c ld2) T_PROPOSAL h R2 rt NO_ROUND v) (map (rcp None) Q) (map prep1 live).

  Definition stp (lrc : list N) (acc : bool) (lp lc : list N) : state :=
    let prepared2 := q <=? N.of_nat (length lp) in
    let dec := q <=? N.of_nat (length lc) in
    {| s_round := R2; s_height := h;
       s_lpr := if prepared2 then R2 else FIRST_ROUND; s_lpv := v;
       s_acc := if acc then Some P2 else None; s_decided := dec; s_dvalue := if dec then v else None;
       s_prop := (FIRST_ROUND, [P1]) :: (if acc then [(R2, [P2])] else []);
       s_prep := [(FIRST_ROUND, map prep1 live)] ++ contf R2 prep2 lp;
       s_commit := contf R2 com2 lc;
       s_rc := contf R2 (rcp v) lrc;
       s_start := start_value i; s_started := true; s_stopped := false |}.

  Lemma Hq : (q <=? N.of_nat (length live)) = true.
  Proof. apply N.leb_le. exact Hqn. Qed.

  Lemma q0 : (q <=? N.of_nat 0) = false.
  Proof. apply N.leb_gt. unfold q. simpl. lia. Qed.

  Lemma live_ne : live <> [].
  Proof. intros E. pose proof Hqn as H. rewrite E in H. simpl in H. unfold q in *. lia. Qed.

  Lemma sv1 : forall ty rt0 j full, In j (committee c) -> ty <= T_ROUNDCHANGE ->
    signed_validate {| c_type := ty; c_height := h; c_round := FIRST_ROUND; c_root := rt0; c_data_round := NO_ROUND;
        c_signers := [j]; c_full := full; c_sig_ok := true; c_fmt_ok := true; c_ident := 0 |} = true.
  Proof.
    intros ty rt0 j full Hj Hty. unfold signed_validate, message_validate. simpl.
    destruct j as [|pj]; [contradiction|]. simpl. apply N.leb_le. exact Hty.
  Qed.

  Lemma sigok : forall k, c_sig_ok k = true -> sig_check ci k = true.
  Proof. intros k H. unfold sig_check. destruct (v_verify (var ci)); auto. Qed.

  (* a round-1 prepare of a live operator is a valid justification *)
  Lemma prep1_valid : forall j, In j live -> valid_prepare ci (prep1 j) h FIRST_ROUND rt = true.
  Proof.
    intros j Hj. unfold valid_prepare, prep1, fmsg. cbn [co c_type c_height c_round c_root c_signers length Nat.eqb].
    rewrite (sv1 T_PREPARE rt j None (Hlin j Hj)) by (unfold T_PREPARE, T_ROUNDCHANGE; lia).
    rewrite !N.eqb_refl. rewrite sigok by reflexivity. reflexivity.
  Qed.

  Lemma prep1_all_valid : forallb (fun p => valid_prepare ci p h FIRST_ROUND rt) (map prep1 live) = true.
  Proof.
    apply forallb_forall. intros m Hm. apply in_map_iff in Hm. destruct Hm as [y [<- Hy]]. apply prep1_valid. exact Hy.
  Qed.

  Lemma filter_prep1 : filter (fun p => valid_prepare ci p h FIRST_ROUND rt) (map prep1 live) = map prep1 live.
  Proof.
    pose proof prep1_all_valid as F. revert F. generalize (map prep1 live). intros l.
    induction l as [|x tl IH]; simpl; intros F; [reflexivity|].
    apply andb_prop in F. destruct F as [F1 F2]. rewrite F1, IH; auto.
  Qed.

  Lemma quorum_prep1 : has_quorum ci (map prep1 live) = true.
  Proof.
    unfold has_quorum, prep1. rewrite (unique_count_fmsg h T_PREPARE rt live Hlnd). exact Hq.
  Qed.

  Lemma without_full_prep1 : map without_full (map prep1 live) = map prep1 live.
  Proof. generalize live. intros l. induction l as [|x tl IH]; simpl; [reflexivity|]. rewrite IH. reflexivity. Qed.

  (* the state in which round 1 ended: everybody prepared, no commit delivered (Qbft/SyncGeneric.v) *)
  Let s_end1 := st c h ld1 i v live [].

  Lemma step_timeout_prepared :
    step ci s_end1 OTimeout = (stp [] false [] [], BTimeout true [OBcast (rcp v i); OTimer h R2]).
  Proof.
    unfold step, upon_timeout. unfold s_end1, st. fold q. rewrite Hq. cbn [length]. rewrite !q0.
    unfold can_process. cbn [s_stopped s_round negb andb]. change (to_int FIRST_ROUND <? CUTOFF_ROUND)%Z with true. cbv iota.
    unfold create_round_change. cbn [s_lpr s_lpv s_height s_prep].
    change (negb (FIRST_ROUND =? NO_ROUND)) with true. unfold v at 1. cbn [start_value andb]. cbv iota.
    rewrite cget_cont. fold rt prep1.
    rewrite filter_prep1, quorum_prep1, without_full_prep1.
    cbn [negb]. cbv iota.
    unfold stp. cbn [length]. rewrite !q0.
    rewrite (cont_ne h T_PREPARE rt live live_ne).
    unfold v, start_value. reflexivity.
  Qed.

  Lemma rcp_sig : forall fl j, c_signers (co (rcp fl j)) = [j].
  Proof. reflexivity. Qed.
  Lemma rcp_round : forall fl j, c_round (co (rcp fl j)) = R2.
  Proof. reflexivity. Qed.

  Lemma sv_rcp : forall fl j, In j (committee c) -> signed_validate (co (rcp fl j)) = true.
  Proof.
    intros fl j Hj. unfold signed_validate, message_validate, rcp. simpl.
    destruct j as [|pj]; [contradiction|]. reflexivity.
  Qed.

  Lemma rcp_valid : forall fl j, In j (committee c) ->
    valid_round_change ci h (rcp fl j) h R2 v = true.
  Proof.
    intros fl j Hj. unfold valid_round_change, rcp.
    cbn [co c_type c_height c_round c_signers c_data_round c_root length Nat.eqb rcj].
    rewrite !N.eqb_refl. rewrite sigok by reflexivity.
    unfold message_validate, rc_prepared. cbn [c_fmt_ok c_type c_data_round].
    change (T_ROUNDCHANGE <=? T_ROUNDCHANGE) with true. change (T_ROUNDCHANGE =? T_ROUNDCHANGE) with true.
    change (negb (FIRST_ROUND =? NO_ROUND)) with true. cbn [andb]. cbv iota.
    rewrite prep1_all_valid, quorum_prep1. reflexivity.
  Qed.

  Lemma without_full_rcp : forall l, map without_full (map (rcp v) l) = map (rcp None) l.
  Proof. induction l as [|x tl IH]; simpl; [reflexivity|]. rewrite IH. reflexivity. Qed.

  Lemma highest_prepared_rcp : forall fl l best,
    highest_prepared (map (rcp fl) l) (Some (rcp fl best)) = Some (rcp fl best).
  Proof. induction l as [|x tl IH]; intros best; simpl; [reflexivity|]. apply IH. Qed.

  (* the justification test on a quorum of prepared round changes re-proposing v *)
  Lemma justified_prepared : forall fl all,
    NoDup all -> (forall y, In y all -> In y (committee c)) -> (q <=? N.of_nat (length all)) = true ->
    proposal_justified ci (value_check ci) h (map (rcp fl) all) (map prep1 live) h R2 v = true.
  Proof.
    intros fl all Hnd Hin Hqa. unfold proposal_justified.
    change (value_check ci v) with (value_check c v). unfold v at 1. rewrite Hvc. cbn [andb].
    change (R2 =? FIRST_ROUND) with false. cbv iota.
    assert (F : forallb (fun rc => valid_round_change ci h rc h R2 v) (map (rcp fl) all) = true).
    { apply forallb_forall. intros m Hm. apply in_map_iff in Hm. destruct Hm as [y [<- Hy]].
      apply rcp_valid. apply Hin. exact Hy. }
    rewrite F. unfold has_quorum at 1.
    rewrite (unique_count_f (rcp fl) (rcp_sig fl) all Hnd). change (quorum ci) with q. rewrite Hqa. cbn [andb].
    destruct all as [|x tl].
    - exfalso. cbn [length] in Hqa. rewrite q0 in Hqa. discriminate.
    - cbn [map existsb]. change (rc_prepared (co (rcp fl x))) with true. cbn [orb]. cbv iota.
      rewrite quorum_prep1. cbn [andb highest_prepared]. change (rc_prepared (co (rcp fl x))) with true. cbv iota.
      rewrite highest_prepared_rcp.
      change (c_root (co (rcp fl x))) with rt. change (c_data_round (co (rcp fl x))) with FIRST_ROUND.
      fold rt. rewrite N.eqb_refl, prep1_all_valid. reflexivity.
  Qed.

  Lemma find_justified_prepared : forall (s : state) trigger sub all,
    NoDup all -> (forall y, In y all -> In y (committee c)) -> (q <=? N.of_nat (length all)) = true ->
    s_height s = h -> s_acc s = None -> s_round s = R2 ->
    c_round (co trigger) = R2 -> c_full (co trigger) = v ->
    find_justified ci s trigger (map (rcp v) sub) (map (rcp v) all) =
    if ld2 =? i then match sub with
                     | [] => Some None
                     | x :: _ => Some (Some (rcp v x, v))
                     end
    else Some None.
  Proof.
    intros s trigger sub all Hnd Hin Hqa Hh Hacc Hr Htr Htf.
    induction sub as [|x tl IH].
    - simpl. destruct (ld2 =? i); reflexivity.
    - cbn [map find_justified]. change (rc_prepared (co (rcp v x))) with true. cbv iota.
      unfold justified_for_leading. rewrite Hh, Htf.
      change (rcj (rcp v x)) with (map prep1 live). change (c_round (co (rcp v x))) with R2.
      rewrite (justified_prepared v all Hnd Hin Hqa). cbn [negb].
      change (proposer ci h R2) with (proposer c h R2). rewrite Hld2. change (me ci) with i.
      destruct (ld2 =? i) eqn:E; cbn [negb].
      + rewrite Hacc, Hr, Htr. rewrite N.eqb_refl. reflexivity.
      + exact IH.
  Qed.

  Lemma can_r2 : forall s, s_stopped s = false -> s_round s = R2 -> can_process s = true.
  Proof. intros s H1 H2. unfold can_process. rewrite H1, H2. reflexivity. Qed.

  Lemma contf_as_pre : forall (r0 : N) (g : N -> smsg) l, contf r0 g l = [] ++ contf r0 g l.
  Proof. reflexivity. Qed.

  Lemma filter_future_rcp : forall l, filter (fun x => R2 <? c_round (co x)) (map (rcp v) l) = [].
  Proof. induction l as [|x tl IH]; simpl; [reflexivity|exact IH]. Qed.

  Lemma call_contf : forall r0 (g : N -> smsg) l, call (contf r0 g l) = map g l.
  Proof. intros. destruct l; simpl; [reflexivity|]. rewrite app_nil_r. reflexivity. Qed.

  (* the proposal the leader builds at the quorum *)
  Definition prop2p (who : N) (l : list N) : smsg :=
    SM (own_core (with_me c who) T_PROPOSAL h R2 rt NO_ROUND v) (map (rcp None) l) (map prep1 live).

  (* one prepared round change *)
  Lemma step_rcp : forall lrc j,
    In j (committee c) -> NoDup lrc -> (forall y, In y lrc -> In y (committee c)) -> ~ In j lrc ->
    exists r,
    step ci (stp lrc false [] []) (OMsg (rcp v j)) =
    (stp (lrc ++ [j]) false [] [],
     BMsg r (if (ld2 =? i) && negb (q <=? N.of_nat (length lrc)) && (q <=? N.of_nat (length (lrc ++ [j])))
             then [OBcast (prop2p i (lrc ++ [j]))] else [])).
  Proof.
    intros lrc j Hj Hnd Hin Hn. unfold step, process_msg.
    rewrite (can_r2 (stp lrc false [] [])) by reflexivity. cbn [negb].
    unfold base_msg_validation. rewrite (sv_rcp v j Hj). cbn [negb].
    change (c_round (co (rcp v j))) with R2. change (s_round (stp lrc false [] [])) with R2. rewrite N.ltb_irrefl.
    change (c_type (co (rcp v j))) with T_ROUNDCHANGE.
    change (T_ROUNDCHANGE =? T_PROPOSAL) with false. change (T_ROUNDCHANGE =? T_PREPARE) with false.
    change (T_ROUNDCHANGE =? T_COMMIT) with false. cbv beta iota. rewrite N.eqb_refl.
    change (s_height (stp lrc false [] [])) with h. change (c_full (co (rcp v j))) with v.
    rewrite (rcp_valid v j Hj).
    unfold upon_round_change.
    change (c_round (co (rcp v j))) with R2.
    change (s_rc (stp lrc false [] [])) with (contf R2 (rcp v) lrc).
    rewrite (contf_as_pre R2 (rcp v) lrc).
    destruct (cadd_first_after R2 (rcp v) (rcp_sig v) (rcp_round v) [] lrc j (fun e He => match He with end) Hn) as [Hadd Hget].
    rewrite Hget, Hadd. cbn [app].
    unfold has_quorum at 1. rewrite (unique_count_f (rcp v) (rcp_sig v) lrc Hnd). change (quorum ci) with q.
    cbn [negb].
    assert (Hnd' : NoDup (lrc ++ [j])) by (apply NoDup_app_one; assumption).
    assert (Hin' : forall y, In y (lrc ++ [j]) -> In y (committee c)).
    { intros y Hy. apply in_app_or in Hy. destruct Hy as [Hy|[<-|[]]]; auto. }
    assert (Est : set_rc (stp lrc false [] []) (contf R2 (rcp v) (lrc ++ [j])) = stp (lrc ++ [j]) false [] []) by reflexivity.
    rewrite Est.
    destruct (q <=? N.of_nat (length lrc)) eqn:Eb.
    - rewrite andb_false_r. cbn [andb]. eexists. reflexivity.
    - assert (Hget' : cget (contf R2 (rcp v) (lrc ++ [j])) R2 = map (rcp v) (lrc ++ [j])).
      { destruct (lrc ++ [j]) eqn:El; [destruct lrc; discriminate|]. simpl. reflexivity. }
      rewrite Hget'. unfold has_quorum. rewrite (unique_count_f (rcp v) (rcp_sig v) (lrc ++ [j]) Hnd'). change (quorum ci) with q.
      change (s_rc (stp (lrc ++ [j]) false [] [])) with (contf R2 (rcp v) (lrc ++ [j])).
      assert (Hnone : forall r0,
        (let future := filter (fun x => s_round (stp (lrc ++ [j]) false [] []) <? c_round (co x))
                         (call (contf R2 (rcp v) (lrc ++ [j]))) in
         if has_partial_quorum ci future then r0 else Some (stp (lrc ++ [j]) false [] [], @nil out, true))
        = Some (stp (lrc ++ [j]) false [] [], [], true)).
      { intros r0. cbv zeta. rewrite call_contf. change (s_round (stp (lrc ++ [j]) false [] [])) with R2.
        rewrite filter_future_rcp. unfold has_partial_quorum, unique_count. simpl.
        assert (E : (partial_quorum c <=? 0) = false) by (apply N.leb_gt; lia).
        change (partial_quorum ci) with (partial_quorum c). rewrite E. reflexivity. }
      destruct (q <=? N.of_nat (length (lrc ++ [j]))) eqn:Ea.
      + rewrite (find_justified_prepared (stp (lrc ++ [j]) false [] []) (rcp v j) (lrc ++ [j]) (lrc ++ [j]) Hnd' Hin' Ea
                  eq_refl eq_refl eq_refl eq_refl eq_refl).
        destruct (ld2 =? i) eqn:E; cbn [andb negb].
        * destruct (lrc ++ [j]) as [|x tl] eqn:El; [destruct lrc; discriminate|].
          rewrite <- El. rewrite <- El in Hget'. eexists. f_equal. f_equal. f_equal.
          unfold create_proposal, prop2p.
          change (s_round (stp (lrc ++ [j]) false [] [])) with R2.
          change (s_height (stp (lrc ++ [j]) false [] [])) with h.
          rewrite Hget', without_full_rcp.
          change (rcj (rcp v x)) with (map prep1 live). rewrite without_full_prep1. reflexivity.
        * rewrite Hnone. eexists. reflexivity.
      + rewrite andb_false_r. rewrite Hnone. eexists. reflexivity.
  Qed.

  Lemma Q_facts_p : NoDup Q /\ (forall y, In y Q -> In y (committee c)) /\ (q <=? N.of_nat (length Q)) = true.
  Proof.
    unfold Q. split; [|split].
    - apply NoDup_firstn. exact Hlnd.
    - intros y Hy. apply Hlin. eapply in_firstn_in. exact Hy.
    - apply N.leb_le. rewrite firstn_length_le; [lia|]. unfold q. lia.
  Qed.

  Lemma sv_P2p : signed_validate (co P2) = true.
  Proof. apply (sv2 c h Hnz T_PROPOSAL rt ld2 v (Hlin ld2 Hl2)). unfold T_PROPOSAL, T_ROUNDCHANGE. lia. Qed.

  Lemma valid_proposal_P2p : forall lrc, valid_proposal ci (stp lrc false [] []) P2 = Some true.
  Proof.
    intros lrc. unfold valid_proposal.
    change (c_type (co P2)) with T_PROPOSAL. change (c_height (co P2)) with h.
    change (s_height (stp lrc false [] [])) with h. change (c_signers (co P2)) with [ld2].
    change (c_round (co P2)) with R2. change (c_full (co P2)) with v. change (c_root (co P2)) with rt.
    rewrite !N.eqb_refl. cbn [negb length Nat.eqb].
    rewrite sigok by reflexivity. cbn [negb].
    change (proposer ci h R2) with (proposer c h R2). rewrite Hld2.
    rewrite matched_single, N.eqb_refl. cbn [negb]. rewrite sv_P2p. cbn [negb].
    change (rcj P2) with (map (rcp None) Q). change (pj P2) with (map prep1 live).
    destruct Q_facts_p as [A [B0 C]].
    rewrite (justified_prepared None Q A B0 C). cbn [negb]. reflexivity.
  Qed.

  Lemma step_proposal2p : forall lrc,
    step ci (stp lrc false [] []) (OMsg P2) =
    (stp lrc true [] [], BMsg (POk false None None) [OBcast (prep2 i)]).
  Proof.
    intros lrc. unfold step, process_msg.
    rewrite (can_r2 (stp lrc false [] [])) by reflexivity. cbn [negb].
    unfold base_msg_validation. rewrite sv_P2p. cbn [negb].
    change (c_round (co P2) <? s_round (stp lrc false [] [])) with (R2 <? R2). rewrite N.ltb_irrefl.
    change (c_type (co P2)) with T_PROPOSAL. rewrite N.eqb_refl.
    rewrite valid_proposal_P2p.
    unfold upon_proposal. change (s_prop (stp lrc false [] [])) with [(FIRST_ROUND, [P1])].
    unfold cadd_first. change (c_round (co P2)) with R2. cbn [cget]. change (FIRST_ROUND =? R2) with false. cbv iota.
    cbn [existsb cput negb]. change (FIRST_ROUND =? R2) with false. cbv iota.
    change (s_round (stp lrc false [] [])) with R2. rewrite N.ltb_irrefl.
    rewrite can_r2 by reflexivity.
    unfold stp. cbn [length]. rewrite !q0. reflexivity.
  Qed.

  Lemma pre1_not_r2 : forall e, In e [(FIRST_ROUND, map prep1 live)] -> fst e <> R2.
  Proof. intros e [<-|[]]. simpl. discriminate. Qed.

  (* one prepare of round 2 *)
  Lemma step_prepare2p : forall lrc lp j,
    In j (committee c) -> NoDup lp -> ~ In j lp ->
    step ci (stp lrc true lp []) (OMsg (prep2 j)) =
    (stp lrc true (lp ++ [j]) [],
     BMsg (POk false None None)
          (if negb (q <=? N.of_nat (length lp)) && (q <=? N.of_nat (length (lp ++ [j])))
           then [OBcast (com2 i)] else [])).
  Proof.
    intros lrc lp j Hj Hlp Hn. unfold step, process_msg.
    rewrite (can_r2 (stp lrc true lp [])) by reflexivity. cbn [negb].
    unfold base_msg_validation.
    change (co (prep2 j)) with
      {| c_type := T_PREPARE; c_height := h; c_round := R2; c_root := rt; c_data_round := NO_ROUND;
         c_signers := [j]; c_full := None; c_sig_ok := true; c_fmt_ok := true; c_ident := 0 |}.
    rewrite (sv2 c h Hnz T_PREPARE rt j None Hj) by (unfold T_PREPARE, T_ROUNDCHANGE; lia).
    cbn [negb c_round c_type]. change (s_round (stp lrc true lp [])) with R2. rewrite N.ltb_irrefl.
    change (T_PREPARE =? T_PROPOSAL) with false. cbv beta iota. rewrite N.eqb_refl.
    change (s_acc (stp lrc true lp [])) with (Some P2). change (s_height (stp lrc true lp [])) with h.
    assert (Hvp : valid_prepare ci (prep2 j) h R2 (c_root (co P2)) = true).
    { unfold valid_prepare.
      change (co (prep2 j)) with
        {| c_type := T_PREPARE; c_height := h; c_round := R2; c_root := rt; c_data_round := NO_ROUND;
           c_signers := [j]; c_full := None; c_sig_ok := true; c_fmt_ok := true; c_ident := 0 |}.
      rewrite (sv2 c h Hnz T_PREPARE rt j None Hj) by (unfold T_PREPARE, T_ROUNDCHANGE; lia).
      cbn [c_type c_height c_round c_root c_signers length Nat.eqb].
      change (c_root (co P2)) with rt. rewrite !N.eqb_refl.
      rewrite sigok by reflexivity. reflexivity. }
    cbv beta iota. rewrite Hvp.
    unfold upon_prepare.
    change (s_prep (stp lrc true lp [])) with ([(FIRST_ROUND, map prep1 live)] ++ contf R2 prep2 lp).
    change (s_round (stp lrc true lp [])) with R2. change (s_acc (stp lrc true lp [])) with (Some P2).
    destruct (cadd_first_after R2 prep2 (fun x => eq_refl) (fun x => eq_refl) [(FIRST_ROUND, map prep1 live)] lp j pre1_not_r2 Hn) as [Hadd Hget].
    rewrite Hget, Hadd. unfold has_quorum at 1. rewrite (unique_count_f prep2 (fun x => eq_refl) lp Hlp).
    cbn [negb]. change (quorum ci) with q.
    assert (Hnd' : NoDup (lp ++ [j])) by (apply NoDup_app_one; assumption).
    assert (Hn' : ~ In j (lp ++ [j]) -> False) by (intros X; apply X; apply in_or_app; right; left; reflexivity).
    assert (Hget' : cget ([(FIRST_ROUND, map prep1 live)] ++ contf R2 prep2 (lp ++ [j])) R2 = map prep2 (lp ++ [j])).
    { cbn [app cget]. change (FIRST_ROUND =? R2) with false. cbv iota.
      destruct (lp ++ [j]) eqn:El; [destruct lp; discriminate|]. simpl. reflexivity. }
    destruct (q <=? N.of_nat (length lp)) eqn:Eb.
    - assert (Ea : (q <=? N.of_nat (length (lp ++ [j]))) = true).
      { apply N.leb_le. apply N.leb_le in Eb. rewrite app_length. simpl. lia. }
      cbn [negb andb].
      unfold set_prep, set_containers, stp. cbn [s_round s_height s_lpr s_lpv s_acc s_decided s_dvalue s_prop s_prep s_commit s_rc s_start s_started s_stopped length].
      rewrite Ea, Eb, q0. reflexivity.
    - cbn [negb andb]. rewrite Hget'. unfold has_quorum. rewrite (unique_count_f prep2 (fun x => eq_refl) (lp ++ [j]) Hnd').
      change (quorum ci) with q.
      destruct (q <=? N.of_nat (length (lp ++ [j]))) eqn:Ea; cbn [negb].
      + unfold set_prepared, set_prep, set_containers, stp, create_commit.
        cbn [s_round s_height s_lpr s_lpv s_acc s_decided s_dvalue s_prop s_prep s_commit s_rc s_start s_started s_stopped length].
        rewrite Ea, q0. reflexivity.
      + unfold set_prep, set_containers, stp.
        cbn [s_round s_height s_lpr s_lpv s_acc s_decided s_dvalue s_prop s_prep s_commit s_rc s_start s_started s_stopped length].
        rewrite Ea, Eb, q0. reflexivity.
  Qed.

  (* one commit of round 2 *)
  Lemma step_commit2p : forall lrc lp lc j,
    In j (committee c) -> NoDup lc -> ~ In j lc ->
    exists r, step ci (stp lrc true lp lc) (OMsg (com2 j)) = (stp lrc true lp (lc ++ [j]), BMsg r []).
  Proof.
    intros lrc lp lc j Hj Hlc Hn. unfold step, process_msg.
    rewrite (can_r2 (stp lrc true lp lc)) by reflexivity. cbn [negb].
    unfold base_msg_validation.
    change (co (com2 j)) with
      {| c_type := T_COMMIT; c_height := h; c_round := R2; c_root := rt; c_data_round := NO_ROUND;
         c_signers := [j]; c_full := None; c_sig_ok := true; c_fmt_ok := true; c_ident := 0 |}.
    rewrite (sv2 c h Hnz T_COMMIT rt j None Hj) by (unfold T_COMMIT, T_ROUNDCHANGE; lia).
    cbn [negb c_round c_type]. change (s_round (stp lrc true lp lc)) with R2. rewrite N.ltb_irrefl.
    change (T_COMMIT =? T_PROPOSAL) with false. change (T_COMMIT =? T_PREPARE) with false. cbv beta iota.
    rewrite N.eqb_refl.
    change (s_acc (stp lrc true lp lc)) with (Some P2). change (s_height (stp lrc true lp lc)) with h.
    assert (Hvc' : validate_commit ci (com2 j) h R2 P2 = true).
    { unfold validate_commit, base_commit_validation.
      change (co (com2 j)) with
        {| c_type := T_COMMIT; c_height := h; c_round := R2; c_root := rt; c_data_round := NO_ROUND;
           c_signers := [j]; c_full := None; c_sig_ok := true; c_fmt_ok := true; c_ident := 0 |}.
      rewrite (sv2 c h Hnz T_COMMIT rt j None Hj) by (unfold T_COMMIT, T_ROUNDCHANGE; lia).
      cbn [c_type c_height c_round c_root c_signers length Nat.eqb].
      change (c_root (co P2)) with rt. rewrite !N.eqb_refl.
      rewrite sigok by reflexivity. reflexivity. }
    cbv beta iota. rewrite Hvc'.
    unfold upon_commit. change (s_commit (stp lrc true lp lc)) with (cont2 h T_COMMIT rt lc).
    unfold com2. rewrite (cadd_first_cont2 h T_COMMIT rt lc j Hn). cbn [negb].
    change (c_round (co (fm2 h T_COMMIT rt j))) with R2.
    change (c_root (co (fm2 h T_COMMIT rt j))) with rt.
    assert (Hnd' : NoDup (lc ++ [j])) by (apply NoDup_app_one; assumption).
    assert (Hne : lc ++ [j] <> []) by (destruct lc; discriminate).
    rewrite (longest_unique_cont2 h T_COMMIT rt (lc ++ [j]) Hnd' Hne).
    change (quorum ci) with q. change (s_acc (stp lrc true lp lc)) with (Some P2).
    destruct (q <=? N.of_nat (length (lc ++ [j]))) eqn:Ea.
    - destruct (aggregate_fm2 ci h T_COMMIT rt (lc ++ [j]) (c_full (co P2)) Hne) as [agg Hagg]. rewrite Hagg.
      change (c_full (co P2)) with v.
      eexists. f_equal.
      unfold set_decided, set_commit, set_containers, stp.
      cbn [s_round s_height s_lpr s_lpv s_acc s_decided s_dvalue s_prop s_prep s_commit s_rc s_start s_started s_stopped].
      rewrite Ea. reflexivity.
    - assert (Eb : (q <=? N.of_nat (length lc)) = false).
      { apply N.leb_gt. apply N.leb_gt in Ea. rewrite app_length in Ea. simpl in Ea. lia. }
      eexists. f_equal.
      unfold set_commit, set_containers, stp.
      cbn [s_round s_height s_lpr s_lpv s_acc s_decided s_dvalue s_prop s_prep s_commit s_rc s_start s_started s_stopped].
      rewrite Ea, Eb. reflexivity.
  Qed.

  Lemma split_done : forall (done rest : list N) x,
    NoDup (done ++ x :: rest) -> NoDup done /\ ~ In x done /\ NoDup ((done ++ [x]) ++ rest).
  Proof.
    intros done rest x H. split; [eapply NoDup_app_l; exact H|]. split.
    - intros Hc. apply NoDup_remove_2 in H. apply H. apply in_or_app. left. exact Hc.
    - rewrite <- app_assoc. exact H.
  Qed.

  Lemma run_rcps : forall rest done,
    NoDup (done ++ rest) -> (forall y, In y (done ++ rest) -> In y (committee c)) ->
    exists bs,
      run ci (stp done false [] []) (map (fun j => OMsg (rcp v j)) rest) = (stp (done ++ rest) false [] [], bs) /\
      bcasts bs = if (ld2 =? i) && negb (q <=? N.of_nat (length done)) && (q <=? N.of_nat (length (done ++ rest)))
                  then [prop2p i (firstn (N.to_nat q) (done ++ rest))] else [].
  Proof.
    induction rest as [|x tl IH]; intros done Hnd0 Hin0.
    - simpl. exists []. rewrite app_nil_r. split; [reflexivity|].
      destruct (q <=? N.of_nat (length done)); rewrite ?andb_false_r; reflexivity.
    - assert (Hx : In x (committee c)) by (apply Hin0; apply in_or_app; right; left; reflexivity).
      destruct (split_done done tl x Hnd0) as [Hd [Hxd Hnd2]].
      assert (Hdin : forall y, In y done -> In y (committee c)).
      { intros y Hy. apply Hin0. apply in_or_app. left. exact Hy. }
      assert (Hin2 : forall y, In y ((done ++ [x]) ++ tl) -> In y (committee c)).
      { intros y Hy. apply Hin0. rewrite <- app_assoc in Hy. exact Hy. }
      destruct (IH (done ++ [x]) Hnd2 Hin2) as [bs [Hrun Hb]].
      destruct (step_rcp done x Hx Hd Hdin Hxd) as [r Hstep].
      cbn [map run]. rewrite Hstep, Hrun.
      eexists. split; [rewrite <- app_assoc; reflexivity|].
      unfold bcasts. cbn [flat_map]. fold (bcasts bs). rewrite Hb. unfold outs_of.
      assert (L1 : N.of_nat (length (done ++ [x])) = N.of_nat (length done) + 1).
      { rewrite app_length. simpl. lia. }
      assert (L2 : N.of_nat (length ((done ++ [x]) ++ tl)) = N.of_nat (length done) + 1 + N.of_nat (length tl)).
      { rewrite !app_length. simpl. lia. }
      assert (L3 : N.of_nat (length (done ++ x :: tl)) = N.of_nat (length done) + 1 + N.of_nat (length tl)).
      { rewrite !app_length. simpl. lia. }
      rewrite L1, L2, L3. rewrite <- (app_assoc done [x] tl). cbn [app].
      destruct (ld2 =? i); cbn [andb]; [|reflexivity].
      destruct (N.leb_spec q (N.of_nat (length done))) as [A|A];
      destruct (N.leb_spec q (N.of_nat (length done) + 1)) as [B0|B0];
      destruct (N.leb_spec q (N.of_nat (length done) + 1 + N.of_nat (length tl))) as [C|C];
      cbn [negb andb flat_map app]; try reflexivity; try lia.
      assert (Hq' : N.to_nat q = length (done ++ [x])).
      { rewrite app_length. simpl. lia. }
      rewrite Hq'. replace (done ++ x :: tl) with ((done ++ [x]) ++ tl) by (rewrite <- app_assoc; reflexivity).
      rewrite firstn_exact. reflexivity.
  Qed.

  Lemma run_prepares2p : forall rest lrc done,
    NoDup (done ++ rest) -> (forall y, In y rest -> In y (committee c)) ->
    exists bs,
      run ci (stp lrc true done []) (map (fun j => OMsg (prep2 j)) rest) = (stp lrc true (done ++ rest) [], bs) /\
      bcasts bs = if negb (q <=? N.of_nat (length done)) && (q <=? N.of_nat (length (done ++ rest)))
                  then [com2 i] else [].
  Proof.
    induction rest as [|x tl IH]; intros lrc done Hnd0 Hin0.
    - simpl. exists []. rewrite app_nil_r. split; [reflexivity|].
      destruct (q <=? N.of_nat (length done)); reflexivity.
    - assert (Hx : In x (committee c)) by (apply Hin0; left; reflexivity).
      assert (Htl : forall y, In y tl -> In y (committee c)) by (intros y Hy; apply Hin0; right; exact Hy).
      destruct (split_done done tl x Hnd0) as [Hd [Hxd Hnd2]].
      destruct (IH lrc (done ++ [x]) Hnd2 Htl) as [bs [Hrun Hb]].
      cbn [map run]. rewrite (step_prepare2p lrc done x Hx Hd Hxd). rewrite Hrun.
      eexists. split; [rewrite <- app_assoc; reflexivity|].
      unfold bcasts. cbn [flat_map]. fold (bcasts bs). rewrite Hb. unfold outs_of.
      assert (L1 : N.of_nat (length (done ++ [x])) = N.of_nat (length done) + 1).
      { rewrite app_length. simpl. lia. }
      assert (L2 : N.of_nat (length ((done ++ [x]) ++ tl)) = N.of_nat (length done) + 1 + N.of_nat (length tl)).
      { rewrite !app_length. simpl. lia. }
      assert (L3 : N.of_nat (length (done ++ x :: tl)) = N.of_nat (length done) + 1 + N.of_nat (length tl)).
      { rewrite !app_length. simpl. lia. }
      rewrite L1, L2, L3.
      destruct (N.leb_spec q (N.of_nat (length done))) as [A|A];
      destruct (N.leb_spec q (N.of_nat (length done) + 1)) as [B0|B0];
      destruct (N.leb_spec q (N.of_nat (length done) + 1 + N.of_nat (length tl))) as [C|C];
      cbn [negb andb flat_map app]; try reflexivity; lia.
  Qed.

  Lemma run_commits2p : forall rest lrc lp done,
    NoDup (done ++ rest) -> (forall y, In y rest -> In y (committee c)) ->
    exists bs,
      run ci (stp lrc true lp done) (map (fun j => OMsg (com2 j)) rest) = (stp lrc true lp (done ++ rest), bs) /\
      bcasts bs = [].
  Proof.
    induction rest as [|x tl IH]; intros lrc lp done Hnd0 Hin0.
    - simpl. exists []. rewrite app_nil_r. split; reflexivity.
    - assert (Hx : In x (committee c)) by (apply Hin0; left; reflexivity).
      assert (Htl : forall y, In y tl -> In y (committee c)) by (intros y Hy; apply Hin0; right; exact Hy).
      destruct (split_done done tl x Hnd0) as [Hd [Hxd Hnd2]].
      destruct (IH lrc lp (done ++ [x]) Hnd2 Htl) as [bs [Hrun Hb]].
      destruct (step_commit2p lrc lp done x Hx Hd Hxd) as [r Hstep].
      cbn [map run]. rewrite Hstep, Hrun.
      eexists. split; [rewrite <- app_assoc; reflexivity|].
      unfold bcasts. cbn [flat_map]. fold (bcasts bs). rewrite Hb. reflexivity.
  Qed.

  (* the second half of the execution: from the end of round 1 to the decision in round 2 *)
  Lemma recover_prepared_run :
    exists bs,
      run ci s_end1
        (OTimeout ::
         map (fun j => OMsg (rcp v j)) live ++
         OMsg P2 ::
         map (fun j => OMsg (prep2 j)) live ++
         map (fun j => OMsg (com2 j)) live)
      = (stp live true live live, bs) /\
      bcasts bs = [rcp v i] ++ (if ld2 =? i then [P2] else []) ++ [prep2 i; com2 i].
  Proof.
    destruct (run_rcps live [] Hlnd Hlin) as [b1 [R1 B1]].
    destruct (run_prepares2p live live [] Hlnd Hlin) as [b2 [R2' B2]].
    destruct (run_commits2p live live live [] Hlnd Hlin) as [b3 [R3 B3]].
    simpl app in R1, R2', R3, B1, B2.
    cbn [run]. rewrite step_timeout_prepared.
    rewrite run_app, R1. cbn [run]. rewrite step_proposal2p. rewrite run_app, R2', R3.
    eexists. split; [reflexivity|].
    cbn [length] in B1, B2. rewrite q0, Hq in B1, B2. cbn [negb andb] in B1, B2. rewrite andb_true_r in B1.
    unfold bcasts at 1. cbn [flat_map]. fold (bcasts (b1 ++ BMsg (POk false None None) [OBcast (prep2 i)] :: b2 ++ b3)).
    rewrite bcasts_app. unfold bcasts at 2. cbn [flat_map]. fold (bcasts (b2 ++ b3)).
    rewrite bcasts_app, B1, B2, B3. unfold outs_of. cbn [flat_map app]. rewrite ?app_nil_r.
    destruct (ld2 =? i) eqn:E; cbn [app flat_map]; [|reflexivity].
    apply N.eqb_eq in E. unfold P2, prop2p, Q. rewrite E. reflexivity.
  Qed.
End RecoverPrepared.

(* the whole schedule of operator i and what it is expected to broadcast *)
Definition prepared_ops (c : cfg) (h ld1 ld2 : N) (live : list N) (i : N) : list op :=
  let v := start_value ld1 in
  let rt := hash v in
  let Q := firstn (N.to_nat (quorum c)) live in
  (OStart (start_value i) :: OMsg (msg_of c h T_PROPOSAL ld1 rt v) ::
   map (fun j => OMsg (fmsg h T_PREPARE rt j)) live) ++
  (OTimeout ::
   map (fun j => OMsg (rcp h ld1 live v j)) live ++
   OMsg (prop2p c h ld1 live ld2 Q) ::
   map (fun j => OMsg (fm2 h T_PREPARE rt j)) live ++
   map (fun j => OMsg (fm2 h T_COMMIT rt j)) live).

Definition prepared_bcasts (c : cfg) (h ld1 ld2 : N) (live : list N) (i : N) : list smsg :=
  let v := start_value ld1 in
  let rt := hash v in
  let Q := firstn (N.to_nat (quorum c)) live in
  ((if i =? ld1 then [msg_of c h T_PROPOSAL ld1 rt v] else []) ++
   [fmsg h T_PREPARE rt i; fmsg h T_COMMIT rt i]) ++
  [rcp h ld1 live v i] ++
  (if ld2 =? i then [prop2p c h ld1 live ld2 Q] else []) ++
  [fm2 h T_PREPARE rt i; fm2 h T_COMMIT rt i].

(* Round 1 prepared the leader's value at every live operator and then stalled (no commit delivered);
   with timely delivery of round changes, the re-proposal, prepares and commits every live operator
   decides THAT value in round 2.  What each operator broadcasts is what the schedule delivers. *)
Theorem recover_prepared_round : forall (c : cfg) (h ld1 ld2 : N) (live : list N),
  NoDup (committee c) -> ~ In 0 (committee c) -> NoDup live -> (forall y, In y live -> In y (committee c)) ->
  proposer c h FIRST_ROUND = Some ld1 -> In ld1 live ->
  proposer c h R2 = Some ld2 -> In ld2 live ->
  value_check c (start_value ld1) = true ->
  1 <= quorum c -> quorum c <= N.of_nat (length live) -> 1 <= partial_quorum c ->
  forall i, In i live ->
  exists s bs,
    run (with_me c i) (new_instance h) (prepared_ops c h ld1 ld2 live i) = (s, bs) /\
    s_decided s = true /\ s_dvalue s = start_value ld1 /\ s_round s = R2 /\
    bcasts bs = prepared_bcasts c h ld1 ld2 live i.
Proof.
  intros c h ld1 ld2 live Hnd Hnz Hlnd Hlin Hld1 Hl1 Hld2 Hl2 Hvc Hq1 Hqn Hpq i Hi.
  assert (Hqc : quorum c <= N.of_nat (length (committee c))).
  { assert (length live <= length (committee c))%nat by (apply NoDup_incl_length; [exact Hlnd|exact Hlin]). lia. }
  destruct (run_prepares c h ld1 i (start_value ld1) Hnz Hq1 Hqc live [] Hlnd Hlin) as [b1 [R1 B1]].
  destruct (recover_prepared_run c h ld1 ld2 i live Hnz Hlnd Hlin Hld2 Hl2 Hvc Hq1 Hqn Hpq) as [b2 [R2' B2]].
  simpl app in R1, B1.
  assert (First : run (with_me c i) (new_instance h)
            (OStart (start_value i) :: OMsg (msg_of c h T_PROPOSAL ld1 (hash (start_value ld1)) (start_value ld1)) ::
             map (fun j => OMsg (fmsg h T_PREPARE (hash (start_value ld1)) j)) live) =
          (st c h ld1 i (start_value ld1) live [],
           BStart false (OTimer h FIRST_ROUND ::
              (if ld1 =? i then [OBcast (msg_of c h T_PROPOSAL i (hash (start_value i)) (start_value i))] else [])) ::
           BMsg (POk false None None) [OBcast (fmsg h T_PREPARE (hash (start_value ld1)) i)] :: b1)).
  { cbn [run]. rewrite (step_start c h ld1 i Hld1).
    rewrite (step_proposal c h ld1 i (start_value ld1) Hnz Hld1 Hvc Hq1 Hqc). rewrite R1. reflexivity. }
  unfold prepared_ops. cbv zeta. rewrite run_app, First. unfold prop2p. rewrite R2'.
  eexists. eexists. split; [reflexivity|].
  assert (Hq : (quorum c <=? N.of_nat (length live)) = true) by (apply N.leb_le; exact Hqn).
  unfold stp. cbn [s_decided s_dvalue s_round]. rewrite Hq.
  repeat split; try reflexivity.
  rewrite bcasts_app. unfold bcasts at 1. cbn [flat_map]. fold (bcasts b1).
  rewrite B1, B2. cbn [length]. unfold outs_of.
  assert (Hq0 : (quorum c <=? N.of_nat 0) = false) by (apply N.leb_gt; simpl; lia).
  rewrite Hq0, Hq. cbn [negb andb flat_map app].
  unfold prepared_bcasts, prop2p. cbv zeta. rewrite (N.eqb_sym i ld1).
  destruct (ld1 =? i) eqn:E.
  - apply N.eqb_eq in E. cbn [flat_map app]. rewrite <- E. reflexivity.
  - reflexivity.
Qed.
