(* C07 (a), one continuation proved for every committee: recovery from a silent first round.
   Up to n - quorum operators (the leader of round 1 among them, or not) are silent; no proposal of
   round 1 is delivered.  The live operators time out, their round changes reach every live operator
   (in the order of [live]), the leader of round 2 - a live one - proposes its own start value with
   the round changes it held when the quorum formed, then everybody's prepare and everybody's commit
   are delivered.  Every live operator decides the round-2 leader's value in round 2, and the messages
   the schedule delivers are exactly the messages the operators broadcast. *)
From Coq Require Import List NArith ZArith Bool Lia Arith.
From SSV Require Import Qbft.Model Qbft.SyncRound Qbft.SyncGeneric.
Import ListNotations.
Local Open Scope N_scope.

Definition R2 : N := 2.

(* single-signer message of round 2 *)
Definition fm2 (h ty rt : N) (j : N) : smsg :=
  SM {| c_type := ty; c_height := h; c_round := R2; c_root := rt; c_data_round := NO_ROUND;
        c_signers := [j]; c_full := None; c_sig_ok := true; c_fmt_ok := true; c_ident := 0 |} [] [].

Definition rcm (h : N) : N -> smsg := fm2 h T_ROUNDCHANGE ZERO_ROOT.

Definition cont2 (h ty rt : N) (l : list N) : container :=
  match l with [] => [] | _ => [(R2, map (fm2 h ty rt) l)] end.

Lemma all_signers_fm2 : forall h ty rt l, all_signers (map (fm2 h ty rt) l) = l.
Proof.
  unfold all_signers. induction l as [|j tl IH]; [reflexivity|].
  cbn [map flat_map]. rewrite IH. reflexivity.
Qed.

Lemma unique_count_fm2 : forall h ty rt l, NoDup l -> unique_count (map (fm2 h ty rt) l) = N.of_nat (length l).
Proof. intros. unfold unique_count. rewrite all_signers_fm2, dedup_NoDup; auto. Qed.

Lemma cget_cont2 : forall h ty rt l, cget (cont2 h ty rt l) R2 = map (fm2 h ty rt) l.
Proof. intros. destruct l; simpl; reflexivity. Qed.

Lemma cadd_first_cont2 : forall h ty rt l j,
  ~ In j l ->
  cadd_first (cont2 h ty rt l) (fm2 h ty rt j) = (cont2 h ty rt (l ++ [j]), true).
Proof.
  intros h ty rt l j Hn. unfold cadd_first. simpl c_round. rewrite cget_cont2.
  assert (E : existsb (fun e => matched_signers (c_signers (co e)) (c_signers (co (fm2 h ty rt j))))
                (map (fm2 h ty rt) l) = false).
  { apply not_true_is_false. intros H. apply existsb_exists in H. destruct H as [e [He Hm]].
    apply in_map_iff in He. destruct He as [x [<- Hx]]. simpl in Hm. rewrite matched_single in Hm.
    apply N.eqb_eq in Hm. subst. contradiction. }
  rewrite E. f_equal. destruct l as [|x tl]; simpl; [reflexivity|].
  rewrite map_app. reflexivity.
Qed.

Lemma greedy_all2 : forall h ty rt l signers msgs,
  NoDup l -> (forall x, In x l -> ~ In x signers) ->
  greedy rt (map (fm2 h ty rt) l) signers msgs = (signers ++ l, msgs ++ map (fm2 h ty rt) l).
Proof.
  induction l as [|x tl IH]; intros signers msgs Hnd Hdis; simpl.
  - rewrite !app_nil_r. reflexivity.
  - rewrite N.eqb_refl. simpl. unfold common_signers. simpl.
    rewrite (mem_false x signers) by (apply Hdis; left; reflexivity). simpl.
    inversion Hnd; subst. rewrite IH.
    + rewrite <- !app_assoc. reflexivity.
    + assumption.
    + intros y Hy Hin. apply in_app_or in Hin. destruct Hin as [Hin|[Hin|[]]].
      * apply (Hdis y); [right; exact Hy|exact Hin].
      * subst. contradiction.
Qed.

Lemma longest_from_keep2 : forall h ty rt l best,
  NoDup l -> (length l <= length (fst best))%nat ->
  longest_from rt (map (fm2 h ty rt) l) best = best.
Proof.
  induction l as [|x tl IH]; intros best Hnd Hle; simpl; [reflexivity|].
  rewrite N.eqb_refl. simpl. inversion Hnd; subst.
  rewrite greedy_all2; [|assumption|intros y Hy [Hin|[]]; subst; contradiction].
  simpl fst. simpl length.
  assert (E : Nat.ltb (length (fst best)) (S (length tl)) = false).
  { apply Nat.ltb_ge. simpl in Hle. lia. }
  rewrite E. apply IH; [assumption|]. simpl in Hle. lia.
Qed.

Lemma longest_unique_cont2 : forall h ty rt l,
  NoDup l -> l <> [] ->
  longest_unique (cont2 h ty rt l) R2 rt = (l, map (fm2 h ty rt) l).
Proof.
  intros h ty rt l Hnd Hne. unfold longest_unique. rewrite cget_cont2.
  destruct l as [|x tl]; [contradiction|]. simpl. rewrite N.eqb_refl. simpl.
  inversion Hnd; subst.
  rewrite greedy_all2; [|assumption|intros y Hy [Hin|[]]; subst; contradiction].
  simpl. apply longest_from_keep2; [assumption|]. simpl. lia.
Qed.

Lemma aggregate_fm2 : forall c h ty rt l full, l <> [] ->
  exists agg, aggregate_commits c (map (fm2 h ty rt) l) full = Some agg.
Proof.
  intros c h ty rt l full Hne. destruct l as [|x tl]; [contradiction|]. simpl.
  assert (E : forallb (same_signing_root (fm2 h ty rt x)) (map (fm2 h ty rt) tl) = true).
  { apply forallb_forall. intros m Hm. apply in_map_iff in Hm. destruct Hm as [y [<- _]].
    unfold same_signing_root. simpl. rewrite !N.eqb_refl. reflexivity. }
  rewrite E. simpl. eexists. reflexivity.
Qed.

Lemma in_firstn_in : forall (A : Type) n (l : list A) x, In x (firstn n l) -> In x l.
Proof.
  induction n as [|n IH]; intros l x H; simpl in H; [contradiction|].
  destruct l as [|y tl]; [contradiction|]. destruct H as [<-|H]; [left; reflexivity|right; apply IH; exact H].
Qed.

Lemma NoDup_firstn : forall n (l : list N), NoDup l -> NoDup (firstn n l).
Proof.
  induction n as [|n IH]; intros l H; simpl; [constructor|].
  destruct l as [|y tl]; [constructor|]. inversion H; subst. constructor.
  - intros Hin. apply H2. eapply in_firstn_in. exact Hin.
  - apply IH. assumption.
Qed.

Section Recover.
  Variables (c : cfg) (h ld1 ld2 i : N) (live : list N).
  Hypothesis Hnz : ~ In 0 (committee c).
  Hypothesis Hlnd : NoDup live.
  Hypothesis Hlin : forall y, In y live -> In y (committee c).
  Hypothesis Hld1 : proposer c h FIRST_ROUND = Some ld1.
  Hypothesis Hld2 : proposer c h R2 = Some ld2.
  Hypothesis Hl2 : In ld2 live.
  Hypothesis Hvc : value_check c (start_value ld2) = true.
  Hypothesis Hq1 : 1 <= quorum c.
  Hypothesis Hqn : quorum c <= N.of_nat (length live).
  Hypothesis Hpq : 1 <= partial_quorum c.

  Let ci := with_me c i.
  Let q := quorum c.
  Let v := start_value ld2.
  Let rt := hash v.

  (* the proposal a leader builds from the round changes of the signers in l *)
  Definition prop2 (who : N) (l : list N) : smsg :=
    SM (own_core (with_me c who) T_PROPOSAL h R2 (hash (start_value who)) NO_ROUND (start_value who))
       (map (rcm h) l) [].

  Let P2 := prop2 ld2 (firstn (N.to_nat q) live).

  Definition st2 (lrc : list N) (acc : bool) (lp lc : list N) : state :=
    let prepared := q <=? N.of_nat (length lp) in
    let dec := q <=? N.of_nat (length lc) in
    {| s_round := R2; s_height := h;
       s_lpr := if prepared then R2 else NO_ROUND; s_lpv := if prepared then v else None;
       s_acc := if acc then Some P2 else None; s_decided := dec; s_dvalue := if dec then v else None;
       s_prop := if acc then [(R2, [P2])] else [];
       s_prep := cont2 h T_PREPARE rt lp; s_commit := cont2 h T_COMMIT rt lc;
       s_rc := cont2 h T_ROUNDCHANGE ZERO_ROOT lrc;
       s_start := start_value i; s_started := true; s_stopped := false |}.

  Let s1 := set_start (set_round (new_instance h) FIRST_ROUND) h (start_value i).

  Lemma q_gt0' : (q <=? N.of_nat 0) = false.
  Proof. apply N.leb_gt. unfold q. simpl. lia. Qed.

  Lemma sv2 : forall ty rt0 j full, In j (committee c) -> ty <= T_ROUNDCHANGE ->
    signed_validate {| c_type := ty; c_height := h; c_round := R2; c_root := rt0; c_data_round := NO_ROUND;
        c_signers := [j]; c_full := full; c_sig_ok := true; c_fmt_ok := true; c_ident := 0 |} = true.
  Proof.
    intros ty rt0 j full Hj Hty. unfold signed_validate, message_validate. simpl.
    destruct j as [|pj]; [contradiction|]. simpl. apply N.leb_le. exact Hty.
  Qed.

  Lemma sig_ok : forall k, c_sig_ok k = true -> sig_check ci k = true.
  Proof. intros k H. unfold sig_check. destruct (v_verify (var ci)); auto. Qed.

  Lemma can_process_r2 : forall s, s_stopped s = false -> s_round s = R2 -> can_process s = true.
  Proof. intros s H1 H2. unfold can_process. rewrite H1, H2. reflexivity. Qed.

  Lemma step_start2 :
    step ci (new_instance h) (OStart (start_value i)) =
    (s1, BStart false (OTimer h FIRST_ROUND ::
                       (if ld1 =? i then [OBcast (msg_of c h T_PROPOSAL i (hash (start_value i)) (start_value i))] else []))).
  Proof.
    unfold step, start. simpl s_started. simpl s_height.
    change (proposer ci h FIRST_ROUND) with (proposer c h FIRST_ROUND). rewrite Hld1.
    simpl me. destruct (ld1 =? i); reflexivity.
  Qed.

  Lemma step_timeout :
    step ci s1 OTimeout = (st2 [] false [] [], BTimeout true [OBcast (rcm h i); OTimer h R2]).
  Proof.
    unfold step, upon_timeout. unfold st2. cbn [length]. rewrite !q_gt0'. reflexivity.
  Qed.

  Lemma rcm_valid : forall sh j, In j (committee c) ->
    valid_round_change ci sh (rcm h j) h R2 (start_value ld2) = true /\
    forall full, valid_round_change ci sh (rcm h j) h R2 full = true.
  Proof.
    intros sh j Hj.
    assert (G : forall full, valid_round_change ci sh (rcm h j) h R2 full = true).
    { intros full. unfold valid_round_change, rcm, fm2. cbn [co c_type c_height c_round c_signers length Nat.eqb].
      rewrite !N.eqb_refl. rewrite sig_ok by reflexivity.
      unfold message_validate, rc_prepared. simpl. reflexivity. }
    split; apply G.
  Qed.

  Lemma without_full_rcm : forall l, map without_full (map (rcm h) l) = map (rcm h) l.
  Proof. induction l as [|x tl IH]; simpl; [reflexivity|]. rewrite IH. reflexivity. Qed.

  Lemma no_prepared_rcm : forall l, existsb (fun rc => rc_prepared (co rc)) (map (rcm h) l) = false.
  Proof. induction l as [|x tl IH]; simpl; [reflexivity|exact IH]. Qed.

  (* the justification test on a quorum of unprepared round changes *)
  Lemma justified_rcs : forall all full,
    NoDup all -> (forall y, In y all -> In y (committee c)) -> (q <=? N.of_nat (length all)) = true ->
    proposal_justified ci (value_check ci) h (map (rcm h) all) [] h R2 full = value_check c full.
  Proof.
    intros all full Hnd Hin Hq. unfold proposal_justified.
    change (value_check ci full) with (value_check c full).
    destruct (value_check c full); [|reflexivity]. cbn [andb].
    change (R2 =? FIRST_ROUND) with false. cbv iota.
    rewrite no_prepared_rcm.
    assert (F : forallb (fun rc => valid_round_change ci h rc h R2 full) (map (rcm h) all) = true).
    { apply forallb_forall. intros m Hm. apply in_map_iff in Hm. destruct Hm as [y [<- Hy]].
      apply rcm_valid. apply Hin. exact Hy. }
    rewrite F. unfold has_quorum. unfold rcm. rewrite unique_count_fm2 by exact Hnd.
    change (quorum ci) with q. rewrite Hq. reflexivity.
  Qed.

  (* hasReceivedProposalJustificationForLeadingRound over the round changes of [sub] *)
  Lemma find_justified_rcs : forall (s : state) trigger sub all,
    NoDup all -> (forall y, In y all -> In y (committee c)) -> (q <=? N.of_nat (length all)) = true ->
    s_height s = h -> s_start s = start_value i -> s_acc s = None -> s_round s = R2 ->
    c_round (co trigger) = R2 ->
    find_justified ci s trigger (map (rcm h) sub) (map (rcm h) all) =
    if ld2 =? i then match sub with
                     | [] => Some None
                     | x :: _ => Some (Some (rcm h x, start_value i))
                     end
    else Some None.
  Proof.
    intros s trigger sub all Hnd Hin Hq Hh Hst Hacc Hr Htr.
    induction sub as [|x tl IH].
    - simpl. destruct (ld2 =? i); reflexivity.
    - cbn [map find_justified]. change (rc_prepared (co (rcm h x))) with false. cbv iota.
      unfold justified_for_leading. rewrite Hh, Hst.
      change (rcj (rcm h x)) with (@nil smsg). change (c_round (co (rcm h x))) with R2.
      rewrite (justified_rcs all (start_value i) Hnd Hin Hq).
      change (proposer ci h R2) with (proposer c h R2). rewrite Hld2. change (me ci) with i.
      destruct (ld2 =? i) eqn:E.
      + apply N.eqb_eq in E. rewrite <- E. fold v. unfold v. rewrite Hvc. cbn [negb].
        rewrite Hacc, Hr, Htr. rewrite N.eqb_refl. reflexivity.
      + destruct (value_check c (start_value i)); cbn [negb]; exact IH.
  Qed.

  Lemma filter_future_none : forall l,
    filter (fun x => R2 <? c_round (co x)) (map (rcm h) l) = [].
  Proof. induction l as [|x tl IH]; simpl; [reflexivity|exact IH]. Qed.

  Lemma call_cont2 : forall ty rt0 l, call (cont2 h ty rt0 l) = map (fm2 h ty rt0) l.
  Proof. intros. destruct l; simpl; [reflexivity|]. rewrite app_nil_r. reflexivity. Qed.

  (* one round change *)
  Lemma step_rc : forall lrc j,
    In j (committee c) -> NoDup lrc -> (forall y, In y lrc -> In y (committee c)) -> ~ In j lrc ->
    exists r,
    step ci (st2 lrc false [] []) (OMsg (rcm h j)) =
    (st2 (lrc ++ [j]) false [] [],
     BMsg r (if (ld2 =? i) && negb (q <=? N.of_nat (length lrc)) && (q <=? N.of_nat (length (lrc ++ [j])))
             then [OBcast (prop2 i (lrc ++ [j]))] else [])).
  Proof.
    intros lrc j Hj Hnd Hin Hn. unfold step, process_msg.
    rewrite (can_process_r2 (st2 lrc false [] [])) by reflexivity. cbn [negb].
    unfold base_msg_validation.
    change (co (rcm h j)) with
      {| c_type := T_ROUNDCHANGE; c_height := h; c_round := R2; c_root := ZERO_ROOT; c_data_round := NO_ROUND;
         c_signers := [j]; c_full := None; c_sig_ok := true; c_fmt_ok := true; c_ident := 0 |}.
    rewrite (sv2 T_ROUNDCHANGE ZERO_ROOT j None Hj) by (unfold T_ROUNDCHANGE; lia).
    cbn [negb c_round c_type c_full]. change (s_round (st2 lrc false [] [])) with R2. rewrite N.ltb_irrefl.
    change (T_ROUNDCHANGE =? T_PROPOSAL) with false. change (T_ROUNDCHANGE =? T_PREPARE) with false.
    change (T_ROUNDCHANGE =? T_COMMIT) with false. cbv beta iota. rewrite N.eqb_refl.
    change (s_height (st2 lrc false [] [])) with h.
    destruct (rcm_valid h j Hj) as [_ Hv]. rewrite (Hv None).
    unfold upon_round_change.
    change (c_round (co (rcm h j))) with R2.
    change (s_rc (st2 lrc false [] [])) with (cont2 h T_ROUNDCHANGE ZERO_ROOT lrc).
    rewrite cget_cont2. unfold has_quorum at 1. rewrite unique_count_fm2 by exact Hnd.
    change (quorum ci) with q.
    unfold rcm at 1. rewrite (cadd_first_cont2 h T_ROUNDCHANGE ZERO_ROOT lrc j Hn). cbn [negb].
    assert (Hnd' : NoDup (lrc ++ [j])) by (apply NoDup_app_one; assumption).
    assert (Hin' : forall y, In y (lrc ++ [j]) -> In y (committee c)).
    { intros y Hy. apply in_app_or in Hy. destruct Hy as [Hy|[<-|[]]]; auto. }
    assert (Est : set_rc (st2 lrc false [] []) (cont2 h T_ROUNDCHANGE ZERO_ROOT (lrc ++ [j])) = st2 (lrc ++ [j]) false [] []).
    { reflexivity. }
    rewrite Est.
    destruct (q <=? N.of_nat (length lrc)) eqn:Eb.
    - (* quorum reached earlier *)
      rewrite andb_false_r. cbn [andb]. eexists. reflexivity.
    - rewrite cget_cont2. unfold has_quorum. rewrite unique_count_fm2 by exact Hnd'. change (quorum ci) with q.
      change (s_rc (st2 (lrc ++ [j]) false [] [])) with (cont2 h T_ROUNDCHANGE ZERO_ROOT (lrc ++ [j])).
      assert (Hnone : forall r0,
        (let future := filter (fun x => s_round (st2 (lrc ++ [j]) false [] []) <? c_round (co x))
                         (call (cont2 h T_ROUNDCHANGE ZERO_ROOT (lrc ++ [j]))) in
         if has_partial_quorum ci future then r0 else Some (st2 (lrc ++ [j]) false [] [], @nil out, true))
        = Some (st2 (lrc ++ [j]) false [] [], [], true)).
      { intros r0. cbv zeta. rewrite call_cont2. change (s_round (st2 (lrc ++ [j]) false [] [])) with R2.
        fold (rcm h). rewrite filter_future_none. unfold has_partial_quorum, unique_count. simpl.
        assert (E : (partial_quorum c <=? 0) = false) by (apply N.leb_gt; lia).
        change (partial_quorum ci) with (partial_quorum c). rewrite E. reflexivity. }
      destruct (q <=? N.of_nat (length (lrc ++ [j]))) eqn:Ea.
      + pose proof (find_justified_rcs (st2 (lrc ++ [j]) false [] []) (rcm h j) (lrc ++ [j]) (lrc ++ [j]) Hnd' Hin' Ea
                      eq_refl eq_refl eq_refl eq_refl eq_refl) as FJ.
        unfold rcm in FJ |- *. rewrite FJ. clear FJ.
        destruct (ld2 =? i) eqn:E; cbn [andb negb].
        * destruct (lrc ++ [j]) as [|x tl] eqn:El; [destruct lrc; discriminate|].
          rewrite <- El. eexists. f_equal. f_equal. f_equal.
          unfold create_proposal, prop2.
          change (s_round (st2 (lrc ++ [j]) false [] [])) with R2.
          change (s_height (st2 (lrc ++ [j]) false [] [])) with h.
          rewrite cget_cont2. pose proof (without_full_rcm (lrc ++ [j])) as W. unfold rcm in W. rewrite W. reflexivity.
        * unfold rcm in Hnone. rewrite Hnone. eexists. reflexivity.
      + rewrite andb_false_r. unfold rcm in Hnone |- *. rewrite Hnone. eexists. reflexivity.
  Qed.

  Let Q := firstn (N.to_nat q) live.

  Lemma Q_facts : NoDup Q /\ (forall y, In y Q -> In y (committee c)) /\ (q <=? N.of_nat (length Q)) = true.
  Proof.
    unfold Q. split; [|split].
    - apply NoDup_firstn. exact Hlnd.
    - intros y Hy. apply Hlin. eapply in_firstn_in. exact Hy.
    - apply N.leb_le. rewrite firstn_length_le; [lia|]. unfold q. lia.
  Qed.

  Lemma sv_P2 : signed_validate (co P2) = true.
  Proof. apply (sv2 T_PROPOSAL rt ld2 (Some (100 + ld2)) (Hlin ld2 Hl2)). unfold T_PROPOSAL, T_ROUNDCHANGE. lia. Qed.

  Lemma valid_proposal_P2 : forall lrc, valid_proposal ci (st2 lrc false [] []) P2 = Some true.
  Proof.
    intros lrc. unfold valid_proposal.
    change (c_type (co P2)) with T_PROPOSAL. change (c_height (co P2)) with h.
    change (s_height (st2 lrc false [] [])) with h. change (c_signers (co P2)) with [ld2].
    change (c_round (co P2)) with R2. change (c_full (co P2)) with v. change (c_root (co P2)) with rt.
    rewrite !N.eqb_refl. cbn [negb length Nat.eqb].
    rewrite sig_ok by reflexivity. cbn [negb].
    change (proposer ci h R2) with (proposer c h R2). rewrite Hld2.
    rewrite matched_single, N.eqb_refl. cbn [negb]. rewrite sv_P2. cbn [negb].
    change (rcj P2) with (map (rcm h) Q). change (pj P2) with (@nil smsg).
    destruct Q_facts as [A [B0 C]].
    rewrite (justified_rcs Q v A B0 C). unfold v. rewrite Hvc. cbn [negb].
    reflexivity.
  Qed.

  Lemma step_proposal2 : forall lrc,
    step ci (st2 lrc false [] []) (OMsg P2) =
    (st2 lrc true [] [], BMsg (POk false None None) [OBcast (fm2 h T_PREPARE rt i)]).
  Proof.
    intros lrc. unfold step, process_msg.
    rewrite (can_process_r2 (st2 lrc false [] [])) by reflexivity. cbn [negb].
    unfold base_msg_validation. rewrite sv_P2. cbn [negb].
    change (c_round (co P2) <? s_round (st2 lrc false [] [])) with (R2 <? R2). rewrite N.ltb_irrefl.
    change (c_type (co P2)) with T_PROPOSAL. rewrite N.eqb_refl.
    rewrite valid_proposal_P2.
    unfold upon_proposal. change (s_prop (st2 lrc false [] [])) with (@nil (N * list smsg)).
    unfold cadd_first. cbn [cget existsb cput negb].
    change (c_round (co P2)) with R2. change (s_round (st2 lrc false [] [])) with R2. rewrite N.ltb_irrefl.
    rewrite can_process_r2 by reflexivity.
    unfold st2. cbn [length]. rewrite !q_gt0'. reflexivity.
  Qed.

  (* one prepare of round 2 *)
  Lemma step_prepare2 : forall lrc lp j,
    In j (committee c) -> NoDup lp -> ~ In j lp ->
    step ci (st2 lrc true lp []) (OMsg (fm2 h T_PREPARE rt j)) =
    (st2 lrc true (lp ++ [j]) [],
     BMsg (POk false None None)
          (if negb (q <=? N.of_nat (length lp)) && (q <=? N.of_nat (length (lp ++ [j])))
           then [OBcast (fm2 h T_COMMIT rt i)] else [])).
  Proof.
    intros lrc lp j Hj Hlp Hn. unfold step, process_msg.
    rewrite (can_process_r2 (st2 lrc true lp [])) by reflexivity. cbn [negb].
    unfold base_msg_validation.
    change (co (fm2 h T_PREPARE rt j)) with
      {| c_type := T_PREPARE; c_height := h; c_round := R2; c_root := rt; c_data_round := NO_ROUND;
         c_signers := [j]; c_full := None; c_sig_ok := true; c_fmt_ok := true; c_ident := 0 |}.
    rewrite (sv2 T_PREPARE rt j None Hj) by (unfold T_PREPARE, T_ROUNDCHANGE; lia).
    cbn [negb c_round c_type]. change (s_round (st2 lrc true lp [])) with R2. rewrite N.ltb_irrefl.
    change (T_PREPARE =? T_PROPOSAL) with false. cbv beta iota. rewrite N.eqb_refl.
    change (s_acc (st2 lrc true lp [])) with (Some P2). change (s_height (st2 lrc true lp [])) with h.
    assert (Hvp : valid_prepare ci (fm2 h T_PREPARE rt j) h R2 (c_root (co P2)) = true).
    { unfold valid_prepare.
      change (co (fm2 h T_PREPARE rt j)) with
        {| c_type := T_PREPARE; c_height := h; c_round := R2; c_root := rt; c_data_round := NO_ROUND;
           c_signers := [j]; c_full := None; c_sig_ok := true; c_fmt_ok := true; c_ident := 0 |}.
      rewrite (sv2 T_PREPARE rt j None Hj) by (unfold T_PREPARE, T_ROUNDCHANGE; lia).
      cbn [c_type c_height c_round c_root c_signers length Nat.eqb].
      change (c_root (co P2)) with rt. rewrite !N.eqb_refl.
      rewrite sig_ok by reflexivity. reflexivity. }
    cbv beta iota. rewrite Hvp.
    unfold upon_prepare. change (s_prep (st2 lrc true lp [])) with (cont2 h T_PREPARE rt lp).
    change (s_round (st2 lrc true lp [])) with R2. change (s_acc (st2 lrc true lp [])) with (Some P2).
    rewrite cget_cont2. unfold has_quorum at 1. rewrite unique_count_fm2 by exact Hlp.
    rewrite (cadd_first_cont2 h T_PREPARE rt lp j Hn). cbn [negb].
    change (quorum ci) with q.
    assert (Hnd' : NoDup (lp ++ [j])) by (apply NoDup_app_one; assumption).
    destruct (q <=? N.of_nat (length lp)) eqn:Eb.
    - assert (Ea : (q <=? N.of_nat (length (lp ++ [j]))) = true).
      { apply N.leb_le. apply N.leb_le in Eb. rewrite app_length. simpl. lia. }
      cbn [negb andb].
      unfold set_prep, set_containers, st2. cbn [s_round s_height s_lpr s_lpv s_acc s_decided s_dvalue s_prop s_prep s_commit s_rc s_start s_started s_stopped length].
      rewrite Ea, Eb, q_gt0'. reflexivity.
    - cbn [negb andb]. rewrite cget_cont2. unfold has_quorum. rewrite unique_count_fm2 by exact Hnd'.
      change (quorum ci) with q.
      destruct (q <=? N.of_nat (length (lp ++ [j]))) eqn:Ea; cbn [negb].
      + unfold set_prepared, set_prep, set_containers, st2, create_commit.
        cbn [s_round s_height s_lpr s_lpv s_acc s_decided s_dvalue s_prop s_prep s_commit s_rc s_start s_started s_stopped length].
        rewrite Ea, q_gt0'. reflexivity.
      + unfold set_prep, set_containers, st2.
        cbn [s_round s_height s_lpr s_lpv s_acc s_decided s_dvalue s_prop s_prep s_commit s_rc s_start s_started s_stopped length].
        rewrite Ea, Eb, q_gt0'. reflexivity.
  Qed.

  (* one commit of round 2 *)
  Lemma step_commit2 : forall lrc lp lc j,
    In j (committee c) -> NoDup lc -> ~ In j lc ->
    exists r, step ci (st2 lrc true lp lc) (OMsg (fm2 h T_COMMIT rt j)) = (st2 lrc true lp (lc ++ [j]), BMsg r []).
  Proof.
    intros lrc lp lc j Hj Hlc Hn. unfold step, process_msg.
    rewrite (can_process_r2 (st2 lrc true lp lc)) by reflexivity. cbn [negb].
    unfold base_msg_validation.
    change (co (fm2 h T_COMMIT rt j)) with
      {| c_type := T_COMMIT; c_height := h; c_round := R2; c_root := rt; c_data_round := NO_ROUND;
         c_signers := [j]; c_full := None; c_sig_ok := true; c_fmt_ok := true; c_ident := 0 |}.
    rewrite (sv2 T_COMMIT rt j None Hj) by (unfold T_COMMIT, T_ROUNDCHANGE; lia).
    cbn [negb c_round c_type]. change (s_round (st2 lrc true lp lc)) with R2. rewrite N.ltb_irrefl.
    change (T_COMMIT =? T_PROPOSAL) with false. change (T_COMMIT =? T_PREPARE) with false. cbv beta iota.
    rewrite N.eqb_refl.
    change (s_acc (st2 lrc true lp lc)) with (Some P2). change (s_height (st2 lrc true lp lc)) with h.
    assert (Hvc' : validate_commit ci (fm2 h T_COMMIT rt j) h R2 P2 = true).
    { unfold validate_commit, base_commit_validation.
      change (co (fm2 h T_COMMIT rt j)) with
        {| c_type := T_COMMIT; c_height := h; c_round := R2; c_root := rt; c_data_round := NO_ROUND;
           c_signers := [j]; c_full := None; c_sig_ok := true; c_fmt_ok := true; c_ident := 0 |}.
      rewrite (sv2 T_COMMIT rt j None Hj) by (unfold T_COMMIT, T_ROUNDCHANGE; lia).
      cbn [c_type c_height c_round c_root c_signers length Nat.eqb].
      change (c_root (co P2)) with rt. rewrite !N.eqb_refl.
      rewrite sig_ok by reflexivity. reflexivity. }
    cbv beta iota. rewrite Hvc'.
    unfold upon_commit. change (s_commit (st2 lrc true lp lc)) with (cont2 h T_COMMIT rt lc).
    rewrite (cadd_first_cont2 h T_COMMIT rt lc j Hn). cbn [negb].
    change (c_round (co (fm2 h T_COMMIT rt j))) with R2.
    change (c_root (co (fm2 h T_COMMIT rt j))) with rt.
    assert (Hnd' : NoDup (lc ++ [j])) by (apply NoDup_app_one; assumption).
    assert (Hne : lc ++ [j] <> []) by (destruct lc; discriminate).
    rewrite (longest_unique_cont2 h T_COMMIT rt (lc ++ [j]) Hnd' Hne).
    change (quorum ci) with q. change (s_acc (st2 lrc true lp lc)) with (Some P2).
    destruct (q <=? N.of_nat (length (lc ++ [j]))) eqn:Ea.
    - destruct (aggregate_fm2 ci h T_COMMIT rt (lc ++ [j]) (c_full (co P2)) Hne) as [agg Hagg]. rewrite Hagg.
      change (c_full (co P2)) with v.
      eexists. f_equal.
      unfold set_decided, set_commit, set_containers, st2.
      cbn [s_round s_height s_lpr s_lpv s_acc s_decided s_dvalue s_prop s_prep s_commit s_rc s_start s_started s_stopped].
      rewrite Ea. reflexivity.
    - assert (Eb : (q <=? N.of_nat (length lc)) = false).
      { apply N.leb_gt. apply N.leb_gt in Ea. rewrite app_length in Ea. simpl in Ea. lia. }
      eexists. f_equal.
      unfold set_commit, set_containers, st2.
      cbn [s_round s_height s_lpr s_lpv s_acc s_decided s_dvalue s_prop s_prep s_commit s_rc s_start s_started s_stopped].
      rewrite Ea, Eb. reflexivity.
  Qed.

  Lemma firstn_exact : forall (A : Type) (l1 l2 : list A), firstn (length l1) (l1 ++ l2) = l1.
  Proof.
    intros A l1 l2. rewrite firstn_app, Nat.sub_diag, firstn_all. simpl. apply app_nil_r.
  Qed.

  (* the round changes of [rest] after those of [done] *)
  Lemma run_rcs : forall rest done,
    NoDup (done ++ rest) -> (forall y, In y (done ++ rest) -> In y (committee c)) ->
    exists bs,
      run ci (st2 done false [] []) (map (fun j => OMsg (rcm h j)) rest) = (st2 (done ++ rest) false [] [], bs) /\
      bcasts bs = if (ld2 =? i) && negb (q <=? N.of_nat (length done)) && (q <=? N.of_nat (length (done ++ rest)))
                  then [prop2 i (firstn (N.to_nat q) (done ++ rest))] else [].
  Proof.
    induction rest as [|x tl IH]; intros done Hnd0 Hin0.
    - simpl. exists []. rewrite app_nil_r. split; [reflexivity|].
      destruct (q <=? N.of_nat (length done)); rewrite ?andb_false_r; reflexivity.
    - assert (Hx : In x (committee c)) by (apply Hin0; apply in_or_app; right; left; reflexivity).
      assert (Hd : NoDup done /\ ~ In x done).
      { split.
        - eapply NoDup_app_l; exact Hnd0.
        - intros Hc. apply NoDup_remove_2 in Hnd0. apply Hnd0. apply in_or_app. left. exact Hc. }
      destruct Hd as [Hd Hxd].
      assert (Hdin : forall y, In y done -> In y (committee c)).
      { intros y Hy. apply Hin0. apply in_or_app. left. exact Hy. }
      assert (Hnd2 : NoDup ((done ++ [x]) ++ tl)) by (rewrite <- app_assoc; exact Hnd0).
      assert (Hin2 : forall y, In y ((done ++ [x]) ++ tl) -> In y (committee c)).
      { intros y Hy. apply Hin0. rewrite <- app_assoc in Hy. exact Hy. }
      destruct (IH (done ++ [x]) Hnd2 Hin2) as [bs [Hrun Hb]].
      destruct (step_rc done x Hx Hd Hdin Hxd) as [r Hstep].
      cbn [map run]. rewrite Hstep, Hrun.
      eexists. split; [rewrite <- app_assoc; reflexivity|].
      unfold bcasts. cbn [flat_map]. fold (bcasts bs). rewrite Hb. unfold outs_of.
      assert (L1 : N.of_nat (length (done ++ [x])) = N.of_nat (length done) + 1).
      { rewrite app_length. simpl. lia. }
      assert (L2 : N.of_nat (length ((done ++ [x]) ++ tl)) = N.of_nat (length done) + 1 + N.of_nat (length tl)).
      { rewrite !app_length. simpl. lia. }
      assert (L3 : N.of_nat (length (done ++ x :: tl)) = N.of_nat (length done) + 1 + N.of_nat (length tl)).
      { rewrite !app_length. simpl. lia. }
      rewrite L1, L2, L3. rewrite <- (app_assoc done [x] tl). cbn [app].
      destruct (ld2 =? i); cbn [andb]; [|reflexivity].
      destruct (N.leb_spec q (N.of_nat (length done))) as [A|A];
      destruct (N.leb_spec q (N.of_nat (length done) + 1)) as [B0|B0];
      destruct (N.leb_spec q (N.of_nat (length done) + 1 + N.of_nat (length tl))) as [C|C];
      cbn [negb andb flat_map app]; try reflexivity; try lia.
      (* the quorum forms with x: the leader's justification is done ++ [x] *)
      assert (Hq : N.to_nat q = length (done ++ [x])).
      { rewrite app_length. simpl. lia. }
      rewrite Hq. replace (done ++ x :: tl) with ((done ++ [x]) ++ tl) by (rewrite <- app_assoc; reflexivity).
      rewrite firstn_exact. reflexivity.
  Qed.

  Lemma run_prepares2 : forall rest lrc done,
    NoDup (done ++ rest) -> (forall y, In y rest -> In y (committee c)) ->
    exists bs,
      run ci (st2 lrc true done []) (map (fun j => OMsg (fm2 h T_PREPARE rt j)) rest) = (st2 lrc true (done ++ rest) [], bs) /\
      bcasts bs = if negb (q <=? N.of_nat (length done)) && (q <=? N.of_nat (length (done ++ rest)))
                  then [fm2 h T_COMMIT rt i] else [].
  Proof.
    induction rest as [|x tl IH]; intros lrc done Hnd0 Hin0.
    - simpl. exists []. rewrite app_nil_r. split; [reflexivity|].
      destruct (q <=? N.of_nat (length done)); reflexivity.
    - assert (Hx : In x (committee c)) by (apply Hin0; left; reflexivity).
      assert (Htl : forall y, In y tl -> In y (committee c)) by (intros y Hy; apply Hin0; right; exact Hy).
      assert (Hd : NoDup done /\ ~ In x done).
      { split.
        - eapply NoDup_app_l; exact Hnd0.
        - intros Hc. apply NoDup_remove_2 in Hnd0. apply Hnd0. apply in_or_app. left. exact Hc. }
      destruct Hd as [Hd Hxd].
      assert (Hnd2 : NoDup ((done ++ [x]) ++ tl)) by (rewrite <- app_assoc; exact Hnd0).
      destruct (IH lrc (done ++ [x]) Hnd2 Htl) as [bs [Hrun Hb]].
      cbn [map run]. rewrite (step_prepare2 lrc done x Hx Hd Hxd). rewrite Hrun.
      eexists. split; [rewrite <- app_assoc; reflexivity|].
      unfold bcasts. cbn [flat_map]. fold (bcasts bs). rewrite Hb. unfold outs_of.
      assert (L1 : N.of_nat (length (done ++ [x])) = N.of_nat (length done) + 1).
      { rewrite app_length. simpl. lia. }
      assert (L2 : N.of_nat (length ((done ++ [x]) ++ tl)) = N.of_nat (length done) + 1 + N.of_nat (length tl)).
      { rewrite !app_length. simpl. lia. }
      assert (L3 : N.of_nat (length (done ++ x :: tl)) = N.of_nat (length done) + 1 + N.of_nat (length tl)).
      { rewrite !app_length. simpl. lia. }
      rewrite L1, L2, L3.
      destruct (N.leb_spec q (N.of_nat (length done))) as [A|A];
      destruct (N.leb_spec q (N.of_nat (length done) + 1)) as [B0|B0];
      destruct (N.leb_spec q (N.of_nat (length done) + 1 + N.of_nat (length tl))) as [C|C];
      cbn [negb andb flat_map app]; try reflexivity; lia.
  Qed.

  Lemma run_commits2 : forall rest lrc lp done,
    NoDup (done ++ rest) -> (forall y, In y rest -> In y (committee c)) ->
    exists bs,
      run ci (st2 lrc true lp done) (map (fun j => OMsg (fm2 h T_COMMIT rt j)) rest) = (st2 lrc true lp (done ++ rest), bs) /\
      bcasts bs = [].
  Proof.
    induction rest as [|x tl IH]; intros lrc lp done Hnd0 Hin0.
    - simpl. exists []. rewrite app_nil_r. split; reflexivity.
    - assert (Hx : In x (committee c)) by (apply Hin0; left; reflexivity).
      assert (Htl : forall y, In y tl -> In y (committee c)) by (intros y Hy; apply Hin0; right; exact Hy).
      assert (Hd : NoDup done /\ ~ In x done).
      { split.
        - eapply NoDup_app_l; exact Hnd0.
        - intros Hc. apply NoDup_remove_2 in Hnd0. apply Hnd0. apply in_or_app. left. exact Hc. }
      destruct Hd as [Hd Hxd].
      assert (Hnd2 : NoDup ((done ++ [x]) ++ tl)) by (rewrite <- app_assoc; exact Hnd0).
      destruct (IH lrc lp (done ++ [x]) Hnd2 Htl) as [bs [Hrun Hb]].
      destruct (step_commit2 lrc lp done x Hx Hd Hxd) as [r Hstep].
      cbn [map run]. rewrite Hstep, Hrun.
      eexists. split; [rewrite <- app_assoc; reflexivity|].
      unfold bcasts. cbn [flat_map]. fold (bcasts bs). rewrite Hb. reflexivity.
  Qed.

  Lemma bcasts_app : forall a b, bcasts (a ++ b) = bcasts a ++ bcasts b.
  Proof. intros. unfold bcasts. apply flat_map_app. Qed.

  (* the whole recovery of operator i *)
  Lemma recover_run :
    exists bs,
      run ci (new_instance h)
        (OStart (start_value i) :: OTimeout ::
         map (fun j => OMsg (rcm h j)) live ++
         OMsg P2 ::
         map (fun j => OMsg (fm2 h T_PREPARE rt j)) live ++
         map (fun j => OMsg (fm2 h T_COMMIT rt j)) live)
      = (st2 live true live live, bs) /\
      bcasts bs =
        (if ld1 =? i then [msg_of c h T_PROPOSAL i (hash (start_value i)) (start_value i)] else []) ++
        [rcm h i] ++ (if ld2 =? i then [P2] else []) ++ [fm2 h T_PREPARE rt i; fm2 h T_COMMIT rt i].
  Proof.
    destruct (run_rcs live [] Hlnd Hlin) as [b1 [R1 B1]].
    destruct (run_prepares2 live live [] Hlnd Hlin) as [b2 [R2' B2]].
    destruct (run_commits2 live live live [] Hlnd Hlin) as [b3 [R3 B3]].
    simpl app in R1, R2', R3, B1, B2.
    cbn [run]. rewrite step_start2, step_timeout.
    rewrite run_app, R1. cbn [run]. rewrite step_proposal2. rewrite run_app, R2', R3.
    eexists. split; [reflexivity|].
    assert (Hq : (q <=? N.of_nat (length live)) = true) by (apply N.leb_le; exact Hqn).
    cbn [length] in B1, B2. rewrite q_gt0', Hq in B1, B2. cbn [negb andb] in B1, B2. rewrite andb_true_r in B1.
    unfold bcasts at 1. cbn [flat_map]. fold (bcasts (b1 ++ BMsg (POk false None None) [OBcast (fm2 h T_PREPARE rt i)] :: b2 ++ b3)).
    rewrite bcasts_app. unfold bcasts at 2. cbn [flat_map]. fold (bcasts (b2 ++ b3)).
    rewrite bcasts_app, B1, B2, B3. unfold outs_of. cbn [flat_map app]. rewrite ?app_nil_r.
    destruct (ld1 =? i); destruct (ld2 =? i) eqn:E; cbn [app flat_map]; try reflexivity.
    - apply N.eqb_eq in E. unfold P2. rewrite E. reflexivity.
    - apply N.eqb_eq in E. unfold P2. rewrite E. reflexivity.
  Qed.
End Recover.

(* the schedule and what operator i is expected to broadcast during it *)
Definition recover_ops (c : cfg) (h ld2 : N) (live : list N) (i : N) : list op :=
  let rt := hash (start_value ld2) in
  OStart (start_value i) :: OTimeout ::
  map (fun j => OMsg (rcm h j)) live ++
  OMsg (prop2 c h ld2 (firstn (N.to_nat (quorum c)) live)) ::
  map (fun j => OMsg (fm2 h T_PREPARE rt j)) live ++
  map (fun j => OMsg (fm2 h T_COMMIT rt j)) live.

Definition recover_bcasts (c : cfg) (h ld1 ld2 : N) (live : list N) (i : N) : list smsg :=
  let rt := hash (start_value ld2) in
  (if ld1 =? i then [msg_of c h T_PROPOSAL i (hash (start_value i)) (start_value i)] else []) ++
  [rcm h i] ++
  (if ld2 =? i then [prop2 c h ld2 (firstn (N.to_nat (quorum c)) live)] else []) ++
  [fm2 h T_PREPARE rt i; fm2 h T_COMMIT rt i].

(* Recovery from a silent first round, for every committee: the operators of [live] (at least a quorum,
   the leader of round 2 among them; the others are silent) time out of round 1 in which nothing was
   delivered, exchange round changes, and decide the round-2 leader's value in round 2.  What each of
   them broadcasts is exactly what the schedule delivers (round change, the leader's proposal with the
   first quorum of round changes, prepare, commit). *)
Theorem recover_silent_round : forall (c : cfg) (h ld1 ld2 : N) (live : list N),
  ~ In 0 (committee c) -> NoDup live -> (forall y, In y live -> In y (committee c)) ->
  proposer c h FIRST_ROUND = Some ld1 -> proposer c h R2 = Some ld2 -> In ld2 live ->
  value_check c (start_value ld2) = true ->
  1 <= quorum c -> quorum c <= N.of_nat (length live) -> 1 <= partial_quorum c ->
  forall i, In i live ->
  exists s bs,
    run (with_me c i) (new_instance h) (recover_ops c h ld2 live i) = (s, bs) /\
    s_decided s = true /\ s_dvalue s = start_value ld2 /\ s_round s = R2 /\
    bcasts bs = recover_bcasts c h ld1 ld2 live i.
Proof.
  intros c h ld1 ld2 live Hnz Hlnd Hlin Hld1 Hld2 Hl2 Hvc Hq1 Hqn Hpq i Hi.
  destruct (recover_run c h ld1 ld2 i live Hnz Hlnd Hlin Hld1 Hld2 Hl2 Hvc Hq1 Hqn Hpq) as [bs [Hrun Hb]].
  exists (st2 c h ld2 i live live true live live), bs.
  assert (Hq : (quorum c <=? N.of_nat (length live)) = true) by (apply N.leb_le; exact Hqn).
  split; [exact Hrun|]. unfold st2. cbn [s_decided s_dvalue s_round]. rewrite Hq.
  repeat split; try reflexivity. exact Hb.
Qed.
