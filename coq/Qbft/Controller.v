(* The part of protocol/v2/qbft/controller and of the runner's consensus-message path that touches ONE
   instance: Controller.ProcessMsg (identifier check, decided messages, routing), UponDecided,
   ValidateDecided, and BaseRunner.compactInstanceIfNeeded.  Height bookkeeping over several
   instances is the subject of the Ctrl area (C15).  Definitions only. *)
From Coq Require Import List NArith ZArith Bool.
From SSV Require Import Qbft.Model.
Import ListNotations.
Local Open Scope N_scope.

(* controller.IsDecidedMsg *)
Definition is_decided_msg (c : cfg) (m : smsg) : bool :=
  (quorum c <=? N.of_nat (length (c_signers (co m)))) && (c_type (co m) =? T_COMMIT).

(* controller.ValidateDecided *)
Definition validate_decided (c : cfg) (m : smsg) : bool :=
  is_decided_msg c m && signed_validate (co m)
  && base_commit_validation c m (c_height (co m)) && (hash (c_full (co m)) =? c_root (co m)).

(* The effect of Controller.UponDecided on an existing instance of the message's height.
   Returns the new state and whether the decided message is reported (first decision). *)
Definition upon_decided (s : state) (m : smsg) : state * bool :=
  let k := co m in
  if s_decided s then
    let '(signers, _) := longest_unique (s_commit s) (c_round k) (c_root k) in
    if Nat.ltb (length signers) (length (c_signers k))
    then (set_commit s (cput (s_commit s) (c_round k) m), false)
    else (s, false)
  else
    let s1 := set_decided (set_round s (c_round k)) (c_full k) in
    (set_commit s1 (cput (s_commit s1) (c_round k) m), true).

Inductive cresult :=
| CRErr                       (* error returned *)
| CRNone                      (* nil, nil *)
| CRDecided (m : smsg)        (* decided message returned: first decision of this instance *)
| CRPanic.

(* Controller.ProcessMsg for a controller whose current height is the instance's height and whose
   only stored instance is this one. *)
Definition ctl_process (c : cfg) (s : state) (m : smsg) : state * list out * cresult :=
  let k := co m in
  if negb (c_ident k =? 0) then (s, [], CRErr) else
  if is_decided_msg c m then
    if negb (validate_decided c m) then (s, [], CRErr) else
    if negb (c_height k =? s_height s) then (s, [], CRErr)    (* another instance: not modelled here *)
    else let '(s', fresh) := upon_decided s m in (s', [], if fresh then CRDecided m else CRNone)
  else if s_height s <? c_height k then (s, [], CRErr)         (* future message *)
  else if negb (c_height k =? s_height s) then (s, [], CRErr)  (* instance not found *)
  else
    let prev := s_decided s in
    let '(s', outs, r) := process_msg c s m in
    match r with
    | PErr => (s', outs, CRErr)
    | PPanic => (s', outs, CRPanic)
    | POk d _ agg =>
        if negb d then (s', outs, CRNone) else
        match agg with
        | None => (s', outs, CRNone)
        | Some a => (s', outs ++ [OBcast a], if prev then CRNone else CRDecided a)
        end
    end.

(* BaseRunner.baseConsensusMsgProcessing: ProcessMsg, then compactInstanceIfNeeded(msg) whatever the
   outcome was. *)
Definition needs_compact (c : cfg) (s : state) (m : smsg) : bool :=
  (c_height (co m) =? s_height s) && (is_decided_msg c m || (c_type (co m) =? T_ROUNDCHANGE)).

Definition runner_process (c : cfg) (s : state) (m : smsg) : state * list out * cresult :=
  let '(s', outs, r) := ctl_process c s m in
  ((if needs_compact c s' m then compact s' else s'), outs, r).

(* Controller.OnTimeout for this instance *)
Definition on_timeout (c : cfg) (s : state) (height round : N) : state * list out * bool :=
  if negb (height =? s_height s) then (s, [], false) else
  if round <? s_round s then (s, [], true) else
  if s_decided s then (s, [], true) else
  upon_timeout c s.

Inductive cop :=
| CStart (v : option N)
| CMsg (m : smsg)
| CTimeout (height round : N).

Inductive cobs :=
| DStart (panic : bool) (o : list out)
| DMsg (r : cresult) (o : list out)
| DTimeout (ok : bool) (o : list out).

Definition cstep (c : cfg) (s : state) (o : cop) : state * cobs :=
  match o with
  | CStart v =>
      match start c s v (s_height s) with
      | None => (s, DStart true [])
      | Some (s', outs) => (s', DStart false outs)
      end
  | CMsg m => let '(s', outs, r) := runner_process c s m in (s', DMsg r outs)
  | CTimeout h r => let '(s', outs, ok) := on_timeout c s h r in (s', DTimeout ok outs)
  end.

Fixpoint crun (c : cfg) (s : state) (ops : list cop) : state * list cobs :=
  match ops with
  | [] => (s, [])
  | o :: tl => let '(s1, b) := cstep c s o in let '(s2, bs) := crun c s1 tl in (s2, b :: bs)
  end.
