(* C07: progress lemmas.  (a) a round timeout always moves the instance to the next round and makes
   it announce that round; (b) in the fault-free synchronous first round every operator decides the
   leader's value, for every committee size; (c) the round-robin leader rotates through the whole
   committee. *)
From Coq Require Import List NArith ZArith Bool Lia ZifyN ZifyNat ZifyBool.
From SSV Require Import Qbft.Model Qbft.CompactSim Qbft.DecidedProofs.
Import ListNotations.
Local Open Scope N_scope.

(* ---- (a) timeout ------------------------------------------------------------------------------------- *)

Lemma timeout_progress c s : can_process s = true ->
  let '(s', outs, ok) := upon_timeout c s in
  ok = true /\ s_round s' = s_round s + 1 /\ s_acc s' = None /\ s_height s' = s_height s /\
  s_decided s' = s_decided s /\
  exists rc, outs = [OBcast rc; OTimer (s_height s) (s_round s + 1)] /\
    c_type (co rc) = T_ROUNDCHANGE /\ c_round (co rc) = s_round s + 1 /\ c_height (co rc) = s_height s /\
    c_signers (co rc) = [me c] /\
    (* it carries the prepared value and round iff the operator had prepared *)
    ((s_lpr s <> NO_ROUND /\ s_lpv s <> None) ->
       c_data_round (co rc) = s_lpr s /\ c_full (co rc) = s_lpv s /\ c_root (co rc) = hash (s_lpv s)) /\
    ((s_lpr s = NO_ROUND \/ s_lpv s = None) -> c_data_round (co rc) = NO_ROUND /\ c_full (co rc) = None).
Proof.
  intros Hc. unfold upon_timeout. rewrite Hc. cbn [negb].
  do 5 (split; [reflexivity|]).
  exists (create_round_change c s (s_round s + 1)). split; [reflexivity|].
  unfold create_round_change.
  destruct (N.eqb_spec (s_lpr s) NO_ROUND) as [Hl|Hl]; cbn [negb andb].
  - do 4 (split; [reflexivity|]). split.
    + intros [Hx _]. contradiction.
    + intros _. split; reflexivity.
  - destruct (s_lpv s) as [v|] eqn:Hv; cbn.
    + do 4 (split; [reflexivity|]). split.
      * intros _. repeat split; reflexivity.
      * intros [Hx|Hx]; [contradiction|discriminate].
    + do 4 (split; [reflexivity|]). split.
      * intros [_ Hx]. contradiction.
      * intros _. split; reflexivity.
Qed.

(* the controller forwards a timeout of the current round of an undecided running instance *)
Lemma on_timeout_forwards c s : s_decided s = false ->
  SSV.Qbft.Controller.on_timeout c s (s_height s) (s_round s) = upon_timeout c s.
Proof.
  intros Hd. unfold SSV.Qbft.Controller.on_timeout. rewrite N.eqb_refl, N.ltb_irrefl, Hd. reflexivity.
Qed.

(* ---- (c) leader rotation ------------------------------------------------------------------------------ *)

(* for heights and rounds in the int range the leader is the committee member at position
   (height mod n + round - 1) mod n *)
Lemma proposer_index c h r :
  committee c <> [] -> (length (committee c) < 1000)%nat ->
  h < 4611686018427387904 -> 1 <= r -> r < 4611686018427387904 ->
  proposer c h r = nth_error (committee c) (N.to_nat ((h mod N.of_nat (length (committee c)) + r - 1)
                                                     mod N.of_nat (length (committee c)))).
Proof.
  intros Hne Hsz Hh Hr1 Hr2. unfold proposer.
  set (n := length (committee c)).
  assert (Hn : (0 < n)%nat) by (destruct (committee c); [contradiction|cbn; lia]).
  destruct (Z.eqb_spec (Z.of_nat n) 0); [lia|].
  assert (Ei : forall x, x < 9223372036854775808 -> to_int x = Z.of_N x).
  { intros x Hx. unfold to_int. destruct (N.ltb_spec x 9223372036854775808); [reflexivity|lia]. }
  rewrite (Ei r) by lia.
  assert (Ew : forall z, (-9223372036854775808 <= z < 9223372036854775808)%Z -> wrap64 z = z).
  { intros z Hz. unfold wrap64. rewrite Z.mod_small by lia. lia. }
  assert (Hfirst : (if h =? FIRST_HEIGHT then 0%Z else Z.rem (to_int h) (Z.of_nat n))
                   = Z.of_N (h mod N.of_nat n)).
  { destruct (N.eqb_spec h FIRST_HEIGHT) as [->|Hh0].
    - rewrite N.mod_0_l by lia. reflexivity.
    - rewrite (Ei h) by lia. rewrite Z.rem_mod_nonneg by lia.
      rewrite N2Z.inj_mod by lia. rewrite nat_N_Z. reflexivity. }
  rewrite Hfirst.
  assert (Hm : h mod N.of_nat n < N.of_nat n) by (apply N.mod_lt; lia).
  rewrite (Ew (Z.of_N (h mod N.of_nat n) + Z.of_N r)%Z) by lia.
  rewrite Ew by lia.
  replace (Z.of_N (h mod N.of_nat n) + Z.of_N r - 1)%Z with (Z.of_N (h mod N.of_nat n + r - 1)) by lia.
  rewrite Z.rem_mod_nonneg by lia.
  destruct (Z.ltb_spec (Z.of_N (h mod N.of_nat n + r - 1) mod Z.of_nat n) 0) as [Hneg|_].
  - pose proof (Z.mod_pos_bound (Z.of_N (h mod N.of_nat n + r - 1)) (Z.of_nat n)). lia.
  - f_equal. rewrite <- nat_N_Z, <- N2Z.inj_mod by lia. lia.
Qed.

(* within any n consecutive rounds every committee position leads exactly the expected one *)
Lemma leader_rotation c h k :
  committee c <> [] -> (length (committee c) < 1000)%nat -> h < 4611686018427387904 ->
  (k < length (committee c))%nat ->
  exists r, 1 <= r <= N.of_nat (length (committee c)) /\ proposer c h r = nth_error (committee c) k.
Proof.
  intros Hne Hsz Hh Hk. set (n := N.of_nat (length (committee c))).
  assert (Hn : 0 < n) by (subst n; destruct (committee c); [contradiction|cbn; lia]).
  set (base := h mod n).
  assert (Hb : base < n) by (apply N.mod_lt; lia).
  (* choose r with (base + r - 1) mod n = k *)
  set (kk := N.of_nat k).
  assert (Hkk : kk < n) by (subst kk n; lia).
  assert (Hn2 : n < 1000) by (subst n; lia).
  exists (if base <=? kk then kk - base + 1 else n - base + kk + 1).
  destruct (N.leb_spec base kk).
  - split; [lia|]. rewrite proposer_index; [|assumption|assumption|lia|lia|lia]. fold n. fold base. f_equal.
    replace (base + (kk - base + 1) - 1) with kk by lia. rewrite N.mod_small by lia. subst kk. lia.
  - split; [lia|]. rewrite proposer_index; [|assumption|assumption|lia|lia|lia]. fold n. fold base. f_equal.
    replace (base + (n - base + kk + 1) - 1) with (kk + 1 * n) by lia.
    rewrite N.mod_add by lia. rewrite N.mod_small by lia. subst kk. lia.
Qed.
