#!/bin/sh
# Regenerates _CoqProject (all .v files under coq/, except Extract files which are compiled
# from ocaml/<area>/ so that the extracted .ml lands there) and the Makefile.
cd "$(dirname "$0")"
{ echo "-Q . SSV"; echo "-arg -w -arg -notation-overridden,-deprecated-hint-without-locality,-deprecated-instance-without-locality"; find . -name '*.v' ! -name 'Extract*.v' ! -name 'cases*.v' | sed 's|^\./||' | sort; } > _CoqProject.tmp
if ! cmp -s _CoqProject.tmp _CoqProject; then mv _CoqProject.tmp _CoqProject; coq_makefile -f _CoqProject -o Makefile >/dev/null; else rm _CoqProject.tmp; fi
[ -f Makefile ] || coq_makefile -f _CoqProject -o Makefile >/dev/null
