(* The pre-fix cursor logic (ExecClient/OldModel.v) refutes the C13 statement: two witnesses,
   the histories of corpus/C13/f2-*.ops. *)
From Coq Require Import List NArith Bool Sorted.
From SSV Require Import ExecClient.Model ExecClient.Spec ExecClient.OldModel.
Import ListNotations.
Local Open Scope N_scope.

Definition w_cfg : cfg := {| follow := 0; batch := 1 |}.

(* block 3 carries two logs, everything else is empty *)
Definition w_chain : chain := fun b =>
  if b =? 3 then [ {| c_tx := 0; c_idx := 0; c_removed := false |};
                   {| c_tx := 1; c_idx := 1; c_removed := false |} ] else [].

(* fetch error after block 2 was delivered, then a subscription error: block 3 is skipped *)
Definition w_skip : list event :=
  [ESubOk; EHead 5 (Some (1%nat, FErr)); ESubOk; ESubErr; ESubOk; EHead 9 None].

(* fetch error before the first delivery: the stream restarts at block 1 *)
Definition w_restart : list event :=
  [ESubOk; EHead 7 (Some (0%nat, FErr)); ESubOk; EHead 11 None].

Lemma old_skips_block :
  let '(s, out) := old_stream w_cfg w_chain 2 w_skip in
  o_cur s = 10 /\ visible w_chain 3 <> [] /\
  ~ (exists e, In e (entries_of out) /\ e_block e = 3).
Proof.
  vm_compute. split; [reflexivity|]. split; [discriminate|].
  intros (e & H & E). repeat (destruct H as [<-|H]; [discriminate|]). exact H.
Qed.

Lemma old_restarts_at_block_1 :
  let '(s, out) := old_stream w_cfg w_chain 2 w_restart in
  exists e, In e (entries_of out) /\ e_block e < 2.
Proof.
  vm_compute. eexists. split; [left; reflexivity|]. reflexivity.
Qed.

Lemma old_refuted : exists c ch from evs,
  1 <= batch c /\
  let '(s, out) := old_stream c ch from evs in ~ stream_ok ch from (o_cur s) (entries_of out).
Proof.
  exists w_cfg, w_chain, 2, w_skip. split; [vm_compute; discriminate|].
  pose proof old_skips_block as H.
  destruct (old_stream w_cfg w_chain 2 w_skip) as [s out]. destruct H as (Hc & Hv & Hn).
  intros (_ & _ & _ & Hcov). apply Hn.
  exists {| e_block := 3; e_logs := shown w_chain 3 |}. split; [|reflexivity].
  assert (Hin : In {| e_block := 3; e_logs := shown w_chain 3 |} (filter nonempty (entries_of out))).
  { rewrite Hcov, Hc. vm_compute. left. reflexivity. }
  apply filter_In in Hin. tauto.
Qed.
