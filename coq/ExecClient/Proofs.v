(* Lemmas about the execution-client model (C13). *)
From Coq Require Import List NArith Bool Sorted Permutation Lia Arith.
From SSV Require Import ExecClient.Model ExecClient.Spec.
Import ListNotations.
Local Open Scope N_scope.

(* ---- the sort -------------------------------------------------------------------------------- *)

Lemma key_lt_asym : forall x y, key_lt x y = true -> key_lt y x = false.
Proof.
  unfold key_lt. intros x y.
  destruct (N.eqb_spec (l_block x) (l_block y)) as [E|E].
  - rewrite E, N.eqb_refl. rewrite N.ltb_lt, N.ltb_ge. lia.
  - destruct (N.eqb_spec (l_block y) (l_block x)) as [E'|E']; [congruence|].
    rewrite N.ltb_lt, N.ltb_ge. lia.
Qed.

Lemma key_lt_blocks : forall x y, l_block x < l_block y -> key_lt x y = true.
Proof.
  unfold key_lt. intros x y H.
  destruct (N.eqb_spec (l_block x) (l_block y)); [lia|]. now apply N.ltb_lt.
Qed.

Lemma insert_in : forall x y l, In y (insert x l) <-> y = x \/ In y l.
Proof.
  induction l as [|z t IH]; simpl.
  - intuition.
  - destruct (key_lt z x); simpl; rewrite ?IH; intuition.
Qed.

Lemma sort_in : forall y l, In y (sort l) <-> In y l.
Proof.
  induction l as [|x t IH]; simpl; [tauto|].
  rewrite insert_in, IH. intuition.
Qed.

Lemma insert_perm : forall x l, Permutation (x :: l) (insert x l).
Proof.
  induction l as [|z t IH]; simpl; [reflexivity|].
  destruct (key_lt z x); [|reflexivity].
  rewrite perm_swap. now apply perm_skip.
Qed.

Lemma sort_perm : forall l, Permutation l (sort l).
Proof.
  induction l as [|x t IH]; simpl; [constructor|].
  rewrite <- insert_perm. now apply perm_skip.
Qed.

Lemma sort_nil : forall l, sort l = [] -> l = [].
Proof.
  intros l H. apply Permutation_nil. rewrite <- H. symmetry. apply sort_perm.
Qed.

Lemma insert_app_lt : forall x s1 s2,
  (forall y, In y s2 -> key_lt x y = true) -> insert x (s1 ++ s2) = insert x s1 ++ s2.
Proof.
  induction s1 as [|z t IH]; intros s2 H; simpl.
  - destruct s2 as [|y t2]; simpl; [reflexivity|].
    rewrite (key_lt_asym x y); [reflexivity|]. apply H. now left.
  - destruct (key_lt z x); simpl; [now rewrite IH|reflexivity].
Qed.

Lemma sort_app_lt : forall l1 l2,
  (forall x y, In x l1 -> In y l2 -> key_lt x y = true) -> sort (l1 ++ l2) = sort l1 ++ sort l2.
Proof.
  induction l1 as [|x t IH]; intros l2 H; simpl; [reflexivity|].
  rewrite IH by (intros; apply H; simpl; auto).
  apply insert_app_lt. intros y Hy. apply H; [now left|]. now apply sort_in.
Qed.

(* already in (block, tx) order: nothing moves *)
Definition ksorted (l : list log) : Prop := StronglySorted (fun x y => key_lt y x = false) l.

Lemma sort_sorted_id : forall l, ksorted l -> sort l = l.
Proof.
  induction l as [|x t IH]; intros H; simpl; [reflexivity|].
  inversion H as [|? ? Ht Hx]; subst. rewrite IH by assumption.
  destruct t as [|y t']; simpl; [reflexivity|].
  inversion Hx as [|? ? Hy _]; subst. now rewrite Hy.
Qed.

(* the result is in (block, tx) order ... *)
Lemma key_lt_false_trans : forall x y z,
  key_lt y x = false -> key_lt z y = false -> key_lt z x = false.
Proof.
  unfold key_lt. intros x y z.
  destruct (N.eqb_spec (l_block y) (l_block x)), (N.eqb_spec (l_block z) (l_block y)),
           (N.eqb_spec (l_block z) (l_block x)); rewrite ?N.ltb_ge; try lia.
Qed.

Lemma key_lt_total : forall x y, key_lt x y = false -> key_lt y x = false \/ key_lt y x = true.
Proof. intros. destruct (key_lt y x); auto. Qed.

Lemma insert_sorted : forall x l, ksorted l -> ksorted (insert x l).
Proof.
  unfold ksorted. induction l as [|z t IH]; intros H; simpl.
  - repeat constructor.
  - inversion H as [|? ? Ht Hz]; subst.
    destruct (key_lt z x) eqn:E.
    + constructor; [now apply IH|].
      apply Forall_forall. intros y Hy. apply insert_in in Hy. destruct Hy as [->|Hy].
      * now apply key_lt_asym.
      * rewrite Forall_forall in Hz. now apply Hz.
    + constructor; [assumption|]. constructor; [assumption|].
      rewrite Forall_forall in *. intros y Hy. eapply key_lt_false_trans; [exact E|]. now apply Hz.
Qed.

Lemma sort_sorted : forall l, ksorted (sort l).
Proof.
  induction l as [|x t IH]; simpl; [constructor|]. now apply insert_sorted.
Qed.

(* ... and the sort is stable: logs with the same (block, tx) keep their relative order *)
Definition same_key (k x : log) : bool := (l_block x =? l_block k) && (l_tx x =? l_tx k).

Lemma same_key_not_lt : forall k x y, same_key k x = true -> same_key k y = true -> key_lt x y = false.
Proof.
  unfold same_key, key_lt. intros k x y Hx Hy.
  apply andb_true_iff in Hx, Hy. destruct Hx as [Hx1 Hx2], Hy as [Hy1 Hy2].
  apply N.eqb_eq in Hx1, Hx2, Hy1, Hy2.
  rewrite Hx1, Hy1, N.eqb_refl. apply N.ltb_ge. lia.
Qed.

Lemma insert_stable : forall k x l,
  filter (same_key k) (insert x l) =
  if same_key k x then x :: filter (same_key k) l else filter (same_key k) l.
Proof.
  induction l as [|z t IH]; simpl.
  - destruct (same_key k x); reflexivity.
  - destruct (key_lt z x) eqn:E; simpl.
    + rewrite IH. destruct (same_key k z) eqn:Ez, (same_key k x) eqn:Ex; try reflexivity.
      rewrite (same_key_not_lt k z x Ez Ex) in E. discriminate.
    + destruct (same_key k x); reflexivity.
Qed.

Lemma sort_stable : forall k l, filter (same_key k) (sort l) = filter (same_key k) l.
Proof.
  induction l as [|x t IH]; simpl; [reflexivity|].
  rewrite insert_stable, IH. reflexivity.
Qed.

(* ---- the grouping ---------------------------------------------------------------------------- *)

Lemma group_head : forall l e es, group l = e :: es -> exists x t, l = x :: t /\ e_block e = l_block x.
Proof.
  destruct l as [|x t]; simpl; intros e es H; [discriminate|].
  exists x, t. split; [reflexivity|].
  destruct (group t) as [|e' es'].
  - inversion H. reflexivity.
  - destruct (N.eqb_spec (e_block e') (l_block x)); inversion H; simpl; congruence.
Qed.

Lemma group_concat : forall l, flat_map e_logs (group l) = l.
Proof.
  induction l as [|x t IH]; simpl; [reflexivity|].
  destruct (group t) as [|e es] eqn:G.
  - simpl in *. now rewrite <- IH.
  - destruct (e_block e =? l_block x); simpl in *; now rewrite <- IH.
Qed.

Lemma group_cons : forall x t,
  group (x :: t) =
  match group t with
  | e :: es =>
      if e_block e =? l_block x
      then {| e_block := e_block e; e_logs := x :: e_logs e |} :: es
      else {| e_block := l_block x; e_logs := [x] |} :: e :: es
  | [] => [{| e_block := l_block x; e_logs := [x] |}]
  end.
Proof. reflexivity. Qed.

(* a run of logs of block a in front of logs of other blocks becomes one entry *)
Lemma group_run : forall a s r,
  s <> [] -> (forall x, In x s -> l_block x = a) ->
  (forall x t, r = x :: t -> l_block x <> a) ->
  group (s ++ r) = {| e_block := a; e_logs := s |} :: group r.
Proof.
  induction s as [|x t IH]; intros r Hne Hs Hr; [congruence|].
  destruct t as [|y t'].
  - simpl. destruct (group r) as [|e es] eqn:G.
    + rewrite (Hs x) by (now left). reflexivity.
    + destruct (group_head _ _ _ G) as (z & tz & -> & Hb).
      rewrite Hb. destruct (N.eqb_spec (l_block z) (l_block x)) as [E|E].
      * exfalso. apply (Hr z tz eq_refl). rewrite E. apply Hs. now left.
      * rewrite (Hs x) by (now left). reflexivity.
  - change ((x :: y :: t') ++ r) with (x :: ((y :: t') ++ r)).
    rewrite group_cons. rewrite IH; [|discriminate|intros; apply Hs; now right|assumption].
    cbn [e_block e_logs]. rewrite (Hs x) by (now left). rewrite N.eqb_refl. reflexivity.
Qed.

(* ---- blocks, eth_getLogs and what one batch delivers ------------------------------------------- *)

Lemma logs_at_block : forall ch b x, In x (logs_at ch b) -> l_block x = b.
Proof.
  unfold logs_at. intros ch b x H. apply in_map_iff in H. destruct H as (c & <- & _). reflexivity.
Qed.

Lemma visible_block : forall ch b x, In x (visible ch b) -> l_block x = b.
Proof.
  unfold visible. intros ch b x H. apply filter_In in H. eapply logs_at_block, H.
Qed.

Lemma shown_block : forall ch b x, In x (shown ch b) -> l_block x = b.
Proof. unfold shown. intros ch b x H. apply -> sort_in in H. eapply visible_block, H. Qed.

Lemma shown_nil : forall ch b, shown ch b = [] <-> visible ch b = [].
Proof.
  unfold shown. intros ch b. split; intros H; [now apply sort_nil|now rewrite H].
Qed.

Lemma has_logs_true : forall ch b, has_logs ch b = true <-> visible ch b <> [].
Proof.
  unfold has_logs. intros ch b. destruct (visible ch b); split; intros H; congruence.
Qed.

Lemma has_logs_false : forall ch b, has_logs ch b = false <-> visible ch b = [].
Proof.
  unfold has_logs. intros ch b. destruct (visible ch b); split; intros H; congruence.
Qed.

Lemma query_n_blocks : forall ch n a x,
  In x (query_n ch n a) -> a <= l_block x < a + N.of_nat n.
Proof.
  induction n as [|n IH]; intros a x H; simpl in H; [contradiction|].
  apply in_app_iff in H. destruct H as [H|H].
  - apply logs_at_block in H. lia.
  - apply IH in H. lia.
Qed.

Lemma live_query_n_nil : forall ch n a,
  filter live (query_n ch n a) = [] -> forall b, a <= b < a + N.of_nat n -> visible ch b = [].
Proof.
  induction n as [|n IH]; intros a H b Hb; [lia|].
  simpl in H. rewrite filter_app in H. apply app_eq_nil in H. destruct H as [H1 H2].
  destruct (N.eq_dec b a) as [->|Hne]; [exact H1|].
  apply (IH (a + 1) H2). lia.
Qed.

Lemma pack_query_n : forall ch n a, pack_logs (filter live (query_n ch n a)) = span ch n a.
Proof.
  induction n as [|n IH]; intros a; [reflexivity|].
  simpl. rewrite filter_app. fold (visible ch a). unfold pack_logs.
  rewrite sort_app_lt.
  2:{ intros x y Hx Hy. apply key_lt_blocks. apply visible_block in Hx.
      apply filter_In in Hy. destruct Hy as [Hy _]. apply query_n_blocks in Hy. lia. }
  fold (shown ch a). specialize (IH (a + 1)). unfold pack_logs in IH.
  destruct (has_logs ch a) eqn:E.
  - rewrite group_run with (a := a).
    + rewrite IH. reflexivity.
    + intros H. apply shown_nil in H. apply has_logs_true in E. contradiction.
    + intros x Hx. eapply shown_block, Hx.
    + intros x t Hr. assert (Hin : In x (sort (filter live (query_n ch n (a + 1))))) by (rewrite Hr; now left).
      apply -> sort_in in Hin. apply filter_In in Hin. destruct Hin as [Hin _]. apply query_n_blocks in Hin. lia.
  - apply has_logs_false, shown_nil in E. rewrite E. simpl. exact IH.
Qed.

Lemma span_in : forall ch n a e, In e (span ch n a) ->
  a <= e_block e < a + N.of_nat n /\ e_logs e = shown ch (e_block e) /\
  has_logs ch (e_block e) = true.
Proof.
  induction n as [|n IH]; intros a e H; simpl in H; [contradiction|].
  apply in_app_iff in H. destruct H as [H|H].
  - destruct (has_logs ch a) eqn:E; [|contradiction].
    destruct H as [<-|[]]. simpl. repeat split; try lia. exact E.
  - apply IH in H. destruct H as (H1 & H2 & H3). repeat split; try assumption; lia.
Qed.

Lemma span_nonempty : forall ch n a e, In e (span ch n a) -> nonempty e = true.
Proof.
  intros ch n a e H. apply span_in in H. destruct H as (_ & H2 & H3).
  unfold nonempty. rewrite H2. apply has_logs_true in H3.
  destruct (shown ch (e_block e)) eqn:E; [|reflexivity]. apply shown_nil in E. contradiction.
Qed.

Lemma filter_all : forall (A : Type) (f : A -> bool) l, (forall x, In x l -> f x = true) -> filter f l = l.
Proof.
  induction l as [|x t IH]; intros H; simpl; [reflexivity|].
  rewrite H by (now left). rewrite IH; [reflexivity|]. intros; apply H; now right.
Qed.

Lemma filter_nonempty_span : forall ch n a, filter nonempty (span ch n a) = span ch n a.
Proof. intros. apply filter_all. intros x Hx. eapply span_nonempty, Hx. Qed.

Lemma span_sorted : forall ch n a, StronglySorted N.lt (map e_block (span ch n a)).
Proof.
  induction n as [|n IH]; intros a; simpl; [constructor|].
  destruct (has_logs ch a); simpl; [|apply IH].
  constructor; [apply IH|].
  apply Forall_forall. intros b Hb. apply in_map_iff in Hb. destruct Hb as (e & <- & He).
  apply span_in in He. lia.
Qed.

Lemma span_app : forall ch n m a, span ch (n + m) a = span ch n a ++ span ch m (a + N.of_nat n).
Proof.
  induction n as [|n IH]; intros m a; simpl.
  - now rewrite N.add_0_r.
  - rewrite IH, <- app_assoc. do 3 f_equal. lia.
Qed.

Lemma span_mem : forall ch n a b, a <= b < a + N.of_nat n -> has_logs ch b = true ->
  In {| e_block := b; e_logs := shown ch b |} (span ch n a).
Proof.
  induction n as [|n IH]; intros a b Hb E; [lia|].
  simpl. apply in_app_iff. destruct (N.eq_dec b a) as [->|Hne].
  - left. rewrite E. now left.
  - right. apply IH; [lia|assumption].
Qed.

Lemma covered_app : forall ch a b c, a <= b -> b <= c ->
  covered ch a b ++ covered ch b c = covered ch a c.
Proof.
  unfold covered. intros ch a b c H1 H2.
  replace (N.to_nat (c - a)) with (N.to_nat (b - a) + N.to_nat (c - b))%nat by lia.
  rewrite span_app. do 2 f_equal. lia.
Qed.

Lemma covered_in : forall ch a c e, In e (covered ch a c) ->
  a <= e_block e < c /\ e_logs e = shown ch (e_block e) /\ has_logs ch (e_block e) = true.
Proof.
  unfold covered. intros ch a c e H. apply span_in in H. destruct H as (H1 & H2 & H3).
  repeat split; try assumption; lia.
Qed.

Lemma covered_mem : forall ch a c b, a <= b < c -> has_logs ch b = true ->
  In {| e_block := b; e_logs := shown ch b |} (covered ch a c).
Proof. unfold covered. intros. apply span_mem; [lia|assumption]. Qed.

Lemma covered_empty : forall ch a c, c <= a -> covered ch a c = [].
Proof. unfold covered. intros ch a c H. replace (N.to_nat (c - a)) with O by lia. reflexivity. Qed.

Lemma query_le : forall ch a b, a <= b -> query ch a b = query_n ch (N.to_nat (b + 1 - a)) a.
Proof. unfold query. intros ch a b H. destruct (N.ltb_spec b a); [lia|reflexivity]. Qed.

Lemma deliver_spec : forall ch a b, a <= b ->
  StronglySorted N.lt (map e_block (deliver ch a b)) /\
  Forall (fun e => a <= e_block e <= b /\ e_logs e = shown ch (e_block e)) (deliver ch a b) /\
  filter nonempty (deliver ch a b) = covered ch a (b + 1) /\
  Forall (marker_ok ch [(a, b)]) (deliver ch a b) /\
  deliver ch a b <> [].
Proof.
  intros ch a b Hab. unfold deliver. rewrite query_le by assumption.
  pose proof (pack_query_n ch (N.to_nat (b + 1 - a)) a) as P.
  fold (covered ch a (b + 1)) in P.
  destruct (filter live (query_n ch (N.to_nat (b + 1 - a)) a)) as [|x v] eqn:V.
  - assert (Hvis : forall k, a <= k <= b -> visible ch k = []).
    { intros k Hk. eapply live_query_n_nil; [exact V|lia]. }
    repeat split.
    + simpl. repeat constructor.
    + constructor; [|constructor]. simpl. repeat split; try lia.
      symmetry. apply shown_nil, Hvis. lia.
    + rewrite <- P. reflexivity.
    + constructor; [|constructor]. intros _. exists (a, b). simpl. repeat split; auto.
    + discriminate.
  - rewrite P. repeat split.
    + apply span_sorted.
    + apply Forall_forall. intros e He. apply covered_in in He. destruct He as (H1 & H2 & _).
      split; [lia|assumption].
    + apply filter_nonempty_span.
    + apply Forall_forall. intros e He Hnil. apply span_nonempty in He.
      unfold nonempty in He. rewrite Hnil in He. discriminate.
    + intros H. rewrite H in P. unfold pack_logs in P.
      pose proof (group_concat (sort (x :: v))) as G. rewrite P in G.
      change (flat_map e_logs []) with (@nil log) in G.
      symmetry in G. apply sort_nil in G. discriminate.
Qed.

(* ---- sorted lists ------------------------------------------------------------------------------ *)

Lemma ss_app_inv : forall (A : Type) (R : A -> A -> Prop) l1 l2,
  StronglySorted R (l1 ++ l2) ->
  StronglySorted R l1 /\ StronglySorted R l2 /\ (forall x y, In x l1 -> In y l2 -> R x y).
Proof.
  induction l1 as [|a t IH]; intros l2 H; simpl in *.
  - repeat split; [constructor|assumption|contradiction].
  - inversion H as [|? ? Ht Ha]; subst. destruct (IH _ Ht) as (H1 & H2 & H3).
    rewrite Forall_forall in Ha. repeat split; try assumption.
    + constructor; [assumption|]. apply Forall_forall. intros x Hx. apply Ha, in_app_iff. now left.
    + intros x y [<-|Hx] Hy; [apply Ha, in_app_iff; now right|now apply H3].
Qed.

Lemma ss_app : forall (A : Type) (R : A -> A -> Prop) l1 l2,
  StronglySorted R l1 -> StronglySorted R l2 -> (forall x y, In x l1 -> In y l2 -> R x y) ->
  StronglySorted R (l1 ++ l2).
Proof.
  induction l1 as [|a t IH]; intros l2 H1 H2 H; simpl; [assumption|].
  inversion H1 as [|? ? Ht Ha]; subst. constructor.
  - apply IH; try assumption. intros; apply H; simpl; auto.
  - apply Forall_forall. intros x Hx. apply in_app_iff in Hx. destruct Hx as [Hx|Hx].
    + rewrite Forall_forall in Ha. now apply Ha.
    + apply H; simpl; auto.
Qed.

Lemma blocks_sorted_app : forall (l1 l2 : list entry) m,
  StronglySorted N.lt (map e_block l1) -> StronglySorted N.lt (map e_block l2) ->
  (forall e, In e l1 -> e_block e < m) -> (forall e, In e l2 -> m <= e_block e) ->
  StronglySorted N.lt (map e_block (l1 ++ l2)).
Proof.
  intros l1 l2 m H1 H2 Ha Hb. rewrite map_app. apply ss_app; try assumption.
  intros x y Hx Hy. apply in_map_iff in Hx, Hy.
  destruct Hx as (e1 & <- & He1), Hy as (e2 & <- & He2).
  specialize (Ha _ He1). specialize (Hb _ He2). lia.
Qed.

(* ---- fetchLogsInBatches ----------------------------------------------------------------------- *)

(* what a fetch that started at from and got as far as c (exclusive) has put on the channel *)
Definition fetched (ch : chain) (from c : N) (qs : list (N * N)) (es : list entry) : Prop :=
  StronglySorted N.lt (map e_block es) /\
  Forall (fun e => (from <= e_block e < c) /\ e_logs e = shown ch (e_block e)) es /\
  filter nonempty es = covered ch from c /\
  Forall (marker_ok ch qs) es.

Lemma marker_ok_mono : forall ch qs qs' e,
  (forall q, In q qs -> In q qs') -> marker_ok ch qs e -> marker_ok ch qs' e.
Proof.
  unfold marker_ok. intros ch qs qs' e Hi H Hn. destruct (H Hn) as (q & Hq & Hrest).
  exists q. split; [now apply Hi|assumption].
Qed.

Lemma fetch_loop_spec : forall ch bsz end_, 1 <= bsz ->
  forall n from fs qs es r,
  from + N.of_nat n * bsz <= end_ -> end_ < from + (N.of_nat n + 1) * bsz ->
  fetch_loop ch bsz end_ (S n) from fs = (qs, es, r) ->
  exists c, from <= c /\ c <= end_ + 1 /\ fetched ch from c qs es /\
            (r = FOk -> c = end_ + 1) /\ r <> FBad /\ (fs = None -> r = FOk) /\
            Forall (fun q => from <= fst q /\ fst q <= snd q /\ snd q <= end_) qs.
Proof.
  intros ch bsz end_ Hb. induction n as [|n IH]; intros from fs qs es r Hlo Hhi H.
  - (* last iteration *)
    simpl in H.
    assert (Hto : (if end_ <? from + bsz - 1 then end_ else from + bsz - 1) = end_).
    { destruct (N.ltb_spec end_ (from + bsz - 1)); lia. }
    rewrite Hto in H.
    destruct fs as [[[|k] kd]|].
    + inversion H; subst. exists from. repeat split; try lia; try constructor; try discriminate.
      * now rewrite covered_empty by lia.
      * simpl. lia.
      * constructor.
    + inversion H; subst. rewrite app_nil_r.
      destruct (deliver_spec ch from end_) as (D1 & D2 & D3 & D4 & _); [lia|].
      exists (end_ + 1). repeat split; try lia; try assumption; try discriminate.
      * eapply Forall_impl; [|exact D2]. simpl. intros e He. split; [lia|tauto].
      * repeat constructor; simpl; lia.
    + inversion H; subst. rewrite app_nil_r.
      destruct (deliver_spec ch from end_) as (D1 & D2 & D3 & D4 & _); [lia|].
      exists (end_ + 1). repeat split; try lia; try assumption; try discriminate.
      * eapply Forall_impl; [|exact D2]. simpl. intros e He. split; [lia|tauto].
      * repeat constructor; simpl; lia.
  - (* a full batch, more to come *)
    rewrite Nat2N.inj_succ in Hlo, Hhi.
    assert (Hto : (if end_ <? from + bsz - 1 then end_ else from + bsz - 1) = from + bsz - 1).
    { destruct (N.ltb_spec end_ (from + bsz - 1)); lia. }
    change (fetch_loop ch bsz end_ (S (S n)) from fs) with
      (let to := if end_ <? from + bsz - 1 then end_ else from + bsz - 1 in
       match fs with
       | Some (O, kd) => ([(from, to)], [], FFail kd)
       | _ =>
           let fs' := match fs with Some (S k, kd) => Some (k, kd) | _ => None end in
           let '(qs, es, r) := fetch_loop ch bsz end_ (S n) (from + bsz) fs' in
           ((from, to) :: qs, deliver ch from to ++ es, r)
       end) in H.
    cbv zeta in H. rewrite Hto in H.
    assert (Hcase : (exists kd, fs = Some (O, kd)) \/
                    exists fs', (fs' = match fs with Some (S k, kd) => Some (k, kd) | _ => None end) /\
                                (fs = None -> fs' = None) /\
                                (let '(qs0, es0, r0) := fetch_loop ch bsz end_ (S n) (from + bsz) fs' in
                                 ((from, from + bsz - 1) :: qs0, deliver ch from (from + bsz - 1) ++ es0, r0))
                                = (qs, es, r)).
    { destruct fs as [[[|k] kd]|]; [left; eauto| |]; right; eexists; (split; [reflexivity|]);
        (split; [intros; try discriminate; reflexivity|exact H]). }
    destruct Hcase as [[kd ->]|(fs' & _ & Hnone & H')].
    + inversion H; subst. exists from. repeat split; try lia; try constructor; try discriminate.
      * now rewrite covered_empty by lia.
      * simpl. lia.
      * constructor.
    + destruct (fetch_loop ch bsz end_ (S n) (from + bsz) fs') as [[qs0 es0] r0] eqn:F.
      inversion H'; subst. clear H'.
      assert (A1 : from + bsz + N.of_nat n * bsz <= end_) by lia.
      assert (A2 : end_ < from + bsz + (N.of_nat n + 1) * bsz) by lia.
      destruct (IH (from + bsz) fs' qs0 es0 r A1 A2 F)
        as (c & C1 & C2 & (S1 & S2 & S3 & S4) & C3 & C4 & C5 & C6).
      destruct (deliver_spec ch from (from + bsz - 1)) as (D1 & D2 & D3 & D4 & _); [lia|].
      rewrite Forall_forall in D2, S2.
      exists c. repeat split; try lia; try assumption.
      * apply blocks_sorted_app with (m := from + bsz); try assumption.
        -- intros e He. apply D2 in He. lia.
        -- intros e He. apply S2 in He. lia.
      * apply Forall_forall. intros e He. apply in_app_iff in He. destruct He as [He|He].
        -- apply D2 in He. split; [lia|tauto].
        -- apply S2 in He. split; [lia|tauto].
      * rewrite filter_app, D3, S3.
        replace (from + bsz - 1 + 1) with (from + bsz) by lia.
        apply covered_app; lia.
      * apply Forall_app. split.
        -- eapply Forall_impl; [|exact D4]. intros e. apply marker_ok_mono.
           intros q [<-|[]]. now left.
        -- eapply Forall_impl; [|exact S4]. intros e. apply marker_ok_mono.
           intros q Hq. now right.
      * intros Hn. apply C5, Hnone, Hn.
      * constructor; [simpl; lia|].
        eapply Forall_impl; [|exact C6]. simpl. intros q Hq. lia.
Qed.

(* the fuel is exactly the number of iterations of
   for from := start; from <= end; from += bsz *)
Lemma iterations_exact : forall bsz start end_, 1 <= bsz -> start <= end_ ->
  exists n, iterations bsz start end_ = S n /\
            start + N.of_nat n * bsz <= end_ /\ end_ < start + (N.of_nat n + 1) * bsz.
Proof.
  intros bsz start end_ Hb Hse. unfold iterations.
  exists (N.to_nat ((end_ - start) / bsz)). split; [reflexivity|].
  rewrite N2Nat.id.
  pose proof (N.mul_div_le (end_ - start) bsz ltac:(lia)) as H1.
  pose proof (N.mul_succ_div_gt (end_ - start) bsz ltac:(lia)) as H2.
  split; lia.
Qed.

Lemma fetch_spec : forall c ch start end_ fs qs es r,
  1 <= batch c -> start <= end_ -> fetch c ch start end_ fs = (qs, es, r) ->
  exists cc, start <= cc /\ cc <= end_ + 1 /\ fetched ch start cc qs es /\
             (r = FOk -> cc = end_ + 1) /\ r <> FBad /\ (fs = None -> r = FOk) /\
             Forall (fun q => start <= fst q /\ fst q <= snd q /\ snd q <= end_) qs.
Proof.
  intros c ch start end_ fs qs es r Hb Hse H. unfold fetch in H.
  destruct (N.ltb_spec end_ start); [lia|].
  destruct (iterations_exact (batch c) start end_ Hb Hse) as (n & E & Hlo & Hhi).
  rewrite E in H. eapply fetch_loop_spec; eassumption.
Qed.

(* ---- the cursor after the deliveries ------------------------------------------------------------ *)

Lemma advance_app : forall cur l1 l2, advance cur (l1 ++ l2) = advance (advance cur l1) l2.
Proof. intros. unfold advance. apply fold_left_app. Qed.

Lemma advance_cases : forall cur es,
  (es = [] /\ advance cur es = cur) \/
  (exists l x, es = l ++ [x] /\ advance cur es = e_block x + 1).
Proof.
  intros cur es. induction es as [|e t _] using rev_ind.
  - left. split; reflexivity.
  - right. exists t, e. split; [reflexivity|]. rewrite advance_app. reflexivity.
Qed.

Lemma sorted_lt_advance : forall cur es,
  StronglySorted N.lt (map e_block es) -> Forall (fun e => e_block e < advance cur es) es.
Proof.
  intros cur es H. destruct (advance_cases cur es) as [[-> _]|(l & x & -> & ->)]; [constructor|].
  rewrite map_app in H. apply ss_app_inv in H. destruct H as (_ & _ & H).
  apply Forall_app. split.
  - apply Forall_forall. intros e He. specialize (H (e_block e) (e_block x)).
    assert (e_block e < e_block x); [|lia].
    apply H; [now apply in_map|simpl; now left].
  - constructor; [lia|constructor].
Qed.

Lemma nil_if_no_member : forall (A : Type) (l : list A), (forall x, ~ In x l) -> l = [].
Proof. intros A [|x t] H; [reflexivity|]. exfalso. apply (H x). now left. Qed.

(* after a fetch that got as far as cc, the cursor "last delivered block + 1" covers the same *)
Lemma fetched_advance : forall ch start cc qs es,
  start <= cc -> fetched ch start cc qs es ->
  start <= advance start es /\ advance start es <= cc /\ fetched ch start (advance start es) qs es.
Proof.
  intros ch start cc qs es Hs (F1 & F2 & F3 & F4).
  pose proof (sorted_lt_advance start es F1) as Hlt.
  rewrite Forall_forall in F2, Hlt.
  assert (Hb : start <= advance start es /\ advance start es <= cc).
  { destruct (advance_cases start es) as [[-> ->]|(l & x & E & ->)]; [lia|].
    assert (In x es) by (rewrite E; apply in_app_iff; right; now left).
    apply F2 in H. lia. }
  destruct Hb as [Hb1 Hb2]. repeat split; try assumption.
  - apply Forall_forall. intros e He. specialize (F2 _ He). specialize (Hlt _ He).
    split; [lia|tauto].
  - rewrite F3. rewrite <- (covered_app ch start (advance start es) cc) by assumption.
    rewrite (nil_if_no_member _ (covered ch (advance start es) cc)); [now rewrite app_nil_r|].
    intros e He.
    assert (Hin : In e (filter nonempty es)).
    { rewrite F3, <- (covered_app ch start (advance start es) cc) by assumption.
      apply in_app_iff. now right. }
    apply filter_In in Hin. destruct Hin as [Hin _].
    apply covered_in in He. specialize (Hlt _ Hin). lia.
Qed.

(* ---- one event ------------------------------------------------------------------------------------ *)

Lemma entries_of_app : forall a b, entries_of (a ++ b) = entries_of a ++ entries_of b.
Proof. intros. unfold entries_of. apply flat_map_app. Qed.

Lemma queries_of_app : forall a b, queries_of (a ++ b) = queries_of a ++ queries_of b.
Proof. intros. unfold queries_of. apply flat_map_app. Qed.

Lemma entries_of_queries : forall qs, entries_of (map (fun q => OQuery (fst q) (snd q)) qs) = [].
Proof. induction qs; simpl; auto. Qed.

Lemma entries_of_entries : forall es, entries_of (map OEntry es) = es.
Proof. unfold entries_of. induction es as [|e t IH]; simpl; [reflexivity|]. now rewrite IH. Qed.

Lemma queries_of_queries : forall qs, queries_of (map (fun q => OQuery (fst q) (snd q)) qs) = qs.
Proof.
  unfold queries_of. induction qs as [|[a b] t IH]; simpl; [reflexivity|]. now rewrite IH.
Qed.

Lemma queries_of_entries : forall es, queries_of (map OEntry es) = [].
Proof. induction es; simpl; auto. Qed.

Lemma fail_step_cur : forall s next, s_cur (fail_step s next) = next.
Proof. intros. unfold fail_step. destruct (2 <? s_tries s + 1); reflexivity. Qed.

Lemma fail_step_mode : forall s next, s_mode (fail_step s next) = MSub \/ s_mode (fail_step s next) = MFatal.
Proof. intros. unfold fail_step. destruct (2 <? s_tries s + 1); simpl; auto. Qed.

(* Every event either leaves the cursor alone and delivers nothing, or is a head that triggers a
   fetch from the cursor to head - follow. *)
Definition head_fetch (c : cfg) (ch : chain) (s : st) (e : event) (s' : st) (o : list obs) : Prop :=
  exists h fs qs es r,
    e = EHead h fs /\ s_mode s = MIdle /\ follow c <= h /\ s_cur s <= h - follow c /\
    fetch c ch (s_cur s) (h - follow c) fs = (qs, es, r) /\
    entries_of o = es /\ queries_of o = qs /\
    s_cur s' = match r with FOk => h - follow c + 1 | _ => advance (s_cur s) es end /\
    (r = FOk -> s_mode s' = MIdle) /\ (r <> FOk -> s_mode s' <> MIdle).

Lemma step_cases : forall c ch s e s' o, step c ch s e = (s', o) ->
  (s_cur s' = s_cur s /\ entries_of o = [] /\ queries_of o = []) \/ head_fetch c ch s e s' o.
Proof.
  intros c ch s e s' o H. unfold step in H.
  destruct (s_mode s) eqn:M; destruct e as [| |h fs| | |];
    try (inversion H; subst; left; rewrite ?fail_step_cur; simpl; auto; fail).
  (* MIdle, EHead *)
  destruct (N.ltb_spec h (follow c)); [inversion H; subst; left; auto|].
  destruct (N.ltb_spec (h - follow c) (s_cur s)); [inversion H; subst; left; auto|].
  destruct (fetch c ch (s_cur s) (h - follow c) fs) as [[qs es] r] eqn:F.
  right. exists h, fs, qs, es, r.
  assert (He : forall tl, entries_of (tl) = [] ->
               entries_of ((map (fun q => OQuery (fst q) (snd q)) qs ++ map OEntry es) ++ tl) = es).
  { intros tl Ht. rewrite !entries_of_app, entries_of_queries, entries_of_entries, Ht.
    now rewrite app_nil_r. }
  assert (Hq : forall tl, queries_of (tl) = [] ->
               queries_of ((map (fun q => OQuery (fst q) (snd q)) qs ++ map OEntry es) ++ tl) = qs).
  { intros tl Ht. rewrite !queries_of_app, queries_of_queries, queries_of_entries, Ht.
    now rewrite !app_nil_r. }
  destruct r as [|[| |]|]; inversion H; subst; clear H;
    (repeat split; try assumption; try reflexivity;
     try (apply He; reflexivity); try (apply Hq; reflexivity);
     rewrite ?fail_step_cur; try reflexivity; try discriminate; try congruence).
  all: try (intros _ Hm;
            match goal with
            | Hm : s_mode (fail_step ?a ?b) = MIdle |- _ =>
                destruct (fail_step_mode a b) as [X|X]; rewrite X in Hm; discriminate
            end).
  intros _. simpl. exact M.
Qed.

(* ---- the invariant of the stream -------------------------------------------------------------------- *)

Definition inv (ch : chain) (from : N) (s : st) (out : list obs) : Prop :=
  stream_ok ch from (s_cur s) (entries_of out) /\
  Forall (marker_ok ch (queries_of out)) (entries_of out) /\
  Forall (fun q => from <= fst q /\ fst q <= snd q) (queries_of out).

(* a fetch from the cursor moves the cursor to c1 and delivers exactly the blocks in between *)
Lemma head_fetch_spec : forall c ch s e s' o, 1 <= batch c -> head_fetch c ch s e s' o ->
  s_cur s <= s_cur s' /\
  fetched ch (s_cur s) (s_cur s') (queries_of o) (entries_of o) /\
  Forall (fun q => s_cur s <= fst q /\ fst q <= snd q) (queries_of o) /\
  (forall h fs, e = EHead h fs -> follow c <= h /\ s_cur s' <= h - follow c + 1 /\
      Forall (fun q => snd q <= h - follow c) (queries_of o) /\
      (s_mode s' = MIdle -> s_cur s' = h - follow c + 1)).
Proof.
  intros c ch s e s' o Hb (h & fs & qs & es & r & -> & M & Hf & Hcur & F & -> & -> & Hc & Hm1 & Hm2).
  destruct (fetch_spec _ _ _ _ _ _ _ _ Hb Hcur F) as (cc & C1 & C2 & C3 & C4 & C5 & C6 & C7).
  destruct (fetched_advance _ _ _ _ _ C1 C3) as (A1 & A2 & A3).
  assert (Hq : Forall (fun q => s_cur s <= fst q /\ fst q <= snd q) qs).
  { eapply Forall_impl; [|exact C7]. simpl. tauto. }
  assert (Hq' : Forall (fun q => snd q <= h - follow c) qs).
  { eapply Forall_impl; [|exact C7]. simpl. tauto. }
  destruct r as [|kd|].
  - rewrite Hc. rewrite (C4 eq_refl) in *.
    split; [lia|]. split; [assumption|]. split; [assumption|].
    intros h' fs' E. inversion E; subst.
    split; [assumption|]. split; [lia|]. split; [assumption|]. intros _. reflexivity.
  - rewrite Hc.
    split; [assumption|]. split; [assumption|]. split; [assumption|].
    intros h' fs' E. inversion E; subst.
    split; [assumption|]. split; [lia|]. split; [assumption|].
    intros Hm. exfalso. apply Hm2; [discriminate|assumption].
  - congruence.
Qed.

Lemma step_inv : forall c ch from s out e s' o, 1 <= batch c ->
  inv ch from s out -> step c ch s e = (s', o) -> inv ch from s' (out ++ o).
Proof.
  intros c ch from s out e s' o Hb ((I1 & I2 & I3 & I4) & I5 & I6) H.
  unfold inv. rewrite entries_of_app, queries_of_app.
  destruct (step_cases _ _ _ _ _ _ H) as [(E1 & E2 & E3)|HF].
  - rewrite E1, E2, E3, !app_nil_r. repeat split; assumption.
  - destruct (head_fetch_spec _ _ _ _ _ _ Hb HF) as (M & (F1 & F2 & F3 & F4) & Q & _).
    rewrite Forall_forall in I3, F2.
    repeat split.
    + lia.
    + apply blocks_sorted_app with (m := s_cur s); try assumption.
      * intros x Hx. apply I3 in Hx. lia.
      * intros x Hx. apply F2 in Hx. lia.
    + apply Forall_forall. intros x Hx. apply in_app_iff in Hx. destruct Hx as [Hx|Hx].
      * apply I3 in Hx. split; [lia|tauto].
      * apply F2 in Hx. split; [lia|tauto].
    + rewrite filter_app, I4, F3. apply covered_app; lia.
    + apply Forall_app. split.
      * eapply Forall_impl; [|exact I5]. intros x. apply marker_ok_mono.
        intros q Hq. apply in_app_iff. now left.
      * eapply Forall_impl; [|exact F4]. intros x. apply marker_ok_mono.
        intros q Hq. apply in_app_iff. now right.
    + apply Forall_app. split; [assumption|].
      eapply Forall_impl; [|exact Q]. simpl. intros q Hq. lia.
Qed.

Lemma run_inv : forall c ch from, 1 <= batch c ->
  forall evs s out s' o, inv ch from s out -> run c ch s evs = (s', o) -> inv ch from s' (out ++ o).
Proof.
  intros c ch from Hb. induction evs as [|e tl IH]; intros s out s' o I H; simpl in H.
  - inversion H; subst. now rewrite app_nil_r.
  - destruct (step c ch s e) as [s1 o1] eqn:S1.
    destruct (run c ch s1 tl) as [s2 o2] eqn:R2. inversion H; subst.
    rewrite app_assoc. eapply IH; [|exact R2]. eapply step_inv; eassumption.
Qed.

Lemma inv_init : forall ch from, inv ch from (init from) [].
Proof.
  intros ch from. unfold inv, stream_ok. simpl. repeat split; try constructor; try lia.
  now rewrite covered_empty by lia.
Qed.

Lemma stream_inv : forall c ch from evs s out, 1 <= batch c ->
  stream c ch from evs = (s, out) -> inv ch from s out.
Proof.
  intros c ch from evs s out Hb H. unfold stream in H.
  change out with ([] ++ out). exact (run_inv c ch from Hb evs (init from) [] s out (inv_init ch from) H).
Qed.

(* ---- consequences of the invariant -------------------------------------------------------------------- *)

Lemma sorted_blocks_inj : forall es e1 e2,
  StronglySorted N.lt (map e_block es) -> In e1 es -> In e2 es -> e_block e1 = e_block e2 -> e1 = e2.
Proof.
  induction es as [|a t IH]; intros e1 e2 H H1 H2 E; [contradiction|].
  simpl in H. inversion H as [|? ? Ht Ha]; subst. rewrite Forall_forall in Ha.
  destruct H1 as [X1|H1], H2 as [X2|H2]; subst.
  - reflexivity.
  - assert (e_block e1 < e_block e2) by (apply Ha; now apply in_map). lia.
  - assert (e_block e2 < e_block e1) by (apply Ha; now apply in_map). lia.
  - now apply IH.
Qed.

Lemma ok_exactly_once : forall ch from cur es, stream_ok ch from cur es ->
  forall b, from <= b < cur -> visible ch b <> [] ->
  exists! e, In e es /\ e_block e = b /\ e_logs e = shown ch b.
Proof.
  intros ch from cur es (H1 & H2 & H3 & H4) b Hb Hv.
  exists {| e_block := b; e_logs := shown ch b |}. split.
  - split; [|split; reflexivity].
    assert (Hin : In {| e_block := b; e_logs := shown ch b |} (filter nonempty es)).
    { rewrite H4. apply covered_mem; [assumption|]. now apply has_logs_true. }
    apply filter_In in Hin. tauto.
  - intros e' (Hin & Hblk & _).
    assert (Hin0 : In {| e_block := b; e_logs := shown ch b |} (filter nonempty es)).
    { rewrite H4. apply covered_mem; [assumption|]. now apply has_logs_true. }
    apply filter_In in Hin0. destruct Hin0 as [Hin0 _].
    eapply sorted_blocks_inj; try eassumption. simpl. now rewrite Hblk.
Qed.

(* chains as execution nodes present them: the sort has nothing to do *)
Lemma ss_filter : forall (A : Type) (R : A -> A -> Prop) f l,
  StronglySorted R l -> StronglySorted R (filter f l).
Proof.
  induction l as [|a t IH]; intros H; simpl; [constructor|].
  inversion H as [|? ? Ht Ha]; subst. destruct (f a); [|now apply IH].
  constructor; [now apply IH|]. rewrite Forall_forall in *. intros x Hx.
  apply filter_In in Hx. now apply Ha.
Qed.

Lemma logs_at_ksorted : forall b l,
  StronglySorted N.le (map c_tx l) -> ksorted (map (mk_log b) l).
Proof.
  unfold ksorted. induction l as [|a t IH]; intros H; simpl; [constructor|].
  simpl in H. inversion H as [|? ? Ht Ha]; subst. constructor; [now apply IH|].
  rewrite Forall_forall in *. intros x Hx. apply in_map_iff in Hx. destruct Hx as (y & <- & Hy).
  unfold key_lt. simpl. rewrite N.eqb_refl. apply N.ltb_ge. apply Ha. now apply in_map.
Qed.

Lemma shown_ordered : forall ch b, chain_ordered ch -> shown ch b = visible ch b.
Proof.
  intros ch b H. unfold shown. apply sort_sorted_id. unfold visible, logs_at.
  apply ss_filter. apply logs_at_ksorted. apply H.
Qed.

(* the cursor never moves back, and never beyond what the heads allow *)
Lemma step_cur_mono : forall c ch s e s' o, 1 <= batch c ->
  step c ch s e = (s', o) -> s_cur s <= s_cur s'.
Proof.
  intros c ch s e s' o Hb H. destruct (step_cases _ _ _ _ _ _ H) as [(E1 & _)|HF]; [lia|].
  apply (head_fetch_spec _ _ _ _ _ _ Hb HF).
Qed.

Lemma run_cur_mono : forall c ch, 1 <= batch c ->
  forall evs s s' o, run c ch s evs = (s', o) -> s_cur s <= s_cur s'.
Proof.
  intros c ch Hb. induction evs as [|e tl IH]; intros s s' o H; simpl in H.
  - inversion H; subst. lia.
  - destruct (step c ch s e) as [s1 o1] eqn:S1.
    destruct (run c ch s1 tl) as [s2 o2] eqn:R2. inversion H; subst.
    apply step_cur_mono in S1; [|assumption]. apply IH in R2. lia.
Qed.

Definition reach1 (c : cfg) (e : event) : N :=
  match e with EHead h _ => if h <? follow c then 0 else h - follow c + 1 | _ => 0 end.

Lemma reach_cons : forall c e tl, reach c (e :: tl) = N.max (reach1 c e) (reach c tl).
Proof. intros c [] tl; simpl; try reflexivity; now rewrite N.max_0_l. Qed.

Lemma step_reach : forall c ch s e s' o, 1 <= batch c -> step c ch s e = (s', o) ->
  s_cur s' <= N.max (s_cur s) (reach1 c e) /\
  Forall (fun q => snd q < N.max (s_cur s) (reach1 c e)) (queries_of o).
Proof.
  intros c ch s e s' o Hb H. destruct (step_cases _ _ _ _ _ _ H) as [(E1 & _ & E3)|HF].
  - rewrite E1, E3. split; [lia|constructor].
  - destruct (head_fetch_spec _ _ _ _ _ _ Hb HF) as (_ & _ & _ & Hh).
    destruct HF as (h & fs & _ & _ & _ & -> & _).
    destruct (Hh h fs eq_refl) as (Hf & Hc & Hq & _).
    unfold reach1. destruct (N.ltb_spec h (follow c)); [lia|]. split; [lia|].
    eapply Forall_impl; [|exact Hq]. simpl. intros q Hq'. lia.
Qed.

Lemma run_reach : forall c ch, 1 <= batch c ->
  forall evs s s' o, run c ch s evs = (s', o) ->
  s_cur s' <= N.max (s_cur s) (reach c evs) /\
  Forall (fun q => snd q < N.max (s_cur s) (reach c evs)) (queries_of o).
Proof.
  intros c ch Hb. induction evs as [|e tl IH]; intros s s' o H; simpl in H.
  - inversion H; subst. split; [simpl; lia|constructor].
  - destruct (step c ch s e) as [s1 o1] eqn:S1.
    destruct (run c ch s1 tl) as [s2 o2] eqn:R2. inversion H; subst.
    rewrite reach_cons. destruct (step_reach _ _ _ _ _ _ Hb S1) as [A1 A2].
    destruct (IH _ _ _ R2) as [B1 B2]. split; [lia|].
    rewrite queries_of_app. apply Forall_app. split.
    + eapply Forall_impl; [|exact A2]. simpl. intros q Hq. lia.
    + eapply Forall_impl; [|exact B2]. simpl. intros q Hq. lia.
Qed.

(* once the client is idle again after head h, everything up to h - follow is covered *)
Lemma head_idle_covers : forall c ch s h fs s' o, 1 <= batch c ->
  s_mode s = MIdle -> step c ch s (EHead h fs) = (s', o) -> s_mode s' = MIdle ->
  follow c <= h -> h - follow c < s_cur s'.
Proof.
  intros c ch s h fs s' o Hb M H M' Hf.
  destruct (step_cases _ _ _ _ _ _ H) as [(E1 & _)|HF].
  - unfold step in H. rewrite M in H.
    destruct (N.ltb_spec h (follow c)); [lia|].
    destruct (N.ltb_spec (h - follow c) (s_cur s)); [lia|].
    destruct (fetch c ch (s_cur s) (h - follow c) fs) as [[qs es] r] eqn:F.
    destruct (fetch_spec _ _ _ _ _ _ _ _ Hb H1 F) as (cc & C1 & C2 & C3 & C4 & C5 & _).
    destruct r as [|[| |]|]; inversion H; subst; simpl in *; try lia; try discriminate;
      try congruence;
      try (match goal with
           | Hm : s_mode (fail_step ?a ?b) = MIdle |- _ =>
               destruct (fail_step_mode a b) as [X|X]; rewrite X in Hm; discriminate
           end).
  - destruct (head_fetch_spec _ _ _ _ _ _ Hb HF) as (_ & _ & _ & Hh).
    destruct (Hh h fs eq_refl) as (_ & _ & _ & Hidle). rewrite (Hidle M'). lia.
Qed.

(* a head without failures always ends idle *)
Lemma head_ok_idle : forall c ch s h s' o, 1 <= batch c ->
  s_mode s = MIdle -> step c ch s (EHead h None) = (s', o) -> s_mode s' = MIdle.
Proof.
  intros c ch s h s' o Hb M H. unfold step in H. rewrite M in H.
  destruct (N.ltb_spec h (follow c)); [inversion H; subst; assumption|].
  destruct (N.ltb_spec (h - follow c) (s_cur s)); [inversion H; subst; assumption|].
  destruct (fetch c ch (s_cur s) (h - follow c) None) as [[qs es] r] eqn:F.
  destruct (fetch_spec _ _ _ _ _ _ _ _ Hb H1 F) as (cc & _ & _ & _ & _ & _ & C6 & _).
  rewrite (C6 eq_refl) in H. inversion H; subst. simpl. assumption.
Qed.

(* logger.Fatal: exactly when a failure is counted while two are already on the count; the count is
   reset by a failure of an invocation that moved the cursor *)
Lemma fail_step_fatal_iff : forall s next, s_mode (fail_step s next) = MFatal <-> 2 <= s_tries s.
Proof.
  intros s next. unfold fail_step. destruct (N.ltb_spec 2 (s_tries s + 1)); simpl; split; intros H';
    try lia; try reflexivity; discriminate.
Qed.

Lemma fail_step_tries : forall s next, s_tries s < 2 ->
  s_tries (fail_step s next) = if s_inv s <? next then 0 else s_tries s + 1.
Proof.
  intros s next H. unfold fail_step. destruct (N.ltb_spec 2 (s_tries s + 1)); [lia|reflexivity].
Qed.

Lemma step_tries : forall c ch s e s' o, step c ch s e = (s', o) ->
  s_mode s = MFatal \/ s_tries s <= 2 -> s_mode s' = MFatal \/ s_tries s' <= 2.
Proof.
  intros c ch s e s' o H [Hs|Hs].
  - unfold step in H. rewrite Hs in H. destruct e; inversion H; subst; left; assumption.
  - assert (Hf : forall s0 next, s_tries s0 = s_tries s ->
                 s_mode (fail_step s0 next) = MFatal \/ s_tries (fail_step s0 next) <= 2).
    { intros s0 next E. unfold fail_step. rewrite E.
      destruct (N.ltb_spec 2 (s_tries s + 1)); simpl; [now left|right].
      destruct (s_inv s0 <? next); lia. }
    unfold step in H.
    destruct (s_mode s) eqn:M; destruct e as [| |h fs| | |];
      try (inversion H; subst; simpl; right; assumption);
      try (inversion H; subst; apply Hf; reflexivity).
    destruct (h <? follow c); [inversion H; subst; right; assumption|].
    destruct (h - follow c <? s_cur s); [inversion H; subst; right; assumption|].
    destruct (fetch c ch (s_cur s) (h - follow c) fs) as [[qs es] r].
    destruct r as [|[| |]|]; inversion H; subst; simpl;
      try (right; assumption); apply Hf; reflexivity.
Qed.

Lemma run_tries : forall c ch evs s s' o, run c ch s evs = (s', o) ->
  s_mode s = MFatal \/ s_tries s <= 2 -> s_mode s' = MFatal \/ s_tries s' <= 2.
Proof.
  intros c ch. induction evs as [|e tl IH]; intros s s' o H Hs; simpl in H.
  - inversion H; subst. assumption.
  - destruct (step c ch s e) as [s1 o1] eqn:S1.
    destruct (run c ch s1 tl) as [s2 o2] eqn:R2. inversion H; subst.
    eapply IH; [exact R2|]. eapply step_tries; eassumption.
Qed.

Lemma stream_tries : forall c ch from evs s out, stream c ch from evs = (s, out) ->
  s_mode s = MFatal \/ s_tries s <= 2.
Proof.
  intros c ch from evs s out H. unfold stream in H. eapply run_tries; [exact H|].
  right. simpl. lia.
Qed.

(* nothing is delivered once the stream has ended *)
Lemma run_ended : forall c ch evs s, s_mode s = MDone \/ s_mode s = MFatal ->
  entries_of (snd (run c ch s evs)) = [] /\ fst (run c ch s evs) = s.
Proof.
  intros c ch. induction evs as [|e tl IH]; intros s M; simpl; [auto|].
  assert (S1 : step c ch s e = (s, [OIgnored])).
  { unfold step. destruct M as [-> | ->]; destruct e; reflexivity. }
  rewrite S1. destruct (run c ch s tl) as [s2 o2] eqn:R2.
  destruct (IH s M) as [A B]. rewrite R2 in A, B. simpl in *. auto.
Qed.

(* ---- SyncHistory, and SyncHistory followed by SyncOngoing ------------------------------------------ *)

Lemma last_block_advance : forall cur es, es <> [] -> advance cur es = last_block es + 1.
Proof.
  intros cur es. induction es as [|x t _] using rev_ind; intros Hne; [congruence|].
  unfold advance, last_block. rewrite !fold_left_app. reflexivity.
Qed.

Lemma history_obs : forall c ch from bn fs o r, history c ch from bn fs = (o, r) ->
  (o = [] /\ (r = HNothing \/ r = HErr)) \/
  exists cur qs es fr,
    bn = Some cur /\ follow c <= cur /\ from <= cur - follow c /\
    fetch c ch from (cur - follow c) fs = (qs, es, fr) /\
    entries_of o = es /\ queries_of o = qs /\
    (forall last, r = HOk last -> fr = FOk /\ last = last_block es /\ last <> 0).
Proof.
  intros c ch from bn fs o r H. unfold history in H.
  destruct bn as [cur|]; [|inversion H; subst; left; auto].
  destruct (N.ltb_spec cur (follow c)); [inversion H; subst; left; auto|].
  destruct (N.ltb_spec (cur - follow c) from); [inversion H; subst; left; auto|].
  destruct (fetch c ch from (cur - follow c) fs) as [[qs es] fr] eqn:F.
  right. exists cur, qs, es, fr.
  assert (He : entries_of o = es /\ queries_of o = qs).
  { inversion H; subst. rewrite !entries_of_app, !queries_of_app.
    rewrite entries_of_queries, entries_of_entries, queries_of_queries, queries_of_entries.
    destruct fr; simpl; rewrite ?app_nil_r; auto. }
  destruct He as [He Hq].
  split; [reflexivity|]. split; [lia|]. split; [lia|]. split; [exact F|].
  split; [assumption|]. split; [assumption|].
  intros last Hr. clear He Hq. inversion H as [[Ho Hr']]. rewrite Hr in Hr'.
  destruct (N.eqb_spec (last_block es) 0); [discriminate|].
  destruct (last_block es <? from); [discriminate|].
  destruct fr; inversion Hr'; subst; auto.
Qed.

Lemma history_inv : forall c ch from bn fs o r, 1 <= batch c ->
  history c ch from bn fs = (o, r) -> inv ch from (init (advance from (entries_of o))) o.
Proof.
  intros c ch from bn fs o r Hb H.
  destruct (history_obs _ _ _ _ _ _ _ H) as [(-> & _)|(cur & qs & es & fr & -> & Hf & Hto & F & He & Hq & _)].
  - apply inv_init.
  - destruct (fetch_spec _ _ _ _ _ _ _ _ Hb Hto F) as (cc & C1 & C2 & C3 & _ & _ & _ & C7).
    destruct (fetched_advance _ _ _ _ _ C1 C3) as (A1 & A2 & (F1 & F2 & F3 & F4)).
    unfold inv, stream_ok. simpl. rewrite He, Hq. repeat split; try assumption.
    eapply Forall_impl; [|exact C7]. simpl. tauto.
Qed.

(* a successful history covers everything up to the node's block number minus the follow distance *)
Lemma history_ok : forall c ch from bn fs o last, 1 <= batch c ->
  history c ch from bn fs = (o, HOk last) ->
  exists cur, bn = Some cur /\ follow c <= cur /\
    advance from (entries_of o) = last + 1 /\ last <= cur - follow c /\
    covered ch from (last + 1) = covered ch from (cur - follow c + 1).
Proof.
  intros c ch from bn fs o last Hb H.
  destruct (history_obs _ _ _ _ _ _ _ H) as [(_ & [X|X])|(cur & qs & es & fr & -> & Hf & Hto & F & He & Hq & Hl)];
    try discriminate.
  destruct (Hl last eq_refl) as (-> & -> & Hne).
  destruct (fetch_spec _ _ _ _ _ _ _ _ Hb Hto F) as (cc & C1 & C2 & C3 & C4 & _).
  rewrite (C4 eq_refl) in *.
  destruct (fetched_advance _ _ _ _ _ C1 C3) as (A1 & A2 & (_ & _ & F3 & _)).
  destruct C3 as (_ & _ & F3' & _).
  assert (Hes : es <> []) by (intros ->; apply Hne; reflexivity).
  pose proof (last_block_advance from es Hes) as La. rewrite La in *.
  exists cur. rewrite He.
  split; [reflexivity|]. split; [assumption|]. split; [exact La|]. split; [lia|].
  now rewrite <- F3, <- F3'.
Qed.

Lemma history_nothing : forall c ch from bn fs o,
  history c ch from bn fs = (o, HNothing) -> o = [].
Proof.
  intros c ch from bn fs o H. unfold history in H.
  destruct bn as [cur|]; [|inversion H; reflexivity].
  destruct (cur <? follow c); [inversion H; reflexivity|].
  destruct (cur - follow c <? from); [inversion H; reflexivity|].
  destruct (fetch c ch from (cur - follow c) fs) as [[qs es] fr].
  inversion H. destruct (last_block es =? 0); [discriminate|].
  destruct (last_block es <? from); [discriminate|]. destruct fr; discriminate.
Qed.

Lemma sync_inv : forall c ch from bn fs evs s out, 1 <= batch c ->
  sync c ch from bn fs evs = (Some s, out) -> inv ch from s out.
Proof.
  intros c ch from bn fs evs s out Hb H. unfold sync in H.
  destruct (history c ch from bn fs) as [o1 r] eqn:Hh.
  pose proof (history_inv _ _ _ _ _ _ _ Hb Hh) as I.
  destruct r as [|last|]; simpl in H.
  - destruct (stream c ch from evs) as [s2 o2] eqn:S2. inversion H; subst.
    rewrite (history_nothing _ _ _ _ _ _ Hh). simpl. eapply stream_inv; eassumption.
  - destruct (stream c ch (last + 1) evs) as [s2 o2] eqn:S2. inversion H; subst.
    destruct (history_ok _ _ _ _ _ _ _ Hb Hh) as (cur & _ & _ & Hadv & _).
    rewrite Hadv in I. unfold stream in S2. eapply run_inv; eassumption.
  - discriminate.
Qed.

(* ---- PackLogs on arbitrary input ---------------------------------------------------------------------- *)

Lemma pack_logs_concat : forall l, flat_map e_logs (pack_logs l) = sort l.
Proof. intros. unfold pack_logs. apply group_concat. Qed.

Lemma group_blocks : forall l e, In e (group l) ->
  e_logs e <> [] /\ forall x, In x (e_logs e) -> l_block x = e_block e.
Proof.
  induction l as [|x t IH]; intros e H; [contradiction|].
  rewrite group_cons in H. destruct (group t) as [|e0 es] eqn:G.
  - destruct H as [<-|[]]. simpl. split; [discriminate|]. intros y [<-|[]]. reflexivity.
  - destruct (N.eqb_spec (e_block e0) (l_block x)) as [E|E].
    + destruct H as [<-|H].
      * simpl. split; [discriminate|]. intros y [<-|Hy]; [now rewrite E|].
        apply (IH e0); [now left|assumption].
      * apply IH. now right.
    + destruct H as [<-|H].
      * simpl. split; [discriminate|]. intros y [<-|[]]. reflexivity.
      * apply IH. exact H.
Qed.

Lemma group_sorted_blocks : forall l, ksorted l -> StronglySorted N.lt (map e_block (group l)).
Proof.
  unfold ksorted. induction l as [|x t IH]; intros H; [constructor|].
  inversion H as [|? ? Ht Hx]; subst. specialize (IH Ht).
  rewrite group_cons. destruct (group t) as [|e0 es] eqn:G.
  - simpl. repeat constructor.
  - assert (Hle : forall e, In e (e0 :: es) -> l_block x <= e_block e).
    { intros e He. rewrite <- G in He. destruct (group_blocks _ _ He) as [Hne Hb].
      destruct (e_logs e) as [|y ys] eqn:El; [congruence|].
      rewrite <- (Hb y) by (now left).
      assert (Hy : In y t).
      { rewrite <- (group_concat t). apply in_flat_map. exists e. split; [assumption|].
        rewrite El. now left. }
      rewrite Forall_forall in Hx. specialize (Hx y Hy). unfold key_lt in Hx.
      destruct (N.eqb_spec (l_block y) (l_block x)); [lia|]. apply N.ltb_ge in Hx. lia. }
    destruct (N.eqb_spec (e_block e0) (l_block x)) as [E|E].
    + simpl in *. exact IH.
    + simpl in *. constructor; [exact IH|].
      inversion IH as [|? ? _ H0]; subst.
      constructor.
      * specialize (Hle e0 (or_introl eq_refl)). lia.
      * rewrite Forall_forall in *. intros b Hb. specialize (H0 b Hb).
        specialize (Hle e0 (or_introl eq_refl)). lia.
Qed.

Lemma pack_logs_spec : forall l,
  StronglySorted N.lt (map e_block (pack_logs l)) /\
  flat_map e_logs (pack_logs l) = sort l /\
  Permutation l (sort l) /\
  (forall k, filter (same_key k) (sort l) = filter (same_key k) l) /\
  (forall e, In e (pack_logs l) ->
     e_logs e <> [] /\ forall x, In x (e_logs e) -> l_block x = e_block e).
Proof.
  intros l. repeat split.
  - apply group_sorted_blocks, sort_sorted.
  - apply pack_logs_concat.
  - apply sort_perm.
  - intros k. apply sort_stable.
  - eapply group_blocks, H.
  - eapply group_blocks, H.
Qed.

(* ---- the statements of Props/C13.v ---------------------------------------------------------------------- *)

Lemma stream_final : forall c ch from evs s out, 1 <= batch c ->
  stream c ch from evs = (s, out) -> stream_ok ch from (s_cur s) (entries_of out).
Proof. intros c ch from evs s out Hb H. apply (stream_inv _ _ _ _ _ _ Hb H). Qed.

Lemma stream_exactly_once : forall c ch from evs s out, 1 <= batch c ->
  stream c ch from evs = (s, out) ->
  forall b, from <= b < s_cur s -> visible ch b <> [] ->
  exists! e, In e (entries_of out) /\ e_block e = b /\ e_logs e = shown ch b.
Proof.
  intros c ch from evs s out Hb H. eapply ok_exactly_once, stream_final; eassumption.
Qed.

Lemma stream_markers : forall c ch from evs s out, 1 <= batch c ->
  stream c ch from evs = (s, out) ->
  Forall (marker_ok ch (queries_of out)) (entries_of out) /\
  Forall (fun q => from <= fst q /\ fst q <= snd q) (queries_of out).
Proof. intros c ch from evs s out Hb H. apply (stream_inv _ _ _ _ _ _ Hb H). Qed.

Lemma stream_reach : forall c ch from evs s out, 1 <= batch c ->
  stream c ch from evs = (s, out) ->
  from <= s_cur s /\ s_cur s <= N.max from (reach c evs) /\
  Forall (fun q => snd q < N.max from (reach c evs)) (queries_of out).
Proof.
  intros c ch from evs s out Hb H. unfold stream in H.
  pose proof (run_cur_mono _ _ Hb _ _ _ _ H) as M.
  destruct (run_reach _ _ Hb _ _ _ _ H) as [R1 R2]. simpl in *. auto.
Qed.

Lemma batching_irrelevant : forall c1 c2 ch from evs1 evs2 s1 out1 s2 out2,
  1 <= batch c1 -> 1 <= batch c2 ->
  stream c1 ch from evs1 = (s1, out1) -> stream c2 ch from evs2 = (s2, out2) ->
  s_cur s1 = s_cur s2 ->
  filter nonempty (entries_of out1) = filter nonempty (entries_of out2).
Proof.
  intros c1 c2 ch from evs1 evs2 s1 out1 s2 out2 H1 H2 S1 S2 E.
  destruct (stream_final _ _ _ _ _ _ H1 S1) as (_ & _ & _ & A).
  destruct (stream_final _ _ _ _ _ _ H2 S2) as (_ & _ & _ & B).
  now rewrite A, B, E.
Qed.

Lemma history_final : forall c ch from bn fs o r, 1 <= batch c ->
  history c ch from bn fs = (o, r) ->
  stream_ok ch from (advance from (entries_of o)) (entries_of o) /\
  Forall (marker_ok ch (queries_of o)) (entries_of o).
Proof.
  intros c ch from bn fs o r Hb H. destruct (history_inv _ _ _ _ _ _ _ Hb H) as (A & B & _).
  split; assumption.
Qed.

Lemma sync_final : forall c ch from bn fs evs s out, 1 <= batch c ->
  sync c ch from bn fs evs = (Some s, out) -> stream_ok ch from (s_cur s) (entries_of out).
Proof. intros c ch from bn fs evs s out Hb H. apply (sync_inv _ _ _ _ _ _ _ _ Hb H). Qed.

Lemma sync_exactly_once : forall c ch from bn fs evs s out, 1 <= batch c ->
  sync c ch from bn fs evs = (Some s, out) ->
  forall b, from <= b < s_cur s -> visible ch b <> [] ->
  exists! e, In e (entries_of out) /\ e_block e = b /\ e_logs e = shown ch b.
Proof.
  intros c ch from bn fs evs s out Hb H. eapply ok_exactly_once, sync_final; eassumption.
Qed.

Lemma ended_silent : forall c ch evs s, s_mode s = MDone \/ s_mode s = MFatal ->
  entries_of (snd (run c ch s evs)) = [].
Proof. intros. now apply run_ended. Qed.
