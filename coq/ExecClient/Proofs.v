(* Lemmas about the execution-client model (C13). *)
From Coq Require Import List NArith Bool Sorted Permutation Lia Arith.
From SSV Require Import ExecClient.Model ExecClient.Spec.
Import ListNotations.
Local Open Scope N_scope.

(* ---- the sort -------------------------------------------------------------------------------- *)

Lemma key_lt_asym : forall x y, key_lt x y = true -> key_lt y x = false.
Proof.
  unfold key_lt. intros x y.
  destruct (N.eqb_spec (l_block x) (l_block y)) as [E|E].
  - rewrite E, N.eqb_refl. rewrite N.ltb_lt, N.ltb_ge. lia.
  - destruct (N.eqb_spec (l_block y) (l_block x)) as [E'|E']; [congruence|].
    rewrite N.ltb_lt, N.ltb_ge. lia.
Qed.

Lemma key_lt_blocks : forall x y, l_block x < l_block y -> key_lt x y = true.
Proof.
  unfold key_lt. intros x y H.
  destruct (N.eqb_spec (l_block x) (l_block y)); [lia|]. now apply N.ltb_lt.
Qed.

Lemma insert_in : forall x y l, In y (insert x l) <-> y = x \/ In y l.
Proof.
  induction l as [|z t IH]; simpl.
  - intuition.
  - destruct (key_lt z x); simpl; rewrite ?IH; intuition.
Qed.

Lemma sort_in : forall y l, In y (sort l) <-> In y l.
Proof.
  induction l as [|x t IH]; simpl; [tauto|].
  rewrite insert_in, IH. intuition.
Qed.

Lemma insert_perm : forall x l, Permutation (x :: l) (insert x l).
Proof.
  induction l as [|z t IH]; simpl; [reflexivity|].
  destruct (key_lt z x); [|reflexivity].
  rewrite perm_swap. now apply perm_skip.
Qed.

Lemma sort_perm : forall l, Permutation l (sort l).
Proof.
  induction l as [|x t IH]; simpl; [constructor|].
  rewrite <- insert_perm. now apply perm_skip.
Qed.

Lemma sort_nil : forall l, sort l = [] -> l = [].
Proof.
  intros l H. apply Permutation_nil. rewrite <- H. symmetry. apply sort_perm.
Qed.

Lemma insert_app_lt : forall x s1 s2,
  (forall y, In y s2 -> key_lt x y = true) -> insert x (s1 ++ s2) = insert x s1 ++ s2.
Proof.
  induction s1 as [|z t IH]; intros s2 H; simpl.
  - destruct s2 as [|y t2]; simpl; [reflexivity|].
    rewrite (key_lt_asym x y); [reflexivity|]. apply H. now left.
  - destruct (key_lt z x); simpl; [now rewrite IH|reflexivity].
Qed.

Lemma sort_app_lt : forall l1 l2,
  (forall x y, In x l1 -> In y l2 -> key_lt x y = true) -> sort (l1 ++ l2) = sort l1 ++ sort l2.
Proof.
  induction l1 as [|x t IH]; intros l2 H; simpl; [reflexivity|].
  rewrite IH by (intros; apply H; simpl; auto).
  apply insert_app_lt. intros y Hy. apply H; [now left|]. now apply sort_in.
Qed.

(* already in (block, tx) order: nothing moves *)
Definition ksorted (l : list log) : Prop := StronglySorted (fun x y => key_lt y x = false) l.

Lemma sort_sorted_id : forall l, ksorted l -> sort l = l.
Proof.
  induction l as [|x t IH]; intros H; simpl; [reflexivity|].
  inversion H as [|? ? Ht Hx]; subst. rewrite IH by assumption.
  destruct t as [|y t']; simpl; [reflexivity|].
  inversion Hx as [|? ? Hy _]; subst. now rewrite Hy.
Qed.

(* the result is in (block, tx) order ... *)
Lemma key_lt_false_trans : forall x y z,
  key_lt y x = false -> key_lt z y = false -> key_lt z x = false.
Proof.
  unfold key_lt. intros x y z.
  destruct (N.eqb_spec (l_block y) (l_block x)), (N.eqb_spec (l_block z) (l_block y)),
           (N.eqb_spec (l_block z) (l_block x)); rewrite ?N.ltb_ge; try lia.
Qed.

Lemma key_lt_total : forall x y, key_lt x y = false -> key_lt y x = false \/ key_lt y x = true.
Proof. intros. destruct (key_lt y x); auto. Qed.

Lemma insert_sorted : forall x l, ksorted l -> ksorted (insert x l).
Proof.
  unfold ksorted. induction l as [|z t IH]; intros H; simpl.
  - repeat constructor.
  - inversion H as [|? ? Ht Hz]; subst.
    destruct (key_lt z x) eqn:E.
    + constructor; [now apply IH|].
      apply Forall_forall. intros y Hy. apply insert_in in Hy. destruct Hy as [->|Hy].
      * now apply key_lt_asym.
      * rewrite Forall_forall in Hz. now apply Hz.
    + constructor; [assumption|]. constructor; [assumption|].
      rewrite Forall_forall in *. intros y Hy. eapply key_lt_false_trans; [exact E|]. now apply Hz.
Qed.

Lemma sort_sorted : forall l, ksorted (sort l).
Proof.
  induction l as [|x t IH]; simpl; [constructor|]. now apply insert_sorted.
Qed.

(* ... and the sort is stable: logs with the same (block, tx) keep their relative order *)
Definition same_key (k x : log) : bool := (l_block x =? l_block k) && (l_tx x =? l_tx k).

Lemma same_key_not_lt : forall k x y, same_key k x = true -> same_key k y = true -> key_lt x y = false.
Proof.
  unfold same_key, key_lt. intros k x y Hx Hy.
  apply andb_true_iff in Hx, Hy. destruct Hx as [Hx1 Hx2], Hy as [Hy1 Hy2].
  apply N.eqb_eq in Hx1, Hx2, Hy1, Hy2.
  rewrite Hx1, Hy1, N.eqb_refl. apply N.ltb_ge. lia.
Qed.

Lemma insert_stable : forall k x l,
  filter (same_key k) (insert x l) =
  if same_key k x then x :: filter (same_key k) l else filter (same_key k) l.
Proof.
  induction l as [|z t IH]; simpl.
  - destruct (same_key k x); reflexivity.
  - destruct (key_lt z x) eqn:E; simpl.
    + rewrite IH. destruct (same_key k z) eqn:Ez, (same_key k x) eqn:Ex; try reflexivity.
      rewrite (same_key_not_lt k z x Ez Ex) in E. discriminate.
    + destruct (same_key k x); reflexivity.
Qed.

Lemma sort_stable : forall k l, filter (same_key k) (sort l) = filter (same_key k) l.
Proof.
  induction l as [|x t IH]; simpl; [reflexivity|].
  rewrite insert_stable, IH. reflexivity.
Qed.

(* ---- the grouping ---------------------------------------------------------------------------- *)

Lemma group_head : forall l e es, group l = e :: es -> exists x t, l = x :: t /\ e_block e = l_block x.
Proof.
  destruct l as [|x t]; simpl; intros e es H; [discriminate|].
  exists x, t. split; [reflexivity|].
  destruct (group t) as [|e' es'].
  - inversion H. reflexivity.
  - destruct (N.eqb_spec (e_block e') (l_block x)); inversion H; simpl; congruence.
Qed.

Lemma group_concat : forall l, flat_map e_logs (group l) = l.
Proof.
  induction l as [|x t IH]; simpl; [reflexivity|].
  destruct (group t) as [|e es] eqn:G.
  - simpl in *. now rewrite <- IH.
  - destruct (e_block e =? l_block x); simpl in *; now rewrite <- IH.
Qed.

Lemma group_cons : forall x t,
  group (x :: t) =
  match group t with
  | e :: es =>
      if e_block e =? l_block x
      then {| e_block := e_block e; e_logs := x :: e_logs e |} :: es
      else {| e_block := l_block x; e_logs := [x] |} :: e :: es
  | [] => [{| e_block := l_block x; e_logs := [x] |}]
  end.
Proof. reflexivity. Qed.

(* a run of logs of block a in front of logs of other blocks becomes one entry *)
Lemma group_run : forall a s r,
  s <> [] -> (forall x, In x s -> l_block x = a) ->
  (forall x t, r = x :: t -> l_block x <> a) ->
  group (s ++ r) = {| e_block := a; e_logs := s |} :: group r.
Proof.
  induction s as [|x t IH]; intros r Hne Hs Hr; [congruence|].
  destruct t as [|y t'].
  - simpl. destruct (group r) as [|e es] eqn:G.
    + rewrite (Hs x) by (now left). reflexivity.
    + destruct (group_head _ _ _ G) as (z & tz & -> & Hb).
      rewrite Hb. destruct (N.eqb_spec (l_block z) (l_block x)) as [E|E].
      * exfalso. apply (Hr z tz eq_refl). rewrite E. apply Hs. now left.
      * rewrite (Hs x) by (now left). reflexivity.
  - change ((x :: y :: t') ++ r) with (x :: ((y :: t') ++ r)).
    rewrite group_cons. rewrite IH; [|discriminate|intros; apply Hs; now right|assumption].
    cbn [e_block e_logs]. rewrite (Hs x) by (now left). rewrite N.eqb_refl. reflexivity.
Qed.

(* ---- blocks, eth_getLogs and what one batch delivers ------------------------------------------- *)

Lemma logs_at_block : forall ch b x, In x (logs_at ch b) -> l_block x = b.
Proof.
  unfold logs_at. intros ch b x H. apply in_map_iff in H. destruct H as (c & <- & _). reflexivity.
Qed.

Lemma visible_block : forall ch b x, In x (visible ch b) -> l_block x = b.
Proof.
  unfold visible. intros ch b x H. apply filter_In in H. eapply logs_at_block, H.
Qed.

Lemma shown_block : forall ch b x, In x (shown ch b) -> l_block x = b.
Proof. unfold shown. intros ch b x H. apply -> sort_in in H. eapply visible_block, H. Qed.

Lemma shown_nil : forall ch b, shown ch b = [] <-> visible ch b = [].
Proof.
  unfold shown. intros ch b. split; intros H; [now apply sort_nil|now rewrite H].
Qed.

Lemma has_logs_true : forall ch b, has_logs ch b = true <-> visible ch b <> [].
Proof.
  unfold has_logs. intros ch b. destruct (visible ch b); split; intros H; congruence.
Qed.

Lemma has_logs_false : forall ch b, has_logs ch b = false <-> visible ch b = [].
Proof.
  unfold has_logs. intros ch b. destruct (visible ch b); split; intros H; congruence.
Qed.

Lemma query_n_blocks : forall ch n a x,
  In x (query_n ch n a) -> a <= l_block x < a + N.of_nat n.
Proof.
  induction n as [|n IH]; intros a x H; simpl in H; [contradiction|].
  apply in_app_iff in H. destruct H as [H|H].
  - apply logs_at_block in H. lia.
  - apply IH in H. lia.
Qed.

Lemma live_query_n_nil : forall ch n a,
  filter live (query_n ch n a) = [] -> forall b, a <= b < a + N.of_nat n -> visible ch b = [].
Proof.
  induction n as [|n IH]; intros a H b Hb; [lia|].
  simpl in H. rewrite filter_app in H. apply app_eq_nil in H. destruct H as [H1 H2].
  destruct (N.eq_dec b a) as [->|Hne]; [exact H1|].
  apply (IH (a + 1) H2). lia.
Qed.

Lemma pack_query_n : forall ch n a, pack_logs (filter live (query_n ch n a)) = span ch n a.
Proof.
  induction n as [|n IH]; intros a; [reflexivity|].
  simpl. rewrite filter_app. fold (visible ch a). unfold pack_logs.
  rewrite sort_app_lt.
  2:{ intros x y Hx Hy. apply key_lt_blocks. apply visible_block in Hx.
      apply filter_In in Hy. destruct Hy as [Hy _]. apply query_n_blocks in Hy. lia. }
  fold (shown ch a). specialize (IH (a + 1)). unfold pack_logs in IH.
  destruct (has_logs ch a) eqn:E.
  - rewrite group_run with (a := a).
    + rewrite IH. reflexivity.
    + intros H. apply shown_nil in H. apply has_logs_true in E. contradiction.
    + intros x Hx. eapply shown_block, Hx.
    + intros x t Hr. assert (Hin : In x (sort (filter live (query_n ch n (a + 1))))) by (rewrite Hr; now left).
      apply -> sort_in in Hin. apply filter_In in Hin. destruct Hin as [Hin _]. apply query_n_blocks in Hin. lia.
  - apply has_logs_false, shown_nil in E. rewrite E. simpl. exact IH.
Qed.

Lemma span_in : forall ch n a e, In e (span ch n a) ->
  a <= e_block e < a + N.of_nat n /\ e_logs e = shown ch (e_block e) /\
  has_logs ch (e_block e) = true.
Proof.
  induction n as [|n IH]; intros a e H; simpl in H; [contradiction|].
  apply in_app_iff in H. destruct H as [H|H].
  - destruct (has_logs ch a) eqn:E; [|contradiction].
    destruct H as [<-|[]]. simpl. repeat split; try lia. exact E.
  - apply IH in H. destruct H as (H1 & H2 & H3). repeat split; try assumption; lia.
Qed.

Lemma span_nonempty : forall ch n a e, In e (span ch n a) -> nonempty e = true.
Proof.
  intros ch n a e H. apply span_in in H. destruct H as (_ & H2 & H3).
  unfold nonempty. rewrite H2. apply has_logs_true in H3.
  destruct (shown ch (e_block e)) eqn:E; [|reflexivity]. apply shown_nil in E. contradiction.
Qed.

Lemma filter_all : forall (A : Type) (f : A -> bool) l, (forall x, In x l -> f x = true) -> filter f l = l.
Proof.
  induction l as [|x t IH]; intros H; simpl; [reflexivity|].
  rewrite H by (now left). rewrite IH; [reflexivity|]. intros; apply H; now right.
Qed.

Lemma filter_nonempty_span : forall ch n a, filter nonempty (span ch n a) = span ch n a.
Proof. intros. apply filter_all. intros x Hx. eapply span_nonempty, Hx. Qed.

Lemma span_sorted : forall ch n a, StronglySorted N.lt (map e_block (span ch n a)).
Proof.
  induction n as [|n IH]; intros a; simpl; [constructor|].
  destruct (has_logs ch a); simpl; [|apply IH].
  constructor; [apply IH|].
  apply Forall_forall. intros b Hb. apply in_map_iff in Hb. destruct Hb as (e & <- & He).
  apply span_in in He. lia.
Qed.

Lemma span_app : forall ch n m a, span ch (n + m) a = span ch n a ++ span ch m (a + N.of_nat n).
Proof.
  induction n as [|n IH]; intros m a; simpl.
  - now rewrite N.add_0_r.
  - rewrite IH, <- app_assoc. do 3 f_equal. lia.
Qed.

Lemma span_mem : forall ch n a b, a <= b < a + N.of_nat n -> has_logs ch b = true ->
  In {| e_block := b; e_logs := shown ch b |} (span ch n a).
Proof.
  induction n as [|n IH]; intros a b Hb E; [lia|].
  simpl. apply in_app_iff. destruct (N.eq_dec b a) as [->|Hne].
  - left. rewrite E. now left.
  - right. apply IH; [lia|assumption].
Qed.

Lemma covered_app : forall ch a b c, a <= b -> b <= c ->
  covered ch a b ++ covered ch b c = covered ch a c.
Proof.
  unfold covered. intros ch a b c H1 H2.
  replace (N.to_nat (c - a)) with (N.to_nat (b - a) + N.to_nat (c - b))%nat by lia.
  rewrite span_app. do 2 f_equal. lia.
Qed.

Lemma covered_in : forall ch a c e, In e (covered ch a c) ->
  a <= e_block e < c /\ e_logs e = shown ch (e_block e) /\ has_logs ch (e_block e) = true.
Proof.
  unfold covered. intros ch a c e H. apply span_in in H. destruct H as (H1 & H2 & H3).
  repeat split; try assumption; lia.
Qed.

Lemma covered_mem : forall ch a c b, a <= b < c -> has_logs ch b = true ->
  In {| e_block := b; e_logs := shown ch b |} (covered ch a c).
Proof. unfold covered. intros. apply span_mem; [lia|assumption]. Qed.

Lemma covered_empty : forall ch a c, c <= a -> covered ch a c = [].
Proof. unfold covered. intros ch a c H. replace (N.to_nat (c - a)) with O by lia. reflexivity. Qed.

Lemma query_le : forall ch a b, a <= b -> query ch a b = query_n ch (N.to_nat (b + 1 - a)) a.
Proof. unfold query. intros ch a b H. destruct (N.ltb_spec b a); [lia|reflexivity]. Qed.

Lemma deliver_spec : forall ch a b, a <= b ->
  StronglySorted N.lt (map e_block (deliver ch a b)) /\
  Forall (fun e => a <= e_block e <= b /\ e_logs e = shown ch (e_block e)) (deliver ch a b) /\
  filter nonempty (deliver ch a b) = covered ch a (b + 1) /\
  Forall (marker_ok ch [(a, b)]) (deliver ch a b) /\
  deliver ch a b <> [].
Proof.
  intros ch a b Hab. unfold deliver. rewrite query_le by assumption.
  pose proof (pack_query_n ch (N.to_nat (b + 1 - a)) a) as P.
  fold (covered ch a (b + 1)) in P.
  destruct (filter live (query_n ch (N.to_nat (b + 1 - a)) a)) as [|x v] eqn:V.
  - assert (Hvis : forall k, a <= k <= b -> visible ch k = []).
    { intros k Hk. eapply live_query_n_nil; [exact V|lia]. }
    repeat split.
    + simpl. repeat constructor.
    + constructor; [|constructor]. simpl. repeat split; try lia.
      symmetry. apply shown_nil, Hvis. lia.
    + rewrite <- P. reflexivity.
    + constructor; [|constructor]. intros _. exists (a, b). simpl. repeat split; auto.
    + discriminate.
  - rewrite P. repeat split.
    + apply span_sorted.
    + apply Forall_forall. intros e He. apply covered_in in He. destruct He as (H1 & H2 & _).
      split; [lia|assumption].
    + apply filter_nonempty_span.
    + apply Forall_forall. intros e He Hnil. apply span_nonempty in He.
      unfold nonempty in He. rewrite Hnil in He. discriminate.
    + intros H. rewrite H in P. unfold pack_logs in P.
      pose proof (group_concat (sort (x :: v))) as G. rewrite P in G.
      change (flat_map e_logs []) with (@nil log) in G.
      symmetry in G. apply sort_nil in G. discriminate.
Qed.

(* ---- sorted lists ------------------------------------------------------------------------------ *)

Lemma ss_app_inv : forall (A : Type) (R : A -> A -> Prop) l1 l2,
  StronglySorted R (l1 ++ l2) ->
  StronglySorted R l1 /\ StronglySorted R l2 /\ (forall x y, In x l1 -> In y l2 -> R x y).
Proof.
  induction l1 as [|a t IH]; intros l2 H; simpl in *.
  - repeat split; [constructor|assumption|contradiction].
  - inversion H as [|? ? Ht Ha]; subst. destruct (IH _ Ht) as (H1 & H2 & H3).
    rewrite Forall_forall in Ha. repeat split; try assumption.
    + constructor; [assumption|]. apply Forall_forall. intros x Hx. apply Ha, in_app_iff. now left.
    + intros x y [<-|Hx] Hy; [apply Ha, in_app_iff; now right|now apply H3].
Qed.

Lemma ss_app : forall (A : Type) (R : A -> A -> Prop) l1 l2,
  StronglySorted R l1 -> StronglySorted R l2 -> (forall x y, In x l1 -> In y l2 -> R x y) ->
  StronglySorted R (l1 ++ l2).
Proof.
  induction l1 as [|a t IH]; intros l2 H1 H2 H; simpl; [assumption|].
  inversion H1 as [|? ? Ht Ha]; subst. constructor.
  - apply IH; try assumption. intros; apply H; simpl; auto.
  - apply Forall_forall. intros x Hx. apply in_app_iff in Hx. destruct Hx as [Hx|Hx].
    + rewrite Forall_forall in Ha. now apply Ha.
    + apply H; simpl; auto.
Qed.

Lemma blocks_sorted_app : forall (l1 l2 : list entry) m,
  StronglySorted N.lt (map e_block l1) -> StronglySorted N.lt (map e_block l2) ->
  (forall e, In e l1 -> e_block e < m) -> (forall e, In e l2 -> m <= e_block e) ->
  StronglySorted N.lt (map e_block (l1 ++ l2)).
Proof.
  intros l1 l2 m H1 H2 Ha Hb. rewrite map_app. apply ss_app; try assumption.
  intros x y Hx Hy. apply in_map_iff in Hx, Hy.
  destruct Hx as (e1 & <- & He1), Hy as (e2 & <- & He2).
  specialize (Ha _ He1). specialize (Hb _ He2). lia.
Qed.

(* ---- fetchLogsInBatches ----------------------------------------------------------------------- *)

(* what a fetch that started at from and got as far as c (exclusive) has put on the channel *)
Definition fetched (ch : chain) (from c : N) (qs : list (N * N)) (es : list entry) : Prop :=
  StronglySorted N.lt (map e_block es) /\
  Forall (fun e => (from <= e_block e < c) /\ e_logs e = shown ch (e_block e)) es /\
  filter nonempty es = covered ch from c /\
  Forall (marker_ok ch qs) es.

Lemma marker_ok_mono : forall ch qs qs' e,
  (forall q, In q qs -> In q qs') -> marker_ok ch qs e -> marker_ok ch qs' e.
Proof.
  unfold marker_ok. intros ch qs qs' e Hi H Hn. destruct (H Hn) as (q & Hq & Hrest).
  exists q. split; [now apply Hi|assumption].
Qed.

Lemma fetch_loop_spec : forall ch bsz end_, 1 <= bsz ->
  forall n from fs qs es r,
  from + N.of_nat n * bsz <= end_ -> end_ < from + (N.of_nat n + 1) * bsz ->
  fetch_loop ch bsz end_ (S n) from fs = (qs, es, r) ->
  exists c, from <= c /\ c <= end_ + 1 /\ fetched ch from c qs es /\
            (r = FOk -> c = end_ + 1) /\ r <> FBad /\ (fs = None -> r = FOk) /\
            Forall (fun q => from <= fst q /\ fst q <= snd q /\ snd q <= end_) qs.
Proof.
  intros ch bsz end_ Hb. induction n as [|n IH]; intros from fs qs es r Hlo Hhi H.
  - (* last iteration *)
    simpl in H.
    assert (Hto : (if end_ <? from + bsz - 1 then end_ else from + bsz - 1) = end_).
    { destruct (N.ltb_spec end_ (from + bsz - 1)); lia. }
    rewrite Hto in H.
    destruct fs as [[[|k] kd]|].
    + inversion H; subst. exists from. repeat split; try lia; try constructor; try discriminate.
      * now rewrite covered_empty by lia.
      * simpl. lia.
      * constructor.
    + inversion H; subst. rewrite app_nil_r.
      destruct (deliver_spec ch from end_) as (D1 & D2 & D3 & D4 & _); [lia|].
      exists (end_ + 1). repeat split; try lia; try assumption; try discriminate.
      * eapply Forall_impl; [|exact D2]. simpl. intros e He. split; [lia|tauto].
      * repeat constructor; simpl; lia.
    + inversion H; subst. rewrite app_nil_r.
      destruct (deliver_spec ch from end_) as (D1 & D2 & D3 & D4 & _); [lia|].
      exists (end_ + 1). repeat split; try lia; try assumption; try discriminate.
      * eapply Forall_impl; [|exact D2]. simpl. intros e He. split; [lia|tauto].
      * repeat constructor; simpl; lia.
  - (* a full batch, more to come *)
    rewrite Nat2N.inj_succ in Hlo, Hhi.
    assert (Hto : (if end_ <? from + bsz - 1 then end_ else from + bsz - 1) = from + bsz - 1).
    { destruct (N.ltb_spec end_ (from + bsz - 1)); lia. }
    change (fetch_loop ch bsz end_ (S (S n)) from fs) with
      (let to := if end_ <? from + bsz - 1 then end_ else from + bsz - 1 in
       match fs with
       | Some (O, kd) => ([(from, to)], [], FFail kd)
       | _ =>
           let fs' := match fs with Some (S k, kd) => Some (k, kd) | _ => None end in
           let '(qs, es, r) := fetch_loop ch bsz end_ (S n) (from + bsz) fs' in
           ((from, to) :: qs, deliver ch from to ++ es, r)
       end) in H.
    cbv zeta in H. rewrite Hto in H.
    assert (Hcase : (exists kd, fs = Some (O, kd)) \/
                    exists fs', (fs' = match fs with Some (S k, kd) => Some (k, kd) | _ => None end) /\
                                (fs = None -> fs' = None) /\
                                (let '(qs0, es0, r0) := fetch_loop ch bsz end_ (S n) (from + bsz) fs' in
                                 ((from, from + bsz - 1) :: qs0, deliver ch from (from + bsz - 1) ++ es0, r0))
                                = (qs, es, r)).
    { destruct fs as [[[|k] kd]|]; [left; eauto| |]; right; eexists; (split; [reflexivity|]);
        (split; [intros; try discriminate; reflexivity|exact H]). }
    destruct Hcase as [[kd ->]|(fs' & _ & Hnone & H')].
    + inversion H; subst. exists from. repeat split; try lia; try constructor; try discriminate.
      * now rewrite covered_empty by lia.
      * simpl. lia.
      * constructor.
    + destruct (fetch_loop ch bsz end_ (S n) (from + bsz) fs') as [[qs0 es0] r0] eqn:F.
      inversion H'; subst. clear H'.
      assert (A1 : from + bsz + N.of_nat n * bsz <= end_) by lia.
      assert (A2 : end_ < from + bsz + (N.of_nat n + 1) * bsz) by lia.
      destruct (IH (from + bsz) fs' qs0 es0 r A1 A2 F)
        as (c & C1 & C2 & (S1 & S2 & S3 & S4) & C3 & C4 & C5 & C6).
      destruct (deliver_spec ch from (from + bsz - 1)) as (D1 & D2 & D3 & D4 & _); [lia|].
      rewrite Forall_forall in D2, S2.
      exists c. repeat split; try lia; try assumption.
      * apply blocks_sorted_app with (m := from + bsz); try assumption.
        -- intros e He. apply D2 in He. lia.
        -- intros e He. apply S2 in He. lia.
      * apply Forall_forall. intros e He. apply in_app_iff in He. destruct He as [He|He].
        -- apply D2 in He. split; [lia|tauto].
        -- apply S2 in He. split; [lia|tauto].
      * rewrite filter_app, D3, S3.
        replace (from + bsz - 1 + 1) with (from + bsz) by lia.
        apply covered_app; lia.
      * apply Forall_app. split.
        -- eapply Forall_impl; [|exact D4]. intros e. apply marker_ok_mono.
           intros q [<-|[]]. now left.
        -- eapply Forall_impl; [|exact S4]. intros e. apply marker_ok_mono.
           intros q Hq. now right.
      * intros Hn. apply C5, Hnone, Hn.
      * constructor; [simpl; lia|].
        eapply Forall_impl; [|exact C6]. simpl. intros q Hq. lia.
Qed.

(* the fuel is exactly the number of iterations of
   for from := start; from <= end; from += bsz *)
Lemma iterations_exact : forall bsz start end_, 1 <= bsz -> start <= end_ ->
  exists n, iterations bsz start end_ = S n /\
            start + N.of_nat n * bsz <= end_ /\ end_ < start + (N.of_nat n + 1) * bsz.
Proof.
  intros bsz start end_ Hb Hse. unfold iterations.
  exists (N.to_nat ((end_ - start) / bsz)). split; [reflexivity|].
  rewrite N2Nat.id.
  pose proof (N.mul_div_le (end_ - start) bsz ltac:(lia)) as H1.
  pose proof (N.mul_succ_div_gt (end_ - start) bsz ltac:(lia)) as H2.
  split; lia.
Qed.

Lemma fetch_spec : forall c ch start end_ fs qs es r,
  1 <= batch c -> start <= end_ -> fetch c ch start end_ fs = (qs, es, r) ->
  exists cc, start <= cc /\ cc <= end_ + 1 /\ fetched ch start cc qs es /\
             (r = FOk -> cc = end_ + 1) /\ r <> FBad /\ (fs = None -> r = FOk) /\
             Forall (fun q => start <= fst q /\ fst q <= snd q /\ snd q <= end_) qs.
Proof.
  intros c ch start end_ fs qs es r Hb Hse H. unfold fetch in H.
  destruct (N.ltb_spec end_ start); [lia|].
  destruct (iterations_exact (batch c) start end_ Hb Hse) as (n & E & Hlo & Hhi).
  rewrite E in H. eapply fetch_loop_spec; eassumption.
Qed.

(* ---- the cursor after the deliveries ------------------------------------------------------------ *)

Lemma advance_app : forall cur l1 l2, advance cur (l1 ++ l2) = advance (advance cur l1) l2.
Proof. intros. unfold advance. apply fold_left_app. Qed.

Lemma advance_cases : forall cur es,
  (es = [] /\ advance cur es = cur) \/
  (exists l x, es = l ++ [x] /\ advance cur es = e_block x + 1).
Proof.
  intros cur es. induction es as [|e t _] using rev_ind.
  - left. split; reflexivity.
  - right. exists t, e. split; [reflexivity|]. rewrite advance_app. reflexivity.
Qed.

Lemma sorted_lt_advance : forall cur es,
  StronglySorted N.lt (map e_block es) -> Forall (fun e => e_block e < advance cur es) es.
Proof.
  intros cur es H. destruct (advance_cases cur es) as [[-> _]|(l & x & -> & ->)]; [constructor|].
  rewrite map_app in H. apply ss_app_inv in H. destruct H as (_ & _ & H).
  apply Forall_app. split.
  - apply Forall_forall. intros e He. specialize (H (e_block e) (e_block x)).
    assert (e_block e < e_block x); [|lia].
    apply H; [now apply in_map|simpl; now left].
  - constructor; [lia|constructor].
Qed.

Lemma nil_if_no_member : forall (A : Type) (l : list A), (forall x, ~ In x l) -> l = [].
Proof. intros A [|x t] H; [reflexivity|]. exfalso. apply (H x). now left. Qed.

(* after a fetch that got as far as cc, the cursor "last delivered block + 1" covers the same *)
Lemma fetched_advance : forall ch start cc qs es,
  start <= cc -> fetched ch start cc qs es ->
  start <= advance start es /\ advance start es <= cc /\ fetched ch start (advance start es) qs es.
Proof.
  intros ch start cc qs es Hs (F1 & F2 & F3 & F4).
  pose proof (sorted_lt_advance start es F1) as Hlt.
  rewrite Forall_forall in F2, Hlt.
  assert (Hb : start <= advance start es /\ advance start es <= cc).
  { destruct (advance_cases start es) as [[-> ->]|(l & x & E & ->)]; [lia|].
    assert (In x es) by (rewrite E; apply in_app_iff; right; now left).
    apply F2 in H. lia. }
  destruct Hb as [Hb1 Hb2]. repeat split; try assumption.
  - apply Forall_forall. intros e He. specialize (F2 _ He). specialize (Hlt _ He).
    split; [lia|tauto].
  - rewrite F3. rewrite <- (covered_app ch start (advance start es) cc) by assumption.
    rewrite (nil_if_no_member _ (covered ch (advance start es) cc)); [now rewrite app_nil_r|].
    intros e He.
    assert (Hin : In e (filter nonempty es)).
    { rewrite F3, <- (covered_app ch start (advance start es) cc) by assumption.
      apply in_app_iff. now right. }
    apply filter_In in Hin. destruct Hin as [Hin _].
    apply covered_in in He. specialize (Hlt _ Hin). lia.
Qed.

(* ---- one event ------------------------------------------------------------------------------------ *)

Lemma entries_of_app : forall a b, entries_of (a ++ b) = entries_of a ++ entries_of b.
Proof. intros. unfold entries_of. apply flat_map_app. Qed.

Lemma queries_of_app : forall a b, queries_of (a ++ b) = queries_of a ++ queries_of b.
Proof. intros. unfold queries_of. apply flat_map_app. Qed.

Lemma entries_of_queries : forall qs, entries_of (map (fun q => OQuery (fst q) (snd q)) qs) = [].
Proof. induction qs; simpl; auto. Qed.

Lemma entries_of_entries : forall es, entries_of (map OEntry es) = es.
Proof. unfold entries_of. induction es as [|e t IH]; simpl; [reflexivity|]. now rewrite IH. Qed.

Lemma queries_of_queries : forall qs, queries_of (map (fun q => OQuery (fst q) (snd q)) qs) = qs.
Proof.
  unfold queries_of. induction qs as [|[a b] t IH]; simpl; [reflexivity|]. now rewrite IH.
Qed.

Lemma queries_of_entries : forall es, queries_of (map OEntry es) = [].
Proof. induction es; simpl; auto. Qed.

Lemma fail_step_cur : forall s next, s_cur (fail_step s next) = next.
Proof. intros. unfold fail_step. destruct (2 <? s_tries s + 1); reflexivity. Qed.

Lemma fail_step_mode : forall s next, s_mode (fail_step s next) = MSub \/ s_mode (fail_step s next) = MFatal.
Proof. intros. unfold fail_step. destruct (2 <? s_tries s + 1); simpl; auto. Qed.

(* Every event either leaves the cursor alone and delivers nothing, or is a head that triggers a
   fetch from the cursor to head - follow. *)
Definition head_fetch (c : cfg) (ch : chain) (s : st) (e : event) (s' : st) (o : list obs) : Prop :=
  exists h fs qs es r,
    e = EHead h fs /\ s_mode s = MIdle /\ follow c <= h /\ s_cur s <= h - follow c /\
    fetch c ch (s_cur s) (h - follow c) fs = (qs, es, r) /\
    entries_of o = es /\ queries_of o = qs /\
    s_cur s' = match r with FOk => h - follow c + 1 | _ => advance (s_cur s) es end /\
    (r = FOk -> s_mode s' = MIdle) /\ (r <> FOk -> s_mode s' <> MIdle).

Lemma step_cases : forall c ch s e s' o, step c ch s e = (s', o) ->
  (s_cur s' = s_cur s /\ entries_of o = [] /\ queries_of o = []) \/ head_fetch c ch s e s' o.
Proof.
  intros c ch s e s' o H. unfold step in H.
  destruct (s_mode s) eqn:M; destruct e as [| |h fs| | |];
    try (inversion H; subst; left; rewrite ?fail_step_cur; simpl; auto; fail).
  (* MIdle, EHead *)
  destruct (N.ltb_spec h (follow c)); [inversion H; subst; left; auto|].
  destruct (N.ltb_spec (h - follow c) (s_cur s)); [inversion H; subst; left; auto|].
  destruct (fetch c ch (s_cur s) (h - follow c) fs) as [[qs es] r] eqn:F.
  right. exists h, fs, qs, es, r.
  assert (He : forall tl, entries_of (tl) = [] ->
               entries_of ((map (fun q => OQuery (fst q) (snd q)) qs ++ map OEntry es) ++ tl) = es).
  { intros tl Ht. rewrite !entries_of_app, entries_of_queries, entries_of_entries, Ht.
    now rewrite app_nil_r. }
  assert (Hq : forall tl, queries_of (tl) = [] ->
               queries_of ((map (fun q => OQuery (fst q) (snd q)) qs ++ map OEntry es) ++ tl) = qs).
  { intros tl Ht. rewrite !queries_of_app, queries_of_queries, queries_of_entries, Ht.
    now rewrite !app_nil_r. }
  destruct r as [|[| |]|]; inversion H; subst; clear H;
    (repeat split; try assumption; try reflexivity;
     try (apply He; reflexivity); try (apply Hq; reflexivity);
     rewrite ?fail_step_cur; try reflexivity; try discriminate; try congruence).
  all: try (intros _ Hm;
            match goal with
            | Hm : s_mode (fail_step ?a ?b) = MIdle |- _ =>
                destruct (fail_step_mode a b) as [X|X]; rewrite X in Hm; discriminate
            end).
  intros _. simpl. exact M.
Qed.
