(* The cursor logic of StreamLogs / streamLogsToChan as it was before commit dfd84eefb
   ("fix: StreamLogs skipped a block ..."), kept as a regression witness (finding F2).
   Definitions only; everything else is shared with ExecClient/Model.v. *)
From Coq Require Import List NArith Bool.
From SSV Require Import ExecClient.Model.
Import ListNotations.
Local Open Scope N_scope.

Record ost := {
  o_cur : N;     (* streamLogsToChan's fromBlock: only moved after a complete head *)
  o_last : N;    (* the named result lastBlock: last delivered block of this invocation, 0 if none *)
  o_inv : N;     (* StreamLogs' fromBlock *)
  o_tries : N;
  o_mode : mode }.

Definition old_init (from : N) : ost :=
  {| o_cur := from; o_last := 0; o_inv := from; o_tries := 0; o_mode := MSub |}.

(* StreamLogs: lastBlock, err := streamLogsToChan(...); tries++; Fatal if tries > 2;
   tries = 0 if lastBlock > fromBlock; fromBlock = lastBlock + 1 *)
Definition old_fail (s : ost) (ret : N) : ost :=
  let t := o_tries s + 1 in
  if 2 <? t
  then {| o_cur := o_cur s; o_last := o_last s; o_inv := o_inv s; o_tries := t; o_mode := MFatal |}
  else {| o_cur := ret + 1; o_last := 0; o_inv := ret + 1;
          o_tries := if o_inv s <? ret then 0 else t; o_mode := MSub |}.

Definition old_set (s : ost) (cur last : N) (m : mode) : ost :=
  {| o_cur := cur; o_last := last; o_inv := o_inv s; o_tries := o_tries s; o_mode := m |}.

Definition old_step (c : cfg) (ch : chain) (s : ost) (e : event) : ost * list obs :=
  match o_mode s, e with
  | MSub, ESubOk => (old_set s (o_cur s) (o_last s) MIdle, [OStatus MIdle])
  | MSub, ESubFail => let s' := old_fail s (o_cur s) in (s', [OStatus (o_mode s')])
  | MSub, ECancel => (old_set s (o_cur s) (o_last s) MDone, [OStatus MDone])
  | MIdle, EHead h fs =>
      if h <? follow c then (s, [OStatus MIdle]) else
      let to := h - follow c in
      if to <? o_cur s then (s, [OStatus MIdle]) else
      let '(qs, es, r) := fetch c ch (o_cur s) to fs in
      let last1 := fold_left (fun _ e => e_block e) es (o_last s) in
      let o := map (fun q => OQuery (fst q) (snd q)) qs ++ map OEntry es in
      match r with
      | FOk => (old_set s (to + 1) last1 MIdle, o ++ [OMetric to; OMetric (to + 1); OStatus MIdle])
      | FFail FCancel => (old_set s (o_cur s) last1 MDone, o ++ [OStatus MDone])
      | _ => let s' := old_fail (old_set s (o_cur s) last1 MIdle) last1 in
             (s', o ++ [OStatus (o_mode s')])
      end
  | MIdle, ESubErr | MIdle, EDrop =>
      (* return fromBlock, ... : the next block to fetch is handed back as "last block" *)
      let s' := old_fail s (o_cur s) in (s', [OStatus (o_mode s')])
  | MIdle, ECancel => (old_set s (o_cur s) (o_last s) MDone, [OStatus MDone])
  | _, _ => (s, [OIgnored])
  end.

Fixpoint old_run (c : cfg) (ch : chain) (s : ost) (evs : list event) : ost * list obs :=
  match evs with
  | [] => (s, [])
  | e :: tl =>
      let '(s1, o1) := old_step c ch s e in
      let '(s2, o2) := old_run c ch s1 tl in (s2, o1 ++ o2)
  end.

Definition old_stream (c : cfg) (ch : chain) (from : N) (evs : list event) : ost * list obs :=
  old_run c ch (old_init from) evs.
