(* What C13 says about the model of ExecClient/Model.v: the vocabulary of the statements.
   Definitions only. *)
From Coq Require Import List NArith Bool Sorted.
From SSV Require Import ExecClient.Model.
Import ListNotations.
Local Open Scope N_scope.

(* a block's non-removed logs, in node order *)
Definition visible (ch : chain) (b : N) : list log := filter live (logs_at ch b).

(* what an entry for block b carries: the same logs after PackLogs' sort by transaction index *)
Definition shown (ch : chain) (b : N) : list log := sort (visible ch b).

Definition has_logs (ch : chain) (b : N) : bool :=
  match visible ch b with [] => false | _ => true end.

(* Within a block the node lists logs by log index, so transaction indices do not decrease. *)
Definition chain_ordered (ch : chain) : Prop :=
  forall b, StronglySorted N.le (map c_tx (ch b)).

(* the entries for the blocks a, a+1, ..., a+n-1 that have non-removed logs, in block order *)
Fixpoint span (ch : chain) (n : nat) (a : N) : list entry :=
  match n with
  | O => []
  | S n' =>
      (if has_logs ch a then [{| e_block := a; e_logs := shown ch a |}] else [])
      ++ span ch n' (a + 1)
  end.

(* ... for the blocks a <= b < c *)
Definition covered (ch : chain) (a c : N) : list entry := span ch (N.to_nat (c - a)) a.

Definition nonempty (e : entry) : bool :=
  match e_logs e with [] => false | _ => true end.

(* the invariant of the stream, and its final statement: out is what was observed so far of a
   stream started at from, cur the client's cursor *)
Definition stream_ok (ch : chain) (from cur : N) (es : list entry) : Prop :=
  from <= cur /\
  StronglySorted N.lt (map e_block es) /\
  Forall (fun e => from <= e_block e < cur /\ e_logs e = shown ch (e_block e)) es /\
  filter nonempty es = covered ch from cur.

(* an entry without logs is the marker of an eth_getLogs call that found no non-removed log *)
Definition marker_ok (ch : chain) (qs : list (N * N)) (e : entry) : Prop :=
  e_logs e = [] ->
  exists q, In q qs /\ snd q = e_block e /\ fst q <= snd q /\
            forall b, fst q <= b <= snd q -> visible ch b = [].

(* the highest block any head of the schedule allows to be fetched, plus one *)
Fixpoint reach (c : cfg) (evs : list event) : N :=
  match evs with
  | [] => 0
  | EHead h _ :: tl => N.max (if h <? follow c then 0 else h - follow c + 1) (reach c tl)
  | _ :: tl => reach c tl
  end.
