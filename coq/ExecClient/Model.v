(* Executable model of eth/executionclient: execution_client.go (StreamLogs, streamLogsToChan,
   fetchLogsInBatches, FetchHistoricalLogs), logs.go (PackLogs), and of the use
   eth/eventsyncer/event_syncer.go + cli/operator/node.go make of them (SyncHistory, then
   SyncOngoing from the block after the last processed one).
   Definitions only; proofs are in ExecClient/Proofs.v.

   Numbers are N.  Go computes with uint64: the model is exact as long as
   head + logBatchSize < 2^64 for every head (then fromBlock + logBatchSize - 1, the loop
   increment and BlockNumber + 1 cannot wrap); see [no_wrap] in Proofs.v. *)
From Coq Require Import List NArith Bool.
Import ListNotations.
Local Open Scope N_scope.

(* ---- the chain and eth_getLogs ---------------------------------------------------------------- *)

(* A log as stored in a block: transaction index, log index, Removed flag. *)
Record clog := { c_tx : N; c_idx : N; c_removed : bool }.

(* The chain, as far as the registry contract is concerned: block number -> its logs, in the
   order the execution node returns them. *)
Definition chain := N -> list clog.

(* ethtypes.Log, as far as the client looks at it. *)
Record log := { l_block : N; l_tx : N; l_idx : N; l_removed : bool }.

Definition mk_log (b : N) (c : clog) : log :=
  {| l_block := b; l_tx := c_tx c; l_idx := c_idx c; l_removed := c_removed c |}.

Definition logs_at (ch : chain) (b : N) : list log := map (mk_log b) (ch b).

(* The answer to eth_getLogs(fromBlock = a, n consecutive blocks): the logs of the blocks in
   ascending block order, each block's logs in chain order. *)
Fixpoint query_n (ch : chain) (n : nat) (a : N) : list log :=
  match n with
  | O => []
  | S n' => logs_at ch a ++ query_n ch n' (a + 1)
  end.

Definition query (ch : chain) (a b : N) : list log :=
  if b <? a then [] else query_n ch (N.to_nat (b + 1 - a)) a.

Definition live (l : log) : bool := negb (l_removed l).

(* ---- logs.go: PackLogs ------------------------------------------------------------------------- *)

(* BlockLogs *)
Record entry := { e_block : N; e_logs : list log }.

(* the comparison function handed to sort.Slice: by BlockNumber, then TxIndex *)
Definition key_lt (x y : log) : bool :=
  if l_block x =? l_block y then l_tx x <? l_tx y else l_block x <? l_block y.

(* The sort is modelled as a STABLE sort by that key (insertion sort).  sort.Slice is not stable
   in general; it is on slices of at most 12 elements and it leaves an already non-decreasing
   slice untouched, which is the case for everything an execution node returns (Proofs.v,
   [sort_sorted_id]). *)
Fixpoint insert (x : log) (l : list log) : list log :=
  match l with
  | [] => [x]
  | y :: t => if key_lt y x then y :: insert x t else x :: y :: t
  end.

Definition sort (l : list log) : list log := fold_right insert [] l.

(* the grouping loop: a new BlockLogs whenever the block number changes, i.e. the maximal runs of
   adjacent logs with equal block number (written as a right fold) *)
Fixpoint group (l : list log) : list entry :=
  match l with
  | [] => []
  | x :: t =>
      match group t with
      | e :: es =>
          if e_block e =? l_block x
          then {| e_block := e_block e; e_logs := x :: e_logs e |} :: es
          else {| e_block := l_block x; e_logs := [x] |} :: e :: es
      | [] => [{| e_block := l_block x; e_logs := [x] |}]
      end
  end.

Definition pack_logs (l : list log) : list entry := group (sort l).

(* ---- fetchLogsInBatches ------------------------------------------------------------------------ *)

Record cfg := { follow : N; batch : N }.

(* How the environment makes one eth_getLogs call of a fetch fail:
   FErr    the node answers with an error
   FDrop   the connection is cut while the call is in flight
   FCancel the caller's context is cancelled while the call is in flight *)
Inductive fkind := FErr | FDrop | FCancel.

(* Some (k, kd): the k-th call (from 0) of this fetch fails with kd; None: every call succeeds. *)
Definition failspec := option (nat * fkind).

Inductive fres := FOk | FFail (kd : fkind) | FBad (* ErrBadInput: startBlock > endBlock *).

(* what one successful batch puts on the channel *)
Definition deliver (ch : chain) (a b : N) : list entry :=
  match filter live (query ch a b) with
  | [] => [{| e_block := b; e_logs := [] |}]   (* "we have advanced to this block" *)
  | valid => pack_logs valid
  end.

(* the for loop; n = number of iterations still to run.  Returns the (from, to) of every
   eth_getLogs call made, what was put on the channel, and how the fetch ended. *)
Fixpoint fetch_loop (ch : chain) (bsz end_ : N) (n : nat) (from : N) (fs : failspec)
  : list (N * N) * list entry * fres :=
  match n with
  | O => ([], [], FOk)
  | S n' =>
      let to := if end_ <? from + bsz - 1 then end_ else from + bsz - 1 in
      match fs with
      | Some (O, kd) => ([(from, to)], [], FFail kd)
      | _ =>
          let fs' := match fs with Some (S k, kd) => Some (k, kd) | _ => None end in
          let '(qs, es, r) := fetch_loop ch bsz end_ n' (from + bsz) fs' in
          ((from, to) :: qs, deliver ch from to ++ es, r)
      end
  end.

(* number of iterations of  for from := start; from <= end; from += bsz *)
Definition iterations (bsz start end_ : N) : nat := S (N.to_nat ((end_ - start) / bsz)).

Definition fetch (c : cfg) (ch : chain) (start end_ : N) (fs : failspec)
  : list (N * N) * list entry * fres :=
  if end_ <? start then ([], [], FBad)
  else fetch_loop ch (batch c) end_ (iterations (batch c) start end_) start fs.

(* ---- streamLogsToChan / StreamLogs ------------------------------------------------------------- *)

(* Where the StreamLogs goroutine is:
   MSub    inside SubscribeNewHead, waiting for the node's answer
   MIdle   subscribed, in the select of streamLogsToChan
   MDone   returned gracefully (channel closed)
   MFatal  logger.Fatal after the third consecutive failure *)
Inductive mode := MSub | MIdle | MDone | MFatal.

Record st := {
  s_cur : N;     (* streamLogsToChan's fromBlock: next block to fetch *)
  s_inv : N;     (* StreamLogs' fromBlock: the value this invocation of streamLogsToChan started with *)
  s_tries : N;
  s_mode : mode }.

Definition init (from : N) : st :=
  {| s_cur := from; s_inv := from; s_tries := 0; s_mode := MSub |}.

Inductive event :=
| ESubOk                          (* eth_subscribe answered *)
| ESubFail                        (* eth_subscribe answered with an error *)
| EHead (h : N) (fs : failspec)   (* a new head arrives; fs scripts the fetch it may trigger *)
| ESubErr                         (* the subscription reports an error, connection intact *)
| EDrop                           (* the connection is cut while idle *)
| ECancel.                        (* the caller's context is cancelled *)

Inductive obs :=
| OQuery (a b : N)       (* an eth_getLogs call *)
| OEntry (e : entry)     (* a BlockLogs read from the channel *)
| OMetric (v : N)        (* ExecutionClientLastFetchedBlock(v) *)
| OStatus (m : mode)
| OIgnored.              (* the event cannot happen in this mode *)

Definition with_mode (s : st) (m : mode) : st :=
  {| s_cur := s_cur s; s_inv := s_inv s; s_tries := s_tries s; s_mode := m |}.

Definition with_cur (s : st) (c : N) : st :=
  {| s_cur := c; s_inv := s_inv s; s_tries := s_tries s; s_mode := s_mode s |}.

(* StreamLogs after streamLogsToChan returned (next, err) with err neither ErrClosed nor
   context.Canceled: tries++; Fatal if tries > 2; tries = 0 if next > fromBlock; reconnect;
   fromBlock = next; call streamLogsToChan again (which subscribes). *)
Definition fail_step (s : st) (next : N) : st :=
  let t := s_tries s + 1 in
  if 2 <? t then {| s_cur := next; s_inv := s_inv s; s_tries := t; s_mode := MFatal |}
  else {| s_cur := next; s_inv := next;
          s_tries := if s_inv s <? next then 0 else t; s_mode := MSub |}.

(* for block := range logStream { logs <- block; fromBlock = block.BlockNumber + 1 } *)
Definition advance (cur : N) (es : list entry) : N :=
  fold_left (fun _ e => e_block e + 1) es cur.

Definition step (c : cfg) (ch : chain) (s : st) (e : event) : st * list obs :=
  match s_mode s, e with
  | MSub, ESubOk => (with_mode s MIdle, [OStatus MIdle])
  | MSub, ESubFail =>
      (* return fromBlock, "subscribe heads: ..." *)
      let s' := fail_step s (s_cur s) in (s', [OStatus (s_mode s')])
  | MSub, ECancel => (with_mode s MDone, [OStatus MDone])
  | MIdle, EHead h fs =>
      if h <? follow c then (s, [OStatus MIdle]) else
      let to := h - follow c in
      if to <? s_cur s then (s, [OStatus MIdle]) else
      let '(qs, es, r) := fetch c ch (s_cur s) to fs in
      let cur1 := advance (s_cur s) es in
      let o := map (fun q => OQuery (fst q) (snd q)) qs ++ map OEntry es in
      match r with
      | FOk =>
          (with_cur s (to + 1), o ++ [OMetric to; OMetric (to + 1); OStatus MIdle])
      | FFail FCancel =>
          (* "fetch logs: context canceled" is context.Canceled for errors.Is *)
          (with_mode (with_cur s cur1) MDone, o ++ [OStatus MDone])
      | _ =>
          let s' := fail_step (with_cur s cur1) cur1 in (s', o ++ [OStatus (s_mode s')])
      end
  | MIdle, ESubErr | MIdle, EDrop =>
      (* return fromBlock, "subscription: ..." *)
      let s' := fail_step s (s_cur s) in (s', [OStatus (s_mode s')])
  | MIdle, ECancel => (with_mode s MDone, [OStatus MDone])
  | _, _ => (s, [OIgnored])
  end.

Fixpoint run (c : cfg) (ch : chain) (s : st) (evs : list event) : st * list obs :=
  match evs with
  | [] => (s, [])
  | e :: tl =>
      let '(s1, o1) := step c ch s e in
      let '(s2, o2) := run c ch s1 tl in (s2, o1 ++ o2)
  end.

(* StreamLogs(ctx, from) under the environment schedule evs *)
Definition stream (c : cfg) (ch : chain) (from : N) (evs : list event) : st * list obs :=
  run c ch (init from) evs.

Definition entries_of (os : list obs) : list entry :=
  flat_map (fun o => match o with OEntry e => [e] | _ => [] end) os.

Definition queries_of (os : list obs) : list (N * N) :=
  flat_map (fun o => match o with OQuery a b => [(a, b)] | _ => [] end) os.

(* ---- FetchHistoricalLogs as used by EventSyncer.SyncHistory ------------------------------------ *)

(* result of SyncHistory:
   HNothing   ErrNothingToSync
   HOk last   lastProcessedBlock = last
   HErr       any other error (the node stops) *)
Inductive hres := HNothing | HOk (last : N) | HErr.

(* lastProcessedBlock of HandleBlockEventsStream: number of the last BlockLogs, 0 if none *)
Definition last_block (es : list entry) : N := fold_left (fun _ e => e_block e) es 0.

(* bn = Some n: eth_blockNumber answers n; None: it fails *)
Definition history (c : cfg) (ch : chain) (from : N) (bn : option N) (fs : failspec)
  : list obs * hres :=
  match bn with
  | None => ([], HErr)
  | Some cur =>
      if cur <? follow c then ([], HNothing) else
      let to := cur - follow c in
      if to <? from then ([], HNothing) else
      let '(qs, es, r) := fetch c ch from to fs in
      let o := map (fun q => OQuery (fst q) (snd q)) qs ++ map OEntry es in
      let last := last_block es in
      let res :=
        if last =? 0 then HErr
        else if last <? from then HErr
        else match r with FOk => HOk last | _ => HErr end in
      (o ++ match r with FOk => [OMetric to] | _ => [] end, res)
  end.

(* cli/operator/node.go: where SyncOngoing starts after SyncHistory(from) *)
Definition resume (from : N) (r : hres) : option N :=
  match r with
  | HNothing => Some from
  | HOk last => Some (last + 1)
  | HErr => None
  end.

(* SyncHistory(from), then SyncOngoing from where node.go says *)
Definition sync (c : cfg) (ch : chain) (from : N) (bn : option N) (fs : failspec)
                (evs : list event) : option st * list obs :=
  let '(o1, r) := history c ch from bn fs in
  match resume from r with
  | None => (None, o1)
  | Some from' => let '(s, o2) := stream c ch from' evs in (Some s, o1 ++ o2)
  end.
