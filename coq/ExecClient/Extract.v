(* Compiled from ocaml/execclient/ so that model.ml lands there.  ExtrOcamlBasic only. *)
From Coq Require Import Extraction ExtrOcamlBasic.
From SSV Require Import ExecClient.Model.
Extraction "model.ml" step run stream init history resume sync pack_logs entries_of.
