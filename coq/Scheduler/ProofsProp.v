(* Proposer handler: invariant and the three parts of C16. *)
From Coq Require Import List NArith Bool Lia.
From SSV Require Import Scheduler.Model Scheduler.Spec Scheduler.ProofsCommon.
Import ListNotations.
Local Open Scope N_scope.

Definition idf (d : duty) : duty := d.
Lemma map_idf : forall l, map idf l = l.
Proof. intros. unfold idf. apply map_id. Qed.

(* ---- fetch ---------------------------------------------------------------------------------------------- *)

Lemma prop_fetch_spec : forall st e a st1 o ok, prop_fetch st e a = (st1, o, ok) ->
  o = [OFetch e e a] /\ st1 = match a with AOk l => sset st e (add_all true [] l) | _ => st end.
Proof. intros st e a st1 o ok F. destruct a; inversion F; auto. Qed.

Lemma prop_fetch_nodup : forall st e a st1 o ok,
  store_nodup true st -> prop_fetch st e a = (st1, o, ok) -> store_nodup true st1.
Proof.
  intros st e a st1 o ok Hn F. apply prop_fetch_spec in F. destruct F as [_ ->].
  destruct a; auto. apply store_nodup_set; auto. apply add_all_nil_nodup.
Qed.

Lemma prop_fetch_b3 : forall st H e a st1 o ok,
  b3_ok idf st H -> prop_fetch st e a = (st1, o, ok) -> b3_ok idf st1 (H ++ o).
Proof.
  intros st H e a st1 o ok Hb F. apply prop_fetch_spec in F. destruct F as [-> ->].
  destruct a as [| |l]; [apply b3_ok_not_ok; simpl; auto | apply b3_ok_not_ok; simpl; auto |].
  apply b3_ok_set; auto. intros d Hd. rewrite map_idf. now apply add_all_nil_incl in Hd.
Qed.

Lemma prop_fetch_c_same : forall st H e a st1 o ok,
  answer_ok true a -> prop_fetch st e a = (st1, o, ok) -> c_ok idf st1 (H ++ o) e.
Proof.
  intros st H e a st1 o ok Ha F. apply prop_fetch_spec in F. destruct F as [-> ->].
  destruct a as [| |l]; [apply c_ok_not_ok_same; simpl; auto | apply c_ok_not_ok_same; simpl; auto |].
  apply c_ok_set_same. rewrite map_idf. intros d Hd. now apply add_all_has.
Qed.

(* ---- execution ------------------------------------------------------------------------------------------- *)

Lemma prop_exec_in : forall c st s now o, In o (prop_exec c st s now) <->
  exists d, In d (sget st (epoch_of c s)) /\ d_slot d = s /\ d_inc d = true /\
            strict_window now s = true /\ o = ODispatch RProposer s (d_vidx d) (d_tag d).
Proof.
  intros c st s now o. unfold prop_exec. rewrite in_map_iff. split.
  - intros [d [<- Hd]]. apply filter_In in Hd. destruct Hd as [Hd P].
    apply andb_true_iff in P. destruct P as [P W]. apply andb_true_iff in P. destruct P as [Es I].
    apply N.eqb_eq in Es. exists d. rewrite Es in W. auto.
  - intros [d [Hd [Es [I [W ->]]]]]. exists d. split; auto. apply filter_In. split; auto.
    rewrite Es, N.eqb_refl, I, W. reflexivity.
Qed.

Lemma prop_exec_dispatches : forall c st s now, forallb is_dispatch (prop_exec c st s now) = true.
Proof. intros. apply forallb_is_dispatch_map1. Qed.

Lemma prop_exec_nodup : forall c st s now,
  store_nodup true st -> NoDup (dispatch_keys (prop_exec c st s now)).
Proof.
  intros c st s now Hn. unfold prop_exec. apply nodup_dispatch1.
  apply (nodup_vidx_filter_slot _ s); auto.
  intros d P. apply andb_true_iff in P. destruct P as [P _]. apply andb_true_iff in P.
  destruct P as [P _]. now apply N.eqb_eq.
Qed.

Lemma prop_exec_b3 : forall c st H pre s now,
  b3_ok idf st (H ++ pre) -> in_latest_assignment (epoch_of c) true true H s pre (prop_exec c st s now).
Proof.
  intros c st H pre s now Hb r sl v tg Hin. apply prop_exec_in in Hin.
  destruct Hin as [d [Hd [Es [I [W Eo]]]]]. inversion Eo; subst.
  destruct (Hb _ _ Hd) as [l [El Il]]. rewrite map_idf in Il. exists l, d. auto 10.
Qed.

Lemma prop_exec_c : forall c st H pre s now,
  c_ok idf st (H ++ pre) (epoch_of c s) -> strict_window now s = true ->
  dispatches_all_due (epoch_of c) true true prop_owes H s pre (prop_exec c st s now).
Proof.
  intros c st H pre s now Hc W l d El Il Es I o Ho. destruct Ho as [<-|[]].
  apply prop_exec_in. exists d. repeat split; auto.
  apply (Hc _ El). now rewrite map_idf.
Qed.

(* ---- shape, at most once ----------------------------------------------------------------------------------- *)

Lemma prop_step_shape : forall c st ev st' o,
  prop_step c st ev = (st', o) -> record_shape strict_window (ev, o).
Proof.
  intros c st ev st' o E. destruct ev as [s now ac an|r p cu|r]; simpl in E.
  - unfold prop_tick in E.
    assert (X : forall st2 o2, (let '(st2, o) := (st2, o2) : prop_state * out in
                 (if N.eqb (pos_of c s) (spe c - 1) then
                    {| p_first := true; p_idx := p_idx st2;
                       p_store := if N.eqb (epoch_of c s) 0 then p_store st2
                                  else sreset (p_store st2) (epoch_of c s - 1) |}
                  else st2, o)) = (st', o) -> o2 = o) by (intros ? ? Q; inversion Q; auto).
    destruct (p_first st).
    + destruct (prop_fetch (p_store st) (epoch_of c s) (pick (epoch_of c s) (epoch_of c s) ac an))
        as [[s1 o1] ok] eqn:F. apply X in E. subst o. apply prop_fetch_spec in F. destruct F as [-> _].
      simpl. repeat split; auto. intros o Ho. apply prop_exec_in in Ho.
      destruct Ho as [d [_ [_ [_ [W ->]]]]]. eauto.
    + destruct (p_idx st).
      * destruct (prop_fetch (p_store st) (epoch_of c s) (pick (epoch_of c s) (epoch_of c s) ac an))
          as [[s1 o1] ok] eqn:F. apply X in E. subst o. apply prop_fetch_spec in F. destruct F as [-> _].
        simpl. repeat split; auto. intros o Ho. apply prop_exec_in in Ho.
        destruct Ho as [d [_ [_ [_ [W ->]]]]]. eauto.
      * apply X in E. subst o. simpl. repeat split; auto. intros o Ho. apply prop_exec_in in Ho.
        destruct Ho as [d [_ [_ [_ [W ->]]]]]. eauto.
  - destruct cu; inversion E; simpl; auto.
  - inversion E; simpl; auto.
Qed.

Lemma prop_step_nodup_inv : forall c st ev st' o,
  store_nodup true (p_store st) -> prop_step c st ev = (st', o) -> store_nodup true (p_store st').
Proof.
  intros c st ev st' o Hn E. destruct ev as [s now ac an|r p cu|r]; simpl in E.
  - unfold prop_tick in E.
    assert (X : forall st2 o2, store_nodup true (p_store st2) ->
              (let '(st2, o) := (st2, o2) : prop_state * out in
                 (if N.eqb (pos_of c s) (spe c - 1) then
                    {| p_first := true; p_idx := p_idx st2;
                       p_store := if N.eqb (epoch_of c s) 0 then p_store st2
                                  else sreset (p_store st2) (epoch_of c s - 1) |}
                  else st2, o)) = (st', o) -> store_nodup true (p_store st')).
    { intros st2 o2 H2 Q. inversion Q. destruct (N.eqb (pos_of c s) (spe c - 1)); simpl; auto.
      destruct (N.eqb (epoch_of c s) 0); auto. now apply store_nodup_reset. }
    destruct (p_first st).
    + destruct (prop_fetch _ _ _) as [[s1 o1] ok] eqn:F. eapply X; [|exact E]. simpl.
      eapply prop_fetch_nodup; eauto.
    + destruct (p_idx st).
      * destruct (prop_fetch _ _ _) as [[s1 o1] ok] eqn:F. eapply X; [|exact E]. simpl.
        eapply prop_fetch_nodup; eauto.
      * eapply X; [|exact E]. auto.
  - destruct cu; inversion E; subst; simpl; auto. now apply store_nodup_reset.
  - inversion E; subst; simpl; auto.
Qed.

Lemma prop_step_disp_nodup : forall c st ev st' pre disp post,
  store_nodup true (p_store st) -> prop_step c st ev = (st', (pre, disp, post)) ->
  NoDup (dispatch_keys disp).
Proof.
  intros c st ev st' pre disp post Hn E. destruct ev as [s now ac an|r p cu|r]; simpl in E.
  - unfold prop_tick in E.
    assert (X : forall st2 o2, (let '(st2, o) := (st2, o2) : prop_state * out in
                 (if N.eqb (pos_of c s) (spe c - 1) then
                    {| p_first := true; p_idx := p_idx st2;
                       p_store := if N.eqb (epoch_of c s) 0 then p_store st2
                                  else sreset (p_store st2) (epoch_of c s - 1) |}
                  else st2, o)) = (st', (pre, disp, post)) -> o2 = (pre, disp, post))
      by (intros ? ? Q; inversion Q; auto).
    destruct (p_first st).
    + destruct (prop_fetch _ _ _) as [[s1 o1] ok] eqn:F. apply X in E. inversion E; subst.
      apply prop_exec_nodup. eapply prop_fetch_nodup; eauto.
    + destruct (p_idx st).
      * destruct (prop_fetch _ _ _) as [[s1 o1] ok] eqn:F. apply X in E. inversion E; subst.
        now apply prop_exec_nodup.
      * apply X in E. inversion E; subst. now apply prop_exec_nodup.
  - destruct cu; inversion E; constructor.
  - inversion E; constructor.
Qed.

(* ---- the invariant between events ------------------------------------------------------------------------ *)
(* [n] = slot of the next tick (None before the first tick). *)

Record prop_inv (c : cfg) (n : option N) (st : prop_state) (H : list obs) : Prop := {
  pi_nodup : store_nodup true (p_store st);
  pi_b3 : b3_ok idf (p_store st) H;
  pi_c : p_first st = false -> forall n0, n = Some n0 -> c_ok idf (p_store st) H (epoch_of c n0);
  pi_first : n = None -> p_first st = true }.

Lemma prop_init_inv : forall c now a st o,
  prop_init c now a = (st, o) -> prop_inv c None st o.
Proof.
  intros c now a st o E. unfold prop_init in E.
  destruct (prop_fetch [] (epoch_of c now) a) as [[s1 o1] ok] eqn:F. inversion E; subst. clear E.
  constructor; simpl; try discriminate; auto.
  - eapply prop_fetch_nodup; eauto. apply store_nodup_nil.
  - change o with ([] ++ o). eapply prop_fetch_b3; eauto. intros k d [].
Qed.

Lemma prop_event_inv : forall c n st H ev st' o,
  prop_inv c n st H -> (forall s now ac an, ev <> Tick s now ac an) ->
  prop_step c st ev = (st', o) -> prop_inv c n st' (H ++ flat_out o).
Proof.
  intros c n st H ev st' o [Hn Hb Hc Hf] Nt E. destruct ev as [s now ac an|r p cu|r].
  - exfalso. eapply Nt; eauto.
  - simpl in E. destruct cu; inversion E; subst; simpl; rewrite app_nil_r.
    + constructor; simpl; auto; try discriminate.
      * now apply store_nodup_reset.
      * now apply b3_ok_reset.
    + constructor; auto.
  - simpl in E. inversion E; subst; simpl. rewrite app_nil_r. constructor; auto.
Qed.

Lemma prop_tick_inv : forall c n st H s now ac an st' pre disp post,
  cfg_ok c -> prop_inv c n st H -> match n with None => True | Some n0 => n0 = s end ->
  answer_ok true ac ->
  prop_tick c st s now ac an = (st', (pre, disp, post)) ->
  prop_inv c (Some (s + 1)) st' (H ++ pre ++ disp ++ post) /\
  in_latest_assignment (epoch_of c) true true H s pre disp /\
  (strict_window now s = true -> dispatches_all_due (epoch_of c) true true prop_owes H s pre disp).
Proof.
  intros c n st H s now ac an st' pre disp post Hcfg [Hn Hb Hc Hf] Hs Ha E.
  unfold prop_tick in E. set (e := epoch_of c s) in *.
  unfold pick in E. rewrite N.eqb_refl in E.
  (* the end-of-epoch adjustment keeps everything but the first flag and an older epoch *)
  assert (Fin : forall st2 H2,
    store_nodup true (p_store st2) -> b3_ok idf (p_store st2) H2 ->
    (p_first st2 = false -> c_ok idf (p_store st2) H2 e) ->
    prop_inv c (Some (s + 1))
      (if N.eqb (pos_of c s) (spe c - 1) then
         {| p_first := true; p_idx := p_idx st2;
            p_store := if N.eqb e 0 then p_store st2 else sreset (p_store st2) (e - 1) |}
       else st2) H2).
  { intros st2 H2 N2 B2 C2. destruct (N.eqb_spec (pos_of c s) (spe c - 1)) as [L|L].
    - constructor; simpl; try discriminate.
      + destruct (N.eqb e 0); auto. now apply store_nodup_reset.
      + destruct (N.eqb e 0); auto. now apply b3_ok_reset.
    - constructor; auto; try discriminate. intros F n0 En. inversion En; subst.
      destruct (succ_slot c s Hcfg) as [[_ [Ee _]]|[Ep _]]; [|contradiction].
      rewrite Ee. auto. }
  destruct (p_first st) eqn:FF.
  - destruct (prop_fetch (p_store st) e ac) as [[s1 o1] ok] eqn:F. inversion E; subst. clear E.
    pose proof (prop_fetch_nodup _ _ _ _ _ _ Hn F) as N1.
    pose proof (prop_fetch_b3 _ H _ _ _ _ _ Hb F) as B1.
    pose proof (prop_fetch_c_same _ H _ _ _ _ _ Ha F) as C1.
    rewrite app_nil_r. split; [|split].
    + apply (Fin {| p_first := false; p_idx := false; p_store := s1 |}); simpl; auto.
      * rewrite app_assoc. apply b3_ok_dispatches; auto. apply prop_exec_dispatches.
      * intros _. rewrite app_assoc. apply c_ok_dispatches; auto. apply prop_exec_dispatches.
    + now apply prop_exec_b3.
    + intros W. now apply prop_exec_c.
  - assert (En : n = Some s). { destruct n; [now subst|]. specialize (Hf eq_refl). discriminate. }
    pose proof (Hc eq_refl _ En) as C0. fold e in C0.
    destruct (p_idx st) eqn:IC.
    + destruct (prop_fetch (p_store st) e ac) as [[s1 o1] ok] eqn:F. inversion E; subst. clear E.
      pose proof (prop_fetch_nodup _ _ _ _ _ _ Hn F) as N1.
      simpl. split; [|split].
      * apply (Fin {| p_first := false; p_idx := false; p_store := s1 |}); simpl; auto.
        -- rewrite app_assoc. eapply prop_fetch_b3; [|exact F].
           apply b3_ok_dispatches; auto. apply prop_exec_dispatches.
        -- intros _. rewrite app_assoc. eapply prop_fetch_c_same; eauto.
      * apply prop_exec_b3. now rewrite app_nil_r.
      * intros W. apply prop_exec_c; auto. now rewrite app_nil_r.
    + inversion E; subst. clear E. simpl. rewrite app_nil_r. split; [|split].
      * apply (Fin st); auto.
        -- apply b3_ok_dispatches; auto. apply prop_exec_dispatches.
        -- intros _. apply c_ok_dispatches; auto. apply prop_exec_dispatches.
      * apply prop_exec_b3. now rewrite app_nil_r.
      * intros W. apply prop_exec_c; auto. now rewrite app_nil_r.
Qed.

(* ---- runs ---------------------------------------------------------------------------------------------------- *)

Definition prop_tick_ok (c : cfg) (hist : list obs) (s now : N) (pre disp : list obs) : Prop :=
  in_latest_assignment (epoch_of c) true true hist s pre disp /\
  (strict_window now s = true ->
   dispatches_all_due (epoch_of c) true true prop_owes hist s pre disp).

Lemma prop_init_fetches : forall c now a st o, prop_init c now a = (st, o) -> forallb is_fetch o = true.
Proof.
  intros c now a st o E. unfold prop_init in E.
  destruct (prop_fetch [] (epoch_of c now) a) as [[s1 o1] ok] eqn:F. inversion E; subst.
  apply prop_fetch_spec in F. destruct F as [-> _]. reflexivity.
Qed.

Lemma prop_run_shape : forall c st evs st' recs,
  run (prop_step c) st evs = (st', recs) -> Forall (record_shape strict_window) recs.
Proof. intros c st evs st' recs R. eapply run_shape; eauto. intros; eapply prop_step_shape; eauto. Qed.

Lemma prop_run_at_most_once : forall c now0 a0 st0 io evs st' recs,
  prop_init c now0 a0 = (st0, io) -> ticks_increasing evs ->
  run (prop_step c) st0 evs = (st', recs) ->
  NoDup (dispatch_keys (io ++ trace_of recs)).
Proof.
  intros c now0 a0 st0 io evs st' recs Hi Ht R.
  rewrite dispatch_keys_app, (dispatch_keys_fetches _ (prop_init_fetches _ _ _ _ _ Hi)). simpl.
  pose proof (prop_init_inv _ _ _ _ _ Hi) as [Hn _ _ _].
  eapply (run_at_most_once prop_state (prop_step c) (fun st => store_nodup true (p_store st)) strict_window);
    eauto.
  - intros; eapply prop_step_shape; eauto.
  - intros; eapply prop_step_nodup_inv; eauto.
  - intros; eapply prop_step_disp_nodup; eauto.
Qed.

Lemma prop_run_honest : forall c now0 a0 st0 io evs st' recs,
  cfg_ok c -> prop_init c now0 a0 = (st0, io) -> honest true now0 evs ->
  run (prop_step c) st0 evs = (st', recs) ->
  for_all_ticks io recs (prop_tick_ok c).
Proof.
  intros c now0 a0 st0 io evs st' recs Hc Hi Hh R.
  eapply (honest_run prop_state (prop_step c) (prop_inv c) true now0 (prop_tick_ok c)) with (last := None);
    eauto.
  - intros n st H s now ac an st1 pre disp post Inv Hs A1 A2 E. simpl in E.
    apply (prop_tick_inv c n st H s now ac an); auto. destruct n; auto.
  - intros n st H ev st1 o Inv Nt _ E. eapply prop_event_inv; eauto.
    intros s now ac an ->. discriminate.
  - simpl. eapply prop_init_inv; eauto.
Qed.
