(* Regression witness for finding F7: in the handlers WITHOUT the boundary repair (boundary_fix = false,
   the code before the fix) part (c) of C16 is false.  The witnesses are the corpus histories
   corpus/C16/f7-attester-reorg-current-last-slot.ops and f7-sync-reorg-current-last-slot.ops. *)
From Coq Require Import List NArith Bool Lia.
From SSV Require Import Scheduler.Proofs.
Import ListNotations.
Local Open Scope N_scope.

Definition old_mainnet : cfg := {| spe := 32; epp := 256; boundary_fix := false |}.
Definition new_mainnet : cfg := {| spe := 32; epp := 256; boundary_fix := true |}.

(* epoch 2's assignment: validator 1 at slot 64, validator 2 at slot 66 *)
Definition f7_epoch2 : list duty :=
  [ {| d_slot := 64; d_vidx := 1; d_tag := 7; d_inc := true |};
    {| d_slot := 66; d_vidx := 2; d_tag := 8; d_inc := true |} ].

Fixpoint ticks_from (s : N) (k : nat) (acur anext : answer) : list event :=
  match k with
  | O => []
  | S k' => Tick s s acur anext :: ticks_from (s + 1) k' acur anext
  end.

(* ticks 47 .. 63 (epoch 2 is fetched at slot 47), a current-dependent-root reorg during slot 63, tick 64 *)
Definition f7_att : list event :=
  ticks_from 47 17 (AOk []) (AOk f7_epoch2) ++
  [Reorg 63 false true; Tick 64 64 (AOk f7_epoch2) (AOk [])].

Lemma nodup_f7 : NoDup (map (duty_key true) f7_epoch2).
Proof. repeat constructor; simpl; intuition discriminate. Qed.

Lemma f7_att_honest : honest true 0 f7_att.
Proof.
  unfold honest, f7_att. simpl.
  repeat split; try lia; try exact nodup_f7; try constructor; auto.
Qed.

Definition f7_d64 : duty := {| d_slot := 64; d_vidx := 1; d_tag := 7; d_inc := true |}.

(* (c) fails for the attester handler without the repair: epoch 2 was fetched successfully at slot 47,
   nothing of it was fetched again, and the tick of slot 64 dispatches nothing. *)
Theorem att_exactly_once_refuted_old :
  exists evs st' recs,
    honest true 0 evs /\ run (att_step old_mainnet) att_init evs = (st', recs) /\
    ~ for_all_ticks [] recs (att_tick_ok old_mainnet).
Proof.
  exists f7_att, (fst (run (att_step old_mainnet) att_init f7_att)),
         (snd (run (att_step old_mainnet) att_init f7_att)).
  split; [exact f7_att_honest|]. split; [apply surjective_pairing|].
  intros Hall.
  set (recs := snd (run (att_step old_mainnet) att_init f7_att)) in *.
  assert (Dec : recs = firstn 18 recs ++
                  (Tick 64 64 (AOk f7_epoch2) (AOk []), ([], [], [])) :: [])
    by (vm_compute; reflexivity).
  destruct (Hall _ _ _ _ _ _ _ _ _ Dec) as [_ Hc].
  assert (W : att_window old_mainnet 64 64 = true) by reflexivity.
  assert (L : last_attempt (([] ++ trace_of (firstn 18 recs)) ++ []) (epoch_of old_mainnet 64)
              = Some (AOk f7_epoch2)) by (vm_compute; reflexivity).
  assert (I1 : In f7_d64 f7_epoch2) by (left; reflexivity).
  specialize (Hc W f7_epoch2 f7_d64 L I1 (fun _ => eq_refl) (fun H => False_ind _ (Bool.diff_false_true H))).
  apply (Hc (ODispatch RAttester 64 1 7)). left. reflexivity.
Qed.

(* the same history on the handler with the repair: the epoch is fetched again at slot 64, before
   executing, and both roles of the duty of slot 64 are dispatched *)
Example att_f7_repaired :
  let recs := snd (run (att_step new_mainnet) att_init f7_att) in
  nth_error recs 18 =
  Some (Tick 64 64 (AOk f7_epoch2) (AOk []),
        ([OFetch 2 2 (AOk f7_epoch2)],
         [ODispatch RAttester 64 1 7; ODispatch RAggregator 64 1 7], [])).
Proof. vm_compute. reflexivity. Qed.

(* ---- sync committee: 4 slots per epoch, 3 epochs per period ------------------------------------------------------- *)

Definition old_small : cfg := {| spe := 4; epp := 3; boundary_fix := false |}.
Definition new_small : cfg := {| spe := 4; epp := 3; boundary_fix := true |}.

Definition f7_sync_asg (p : N) : list duty :=
  [ {| d_slot := 0; d_vidx := 1; d_tag := 10 + p; d_inc := true |};
    {| d_slot := 0; d_vidx := 2; d_tag := 20 + p; d_inc := true |} ].

(* start at slot 4; period 1 (slots 12..23) is fetched during period 0; a current-dependent-root reorg
   arrives during slot 11, the last slot of period 0; tick 12 *)
Definition f7_sync : list event :=
  ticks_from 4 8 (AOk (f7_sync_asg 0)) (AOk (f7_sync_asg 1)) ++
  [Reorg 11 false true; Tick 12 12 (AOk (f7_sync_asg 1)) (AOk (f7_sync_asg 2))].

Lemma nodup_f7_sync : forall p, NoDup (map (duty_key false) (f7_sync_asg p)).
Proof. intros. repeat constructor; simpl; intuition discriminate. Qed.

Lemma f7_sync_honest : honest false 4 f7_sync.
Proof.
  unfold honest, f7_sync. simpl.
  repeat split; try lia; auto; try (repeat constructor; simpl; intuition discriminate).
Qed.

Theorem sync_exactly_once_refuted_old :
  exists evs st0 io st' recs,
    sync_init old_small 4 (AOk (f7_sync_asg 0)) = (st0, io) /\
    honest false 4 evs /\ run (sync_step old_small) st0 evs = (st', recs) /\
    ~ for_all_ticks io recs (sync_tick_ok old_small).
Proof.
  set (i := sync_init old_small 4 (AOk (f7_sync_asg 0))).
  exists f7_sync, (fst i), (snd i), (fst (run (sync_step old_small) (fst i) f7_sync)),
         (snd (run (sync_step old_small) (fst i) f7_sync)).
  split; [apply surjective_pairing|]. split; [exact f7_sync_honest|].
  split; [apply surjective_pairing|].
  intros Hall.
  set (recs := snd (run (sync_step old_small) (fst i) f7_sync)) in *.
  assert (Dec : recs = firstn 9 recs ++
                  (Tick 12 12 (AOk (f7_sync_asg 1)) (AOk (f7_sync_asg 2)),
                   ([], [], [OFetch 2 6 (AOk (f7_sync_asg 2))])) :: [])
    by (vm_compute; reflexivity).
  destruct (Hall _ _ _ _ _ _ _ _ _ Dec) as [_ Hc].
  assert (W : strict_window 12 12 = true) by reflexivity.
  assert (L : last_attempt ((snd i ++ trace_of (firstn 9 recs)) ++ []) (speriod old_small 12)
              = Some (AOk (f7_sync_asg 1))) by (vm_compute; reflexivity).
  assert (I1 : In {| d_slot := 0; d_vidx := 1; d_tag := 11; d_inc := true |} (f7_sync_asg 1))
    by (left; reflexivity).
  specialize (Hc W _ _ L I1 (fun H => False_ind _ (Bool.diff_false_true H)) (fun _ => eq_refl)).
  apply (Hc (ODispatch RSyncCommittee 12 1 11)). left. reflexivity.
Qed.

Example sync_f7_repaired :
  let i := sync_init new_small 4 (AOk (f7_sync_asg 0)) in
  nth_error (snd (run (sync_step new_small) (fst i) f7_sync)) 9 =
  Some (Tick 12 12 (AOk (f7_sync_asg 1)) (AOk (f7_sync_asg 2)),
        ([OFetch 1 3 (AOk (f7_sync_asg 1))],
         [ODispatch RSyncCommittee 12 1 11; ODispatch RContribution 12 1 11;
          ODispatch RSyncCommittee 12 2 21; ODispatch RContribution 12 2 21], [])).
Proof. vm_compute. reflexivity. Qed.
