(* C16: the lemmas behind Props/C16.v, collected.  Proofs per handler are in ProofsAtt / ProofsProp /
   ProofsSync (shared parts in ProofsCommon); the refutation for the code before the boundary repair is
   in Scheduler/OldRefuted.v. *)
From Coq Require Import List NArith Bool.
From SSV Require Export Scheduler.Model Scheduler.Spec Scheduler.ProofsCommon
  Scheduler.ProofsProp Scheduler.ProofsSync Scheduler.ProofsAtt.
From SSV Require Import Gen.SchedulerConsts.
Import ListNotations.
Local Open Scope N_scope.

(* the model's constant is the one of sync_committee.go (Gen/SchedulerConsts.v is regenerated from the
   repository before every build: changing the Go constant breaks this Qed) *)
Lemma prep_epochs_matches_go : prep_epochs = go_sync_committee_preparation_epochs.
Proof. reflexivity. Qed.

(* the parts of C16 that need an honest schedule, per tick record *)
Definition att_assignment_and_exactly_once := att_tick_ok.
Definition prop_assignment_and_exactly_once := prop_tick_ok.
Definition sync_assignment_and_exactly_once := sync_tick_ok.

(* C16 for one handler: its runs from the initial state, with initial-duties trace [io] *)
Definition c16_for {S : Type} (step : S -> event -> S * out) (st0 : S) (io : list obs)
           (window : N -> N -> bool) (by_slot : bool) (now0 : N)
           (tick_ok : list obs -> N -> N -> list obs -> list obs -> Prop) : Prop :=
  forall evs st' recs, run step st0 evs = (st', recs) ->
    (* (a) at most once *)
    (ticks_increasing evs -> NoDup (dispatch_keys (io ++ trace_of recs))) /\
    (* (b1, b2) only at the tick of the duty's slot, inside the window *)
    Forall (record_shape window) recs /\
    (* (b3, c) in the most recently fetched assignment; exactly once when it was fetched successfully *)
    (honest by_slot now0 evs -> for_all_ticks io recs tick_ok).

(* The property in full, for a network configuration [c] *)
Definition C16_statement (c : cfg) : Prop :=
  c16_for (att_step c) att_init [] (att_window c) true 0 (att_tick_ok c) /\
  (forall now0 a0 st0 io, prop_init c now0 a0 = (st0, io) ->
     c16_for (prop_step c) st0 io strict_window true now0 (prop_tick_ok c)) /\
  (forall now0 a0 st0 io, answer_ok false a0 -> sync_init c now0 a0 = (st0, io) ->
     c16_for (sync_step c) st0 io strict_window false now0 (sync_tick_ok c)).

Lemma c16_holds_with_fix : forall c, cfg_ok c -> boundary_fix c = true -> C16_statement c.
Proof.
  intros c Hc Fix. split; [|split].
  - intros evs st' recs R. split; [|split].
    + intros Ht. simpl. eapply att_run_at_most_once; eauto.
    + eapply att_run_shape; eauto.
    + intros Hh. eapply att_run_honest; eauto.
  - intros now0 a0 st0 io Hi evs st' recs R. split; [|split].
    + intros Ht. eapply prop_run_at_most_once; eauto.
    + eapply prop_run_shape; eauto.
    + intros Hh. eapply prop_run_honest; eauto.
  - intros now0 a0 st0 io Ha Hi evs st' recs R. split; [|split].
    + intros Ht. eapply sync_run_at_most_once; eauto.
    + eapply sync_run_shape; eauto.
    + intros Hh. eapply sync_run_honest; eauto.
Qed.

(* Without the repair the parts (a), (b1), (b2) still hold for every configuration, and the proposer
   handler satisfies everything. *)
Lemma c16_safety_any_cfg : forall c,
  (forall evs st' recs, run (att_step c) att_init evs = (st', recs) ->
     (ticks_increasing evs -> NoDup (dispatch_keys (trace_of recs))) /\
     Forall (record_shape (att_window c)) recs) /\
  (forall now0 a0 st0 io evs st' recs, sync_init c now0 a0 = (st0, io) ->
     run (sync_step c) st0 evs = (st', recs) ->
     (ticks_increasing evs -> NoDup (dispatch_keys (io ++ trace_of recs))) /\
     Forall (record_shape strict_window) recs) /\
  (cfg_ok c -> forall now0 a0 st0 io, prop_init c now0 a0 = (st0, io) ->
     c16_for (prop_step c) st0 io strict_window true now0 (prop_tick_ok c)).
Proof.
  intros c. split; [|split].
  - intros evs st' recs R. split; [intros; eapply att_run_at_most_once; eauto|eapply att_run_shape; eauto].
  - intros now0 a0 st0 io evs st' recs Hi R.
    split; [intros; eapply sync_run_at_most_once; eauto|eapply sync_run_shape; eauto].
  - intros Hc now0 a0 st0 io Hi evs st' recs R. split; [|split].
    + intros Ht. eapply prop_run_at_most_once; eauto.
    + eapply prop_run_shape; eauto.
    + intros Hh. eapply prop_run_honest; eauto.
Qed.
