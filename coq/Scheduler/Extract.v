(* Compiled from ocaml/scheduler/ so that model.ml lands there.  ExtrOcamlBasic only. *)
From Coq Require Import Extraction ExtrOcamlBasic.
From SSV Require Import Scheduler.Model.
(* [length] only so that the shared glue ocaml/common/conv.ml finds the type nat *)
Extraction "model.ml" att_init att_step prop_init prop_step sync_init sync_step length.
