(* Executable model of operator/duties: attester.go, proposer.go, sync_committee.go (HandleDuties,
   HandleInitialDuties, processFetching, processExecution, fetchAndProcessDuties, shouldExecute,
   shouldFetchNexEpoch / shouldFetchNextPeriod) and dutystore/{duties.go,sync_committee.go}.
   Each handler is one goroutine around one select statement, so it is a sequential machine over
   the events Tick / Reorg / IndicesChange.  Definitions only; proofs are in Scheduler/Proofs*.v. *)
From Coq Require Import List NArith Bool.
Import ListNotations.
Local Open Scope N_scope.

(* ---- network sizes ----------------------------------------------------------------------------- *)

(* spe = SlotsPerEpoch, epp = EpochsPerSyncCommitteePeriod.  boundary_fix selects the code with
   (true) or without (false) the epoch / period boundary repair of finding F7; see cfg_ok for
   the sizes for which the Go expressions [spe/2-2] and [epp-2] do not wrap. *)
Record cfg := { spe : N; epp : N; boundary_fix : bool }.

Definition prep_epochs : N := 2.                      (* syncCommitteePreparationEpochs *)
Definition cfg_ok (c : cfg) : Prop := 4 <= spe c /\ 3 <= epp c.

Definition epoch_of (c : cfg) (s : N) : N := s / spe c.          (* EstimatedEpochAtSlot *)
Definition pos_of (c : cfg) (s : N) : N := s mod spe c.          (* uint64(slot) % SlotsPerEpoch *)
Definition period_of (c : cfg) (e : N) : N := e / epp c.         (* EstimatedSyncCommitteePeriodAtEpoch *)
Definition first_epoch_of_period (c : cfg) (p : N) : N := p * epp c.
Definition last_slot_of_period (c : cfg) (p : N) : N :=          (* LastSlotOfSyncPeriod *)
  (first_epoch_of_period c (p + 1) - 1 + 1) * spe c - 2.
Definition speriod (c : cfg) (s : N) : N := period_of c (epoch_of c s).

(* ---- duties, beacon-node answers, observations --------------------------------------------------- *)

(* d_tag stands for the rest of the duty data (committee index, pubkey, ...).  d_inc = the duty's
   validator is in CommitteeActiveIndices (always true for attester duties).  Sync committee duties
   have no slot of their own (d_slot is ignored). *)
Record duty := { d_slot : N; d_vidx : N; d_tag : N; d_inc : bool }.

(* What the environment answers to one fetch attempt: ANone = the validator controller reports no
   active indices (fetchAndProcessDuties returns nil without calling the beacon node), AFail = the
   beacon node call returns an error, AOk l = it returns the assignment l. *)
Inductive answer := ANone | AFail | AOk (l : list duty).

Inductive role := RAttester | RAggregator | RProposer | RSyncCommittee | RContribution.

(* OFetch key ep a: a fetch attempt for epoch/period [key]; [ep] is the epoch passed to the validator
   controller and the beacon node; [a] its outcome.  ODispatch: one spec duty handed to ExecuteDuties. *)
Inductive obs :=
| OFetch (key ep : N) (a : answer)
| ODispatch (r : role) (slot vidx tag : N).

(* ---- dutystore ---------------------------------------------------------------------------------------- *)

(* map key -> list of duties; the newest binding of a key shadows older ones. *)
Definition store := list (N * list duty).

Fixpoint sget (st : store) (k : N) : list duty :=
  match st with
  | [] => []
  | (k', l) :: tl => if N.eqb k' k then l else sget tl k
  end.
Definition sset (st : store) (k : N) (l : list duty) : store := (k, l) :: st.
Definition sreset (st : store) (k : N) : store := sset st k [].     (* ResetEpoch / Reset: delete(m, k) *)

(* Duties.Add: m[epoch][slot][validator] = duty;  SyncCommitteeDuties.Add: m[period][validator] = duty *)
Definition same_key (by_slot : bool) (a b : duty) : bool :=
  N.eqb (d_vidx a) (d_vidx b) && (negb by_slot || N.eqb (d_slot a) (d_slot b)).

Fixpoint add_duty (by_slot : bool) (l : list duty) (d : duty) : list duty :=
  match l with
  | [] => [d]
  | x :: tl => if same_key by_slot x d then d :: tl else x :: add_duty by_slot tl d
  end.

Definition add_all (by_slot : bool) (base : list duty) (l : list duty) : list duty :=
  fold_left (add_duty by_slot) l base.

(* ---- execution ------------------------------------------------------------------------------------------ *)

(* shouldExecute of the attester handler: slot already began and not more than one epoch ago, or the
   clock is one slot behind the ticker. *)
Definition att_window (c : cfg) (now s : N) : bool :=
  (N.leb s now && N.leb (now - s) (spe c)) || N.eqb (now + 1) s.

(* shouldExecute of the proposer and sync committee handlers *)
Definition strict_window (now s : N) : bool := N.eqb now s || N.eqb (now + 1) s.

Definition dispatch2 (r1 r2 : role) (s : N) (d : duty) : list obs :=
  [ODispatch r1 s (d_vidx d) (d_tag d); ODispatch r2 s (d_vidx d) (d_tag d)].

(* processExecution (attester): CommitteeSlotDuties(epoch, slot), filtered by shouldExecute, two roles *)
Definition att_exec (c : cfg) (st : store) (s now : N) : list obs :=
  flat_map (dispatch2 RAttester RAggregator s)
    (filter (fun d => N.eqb (d_slot d) s && d_inc d && att_window c now (d_slot d)) (sget st (epoch_of c s))).

Definition prop_exec (c : cfg) (st : store) (s now : N) : list obs :=
  map (fun d => ODispatch RProposer s (d_vidx d) (d_tag d))
    (filter (fun d => N.eqb (d_slot d) s && d_inc d && strict_window now (d_slot d)) (sget st (epoch_of c s))).

Definition sync_exec (c : cfg) (st : store) (s now : N) : list obs :=
  flat_map (dispatch2 RSyncCommittee RContribution s)
    (filter (fun d => d_inc d && strict_window now s) (sget st (speriod c s))).

(* ---- fetching --------------------------------------------------------------------------------------------- *)

(* The beacon node is an oracle supplied by the schedule: an event carries the answer [acur] for a
   fetch of the event's own epoch / period and [anext] for a fetch of another one. *)
Definition pick (key tick_key : N) (acur anext : answer) : answer :=
  if N.eqb key tick_key then acur else anext.

Definition set_inc (d : duty) : duty :=
  {| d_slot := d_slot d; d_vidx := d_vidx d; d_tag := d_tag d; d_inc := true |}.

(* AttesterHandler.fetchAndProcessDuties: Add without reset (merge); returns (store, obs, ok) *)
Definition att_fetch (st : store) (e : N) (a : answer) : store * list obs * bool :=
  match a with
  | ANone => (st, [OFetch e e ANone], true)
  | AFail => (st, [OFetch e e AFail], false)
  | AOk l => (sset st e (add_all true (sget st e) (map set_inc l)), [OFetch e e a], true)
  end.

(* ProposerHandler.fetchAndProcessDuties: ResetEpoch(epoch) after a successful call, then Add *)
Definition prop_fetch (st : store) (e : N) (a : answer) : store * list obs * bool :=
  match a with
  | ANone => (st, [OFetch e e ANone], true)
  | AFail => (st, [OFetch e e AFail], false)
  | AOk l => (sset st e (add_all true [] l), [OFetch e e a], true)
  end.

(* SyncCommitteeHandler.fetchAndProcessDuties: asks for max(first epoch of the period, current epoch) *)
Definition sync_fetch_epoch (c : cfg) (p now : N) : N :=
  N.max (first_epoch_of_period c p) (epoch_of c now).

Definition sync_fetch (c : cfg) (st : store) (p ep : N) (a : answer) : store * list obs * bool :=
  match a with
  | ANone => (st, [OFetch p ep ANone], true)
  | AFail => (st, [OFetch p ep AFail], false)
  | AOk l => (sset st p (add_all false [] l), [OFetch p ep a], true)
  end.

(* ---- events ---------------------------------------------------------------------------------------------- *)

Inductive event :=
| Tick (slot now : N) (acur anext : answer)   (* ticker fires for [slot]; EstimatedCurrentSlot = now *)
| Reorg (slot : N) (previous current : bool)  (* ReorgEvent *)
| Indices (now : N).                          (* indices-change notification; EstimatedCurrentSlot = now *)

(* output of one event: fetches before the execution point, dispatched duties, fetches after it *)
Definition out := (list obs * list obs * list obs)%type.
Definition no_out : out := ([], [], []).
Definition flat_out (o : out) : list obs := let '(a, b, d) := o in a ++ b ++ d.

(* ================================ attester ================================ *)

Record att_state := {
  a_first : bool;       (* fetchFirst *)
  a_idx : bool;         (* indicesChanged *)
  a_cur : bool;         (* fetchCurrentEpoch *)
  a_next : bool;        (* fetchNextEpoch *)
  a_store : store }.

(* NewAttesterHandler, then the first statement of HandleDuties (fetchNextEpoch = true) *)
Definition att_init : att_state :=
  {| a_first := true; a_idx := false; a_cur := true; a_next := true; a_store := [] |}.

Definition should_fetch_next_epoch (c : cfg) (s : N) : bool := N.ltb (spe c / 2 - 2) (pos_of c s).

(* processFetching *)
Definition att_fetching (c : cfg) (st : att_state) (e s : N) (acur anext : answer)
  : att_state * list obs :=
  let '(store1, o1, ok1, cur1) :=
    if a_cur st then
      let '(s1, o, ok) := att_fetch (a_store st) e (pick e e acur anext) in (s1, o, ok, negb ok)
    else (a_store st, [], true, false) in
  if negb ok1 then
    ({| a_first := a_first st; a_idx := a_idx st; a_cur := cur1; a_next := a_next st; a_store := store1 |}, o1)
  else if a_next st && should_fetch_next_epoch c s then
    let '(s2, o2, ok2) := att_fetch store1 (e + 1) (pick (e + 1) e acur anext) in
    ({| a_first := a_first st; a_idx := a_idx st; a_cur := cur1; a_next := negb ok2; a_store := s2 |}, o1 ++ o2)
  else
    ({| a_first := a_first st; a_idx := a_idx st; a_cur := cur1; a_next := a_next st; a_store := store1 |}, o1).

Definition att_with_store (st : att_state) (s : store) : att_state :=
  {| a_first := a_first st; a_idx := a_idx st; a_cur := a_cur st; a_next := a_next st; a_store := s |}.

(* boundary repair (F7): a next-epoch fetch that is still pending at a slot where the next epoch is
   not fetched any more belongs to an epoch that has begun: serve it as the current epoch, first. *)
Definition att_repair (c : cfg) (st : att_state) (s : N) : att_state :=
  if boundary_fix c && a_next st && negb (should_fetch_next_epoch c s) then
    {| a_first := true; a_idx := a_idx st; a_cur := true; a_next := false; a_store := a_store st |}
  else st.

Definition att_tick (c : cfg) (st0 : att_state) (s now : N) (acur anext : answer) : att_state * out :=
  let e := epoch_of c s in
  let st := att_repair c st0 s in
  let '(st2, o) :=
    if a_first st then
      let st1 := {| a_first := false; a_idx := false; a_cur := a_cur st; a_next := a_next st;
                    a_store := a_store st |} in
      let '(st2, pre) := att_fetching c st1 e s acur anext in
      (st2, (pre, att_exec c (a_store st2) s now, []))
    else
      let ex := att_exec c (a_store st) s now in
      let st1 := if a_idx st then
                   {| a_first := false; a_idx := false; a_cur := a_cur st; a_next := a_next st;
                      a_store := sreset (a_store st) e |}
                 else st in
      let '(st2, post) := att_fetching c st1 e s acur anext in
      (st2, ([], ex, post)) in
  let st3 := if N.eqb (pos_of c s) (spe c / 2 - 2) then
               {| a_first := a_first st2; a_idx := a_idx st2; a_cur := a_cur st2; a_next := true;
                  a_store := a_store st2 |}
             else st2 in
  let st4 := if N.eqb (pos_of c s) (spe c - 1) then att_with_store st3 (sreset (a_store st3) e) else st3 in
  (st4, o).

Definition att_reset_next_if_due (c : cfg) (st : att_state) (s : N) : att_state :=
  if should_fetch_next_epoch c s then
    {| a_first := a_first st; a_idx := a_idx st; a_cur := a_cur st; a_next := true;
       a_store := sreset (a_store st) (epoch_of c s + 1) |}
  else st.

Definition att_step (c : cfg) (st : att_state) (ev : event) : att_state * out :=
  match ev with
  | Tick s now acur anext => att_tick c st s now acur anext
  | Reorg s previous current =>
      if previous then
        let st1 := {| a_first := true; a_idx := a_idx st; a_cur := true; a_next := a_next st;
                      a_store := sreset (a_store st) (epoch_of c s) |} in
        (att_reset_next_if_due c st1 s, no_out)
      else if current then (att_reset_next_if_due c st s, no_out)
      else (st, no_out)
  | Indices now =>
      let st1 := {| a_first := a_first st; a_idx := true; a_cur := true; a_next := a_next st;
                    a_store := a_store st |} in
      (att_reset_next_if_due c st1 now, no_out)
  end.

(* ================================ proposer ================================ *)

Record prop_state := { p_first : bool; p_idx : bool; p_store : store }.

(* NewProposerHandler, then HandleInitialDuties: one fetch of the current epoch *)
Definition prop_init (c : cfg) (now : N) (a : answer) : prop_state * list obs :=
  let '(s1, o, _) := prop_fetch [] (epoch_of c now) a in
  ({| p_first := true; p_idx := false; p_store := s1 |}, o).

Definition prop_tick (c : cfg) (st : prop_state) (s now : N) (acur anext : answer) : prop_state * out :=
  let e := epoch_of c s in
  let '(st2, o) :=
    if p_first st then
      let '(s1, pre, _) := prop_fetch (p_store st) e (pick e e acur anext) in
      ({| p_first := false; p_idx := false; p_store := s1 |}, (pre, prop_exec c s1 s now, []))
    else
      let ex := prop_exec c (p_store st) s now in
      if p_idx st then
        let '(s1, post, _) := prop_fetch (p_store st) e (pick e e acur anext) in
        ({| p_first := false; p_idx := false; p_store := s1 |}, ([], ex, post))
      else (st, ([], ex, [])) in
  (* last slot of epoch: ResetEpoch(currentEpoch - 1) (uint64: epoch 0 - 1 is no stored epoch) *)
  let st3 := if N.eqb (pos_of c s) (spe c - 1) then
               {| p_first := true; p_idx := p_idx st2;
                  p_store := if N.eqb e 0 then p_store st2 else sreset (p_store st2) (e - 1) |}
             else st2 in
  (st3, o).

Definition prop_step (c : cfg) (st : prop_state) (ev : event) : prop_state * out :=
  match ev with
  | Tick s now acur anext => prop_tick c st s now acur anext
  | Reorg s _ current =>
      if current then
        ({| p_first := true; p_idx := p_idx st; p_store := sreset (p_store st) (epoch_of c s) |}, no_out)
      else (st, no_out)
  | Indices _ => ({| p_first := p_first st; p_idx := true; p_store := p_store st |}, no_out)
  end.

(* ================================ sync committee ================================ *)

Record sync_state := {
  s_first : bool;     (* fetchFirst *)
  s_cur : bool;       (* fetchCurrentPeriod *)
  s_next : bool;      (* fetchNextPeriod *)
  s_store : store }.

Definition should_fetch_next_period (c : cfg) (s : N) : bool :=
  N.leb (spe c / 2 - 1) (pos_of c s) && N.leb (epp c - prep_epochs) (epoch_of c s mod epp c).

(* processFetching; [tk] is the period of the event, used only to select the oracle's answer *)
Definition sync_fetching (c : cfg) (st : sync_state) (p now tk : N) (acur anext : answer)
  : sync_state * list obs :=
  let ans key := let ep := sync_fetch_epoch c key now in (ep, pick (period_of c ep) tk acur anext) in
  let '(store1, o1, ok1, cur1) :=
    if s_cur st then
      let '(ep, a) := ans p in
      let '(s1, o, ok) := sync_fetch c (s_store st) p ep a in (s1, o, ok, negb ok)
    else (s_store st, [], true, false) in
  if negb ok1 then
    ({| s_first := s_first st; s_cur := cur1; s_next := s_next st; s_store := store1 |}, o1)
  else if s_next st then
    let '(ep, a) := ans (p + 1) in
    let '(s2, o2, ok2) := sync_fetch c store1 (p + 1) ep a in
    ({| s_first := s_first st; s_cur := cur1; s_next := negb ok2; s_store := s2 |}, o1 ++ o2)
  else
    ({| s_first := s_first st; s_cur := cur1; s_next := s_next st; s_store := store1 |}, o1).

(* NewSyncCommitteeHandler (fetchCurrentPeriod, fetchFirst), HandleInitialDuties (one processFetching,
   then both fetch flags set), first statement of HandleDuties (no effect: the flag is set already) *)
Definition sync_init (c : cfg) (now : N) (a : answer) : sync_state * list obs :=
  let st0 := {| s_first := true; s_cur := true; s_next := false; s_store := [] |} in
  let '(st1, o) := sync_fetching c st0 (speriod c now) now (speriod c now) a AFail in
  ({| s_first := true; s_cur := true; s_next := true; s_store := s_store st1 |}, o).

(* boundary repair (F7): a next-period fetch still pending outside the preparation epochs belongs to a
   period that has begun; not on the first run, whose next-period fetch is wanted *)
Definition sync_repair (c : cfg) (st : sync_state) (s : N) : sync_state :=
  if boundary_fix c && negb (s_first st) && s_next st &&
     N.ltb (epoch_of c s mod epp c) (epp c - prep_epochs) then
    {| s_first := true; s_cur := true; s_next := false; s_store := s_store st |}
  else st.

Definition sync_tick (c : cfg) (st0 : sync_state) (s now : N) (acur anext : answer) : sync_state * out :=
  let e := epoch_of c s in
  let p := period_of c e in
  let st := sync_repair c st0 s in
  let '(st2, o) :=
    if s_first st then
      let st1 := {| s_first := false; s_cur := s_cur st; s_next := s_next st; s_store := s_store st |} in
      let '(st2, pre) := sync_fetching c st1 p now p acur anext in
      (st2, (pre, sync_exec c (s_store st2) s now, []))
    else
      let ex := sync_exec c (s_store st) s now in
      let '(st2, post) := sync_fetching c st p now p acur anext in
      (st2, ([], ex, post)) in
  let st3 := if N.eqb (pos_of c s) (spe c / 2 - 2) && N.eqb (e mod epp c) (epp c - prep_epochs) then
               {| s_first := s_first st2; s_cur := s_cur st2; s_next := true; s_store := s_store st2 |}
             else st2 in
  (* last slot of period: Reset(period - 1) (uint64: period 0 - 1 is no stored period) *)
  let st4 := if N.eqb s (last_slot_of_period c p) && negb (N.eqb p 0) then
               {| s_first := s_first st3; s_cur := s_cur st3; s_next := s_next st3;
                  s_store := sreset (s_store st3) (p - 1) |}
             else st3 in
  (st4, o).

Definition sync_step (c : cfg) (st : sync_state) (ev : event) : sync_state * out :=
  match ev with
  | Tick s now acur anext => sync_tick c st s now acur anext
  | Reorg s _ current =>
      if current && should_fetch_next_period c s then
        ({| s_first := s_first st; s_cur := s_cur st; s_next := true;
            s_store := sreset (s_store st) (speriod c s + 1) |}, no_out)
      else (st, no_out)
  | Indices now =>
      ({| s_first := s_first st; s_cur := true;
          s_next := s_next st || should_fetch_next_period c now; s_store := s_store st |}, no_out)
  end.

(* ---- runs ---------------------------------------------------------------------------------------------- *)

Fixpoint run {S : Type} (step : S -> event -> S * out) (st : S) (evs : list event)
  : S * list (event * out) :=
  match evs with
  | [] => (st, [])
  | ev :: tl => let '(st1, o) := step st ev in
                let '(st2, os) := run step st1 tl in (st2, (ev, o) :: os)
  end.
