(* Sync committee handler: invariant and the three parts of C16 (for the code with the boundary repair). *)
From Coq Require Import List NArith Bool Lia.
From SSV Require Import Scheduler.Model Scheduler.Spec Scheduler.ProofsCommon Scheduler.ProofsProp.
Import ListNotations.
Local Open Scope N_scope.

(* ---- one fetch -------------------------------------------------------------------------------------------- *)

Definition is_fail (a : answer) : bool := match a with AFail => true | _ => false end.

Lemma sync_fetch_spec : forall c st q ep a st1 o ok, sync_fetch c st q ep a = (st1, o, ok) ->
  o = [OFetch q ep a] /\ ok = negb (is_fail a) /\
  st1 = match a with AOk l => sset st q (add_all false [] l) | _ => st end.
Proof. intros c st q ep a st1 o ok F. destruct a; inversion F; auto. Qed.

Record fetch_post (st st1 : store) (H o : list obs) (q : N) : Prop := {
  fq_fetch : forallb is_fetch o = true;
  fq_nodup : store_nodup false st -> store_nodup false st1;
  fq_b3 : b3_ok idf st H -> b3_ok idf st1 (H ++ o);
  fq_same : c_ok idf st1 (H ++ o) q;
  fq_other : forall k, k <> q -> c_ok idf st H k -> c_ok idf st1 (H ++ o) k;
  fq_att : forall k, k <> q -> last_attempt (H ++ o) k = last_attempt H k }.

Lemma sync_fetch_post : forall c st H q ep a st1 o ok,
  answer_ok false a -> sync_fetch c st q ep a = (st1, o, ok) -> fetch_post st st1 H o q.
Proof.
  intros c st H q ep a st1 o ok Ha F. apply sync_fetch_spec in F. destruct F as [-> [_ ->]].
  constructor.
  - reflexivity.
  - intros Hn. destruct a; auto. apply store_nodup_set; auto. apply add_all_nil_nodup.
  - intros Hb. destruct a as [| |l]; [apply b3_ok_not_ok; simpl; auto | apply b3_ok_not_ok; simpl; auto |].
    apply b3_ok_set; auto. intros d Hd. rewrite map_idf. now apply add_all_nil_incl in Hd.
  - destruct a as [| |l]; [apply c_ok_not_ok_same; simpl; auto | apply c_ok_not_ok_same; simpl; auto |].
    apply c_ok_set_same. rewrite map_idf. intros d Hd. now apply add_all_has.
  - intros k Hk Hc. assert (Hq : q <> k) by congruence.
    apply (c_ok_fetch_other idf st); auto. destruct a; auto. now apply sget_sset_neq.
  - intros k Hk. rewrite last_attempt_app, last_attempt_fetch1.
    destruct (N.eqb_spec q k); [congruence|reflexivity].
Qed.

(* ---- processFetching ---------------------------------------------------------------------------------------- *)

Record fetching_post (st st' : sync_state) (H o : list obs) (p : N) : Prop := {
  fp_fetch : forallb is_fetch o = true;
  fp_first : s_first st' = s_first st;
  fp_nodup : store_nodup false (s_store st) -> store_nodup false (s_store st');
  fp_b3 : b3_ok idf (s_store st) H -> b3_ok idf (s_store st') (H ++ o);
  fp_cur : s_cur st = true \/ c_ok idf (s_store st) H p -> c_ok idf (s_store st') (H ++ o) p;
  fp_next : c_ok idf (s_store st) H (p + 1) \/ (s_next st = true /\ s_next st' = false) ->
            c_ok idf (s_store st') (H ++ o) (p + 1);
  fp_next_att : last_attempt (H ++ o) (p + 1) = last_attempt H (p + 1) \/
                c_ok idf (s_store st') (H ++ o) (p + 1);
  fp_next_flag : s_next st' = true -> s_next st = true;
  fp_other : forall k, k <> p -> k <> p + 1 ->
             c_ok idf (s_store st) H k -> c_ok idf (s_store st') (H ++ o) k;
  fp_att : forall k, k <> p -> k <> p + 1 -> last_attempt (H ++ o) k = last_attempt H k }.

Ltac orc := match goal with
  | H : _ \/ _ |- _ => destruct H as [H|H]
  | H : _ /\ _ |- _ => destruct H
  end.
Ltac fin := repeat orc; try congruence; eauto.

Lemma sync_fetching_post : forall c st p now tk ac an st' o H,
  answer_ok false ac -> answer_ok false an ->
  sync_fetching c st p now tk ac an = (st', o) -> fetching_post st st' H o p.
Proof.
  intros c st p now tk ac an st' o H Hac Han E. unfold sync_fetching in E.
  assert (Hp : p <> p + 1) by lia.
  assert (Hp' : p + 1 <> p) by lia.
  assert (Hpick : forall key, answer_ok false (pick key tk ac an))
    by (intros key; unfold pick; destruct (N.eqb key tk); auto).
  destruct (s_cur st) eqn:Cur.
  - (* current period is fetched *)
    destruct (sync_fetch c (s_store st) p (sync_fetch_epoch c p now)
               (pick (period_of c (sync_fetch_epoch c p now)) tk ac an)) as [[s1 o1] ok1] eqn:F1.
    pose proof (sync_fetch_post c _ H _ _ _ _ _ _ (Hpick _) F1) as P1.
    destruct ok1; simpl in E.
    + destruct (s_next st) eqn:Nx.
      * destruct (sync_fetch c s1 (p + 1) (sync_fetch_epoch c (p + 1) now)
                   (pick (period_of c (sync_fetch_epoch c (p + 1) now)) tk ac an)) as [[s2 o2] ok2] eqn:F2.
        pose proof (sync_fetch_post c _ (H ++ o1) _ _ _ _ _ _ (Hpick _) F2) as P2.
        inversion E; subst. clear E.
        destruct P1 as [A1 B1 C1 D1 E1 G1]. destruct P2 as [A2 B2 C2 D2 E2 G2].
        constructor; simpl; rewrite ?app_assoc; intros; fin.
        -- rewrite forallb_app, A1, A2. reflexivity.
        -- rewrite G2, G1; auto.
      * inversion E; subst. clear E. destruct P1 as [A1 B1 C1 D1 E1 G1].
        constructor; simpl; intros; fin.
    + inversion E; subst. clear E. destruct P1 as [A1 B1 C1 D1 E1 G1].
      constructor; simpl; intros; fin.
  - simpl in E. destruct (s_next st) eqn:Nx.
    + destruct (sync_fetch c (s_store st) (p + 1) (sync_fetch_epoch c (p + 1) now)
                 (pick (period_of c (sync_fetch_epoch c (p + 1) now)) tk ac an)) as [[s2 o2] ok2] eqn:F2.
      pose proof (sync_fetch_post c _ H _ _ _ _ _ _ (Hpick _) F2) as P2.
      inversion E; subst. clear E. destruct P2 as [A2 B2 C2 D2 E2 G2].
      constructor; simpl; intros; fin.
    + inversion E; subst. clear E.
      constructor; simpl; rewrite ?app_nil_r; intros; fin.
Qed.

(* ---- execution ------------------------------------------------------------------------------------------------ *)

Lemma sync_exec_in : forall c st s now o, In o (sync_exec c st s now) <->
  exists d, In d (sget st (speriod c s)) /\ d_inc d = true /\ strict_window now s = true /\
            In o (sync_owes s d).
Proof.
  intros c st s now o. unfold sync_exec. rewrite in_flat_map. split.
  - intros [d [Hd Ho]]. apply filter_In in Hd. destruct Hd as [Hd P].
    apply andb_true_iff in P. destruct P as [I W]. exists d. auto.
  - intros [d [Hd [I [W Ho]]]]. exists d. split; auto. apply filter_In. split; auto.
    now rewrite I, W.
Qed.

Lemma sync_exec_dispatches : forall c st s now, forallb is_dispatch (sync_exec c st s now) = true.
Proof. intros. apply forallb_is_dispatch_flat2. Qed.

Lemma sync_exec_nodup : forall c st s now,
  store_nodup false st -> NoDup (dispatch_keys (sync_exec c st s now)).
Proof.
  intros c st s now Hn. unfold sync_exec. apply nodup_dispatch2; [discriminate|].
  now apply nodup_vidx_filter.
Qed.

Lemma sync_exec_shape : forall c st s now o, In o (sync_exec c st s now) ->
  exists r v tg, o = ODispatch r s v tg /\ strict_window now s = true.
Proof.
  intros c st s now o Ho. apply sync_exec_in in Ho. destruct Ho as [d [_ [_ [W Ho]]]].
  destruct Ho as [<-|[<-|[]]]; eauto.
Qed.

Lemma sync_exec_b3 : forall c st H pre s now,
  b3_ok idf st (H ++ pre) -> in_latest_assignment (speriod c) false true H s pre (sync_exec c st s now).
Proof.
  intros c st H pre s now Hb r sl v tg Hin. apply sync_exec_in in Hin.
  destruct Hin as [d [Hd [I [W Ho]]]].
  destruct (Hb _ _ Hd) as [l [El Il]]. rewrite map_idf in Il. exists l, d.
  destruct Ho as [Eo|[Eo|[]]]; inversion Eo; subst; repeat split; auto; discriminate.
Qed.

Lemma sync_exec_c : forall c st H pre s now,
  c_ok idf st (H ++ pre) (speriod c s) -> strict_window now s = true ->
  dispatches_all_due (speriod c) false true sync_owes H s pre (sync_exec c st s now).
Proof.
  intros c st H pre s now Hc W l d El Il _ I o Ho.
  apply sync_exec_in. exists d. repeat split; auto. apply (Hc _ El). now rewrite map_idf.
Qed.

(* ---- the tick, restated ------------------------------------------------------------------------------------------ *)

Definition sync_finish (c : cfg) (st2 : sync_state) (s : N) : sync_state :=
  let e := epoch_of c s in
  let p := period_of c e in
  let st3 := if N.eqb (pos_of c s) (spe c / 2 - 2) && N.eqb (e mod epp c) (epp c - prep_epochs) then
               {| s_first := s_first st2; s_cur := s_cur st2; s_next := true; s_store := s_store st2 |}
             else st2 in
  if N.eqb s (last_slot_of_period c p) && negb (N.eqb p 0) then
    {| s_first := s_first st3; s_cur := s_cur st3; s_next := s_next st3;
       s_store := sreset (s_store st3) (p - 1) |}
  else st3.

Lemma sync_tick_unfold : forall c st0 s now ac an,
  sync_tick c st0 s now ac an =
  let st := sync_repair c st0 s in
  let p := speriod c s in
  if s_first st then
    let '(st2, pre) := sync_fetching c {| s_first := false; s_cur := s_cur st; s_next := s_next st;
                                          s_store := s_store st |} p now p ac an in
    (sync_finish c st2 s, (pre, sync_exec c (s_store st2) s now, []))
  else
    let '(st2, post) := sync_fetching c st p now p ac an in
    (sync_finish c st2 s, ([], sync_exec c (s_store st) s now, post)).
Proof.
  intros. unfold sync_tick, sync_finish, speriod. cbv zeta.
  destruct (s_first (sync_repair c st0 s)).
  - destruct (sync_fetching _ _ _ _ _ _ _) as [st2 pre]. reflexivity.
  - destruct (sync_fetching _ _ _ _ _ _ _) as [st2 post]. reflexivity.
Qed.

Lemma sync_finish_props : forall c st2 s,
  s_first (sync_finish c st2 s) = s_first st2 /\
  (s_next st2 = true -> s_next (sync_finish c st2 s) = true) /\
  (store_nodup false (s_store st2) -> store_nodup false (s_store (sync_finish c st2 s))) /\
  (forall H, b3_ok idf (s_store st2) H -> b3_ok idf (s_store (sync_finish c st2 s)) H) /\
  (forall H k, speriod c s <= k -> c_ok idf (s_store st2) H k -> c_ok idf (s_store (sync_finish c st2 s)) H k).
Proof.
  intros c st2 s. unfold sync_finish, speriod.
  set (p := period_of c (epoch_of c s)).
  destruct (N.eqb (pos_of c s) (spe c / 2 - 2) && N.eqb (epoch_of c s mod epp c) (epp c - prep_epochs));
  destruct (N.eqb s (last_slot_of_period c p) && negb (N.eqb p 0)) eqn:L; simpl;
  repeat split; auto; intros.
  all: try (now apply store_nodup_reset).
  all: try (now apply b3_ok_reset).
  all: apply andb_true_iff in L; destruct L as [_ L]; apply negb_true_iff in L; apply N.eqb_neq in L;
       apply c_ok_reset_other; auto; lia.
Qed.

Lemma sync_step_shape : forall c st ev st' o,
  sync_step c st ev = (st', o) -> record_shape strict_window (ev, o).
Proof.
  intros c st ev st' o E. destruct ev as [s now ac an|r p cu|r]; simpl in E.
  - rewrite sync_tick_unfold in E. cbv zeta in E.
    destruct (s_first (sync_repair c st s)).
    + destruct (sync_fetching _ _ _ _ _ _ _) as [st2 pre] eqn:F. inversion E; subst.
      (* any answers: shape needs only that the fetching output is fetches *)
      assert (Fp : forallb is_fetch pre = true).
      { clear -F. unfold sync_fetching in F.
        repeat match type of F with
        | context [sync_fetch ?c ?a ?b ?d ?e] =>
            let X := fresh "X" in let Y := fresh "Y" in
            destruct (sync_fetch c a b d e) as [[? ?] ?] eqn:X; apply sync_fetch_spec in X;
            destruct X as [-> [-> _]]
        | context [if ?b then _ else _] => destruct b
        end; simpl in F; inversion F; reflexivity. }
      simpl. repeat split; auto. intros o Ho. eapply sync_exec_shape; eauto.
    + destruct (sync_fetching _ _ _ _ _ _ _) as [st2 post] eqn:F. inversion E; subst.
      assert (Fp : forallb is_fetch post = true).
      { clear -F. unfold sync_fetching in F.
        repeat match type of F with
        | context [sync_fetch ?c ?a ?b ?d ?e] =>
            let X := fresh "X" in
            destruct (sync_fetch c a b d e) as [[? ?] ?] eqn:X; apply sync_fetch_spec in X;
            destruct X as [-> [-> _]]
        | context [if ?b then _ else _] => destruct b
        end; simpl in F; inversion F; reflexivity. }
      simpl. repeat split; auto. intros o Ho. eapply sync_exec_shape; eauto.
  - destruct (cu && should_fetch_next_period c r); inversion E; subst; simpl; auto.
  - inversion E; subst; simpl; auto.
Qed.

(* ---- at most once ------------------------------------------------------------------------------------------------- *)

Lemma sync_fetch_nodup : forall c st q ep a st1 o ok,
  store_nodup false st -> sync_fetch c st q ep a = (st1, o, ok) -> store_nodup false st1.
Proof.
  intros c st q ep a st1 o ok Hn F. apply sync_fetch_spec in F. destruct F as [_ [_ ->]].
  destruct a; auto. apply store_nodup_set; auto. apply add_all_nil_nodup.
Qed.

Lemma sync_fetching_nodup : forall c st p now tk ac an st' o,
  store_nodup false (s_store st) -> sync_fetching c st p now tk ac an = (st', o) ->
  store_nodup false (s_store st').
Proof.
  intros c st p now tk ac an st' o Hn E. unfold sync_fetching in E.
  destruct (s_cur st).
  - destruct (sync_fetch c (s_store st) p _ _) as [[s1 o1] ok1] eqn:F1.
    pose proof (sync_fetch_nodup _ _ _ _ _ _ _ _ Hn F1) as N1.
    destruct ok1; simpl in E.
    + destruct (s_next st).
      * destruct (sync_fetch c s1 (p + 1) _ _) as [[s2 o2] ok2] eqn:F2.
        pose proof (sync_fetch_nodup _ _ _ _ _ _ _ _ N1 F2) as N2. inversion E; subst; auto.
      * inversion E; subst; auto.
    + inversion E; subst; auto.
  - simpl in E. destruct (s_next st).
    + destruct (sync_fetch c (s_store st) (p + 1) _ _) as [[s2 o2] ok2] eqn:F2.
      pose proof (sync_fetch_nodup _ _ _ _ _ _ _ _ Hn F2) as N2. inversion E; subst; auto.
    + inversion E; subst; auto.
Qed.

Lemma sync_repair_store : forall c st s, s_store (sync_repair c st s) = s_store st.
Proof. intros. unfold sync_repair. destruct (_ && _); reflexivity. Qed.

Lemma sync_step_nodup_inv : forall c st ev st' o,
  store_nodup false (s_store st) -> sync_step c st ev = (st', o) -> store_nodup false (s_store st').
Proof.
  intros c st ev st' o Hn E. destruct ev as [s now ac an|r p cu|r]; simpl in E.
  - rewrite sync_tick_unfold in E. cbv zeta in E.
    assert (Hr : store_nodup false (s_store (sync_repair c st s))) by now rewrite sync_repair_store.
    destruct (s_first (sync_repair c st s)).
    + destruct (sync_fetching _ _ _ _ _ _ _) as [st2 pre] eqn:F. inversion E; subst.
      apply sync_finish_props. eapply sync_fetching_nodup; [|exact F]. exact Hr.
    + destruct (sync_fetching _ _ _ _ _ _ _) as [st2 post] eqn:F. inversion E; subst.
      apply sync_finish_props. eapply sync_fetching_nodup; [|exact F]. exact Hr.
  - destruct (cu && should_fetch_next_period c r); inversion E; subst; simpl; auto.
    now apply store_nodup_reset.
  - inversion E; subst; simpl; auto.
Qed.

Lemma sync_step_disp_nodup : forall c st ev st' pre disp post,
  store_nodup false (s_store st) -> sync_step c st ev = (st', (pre, disp, post)) ->
  NoDup (dispatch_keys disp).
Proof.
  intros c st ev st' pre disp post Hn E. destruct ev as [s now ac an|r p cu|r]; simpl in E.
  - rewrite sync_tick_unfold in E. cbv zeta in E.
    assert (Hr : store_nodup false (s_store (sync_repair c st s))) by now rewrite sync_repair_store.
    destruct (s_first (sync_repair c st s)).
    + destruct (sync_fetching _ _ _ _ _ _ _) as [st2 pre'] eqn:F. inversion E; subst.
      apply sync_exec_nodup. eapply sync_fetching_nodup; [|exact F]. exact Hr.
    + destruct (sync_fetching _ _ _ _ _ _ _) as [st2 post'] eqn:F. inversion E; subst.
      now apply sync_exec_nodup.
  - destruct (cu && should_fetch_next_period c r); inversion E; subst; constructor.
  - inversion E; subst; constructor.
Qed.

(* ---- arithmetic of the preparation window ----------------------------------------------------------------------- *)

Lemma should_prep : forall c r, should_fetch_next_period c r = true ->
  epp c - 2 <= epoch_of c r mod epp c.
Proof.
  intros c r H. unfold should_fetch_next_period, prep_epochs in H.
  apply andb_true_iff in H. destruct H as [_ H]. now apply N.leb_le in H.
Qed.

Lemma next_slot_period : forall c s, cfg_ok c ->
  (speriod c (s + 1) = speriod c s /\ epoch_of c s mod epp c <= epoch_of c (s + 1) mod epp c) \/
  (speriod c (s + 1) = speriod c s + 1 /\ epoch_of c (s + 1) mod epp c = 0 /\
   epoch_of c s mod epp c = epp c - 1).
Proof.
  intros c s Hc. unfold speriod.
  destruct (succ_slot c s Hc) as [[_ [E _]]|[_ [E _]]]; rewrite E.
  - left. split; [reflexivity|lia].
  - destruct (succ_epoch c (epoch_of c s) Hc) as [[_ [P M]]|[L [P M]]]; rewrite P, M.
    + left. split; [reflexivity|lia].
    + right. auto.
Qed.

(* ---- the invariant between events ---------------------------------------------------------------------------------- *)
(* [n] = slot of the next tick (None before the first tick); [now0] = start slot. *)

Record sync_inv (c : cfg) (now0 : N) (n : option N) (st : sync_state) (H : list obs) : Prop := {
  si_nodup : store_nodup false (s_store st);
  si_b3 : b3_ok idf (s_store st) H;
  si_none : n = None ->
    s_first st = true /\ s_cur st = true /\ s_next st = true /\
    forall k, k <> speriod c now0 -> last_attempt H k = None;
  si_some : forall n0, n = Some n0 ->
    s_first st = false /\
    (c_ok idf (s_store st) H (speriod c n0) \/
     (s_next st = true /\ epoch_of c n0 mod epp c < epp c - 2)) /\
    (c_ok idf (s_store st) H (speriod c n0 + 1) \/
     (s_next st = true /\ epp c - 2 <= epoch_of c n0 mod epp c)) /\
    (forall k, speriod c n0 + 1 < k -> last_attempt H k = None) }.

Lemma sync_init_inv : forall c now a st o,
  answer_ok false a -> sync_init c now a = (st, o) -> sync_inv c now None st o.
Proof.
  intros c now a st o Ha E. unfold sync_init in E.
  destruct (sync_fetching c _ (speriod c now) now (speriod c now) a AFail) as [st1 o1] eqn:F.
  inversion E; subst. clear E.
  pose proof (sync_fetching_post _ _ _ _ _ _ AFail _ _ [] Ha I F) as P. simpl in P.
  destruct P as [P1 P2 P3 P4 P5 P6 P6' P7 P8 P9]. simpl in *.
  constructor; simpl; try discriminate.
  - apply P3. apply store_nodup_nil.
  - apply P4. intros k d [].
  - intros _. repeat split; auto. intros k Hk.
    (* only the current period is attempted: the next-period flag is still false *)
    unfold sync_fetching in F. simpl in F.
    destruct (sync_fetch c [] (speriod c now) _ _) as [[s1 o2] ok1] eqn:F1.
    apply sync_fetch_spec in F1. destruct F1 as [-> _].
    destruct ok1; simpl in F; inversion F; subst; simpl;
      destruct (N.eqb_spec (speriod c now) k); congruence.
Qed.

Lemma sync_event_inv : forall c now0 n st H ev st' o,
  cfg_ok c -> sync_inv c now0 n st H -> is_tick ev = false ->
  match n with None => True | Some n0 => event_slot ev + 1 = n0 \/ event_slot ev = n0 end ->
  sync_step c st ev = (st', o) -> sync_inv c now0 n st' (H ++ flat_out o).
Proof.
  intros c now0 n st H ev st' o Hc [Hn Hb Hnone Hsome] Nt Hs E.
  destruct ev as [s now ac an|r p cu|r]; [discriminate| |]; simpl in E, Hs.
  - destruct (cu && should_fetch_next_period c r) eqn:Sh; inversion E; subst; simpl; rewrite app_nil_r;
      [|constructor; auto].
    apply andb_true_iff in Sh. destruct Sh as [_ Sh]. pose proof (should_prep _ _ Sh) as Pr.
    constructor; simpl.
    + now apply store_nodup_reset.
    + now apply b3_ok_reset.
    + intros En. destruct (Hnone En) as [A [B [_ D]]]. auto.
    + intros n0 En. destruct (Hsome _ En) as [A [B [C D]]]. rewrite En in Hs.
      split; [exact A|]. pose proof Hc as [Hspe Hepp].
      destruct Hs as [Hs|Hs]; [subst n0|subst r].
      * destruct (next_slot_period c r Hc) as [[P M]|[P [M L]]].
        -- (* same period: the reset key is the next period *)
           rewrite P in *. split; [|split; [right; split; [reflexivity|lia]|exact D]].
           destruct B as [B|[_ B]]; [left; apply c_ok_reset_other; auto; lia|right; split; [reflexivity|exact B]].
        -- (* r was the last slot of its period: the reset key is the period of the next tick *)
           rewrite P in *. split; [right; split; [reflexivity|lia]|split; [|exact D]].
           destruct C as [C|[_ C]]; [left; apply c_ok_reset_other; auto; lia|right; split; [reflexivity|exact C]].
      * split; [|split; [right; split; [reflexivity|exact Pr]|exact D]].
        destruct B as [B|[_ B]]; [left; apply c_ok_reset_other; auto; lia|right; split; [reflexivity|exact B]].
  - inversion E; subst; simpl. rewrite app_nil_r. constructor; simpl; auto.
    + intros En. destruct (Hnone En) as [A [B [C D]]]. rewrite C. auto.
    + intros n0 En. destruct (Hsome _ En) as [A [B [C D]]]. split; [exact A|].
      split; [|split; [|exact D]].
      * destruct B as [B|[B1 B2]]; [left; exact B|right; rewrite B1; auto].
      * destruct C as [C|[C1 C2]]; [left; exact C|right; rewrite C1; auto].
Qed.

Lemma speriod_mono : forall c a b, cfg_ok c -> a <= b -> speriod c a <= speriod c b.
Proof.
  intros c a b [H1 H2] L. unfold speriod, period_of, epoch_of.
  apply N.div_le_mono; [lia|]. apply N.div_le_mono; [lia|exact L].
Qed.

Lemma c_ok_unattempted : forall st H k, last_attempt H k = None -> c_ok idf st H k.
Proof. intros st H k E l E'. congruence. Qed.

Lemma last_attempt_disp : forall H l k, forallb is_dispatch l = true ->
  last_attempt (H ++ l) k = last_attempt H k.
Proof. intros. now rewrite last_attempt_app, last_attempt_dispatches. Qed.

(* from the facts about the state after fetching and executing to the invariant for the next tick *)
Lemma sync_inv_after : forall c now0 st2 H2 s,
  cfg_ok c ->
  store_nodup false (s_store st2) -> b3_ok idf (s_store st2) H2 -> s_first st2 = false ->
  c_ok idf (s_store st2) H2 (speriod c s) ->
  (c_ok idf (s_store st2) H2 (speriod c s + 1) \/
   (s_next st2 = true /\ epp c - 2 <= epoch_of c s mod epp c)) ->
  (forall k, speriod c s + 1 < k -> last_attempt H2 k = None) ->
  sync_inv c now0 (Some (s + 1)) (sync_finish c st2 s) H2.
Proof.
  intros c now0 st2 H2 s Hc Hn Hb Hf Ccur Cnext Bound.
  destruct (sync_finish_props c st2 s) as [F1 [F2 [F3 [F4 F5]]]].
  pose proof Hc as [Hspe Hepp].
  constructor; auto; [discriminate|].
  intros n0 En. inversion En; subst n0. clear En. split; [congruence|].
  destruct (next_slot_period c s Hc) as [[P M]|[P [M L]]]; rewrite P.
  - split; [left; apply F5; auto; lia|]. split; [|exact Bound].
    destruct Cnext as [C|[C1 C2]]; [left; apply F5; auto; lia|right; split; auto; lia].
  - split; [|split].
    + destruct Cnext as [C|[C1 C2]]; [left; apply F5; auto; lia|right; split; auto; lia].
    + left. apply c_ok_unattempted. apply Bound. lia.
    + intros k Hk. apply Bound. lia.
Qed.

Lemma sync_tick_inv : forall c now0 n st0 H s now ac an st' pre disp post,
  cfg_ok c -> boundary_fix c = true -> sync_inv c now0 n st0 H ->
  match n with None => now0 <= s | Some n0 => n0 = s end ->
  answer_ok false ac -> answer_ok false an ->
  sync_tick c st0 s now ac an = (st', (pre, disp, post)) ->
  sync_inv c now0 (Some (s + 1)) st' (H ++ pre ++ disp ++ post) /\
  in_latest_assignment (speriod c) false true H s pre disp /\
  (strict_window now s = true -> dispatches_all_due (speriod c) false true sync_owes H s pre disp).
Proof.
  intros c now0 n st0 H s now ac an st' pre disp post Hc Fix [Hn Hb Hnone Hsome] Hs Hac Han E.
  rewrite sync_tick_unfold in E. cbv zeta in E.
  set (p := speriod c s) in *. pose proof Hc as [Hspe Hepp].
  unfold sync_repair in E. rewrite Fix in E. simpl in E.
  destruct n as [n0|].
  - (* a later tick *)
    subst n0. destruct (Hsome _ eq_refl) as [Ff [S3 [S6 Bd]]]. fold p in S3, S6, Bd.
    rewrite Ff in E. simpl in E.
    destruct (s_next st0 && N.ltb (epoch_of c s mod epp c) (epp c - prep_epochs)) eqn:Conv; simpl in E.
    + (* boundary repair: fetch the current period first *)
      apply andb_true_iff in Conv. destruct Conv as [Nx Lt]. apply N.ltb_lt in Lt. unfold prep_epochs in Lt.
      destruct (sync_fetching c _ p now p ac an) as [st2 pre'] eqn:F. inversion E; subst. clear E.
      pose proof (sync_fetching_post _ _ _ _ _ _ _ _ _ H Hac Han F) as FP.
      destruct FP as [P1 P2 P3 P4 P5 P6 P6' P7 P8 P9]. simpl in *.
      pose proof (sync_exec_dispatches c (s_store st2) s now) as Dx.
      rewrite app_nil_r. split; [|split].
      * rewrite app_assoc. apply sync_inv_after; auto.
        -- apply b3_ok_dispatches; auto.
        -- apply c_ok_dispatches; auto.
        -- left. apply c_ok_dispatches; auto. apply P6. left.
           destruct S6 as [S6|[_ S6]]; [exact S6|lia].
        -- intros k Hk. rewrite last_attempt_disp, P9 by (auto; lia). auto.
      * apply sync_exec_b3. auto.
      * intros W. apply sync_exec_c; auto.
    + (* ordinary tick: execute, then fetch *)
      rewrite Ff in E.
      destruct (sync_fetching c st0 p now p ac an) as [st2 post'] eqn:F. inversion E; subst. clear E.
      pose proof (sync_exec_dispatches c (s_store st0) s now) as Dx.
      pose proof (sync_fetching_post _ _ _ _ _ _ _ _ _ (H ++ sync_exec c (s_store st0) s now) Hac Han F) as FP.
      destruct FP as [P1 P2 P3 P4 P5 P6 P6' P7 P8 P9]. simpl in *.
      assert (C0 : c_ok idf (s_store st0) H p).
      { destruct S3 as [S3|[Nx Lt]]; [exact S3|]. rewrite Nx in Conv. simpl in Conv.
        apply N.ltb_ge in Conv. unfold prep_epochs in Conv. lia. }
      split; [|split].
      * rewrite app_assoc. apply sync_inv_after; auto.
        -- apply P4. apply b3_ok_dispatches; auto.
        -- congruence.
        -- apply P5. right. apply c_ok_dispatches; auto.
        -- destruct S6 as [S6|[Nx Pr]].
           ++ left. apply P6. left. apply c_ok_dispatches; auto.
           ++ destruct (s_next st2) eqn:Nx2; [right; auto|left; apply P6; right; auto].
        -- intros k Hk. rewrite P9, last_attempt_disp by (auto; lia). auto.
      * apply sync_exec_b3. now rewrite app_nil_r.
      * intros W. apply sync_exec_c; auto. now rewrite app_nil_r.
  - (* the first tick *)
    destruct (Hnone eq_refl) as [Ff [Cu [Nx At]]]. rewrite Ff in E. simpl in E. rewrite Ff in E.
    destruct (sync_fetching c _ p now p ac an) as [st2 pre'] eqn:F. inversion E; subst. clear E.
    pose proof (sync_fetching_post _ _ _ _ _ _ _ _ _ H Hac Han F) as FP.
    destruct FP as [P1 P2 P3 P4 P5 P6 P6' P7 P8 P9]. simpl in *.
    pose proof (sync_exec_dispatches c (s_store st2) s now) as Dx.
    pose proof (speriod_mono c _ _ Hc Hs) as Mono. fold p in Mono.
    rewrite app_nil_r. split; [|split].
    + rewrite app_assoc. apply sync_inv_after; auto.
      * apply b3_ok_dispatches; auto.
      * apply c_ok_dispatches; auto.
      * left. apply c_ok_dispatches; auto. destruct P6' as [Q|Q]; [|exact Q].
        apply c_ok_unattempted. etransitivity; [exact Q|]. apply At. lia.
      * intros k Hk. rewrite last_attempt_disp, P9 by (auto; lia). apply At. lia.
    + apply sync_exec_b3. auto.
    + intros W. apply sync_exec_c; auto.
Qed.

(* ---- runs ---------------------------------------------------------------------------------------------------- *)

Definition sync_tick_ok (c : cfg) (hist : list obs) (s now : N) (pre disp : list obs) : Prop :=
  in_latest_assignment (speriod c) false true hist s pre disp /\
  (strict_window now s = true ->
   dispatches_all_due (speriod c) false true sync_owes hist s pre disp).

Lemma sync_init_fetches : forall c now a st o, sync_init c now a = (st, o) -> forallb is_fetch o = true.
Proof.
  intros c now a st o E. unfold sync_init in E.
  destruct (sync_fetching c _ (speriod c now) now (speriod c now) a AFail) as [st1 o1] eqn:F.
  inversion E; subst. unfold sync_fetching in F. simpl in F.
  destruct (sync_fetch c [] (speriod c now) _ _) as [[s1 o2] ok1] eqn:F1.
  apply sync_fetch_spec in F1. destruct F1 as [-> _].
  destruct ok1; simpl in F; inversion F; reflexivity.
Qed.

Lemma sync_init_nodup : forall c now a st o, sync_init c now a = (st, o) -> store_nodup false (s_store st).
Proof.
  intros c now a st o E. unfold sync_init in E.
  destruct (sync_fetching c _ (speriod c now) now (speriod c now) a AFail) as [st1 o1] eqn:F.
  inversion E; subst. simpl. eapply sync_fetching_nodup; [|exact F]. apply store_nodup_nil.
Qed.

Lemma sync_run_shape : forall c st evs st' recs,
  run (sync_step c) st evs = (st', recs) -> Forall (record_shape strict_window) recs.
Proof. intros c st evs st' recs R. eapply run_shape; eauto. intros; eapply sync_step_shape; eauto. Qed.

Lemma sync_run_at_most_once : forall c now0 a0 st0 io evs st' recs,
  sync_init c now0 a0 = (st0, io) -> ticks_increasing evs ->
  run (sync_step c) st0 evs = (st', recs) ->
  NoDup (dispatch_keys (io ++ trace_of recs)).
Proof.
  intros c now0 a0 st0 io evs st' recs Hi Ht R.
  rewrite dispatch_keys_app, (dispatch_keys_fetches _ (sync_init_fetches _ _ _ _ _ Hi)). simpl.
  pose proof (sync_init_nodup _ _ _ _ _ Hi) as Hn.
  eapply (run_at_most_once sync_state (sync_step c) (fun st => store_nodup false (s_store st)) strict_window);
    eauto.
  - intros; eapply sync_step_shape; eauto.
  - intros; eapply sync_step_nodup_inv; eauto.
  - intros; eapply sync_step_disp_nodup; eauto.
Qed.

Lemma sync_run_honest : forall c now0 a0 st0 io evs st' recs,
  cfg_ok c -> boundary_fix c = true -> answer_ok false a0 ->
  sync_init c now0 a0 = (st0, io) -> honest false now0 evs ->
  run (sync_step c) st0 evs = (st', recs) ->
  for_all_ticks io recs (sync_tick_ok c).
Proof.
  intros c now0 a0 st0 io evs st' recs Hc Fix Ha Hi Hh R.
  eapply (honest_run sync_state (sync_step c) (sync_inv c now0) false now0 (sync_tick_ok c)) with (last := None);
    eauto.
  - intros n st H s now ac an st1 pre disp post Inv Hs A1 A2 E. simpl in E.
    apply (sync_tick_inv c now0 n st H s now ac an); auto.
  - intros n st H ev st1 o Inv Nt Hs E. eapply sync_event_inv; eauto.
  - simpl. eapply sync_init_inv; eauto.
Qed.
