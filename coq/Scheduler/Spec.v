(* Vocabulary of property C16 over runs of the handler models.  Definitions only. *)
From Coq Require Import List NArith Bool.
From SSV Require Import Scheduler.Model.
Import ListNotations.
Local Open Scope N_scope.

(* ---- traces --------------------------------------------------------------------------------------- *)

Definition trace_of (recs : list (event * out)) : list obs :=
  flat_map (fun r => flat_out (snd r)) recs.

(* outcome of the last fetch attempt for [key] in a trace *)
Fixpoint last_attempt (tr : list obs) (key : N) : option answer :=
  match tr with
  | [] => None
  | o :: tl =>
      match last_attempt tl key with
      | Some a => Some a
      | None => match o with
                | OFetch k _ a => if N.eqb k key then Some a else None
                | ODispatch _ _ _ _ => None
                end
      end
  end.

(* the most recently fetched assignment for [key]: the last SUCCESSFUL fetch *)
Fixpoint latest_ok (tr : list obs) (key : N) : option (list duty) :=
  match tr with
  | [] => None
  | o :: tl =>
      match latest_ok tl key with
      | Some l => Some l
      | None => match o with
                | OFetch k _ (AOk l) => if N.eqb k key then Some l else None
                | _ => None
                end
      end
  end.

Definition is_fetch (o : obs) : bool := match o with OFetch _ _ _ => true | _ => false end.
Definition is_dispatch (o : obs) : bool := negb (is_fetch o).

(* identity of a dispatched duty: role, slot, validator (the tag is data, not identity) *)
Definition dkey (o : obs) : option (role * N * N) :=
  match o with ODispatch r s v _ => Some (r, s, v) | _ => None end.

Fixpoint dispatch_keys (tr : list obs) : list (role * N * N) :=
  match tr with
  | [] => []
  | o :: tl => match dkey o with Some k => k :: dispatch_keys tl | None => dispatch_keys tl end
  end.

(* ---- schedules -------------------------------------------------------------------------------------- *)

(* ticks strictly increasing (hypothesis of "at most once") *)
Fixpoint ticks_increasing_from (last : option N) (evs : list event) : Prop :=
  match evs with
  | [] => True
  | Tick s _ _ _ :: tl =>
      match last with None => True | Some t => t < s end /\ ticks_increasing_from (Some s) tl
  | _ :: tl => ticks_increasing_from last tl
  end.
Definition ticks_increasing (evs : list event) : Prop := ticks_increasing_from None evs.

(* an assignment names each duty once: one duty per (slot, validator) — per validator for the sync
   committee, whose duties have no slot *)
Definition duty_key (by_slot : bool) (d : duty) : N * N := (if by_slot then d_slot d else 0, d_vidx d).
Definition answer_ok (by_slot : bool) (a : answer) : Prop :=
  match a with AOk l => NoDup (map (duty_key by_slot) l) | _ => True end.

(* Honest schedule (hypothesis of "in the most recent assignment" and "exactly once"): the ticker
   delivers consecutive slots, the first one not before the start slot [now0]; a reorg / indices
   notification processed between the ticks of slots t and t+1 carries slot t or t+1 (before the first
   tick: any slot); the beacon node's assignments name each duty once. *)
Fixpoint honest_from (by_slot : bool) (now0 : N) (last : option N) (evs : list event) : Prop :=
  match evs with
  | [] => True
  | Tick s _ acur anext :: tl =>
      match last with None => now0 <= s | Some t => s = t + 1 end /\
      answer_ok by_slot acur /\ answer_ok by_slot anext /\ honest_from by_slot now0 (Some s) tl
  | Reorg r _ _ :: tl =>
      match last with None => True | Some t => r = t \/ r = t + 1 end /\ honest_from by_slot now0 last tl
  | Indices r :: tl =>
      match last with None => True | Some t => r = t \/ r = t + 1 end /\ honest_from by_slot now0 last tl
  end.
Definition honest (by_slot : bool) (now0 : N) (evs : list event) : Prop := honest_from by_slot now0 None evs.

(* ---- what a handler must dispatch ------------------------------------------------------------------- *)

(* the dispatches a tick at [s] owes for duty [d] *)
Definition att_owes (s : N) (d : duty) : list obs :=
  [ODispatch RAttester s (d_vidx d) (d_tag d); ODispatch RAggregator s (d_vidx d) (d_tag d)].
Definition prop_owes (s : N) (d : duty) : list obs := [ODispatch RProposer s (d_vidx d) (d_tag d)].
Definition sync_owes (s : N) (d : duty) : list obs :=
  [ODispatch RSyncCommittee s (d_vidx d) (d_tag d); ODispatch RContribution s (d_vidx d) (d_tag d)].

(* ---- the three parts of C16 for one record of a run -------------------------------------------------- *)
(* A run is  recs = before ++ (Tick s now acur anext, (pre, disp, post)) :: after ; [hist] is the trace
   of the initial duties followed by the trace of [before]. *)

(* (b1)+(b2): shape of every record: only ticks produce output, fetches surround the dispatches, every
   dispatch is for the tick's slot and inside the window *)
Definition record_shape (window : N -> N -> bool) (r : event * out) : Prop :=
  let '(ev, (pre, disp, post)) := r in
  forallb is_fetch pre = true /\ forallb is_fetch post = true /\
  match ev with
  | Tick s now _ _ =>
      forall o, In o disp -> exists r v tg, o = ODispatch r s v tg /\ window now s = true
  | _ => pre = [] /\ disp = [] /\ post = []
  end.

(* (b3): the dispatched duty is in the most recently fetched assignment of its epoch / period *)
Definition in_latest_assignment (key_of_slot : N -> N) (by_slot need_inc : bool)
           (hist : list obs) (s : N) (pre disp : list obs) : Prop :=
  forall r sl v tg, In (ODispatch r sl v tg) disp ->
  exists l d, latest_ok (hist ++ pre) (key_of_slot s) = Some l /\ In d l /\
              d_vidx d = v /\ d_tag d = tg /\
              (by_slot = true -> d_slot d = s) /\ (need_inc = true -> d_inc d = true).

(* (c): if the last fetch attempt of the tick's epoch / period before the dispatch point succeeded,
   every duty of that assignment due at the tick's slot is dispatched *)
Definition dispatches_all_due (key_of_slot : N -> N) (by_slot need_inc : bool) (owes : N -> duty -> list obs)
           (hist : list obs) (s : N) (pre disp : list obs) : Prop :=
  forall l d, last_attempt (hist ++ pre) (key_of_slot s) = Some (AOk l) -> In d l ->
  (by_slot = true -> d_slot d = s) -> (need_inc = true -> d_inc d = true) ->
  incl (owes s d) disp.

(* [P hist s now pre disp] holds for every tick record of a run; [hist] = trace before the record *)
Definition for_all_ticks (init_obs : list obs) (recs : list (event * out))
           (P : list obs -> N -> N -> list obs -> list obs -> Prop) : Prop :=
  forall before s now ac an pre disp post after,
    recs = before ++ (Tick s now ac an, (pre, disp, post)) :: after ->
    P (init_obs ++ trace_of before) s now pre disp.

Definition event_slot (ev : event) : N :=
  match ev with Tick s _ _ _ => s | Reorg r _ _ => r | Indices r => r end.
Definition is_tick (ev : event) : bool := match ev with Tick _ _ _ _ => true | _ => false end.
