(* Lemmas shared by the three handler proofs: duty store, Add, traces, slot arithmetic. *)
From Coq Require Import List NArith Bool Lia.
From SSV Require Import Scheduler.Model Scheduler.Spec.
Import ListNotations.
Local Open Scope N_scope.

(* ---- store ---------------------------------------------------------------------------------------- *)

Lemma sget_sset_eq : forall st k l, sget (sset st k l) k = l.
Proof. intros. simpl. now rewrite N.eqb_refl. Qed.

Lemma sget_sset_neq : forall st k k' l, k <> k' -> sget (sset st k l) k' = sget st k'.
Proof. intros. simpl. destruct (N.eqb_spec k k'); congruence. Qed.

Lemma sget_sset : forall st k k' l, sget (sset st k l) k' = if N.eqb k k' then l else sget st k'.
Proof. intros. reflexivity. Qed.

Lemma sget_sreset_eq : forall st k, sget (sreset st k) k = [].
Proof. intros. apply sget_sset_eq. Qed.

Lemma sget_sreset_neq : forall st k k', k <> k' -> sget (sreset st k) k' = sget st k'.
Proof. intros. now apply sget_sset_neq. Qed.

Lemma sget_sreset : forall st k k', sget (sreset st k) k' = if N.eqb k k' then [] else sget st k'.
Proof. intros. reflexivity. Qed.

(* ---- Add -------------------------------------------------------------------------------------------- *)

Lemma same_key_spec : forall bs a b, same_key bs a b = true <-> duty_key bs a = duty_key bs b.
Proof.
  intros bs a b. unfold same_key, duty_key. destruct bs; simpl.
  - rewrite andb_true_iff, !N.eqb_eq. split; [intros [-> ->]; reflexivity | intros H; inversion H; auto].
  - rewrite andb_true_r, N.eqb_eq. split; [intros ->; reflexivity | intros H; inversion H; auto].
Qed.

Lemma same_key_false : forall bs a b, same_key bs a b = false <-> duty_key bs a <> duty_key bs b.
Proof.
  intros. rewrite <- same_key_spec. destruct (same_key bs a b); split; congruence.
Qed.

Lemma in_add_duty : forall bs l d x, In x (add_duty bs l d) -> x = d \/ In x l.
Proof.
  induction l as [|y tl IH]; simpl; intros d x H.
  - destruct H as [<-|[]]; auto.
  - destruct (same_key bs y d); simpl in H.
    + destruct H as [<-|H]; auto.
    + destruct H as [<-|H]; auto. destruct (IH _ _ H); auto.
Qed.

Lemma in_add_duty_new : forall bs l d, In d (add_duty bs l d).
Proof.
  induction l as [|y tl IH]; simpl; intros d; auto.
  destruct (same_key bs y d); simpl; auto.
Qed.

Lemma in_add_duty_old : forall bs l d x,
  In x l -> duty_key bs x <> duty_key bs d -> In x (add_duty bs l d).
Proof.
  induction l as [|y tl IH]; simpl; intros d x H Hk; [tauto|].
  destruct (same_key bs y d) eqn:E; simpl.
  - destruct H as [<-|H]; auto. apply same_key_spec in E. congruence.
  - destruct H as [<-|H]; auto.
Qed.

Lemma add_duty_keys : forall bs l d k,
  In k (map (duty_key bs) (add_duty bs l d)) -> k = duty_key bs d \/ In k (map (duty_key bs) l).
Proof.
  intros bs l d k H. apply in_map_iff in H. destruct H as [x [<- Hx]].
  apply in_add_duty in Hx. destruct Hx as [->|Hx]; auto. right. now apply in_map.
Qed.

Lemma add_duty_nodup : forall bs l d,
  NoDup (map (duty_key bs) l) -> NoDup (map (duty_key bs) (add_duty bs l d)).
Proof.
  induction l as [|y tl IH]; simpl; intros d H.
  - constructor; [intros []|constructor].
  - inversion H as [|? ? Hn Hd]; subst. destruct (same_key bs y d) eqn:E; simpl.
    + apply same_key_spec in E. constructor; [rewrite <- E|]; assumption.
    + constructor; [|now apply IH]. intros Hin. apply add_duty_keys in Hin.
      apply same_key_false in E. destruct Hin; congruence.
Qed.

Lemma in_add_all : forall bs l base x, In x (add_all bs base l) -> In x base \/ In x l.
Proof.
  unfold add_all. induction l as [|y tl IH]; simpl; intros base x H; auto.
  apply IH in H. destruct H as [H|H]; auto. apply in_add_duty in H. destruct H as [->|H]; auto.
Qed.

Lemma add_all_nodup : forall bs l base,
  NoDup (map (duty_key bs) base) -> NoDup (map (duty_key bs) (add_all bs base l)).
Proof.
  unfold add_all. induction l as [|y tl IH]; simpl; intros base H; auto.
  apply IH. now apply add_duty_nodup.
Qed.

Lemma add_all_keeps : forall bs l base x,
  In x base -> (forall y, In y l -> duty_key bs y <> duty_key bs x) -> In x (add_all bs base l).
Proof.
  unfold add_all. induction l as [|y tl IH]; simpl; intros base x H Hk; auto.
  apply IH; [|intros; apply Hk; auto].
  apply in_add_duty_old; auto. intros E. apply (Hk y); auto.
Qed.

Lemma add_all_has : forall bs l base d,
  NoDup (map (duty_key bs) l) -> In d l -> In d (add_all bs base l).
Proof.
  unfold add_all. induction l as [|y tl IH]; simpl; intros base d Hn H; [tauto|].
  inversion Hn as [|? ? Hnot Hd]; subst. destruct H as [->|H].
  - apply (add_all_keeps bs tl); [apply in_add_duty_new|].
    intros z Hz E. apply Hnot. rewrite <- E. now apply in_map.
  - now apply IH.
Qed.

Lemma add_all_nil_incl : forall bs l x, In x (add_all bs [] l) -> In x l.
Proof. intros bs l x H. apply in_add_all in H. destruct H as [[]|H]; auto. Qed.

Lemma add_all_nil_nodup : forall bs l, NoDup (map (duty_key bs) (add_all bs [] l)).
Proof. intros. apply add_all_nodup. constructor. Qed.

(* set_inc keeps the key *)
Lemma duty_key_set_inc : forall bs d, duty_key bs (set_inc d) = duty_key bs d.
Proof. reflexivity. Qed.

Lemma map_key_set_inc : forall bs l, map (duty_key bs) (map set_inc l) = map (duty_key bs) l.
Proof. intros. rewrite map_map. apply map_ext. intros; apply duty_key_set_inc. Qed.

(* ---- traces ------------------------------------------------------------------------------------------ *)

Lemma last_attempt_app : forall t1 t2 k,
  last_attempt (t1 ++ t2) k =
  match last_attempt t2 k with Some a => Some a | None => last_attempt t1 k end.
Proof.
  induction t1 as [|o tl IH]; simpl; intros t2 k.
  - destruct (last_attempt t2 k); reflexivity.
  - rewrite IH. destruct (last_attempt t2 k); [reflexivity|]. reflexivity.
Qed.

Lemma latest_ok_app : forall t1 t2 k,
  latest_ok (t1 ++ t2) k =
  match latest_ok t2 k with Some a => Some a | None => latest_ok t1 k end.
Proof.
  induction t1 as [|o tl IH]; simpl; intros t2 k.
  - destruct (latest_ok t2 k); reflexivity.
  - rewrite IH. destruct (latest_ok t2 k); [reflexivity|]. reflexivity.
Qed.

Lemma last_attempt_dispatches : forall l k, forallb is_dispatch l = true -> last_attempt l k = None.
Proof.
  induction l as [|o tl IH]; simpl; intros k H; auto.
  apply andb_true_iff in H. destruct H as [Ho Ht]. rewrite (IH _ Ht).
  destruct o; [discriminate|reflexivity].
Qed.

Lemma latest_ok_dispatches : forall l k, forallb is_dispatch l = true -> latest_ok l k = None.
Proof.
  induction l as [|o tl IH]; simpl; intros k H; auto.
  apply andb_true_iff in H. destruct H as [Ho Ht]. rewrite (IH _ Ht).
  destruct o; [discriminate|reflexivity].
Qed.

Lemma last_attempt_fetch1 : forall key ep a k,
  last_attempt [OFetch key ep a] k = if N.eqb key k then Some a else None.
Proof. reflexivity. Qed.

Lemma latest_ok_fetch1 : forall key ep a k,
  latest_ok [OFetch key ep a] k =
  match a with AOk l => if N.eqb key k then Some l else None | _ => None end.
Proof. intros. simpl. destruct a; reflexivity. Qed.

(* a successful last attempt is also the most recent assignment *)
Lemma last_attempt_ok_latest : forall tr k l, last_attempt tr k = Some (AOk l) -> latest_ok tr k = Some l.
Proof.
  induction tr as [|o tl IH]; simpl; intros k l H; [discriminate|].
  destruct (last_attempt tl k) as [a|] eqn:E.
  - inversion H; subst. now rewrite (IH _ _ E).
  - destruct o as [key ep a|]; [|discriminate].
    destruct (N.eqb key k); [|discriminate]. inversion H; subst.
    assert (latest_ok tl k = None) as ->; [|reflexivity].
    clear -E. induction tl as [|o tl IH]; simpl in *; auto.
    destruct (last_attempt tl k); [discriminate|]. rewrite IH; auto.
    destruct o as [k2 ? a2|]; auto. destruct (N.eqb k2 k); [discriminate|]. destruct a2; reflexivity.
Qed.

Lemma dispatch_keys_app : forall a b, dispatch_keys (a ++ b) = dispatch_keys a ++ dispatch_keys b.
Proof.
  induction a as [|o tl IH]; simpl; intros b; auto.
  destruct (dkey o); simpl; now rewrite IH.
Qed.

Lemma dispatch_keys_fetches : forall l, forallb is_fetch l = true -> dispatch_keys l = [].
Proof.
  induction l as [|o tl IH]; simpl; intros H; auto.
  apply andb_true_iff in H. destruct H as [Ho Ht]. destruct o; [now apply IH|discriminate].
Qed.

Lemma in_dispatch_keys : forall tr k, In k (dispatch_keys tr) ->
  exists tg, In (ODispatch (fst (fst k)) (snd (fst k)) (snd k) tg) tr.
Proof.
  induction tr as [|o tl IH]; simpl; intros k H; [tauto|].
  destruct o as [| r s v tg]; simpl in H.
  - destruct (IH _ H) as [tg' Ht]. eauto.
  - destruct H as [<-|H]; [exists tg; simpl; auto|]. destruct (IH _ H) as [tg' Ht]. eauto.
Qed.

(* ---- slot arithmetic ----------------------------------------------------------------------------------- *)

Lemma pos_lt : forall c s, cfg_ok c -> pos_of c s < spe c.
Proof. intros c s [H _]. unfold pos_of. apply N.mod_lt. lia. Qed.

(* successor in a division / remainder decomposition *)
Lemma succ_divmod : forall m s, 1 <= m ->
  (s mod m < m - 1 /\ (s + 1) / m = s / m /\ (s + 1) mod m = s mod m + 1) \/
  (s mod m = m - 1 /\ (s + 1) / m = s / m + 1 /\ (s + 1) mod m = 0).
Proof.
  intros m s H.
  assert (Hn : m <> 0) by lia.
  pose proof (N.div_mod s m Hn) as D. pose proof (N.mod_lt s m Hn) as L.
  set (q := s / m) in *. set (r := s mod m) in *.
  destruct (N.eq_dec r (m - 1)) as [E|E].
  - right. split; [exact E|].
    assert (S1 : s + 1 = m * (q + 1) + 0) by nia.
    rewrite <- (N.div_unique (s + 1) m (q + 1) 0) by lia.
    rewrite <- (N.mod_unique (s + 1) m (q + 1) 0) by lia. lia.
  - left. split; [lia|].
    assert (S1 : s + 1 = m * q + (r + 1)) by nia.
    rewrite <- (N.div_unique (s + 1) m q (r + 1)) by lia.
    rewrite <- (N.mod_unique (s + 1) m q (r + 1)) by lia. lia.
Qed.

(* the slot after s: same epoch and next position, or position 0 of the next epoch *)
Lemma succ_slot : forall c s, cfg_ok c ->
  (pos_of c s < spe c - 1 /\ epoch_of c (s + 1) = epoch_of c s /\ pos_of c (s + 1) = pos_of c s + 1) \/
  (pos_of c s = spe c - 1 /\ epoch_of c (s + 1) = epoch_of c s + 1 /\ pos_of c (s + 1) = 0).
Proof. intros c s [H _]. unfold pos_of, epoch_of. apply succ_divmod. lia. Qed.

(* the epoch after e: same period and next index, or index 0 of the next period *)
Lemma succ_epoch : forall c e, cfg_ok c ->
  (e mod epp c < epp c - 1 /\ period_of c (e + 1) = period_of c e /\ (e + 1) mod epp c = e mod epp c + 1) \/
  (e mod epp c = epp c - 1 /\ period_of c (e + 1) = period_of c e + 1 /\ (e + 1) mod epp c = 0).
Proof. intros c e [_ H]. unfold period_of. apply succ_divmod. lia. Qed.

(* ---- the two store / trace relations the invariants are made of -------------------------------------- *)
(* [f] is what Add does to a fetched duty before storing it (set_inc for the attester, identity else). *)

Definition b3_ok (f : duty -> duty) (st : store) (H : list obs) : Prop :=
  forall k d, In d (sget st k) -> exists l, latest_ok H k = Some l /\ In d (map f l).

Definition c_ok (f : duty -> duty) (st : store) (H : list obs) (k : N) : Prop :=
  forall l, last_attempt H k = Some (AOk l) -> incl (map f l) (sget st k).

Definition not_ok (a : answer) : Prop := match a with AOk _ => False | _ => True end.

Lemma b3_ok_dispatches : forall f st H l, b3_ok f st H -> forallb is_dispatch l = true -> b3_ok f st (H ++ l).
Proof.
  intros f st H l Hb Hl k d Hd. destruct (Hb k d Hd) as [l0 [E I]].
  exists l0. split; auto. rewrite latest_ok_app, (latest_ok_dispatches _ _ Hl). exact E.
Qed.

Lemma c_ok_dispatches : forall f st H l k, c_ok f st H k -> forallb is_dispatch l = true -> c_ok f st (H ++ l) k.
Proof.
  intros f st H l k Hc Hl l0 E. rewrite last_attempt_app, (last_attempt_dispatches _ _ Hl) in E. auto.
Qed.

Lemma b3_ok_reset : forall f st H k, b3_ok f st H -> b3_ok f (sreset st k) H.
Proof.
  intros f st H k Hb k' d Hd. rewrite sget_sreset in Hd. destruct (N.eqb k k'); [destruct Hd|auto].
Qed.

Lemma c_ok_reset_other : forall f st H k k', k <> k' -> c_ok f st H k' -> c_ok f (sreset st k) H k'.
Proof. intros f st H k k' Hn Hc l E. rewrite sget_sreset_neq by auto. auto. Qed.

(* a failed / empty attempt changes no store and no "most recent assignment" *)
Lemma b3_ok_not_ok : forall f st H k ep a, b3_ok f st H -> not_ok a -> b3_ok f st (H ++ [OFetch k ep a]).
Proof.
  intros f st H k ep a Hb Ha k' d Hd. destruct (Hb k' d Hd) as [l0 [E I]].
  exists l0. split; auto. rewrite latest_ok_app, latest_ok_fetch1. destruct a; simpl in Ha; tauto.
Qed.

Lemma c_ok_not_ok_same : forall f st H k ep a, not_ok a -> c_ok f st (H ++ [OFetch k ep a]) k.
Proof.
  intros f st H k ep a Ha l E. rewrite last_attempt_app, last_attempt_fetch1, N.eqb_refl in E.
  inversion E; subst. destruct Ha.
Qed.

Lemma c_ok_fetch_other : forall f st st' H k ep a k',
  k <> k' -> sget st' k' = sget st k' -> c_ok f st H k' -> c_ok f st' (H ++ [OFetch k ep a]) k'.
Proof.
  intros f st st' H k ep a k' Hn Hs Hc l E. rewrite last_attempt_app, last_attempt_fetch1 in E.
  destruct (N.eqb_spec k k'); [congruence|]. rewrite Hs. auto.
Qed.

(* a successful fetch that replaces the key's duties by [newl] *)
Lemma b3_ok_set : forall f st H k ep l newl,
  b3_ok f st H -> (forall d, In d newl -> In d (map f l)) ->
  b3_ok f (sset st k newl) (H ++ [OFetch k ep (AOk l)]).
Proof.
  intros f st H k ep l newl Hb Hn k' d Hd. rewrite sget_sset in Hd.
  rewrite latest_ok_app, latest_ok_fetch1. destruct (N.eqb k k'); [eauto|].
  destruct (Hb k' d Hd) as [l0 [E I]]. rewrite E. eauto.
Qed.

Lemma c_ok_set_same : forall f st H k ep l newl,
  incl (map f l) newl -> c_ok f (sset st k newl) (H ++ [OFetch k ep (AOk l)]) k.
Proof.
  intros f st H k ep l newl Hi l0 E. rewrite last_attempt_app, last_attempt_fetch1, N.eqb_refl in E.
  inversion E; subst. now rewrite sget_sset_eq.
Qed.

Lemma c_ok_set_other : forall f st H k ep a newl k',
  k <> k' -> c_ok f st H k' -> c_ok f (sset st k newl) (H ++ [OFetch k ep a]) k'.
Proof.
  intros f st H k ep a newl k' Hn Hc. apply (c_ok_fetch_other f st); auto. now apply sget_sset_neq.
Qed.

Lemma incl_map_id : forall (l m : list duty), incl (map (fun d => d) l) m <-> incl l m.
Proof. intros. now rewrite map_id. Qed.

Lemma NoDup_app_iff_local : forall (A : Type) (a b : list A),
  NoDup a -> NoDup b -> (forall x, In x a -> In x b -> False) -> NoDup (a ++ b).
Proof.
  induction a as [|x tl IH]; simpl; intros b Ha Hb Hd; auto.
  inversion Ha; subst. constructor.
  - intros Hin. apply in_app_or in Hin. destruct Hin; [contradiction|]. eapply Hd; eauto.
  - apply IH; auto. intros y Hy1 Hy2. eapply Hd; eauto.
Qed.

(* ---- at most once, for any machine whose steps have the record shape ---------------------------------- *)

Section AtMostOnce.
  Variable S : Type.
  Variable step : S -> event -> S * out.
  Variable I : S -> Prop.
  Variable window : N -> N -> bool.
  Hypothesis step_shape : forall st ev st' o, step st ev = (st', o) -> record_shape window (ev, o).
  Hypothesis step_inv : forall st ev st' o, I st -> step st ev = (st', o) -> I st'.
  Hypothesis step_nodup : forall st ev st' pre disp post,
    I st -> step st ev = (st', (pre, disp, post)) -> NoDup (dispatch_keys disp).

  Lemma run_shape : forall evs st st' recs,
    run step st evs = (st', recs) -> Forall (record_shape window) recs.
  Proof.
    induction evs as [|ev tl IH]; simpl; intros st st' recs R.
    - inversion R; constructor.
    - destruct (step st ev) as [st1 o] eqn:E. destruct (run step st1 tl) as [st2 os] eqn:E2.
      inversion R; subst. constructor; eauto.
  Qed.

  Lemma run_events : forall evs st st' recs, run step st evs = (st', recs) -> map fst recs = evs.
  Proof.
    induction evs as [|ev tl IH]; simpl; intros st st' recs R.
    - inversion R; reflexivity.
    - destruct (step st ev) as [st1 o] eqn:E. destruct (run step st1 tl) as [st2 os] eqn:E2.
      inversion R; subst. simpl. f_equal. eauto.
  Qed.

  Lemma run_at_most_once : forall evs last st st' recs,
    ticks_increasing_from last evs -> I st -> run step st evs = (st', recs) ->
    NoDup (dispatch_keys (trace_of recs)) /\
    forall k, In k (dispatch_keys (trace_of recs)) ->
              match last with None => True | Some t => t < snd (fst k) end.
  Proof.
    induction evs as [|ev tl IH]; simpl; intros last st st' recs Ht Hi R.
    - inversion R; subst. simpl. split; [constructor|intros k []].
    - destruct (step st ev) as [st1 [[pre disp] post]] eqn:E.
      destruct (run step st1 tl) as [st2 os] eqn:E2. inversion R; subst. clear R.
      pose proof (step_shape _ _ _ _ E) as Sh. pose proof (step_nodup _ _ _ _ _ _ Hi E) as Nd.
      pose proof (step_inv _ _ _ _ Hi E) as Hi1.
      simpl in Sh. destruct Sh as [Fpre [Fpost Sh]].
      unfold trace_of. simpl. fold (trace_of os).
      rewrite !dispatch_keys_app, (dispatch_keys_fetches _ Fpre), (dispatch_keys_fetches _ Fpost).
      simpl. rewrite app_nil_r.
      destruct ev as [s now ac an|r p cu|r].
      + destruct Ht as [Hlast Ht].
        destruct (IH (Some s) _ _ _ Ht Hi1 E2) as [Nd2 Lt2].
        assert (Hs : forall k, In k (dispatch_keys disp) -> snd (fst k) = s).
        { intros k Hk. apply in_dispatch_keys in Hk. destruct Hk as [tg Hk].
          destruct (Sh _ Hk) as [r [v [tg' [Eq _]]]]. inversion Eq; subst. auto. }
        split.
        * apply NoDup_app_iff_local; auto.
          intros k H1 H2. apply Hs in H1. apply Lt2 in H2. lia.
        * intros k Hk. apply in_app_or in Hk. destruct Hk as [Hk|Hk].
          -- apply Hs in Hk. destruct last; [lia|exact Logic.I].
          -- apply Lt2 in Hk. destruct last; [lia|exact Logic.I].
      + destruct Sh as [-> [-> ->]]. simpl. eapply IH; eauto.
      + destruct Sh as [-> [-> ->]]. simpl. eapply IH; eauto.
  Qed.
End AtMostOnce.

(* ---- stores whose duty lists name each duty once -------------------------------------------------------- *)

Definition store_nodup (bs : bool) (st : store) : Prop :=
  forall k, NoDup (map (duty_key bs) (sget st k)).

Lemma store_nodup_nil : forall bs, store_nodup bs [].
Proof. intros bs k. constructor. Qed.

Lemma store_nodup_set : forall bs st k l,
  store_nodup bs st -> NoDup (map (duty_key bs) l) -> store_nodup bs (sset st k l).
Proof. intros bs st k l H Hl k'. rewrite sget_sset. destruct (N.eqb k k'); auto. Qed.

Lemma store_nodup_reset : forall bs st k, store_nodup bs st -> store_nodup bs (sreset st k).
Proof. intros. apply store_nodup_set; auto. constructor. Qed.

Lemma nodup_vidx_filter_slot : forall (P : duty -> bool) s l,
  NoDup (map (duty_key true) l) -> (forall d, P d = true -> d_slot d = s) ->
  NoDup (map d_vidx (filter P l)).
Proof.
  induction l as [|x tl IH]; simpl; intros Hn HP; [constructor|].
  inversion Hn as [|? ? Hx Ht]; subst. destruct (P x) eqn:Px; simpl; [|auto].
  constructor; [|auto]. intros Hin. apply in_map_iff in Hin. destruct Hin as [y [Ev Hy]].
  apply filter_In in Hy. destruct Hy as [Hy Py]. apply Hx.
  apply in_map_iff. exists y. split; auto. unfold duty_key. rewrite Ev, (HP _ Py), (HP _ Px). reflexivity.
Qed.

Lemma nodup_vidx_filter : forall (P : duty -> bool) l,
  NoDup (map (duty_key false) l) -> NoDup (map d_vidx (filter P l)).
Proof.
  induction l as [|x tl IH]; simpl; intros Hn; [constructor|].
  inversion Hn as [|? ? Hx Ht]; subst. destruct (P x) eqn:Px; simpl; [|auto].
  constructor; [|auto]. intros Hin. apply in_map_iff in Hin. destruct Hin as [y [Ev Hy]].
  apply filter_In in Hy. destruct Hy as [Hy Py]. apply Hx.
  apply in_map_iff. exists y. split; auto. unfold duty_key. now rewrite Ev.
Qed.

Lemma dispatch_keys_map1 : forall r s l,
  dispatch_keys (map (fun d => ODispatch r s (d_vidx d) (d_tag d)) l) = map (fun d => (r, s, d_vidx d)) l.
Proof. induction l as [|x tl IH]; simpl; [reflexivity|now rewrite IH]. Qed.

Lemma nodup_dispatch1 : forall r s l, NoDup (map d_vidx l) ->
  NoDup (dispatch_keys (map (fun d => ODispatch r s (d_vidx d) (d_tag d)) l)).
Proof.
  intros r s l H. rewrite dispatch_keys_map1.
  induction l as [|x tl IH]; simpl in *; [constructor|]. inversion H; subst.
  constructor; auto. intros Hin. apply in_map_iff in Hin. destruct Hin as [y [Ey Hy]].
  inversion Ey. apply H2. apply in_map_iff. eauto.
Qed.

Lemma nodup_dispatch2 : forall r1 r2 s l, r1 <> r2 -> NoDup (map d_vidx l) ->
  NoDup (dispatch_keys (flat_map (dispatch2 r1 r2 s) l)).
Proof.
  intros r1 r2 s l Hr H.
  assert (K : forall l k, In k (dispatch_keys (flat_map (dispatch2 r1 r2 s) l)) ->
                          In (snd k) (map d_vidx l)).
  { induction l0 as [|x tl IH]; simpl; intros k Hk; [tauto|].
    destruct Hk as [<-|[<-|Hk]]; simpl; auto. }
  induction l as [|x tl IH]; simpl in *; [constructor|]. inversion H; subst.
  constructor.
  - intros [E|Hin]; [inversion E; congruence|]. apply K in Hin. simpl in Hin. contradiction.
  - constructor; auto. intros Hin. apply K in Hin. simpl in Hin. contradiction.
Qed.

Lemma forallb_is_dispatch_map1 : forall r s (l : list duty),
  forallb is_dispatch (map (fun d => ODispatch r s (d_vidx d) (d_tag d)) l) = true.
Proof. induction l; simpl; auto. Qed.

Lemma forallb_is_dispatch_flat2 : forall r1 r2 s (l : list duty),
  forallb is_dispatch (flat_map (dispatch2 r1 r2 s) l) = true.
Proof. induction l; simpl; auto. Qed.

(* ---- honest runs: induction principle shared by the three handlers ------------------------------------- *)

Section HonestRun.
  Variable S : Type.
  Variable step : S -> event -> S * out.
  Variable Inv : option N -> S -> list obs -> Prop.   (* indexed by the slot of the next tick *)
  Variable bs : bool.
  Variable now0 : N.
  Variable P : list obs -> N -> N -> list obs -> list obs -> Prop.
  Hypothesis tick_ok : forall n st H s now ac an st' pre disp post,
    Inv n st H -> match n with None => now0 <= s | Some n0 => n0 = s end ->
    answer_ok bs ac -> answer_ok bs an ->
    step st (Tick s now ac an) = (st', (pre, disp, post)) ->
    Inv (Some (s + 1)) st' (H ++ pre ++ disp ++ post) /\ P H s now pre disp.
  Hypothesis event_ok : forall n st H ev st' o,
    Inv n st H -> is_tick ev = false ->
    match n with None => True | Some n0 => event_slot ev + 1 = n0 \/ event_slot ev = n0 end ->
    step st ev = (st', o) -> Inv n st' (H ++ flat_out o).

  Lemma honest_run : forall evs last st H st' recs,
    Inv (option_map (fun t => t + 1) last) st H ->
    honest_from bs now0 last evs -> run step st evs = (st', recs) ->
    for_all_ticks H recs P.
  Proof.
    unfold for_all_ticks.
    induction evs as [|ev tl IH]; simpl; intros last st H st' recs Hi Hh R.
    - inversion R; subst. intros before ? ? ? ? ? ? ? ? Q. destruct before; inversion Q.
    - destruct (step st ev) as [st1 o] eqn:E. destruct (run step st1 tl) as [st2 os] eqn:E2.
      inversion R; subst. clear R.
      assert (Next : forall last1, Inv (option_map (fun t => t + 1) last1) st1 (H ++ flat_out o) ->
                honest_from bs now0 last1 tl ->
                forall before s now ac an pre disp post after,
                  (ev, o) :: os = ((ev, o) :: before) ++ (Tick s now ac an, (pre, disp, post)) :: after ->
                  P (H ++ trace_of ((ev, o) :: before)) s now pre disp).
      { intros last1 Hi1 Hh1 before s now ac an pre disp post after Q. inversion Q as [Q1].
        pose proof (IH _ _ _ _ _ Hi1 Hh1 E2 _ _ _ _ _ _ _ _ _ Q1) as X.
        unfold trace_of in *. simpl. rewrite app_assoc. exact X. }
      destruct ev as [s now ac an|r p cu|r].
      + destruct Hh as [Hs [Ha1 [Ha2 Hh]]]. destruct o as [[pre disp] post].
        assert (Hs' : match option_map (fun t => t + 1) last with None => now0 <= s | Some n0 => n0 = s end)
          by (destruct last; simpl; auto).
        destruct (tick_ok _ _ _ _ _ _ _ _ _ _ _ Hi Hs' Ha1 Ha2 E) as [Hi1 HP].
        intros [|r0 before] s0 now0' ac0 an0 pre0 disp0 post0 after Q.
        * inversion Q; subst. simpl. rewrite app_nil_r. exact HP.
        * inversion Q; subst. eapply (Next (Some s)); eauto.
      + destruct Hh as [Hs Hh].
        assert (Hi1 : Inv (option_map (fun t => t + 1) last) st1 (H ++ flat_out o)).
        { assert (Hslot : match option_map (fun t => t + 1) last with
                          | None => True | Some n0 => r + 1 = n0 \/ r = n0 end).
          { clear -Hs. destruct last as [t|]; simpl in *; auto. destruct Hs; [left|right]; lia. }
          apply (fun a b => event_ok _ _ _ _ _ _ Hi a b E); [reflexivity|exact Hslot]. }
        intros [|r0 before] s0 now0' ac0 an0 pre0 disp0 post0 after Q.
        * inversion Q.
        * inversion Q; subst. eapply (Next last); eauto.
      + destruct Hh as [Hs Hh].
        assert (Hi1 : Inv (option_map (fun t => t + 1) last) st1 (H ++ flat_out o)).
        { assert (Hslot : match option_map (fun t => t + 1) last with
                          | None => True | Some n0 => r + 1 = n0 \/ r = n0 end).
          { clear -Hs. destruct last as [t|]; simpl in *; auto. destruct Hs; [left|right]; lia. }
          apply (fun a b => event_ok _ _ _ _ _ _ Hi a b E); [reflexivity|exact Hslot]. }
        intros [|r0 before] s0 now0' ac0 an0 pre0 disp0 post0 after Q.
        * inversion Q.
        * inversion Q; subst. eapply (Next last); eauto.
  Qed.
End HonestRun.
