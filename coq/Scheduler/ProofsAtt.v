(* Attester handler: invariant and the three parts of C16 (for the code with the boundary repair). *)
From Coq Require Import List NArith Bool Lia.
From SSV Require Import Scheduler.Model Scheduler.Spec Scheduler.ProofsCommon Scheduler.ProofsSync.
Import ListNotations.
Local Open Scope N_scope.

(* ---- one fetch (Add without reset: the fetched duties are merged into the epoch's map) -------------------- *)

Lemma att_fetch_spec : forall st e a st1 o ok, att_fetch st e a = (st1, o, ok) ->
  o = [OFetch e e a] /\ ok = negb (is_fail a) /\
  st1 = match a with
        | AOk l => sset st e (add_all true (sget st e) (map set_inc l))
        | _ => st
        end.
Proof. intros st e a st1 o ok F. destruct a; inversion F; auto. Qed.

Record afetch_post (st st1 : store) (H o : list obs) (q : N) (ok : bool) : Prop := {
  aq_fetch : forallb is_fetch o = true;
  aq_nodup : store_nodup true st -> store_nodup true st1;
  aq_b3 : sget st q = [] -> b3_ok set_inc st H -> b3_ok set_inc st1 (H ++ o);
  aq_same : c_ok set_inc st1 (H ++ o) q;
  aq_other : forall k, k <> q -> c_ok set_inc st H k -> c_ok set_inc st1 (H ++ o) k;
  aq_att : forall k, k <> q -> last_attempt (H ++ o) k = last_attempt H k;
  aq_store : forall k, k <> q -> sget st1 k = sget st k;
  aq_fail : ok = false -> st1 = st }.

Lemma att_fetch_post : forall st H q a st1 o ok,
  answer_ok true a -> att_fetch st q a = (st1, o, ok) -> afetch_post st st1 H o q ok.
Proof.
  intros st H q a st1 o ok Ha F. apply att_fetch_spec in F. destruct F as [-> [-> ->]].
  constructor.
  - reflexivity.
  - intros Hn. destruct a; auto. apply store_nodup_set; auto. apply add_all_nodup. apply Hn.
  - intros He Hb. destruct a as [| |l]; [apply b3_ok_not_ok; simpl; auto | apply b3_ok_not_ok; simpl; auto |].
    apply b3_ok_set; auto. intros d Hd. rewrite He in Hd. now apply add_all_nil_incl in Hd.
  - destruct a as [| |l]; [apply c_ok_not_ok_same; simpl; auto | apply c_ok_not_ok_same; simpl; auto |].
    apply c_ok_set_same. intros d Hd. apply add_all_has; auto. simpl in Ha. now rewrite map_key_set_inc.
  - intros k Hk Hc. assert (Hq : q <> k) by congruence.
    apply (c_ok_fetch_other set_inc st); auto. destruct a; auto. now apply sget_sset_neq.
  - intros k Hk. rewrite last_attempt_app, last_attempt_fetch1.
    destruct (N.eqb_spec q k); [congruence|reflexivity].
  - intros k Hk. destruct a; auto. apply sget_sset_neq. congruence.
  - intros Hf. destruct a; simpl in Hf; try discriminate; reflexivity.
Qed.

(* ---- processFetching ------------------------------------------------------------------------------------------ *)

Record afetching_post (c : cfg) (st st' : att_state) (H o : list obs) (e s : N) : Prop := {
  ap_fetch : forallb is_fetch o = true;
  ap_first : a_first st' = a_first st;
  ap_idx : a_idx st' = a_idx st;
  ap_nodup : store_nodup true (a_store st) -> store_nodup true (a_store st');
  ap_b3 : (a_cur st = true -> sget (a_store st) e = []) ->
          (a_next st = true -> should_fetch_next_epoch c s = true -> sget (a_store st) (e + 1) = []) ->
          b3_ok set_inc (a_store st) H -> b3_ok set_inc (a_store st') (H ++ o);
  ap_cur : a_cur st = true \/ c_ok set_inc (a_store st) H e -> c_ok set_inc (a_store st') (H ++ o) e;
  ap_next : c_ok set_inc (a_store st) H (e + 1) \/ (a_next st = true /\ a_next st' = false) ->
            c_ok set_inc (a_store st') (H ++ o) (e + 1);
  ap_cur_flag : a_cur st' = true ->
                a_cur st = true /\ sget (a_store st') e = sget (a_store st) e /\
                sget (a_store st') (e + 1) = sget (a_store st) (e + 1);
  ap_next_flag : a_next st' = true ->
                 a_next st = true /\ sget (a_store st') (e + 1) = sget (a_store st) (e + 1);
  ap_no_next : should_fetch_next_epoch c s = false ->
               last_attempt (H ++ o) (e + 1) = last_attempt H (e + 1);
  ap_other : forall k, k <> e -> k <> e + 1 ->
             c_ok set_inc (a_store st) H k -> c_ok set_inc (a_store st') (H ++ o) k;
  ap_att : forall k, k <> e -> k <> e + 1 -> last_attempt (H ++ o) k = last_attempt H k }.

Lemma att_fetching_post : forall c st e s ac an st' o H,
  answer_ok true ac -> answer_ok true an ->
  att_fetching c st e s ac an = (st', o) -> afetching_post c st st' H o e s.
Proof.
  intros c st e s ac an st' o H Hac Han E. unfold att_fetching in E.
  assert (Hp : e <> e + 1) by lia.
  assert (Hp' : e + 1 <> e) by lia.
  assert (Hpick : forall key, answer_ok true (pick key e ac an))
    by (intros key; unfold pick; destruct (N.eqb key e); auto).
  destruct (a_cur st) eqn:Cur.
  - destruct (att_fetch (a_store st) e (pick e e ac an)) as [[s1 o1] ok1] eqn:F1.
    pose proof (att_fetch_post _ H _ _ _ _ _ (Hpick _) F1) as P1.
    destruct ok1; simpl in E.
    + destruct (a_next st && should_fetch_next_epoch c s) eqn:Nx.
      * apply andb_true_iff in Nx. destruct Nx as [Nx Sh].
        destruct (att_fetch s1 (e + 1) (pick (e + 1) e ac an)) as [[s2 o2] ok2] eqn:F2.
        pose proof (att_fetch_post _ (H ++ o1) _ _ _ _ _ (Hpick _) F2) as P2.
        inversion E; subst. clear E.
        destruct P1 as [A1 B1 C1 D1 E1 G1 S1 X1]. destruct P2 as [A2 B2 C2 D2 E2 G2 S2 X2].
        constructor; simpl; rewrite ?app_assoc; intros; fin.
        -- rewrite forallb_app, A1, A2. reflexivity.
        -- apply C2; auto. rewrite S1; auto.
        -- split; auto. destruct ok2; [discriminate|]. rewrite (X2 eq_refl). auto.
        -- rewrite G2, G1; auto.
      * inversion E; subst. clear E. destruct P1 as [A1 B1 C1 D1 E1 G1 S1 X1].
        constructor; simpl; intros; fin.
    + inversion E; subst. clear E. destruct P1 as [A1 B1 C1 D1 E1 G1 S1 X1].
      rewrite (X1 eq_refl) in *.
      constructor; simpl; intros; fin.
  - simpl in E. destruct (a_next st && should_fetch_next_epoch c s) eqn:Nx.
    + apply andb_true_iff in Nx. destruct Nx as [Nx Sh].
      destruct (att_fetch (a_store st) (e + 1) (pick (e + 1) e ac an)) as [[s2 o2] ok2] eqn:F2.
      pose proof (att_fetch_post _ H _ _ _ _ _ (Hpick _) F2) as P2.
      inversion E; subst. clear E. destruct P2 as [A2 B2 C2 D2 E2 G2 S2 X2].
      constructor; simpl; intros; fin.
      split; auto. destruct ok2; [discriminate|]. rewrite (X2 eq_refl). auto.
    + inversion E; subst. clear E.
      constructor; simpl; rewrite ?app_nil_r; intros; fin.
Qed.

(* ---- execution ------------------------------------------------------------------------------------------------ *)

Lemma att_exec_in : forall c st s now o, In o (att_exec c st s now) <->
  exists d, In d (sget st (epoch_of c s)) /\ d_slot d = s /\ d_inc d = true /\
            att_window c now s = true /\ In o (att_owes s d).
Proof.
  intros c st s now o. unfold att_exec. rewrite in_flat_map. split.
  - intros [d [Hd Ho]]. apply filter_In in Hd. destruct Hd as [Hd P].
    apply andb_true_iff in P. destruct P as [P W]. apply andb_true_iff in P. destruct P as [Es I].
    apply N.eqb_eq in Es. exists d. rewrite Es in W. auto.
  - intros [d [Hd [Es [I [W Ho]]]]]. exists d. split; auto. apply filter_In. split; auto.
    rewrite Es, N.eqb_refl, I, W. reflexivity.
Qed.

Lemma att_exec_dispatches : forall c st s now, forallb is_dispatch (att_exec c st s now) = true.
Proof. intros. apply forallb_is_dispatch_flat2. Qed.

Lemma att_exec_nodup : forall c st s now,
  store_nodup true st -> NoDup (dispatch_keys (att_exec c st s now)).
Proof.
  intros c st s now Hn. unfold att_exec. apply nodup_dispatch2; [discriminate|].
  apply (nodup_vidx_filter_slot _ s); auto.
  intros d P. apply andb_true_iff in P. destruct P as [P _]. apply andb_true_iff in P.
  destruct P as [P _]. now apply N.eqb_eq.
Qed.

Lemma att_exec_shape : forall c st s now o, In o (att_exec c st s now) ->
  exists r v tg, o = ODispatch r s v tg /\ att_window c now s = true.
Proof.
  intros c st s now o Ho. apply att_exec_in in Ho. destruct Ho as [d [_ [_ [_ [W Ho]]]]].
  destruct Ho as [<-|[<-|[]]]; eauto.
Qed.

Lemma att_exec_b3 : forall c st H pre s now,
  b3_ok set_inc st (H ++ pre) ->
  in_latest_assignment (epoch_of c) true false H s pre (att_exec c st s now).
Proof.
  intros c st H pre s now Hb r sl v tg Hin. apply att_exec_in in Hin.
  destruct Hin as [d [Hd [Es [I [W Ho]]]]].
  destruct (Hb _ _ Hd) as [l [El Il]]. apply in_map_iff in Il. destruct Il as [d0 [E0 I0]].
  exists l, d0. subst d. simpl in *.
  destruct Ho as [Eo|[Eo|[]]]; inversion Eo; subst; repeat split; auto; discriminate.
Qed.

Lemma att_exec_c : forall c st H pre s now,
  c_ok set_inc st (H ++ pre) (epoch_of c s) -> att_window c now s = true ->
  dispatches_all_due (epoch_of c) true false att_owes H s pre (att_exec c st s now).
Proof.
  intros c st H pre s now Hc W l d El Il Es _ o Ho.
  apply att_exec_in. exists (set_inc d). repeat split; auto.
  apply (Hc _ El). now apply in_map.
Qed.

(* ---- the tick, restated ------------------------------------------------------------------------------------------ *)

Definition att_finish (c : cfg) (st2 : att_state) (s : N) : att_state :=
  let st3 := if N.eqb (pos_of c s) (spe c / 2 - 2) then
               {| a_first := a_first st2; a_idx := a_idx st2; a_cur := a_cur st2; a_next := true;
                  a_store := a_store st2 |}
             else st2 in
  if N.eqb (pos_of c s) (spe c - 1) then att_with_store st3 (sreset (a_store st3) (epoch_of c s)) else st3.

Lemma att_tick_unfold : forall c st0 s now ac an,
  att_tick c st0 s now ac an =
  let e := epoch_of c s in
  let st := att_repair c st0 s in
  if a_first st then
    let '(st2, pre) := att_fetching c {| a_first := false; a_idx := false; a_cur := a_cur st;
                                         a_next := a_next st; a_store := a_store st |} e s ac an in
    (att_finish c st2 s, (pre, att_exec c (a_store st2) s now, []))
  else
    let st1 := if a_idx st then
                 {| a_first := false; a_idx := false; a_cur := a_cur st; a_next := a_next st;
                    a_store := sreset (a_store st) e |}
               else st in
    let '(st2, post) := att_fetching c st1 e s ac an in
    (att_finish c st2 s, ([], att_exec c (a_store st) s now, post)).
Proof.
  intros. unfold att_tick, att_finish. cbv zeta.
  destruct (a_first (att_repair c st0 s)).
  - destruct (att_fetching _ _ _ _ _ _) as [st2 pre]. reflexivity.
  - destruct (att_fetching _ _ _ _ _ _) as [st2 post]. reflexivity.
Qed.

Lemma att_fetching_any : forall c st e s ac an st' o,
  att_fetching c st e s ac an = (st', o) ->
  forallb is_fetch o = true /\ (store_nodup true (a_store st) -> store_nodup true (a_store st')).
Proof.
  intros c st e s ac an st' o E. unfold att_fetching in E.
  assert (N1 : forall st q a st1 o ok, att_fetch st q a = (st1, o, ok) ->
               forallb is_fetch o = true /\ (store_nodup true st -> store_nodup true st1)).
  { intros st0 q a st1 o0 ok F. apply att_fetch_spec in F. destruct F as [-> [_ ->]]. split; auto.
    intros Hn. destruct a; auto. apply store_nodup_set; auto. apply add_all_nodup. apply Hn. }
  destruct (a_cur st).
  - destruct (att_fetch (a_store st) e _) as [[s1 o1] ok1] eqn:F1. destruct (N1 _ _ _ _ _ _ F1) as [A1 B1].
    destruct ok1; simpl in E.
    + destruct (a_next st && should_fetch_next_epoch c s).
      * destruct (att_fetch s1 (e + 1) _) as [[s2 o2] ok2] eqn:F2. destruct (N1 _ _ _ _ _ _ F2) as [A2 B2].
        inversion E; subst; simpl. rewrite forallb_app, A1, A2. auto.
      * inversion E; subst; simpl; auto.
    + inversion E; subst; simpl; auto.
  - simpl in E. destruct (a_next st && should_fetch_next_epoch c s).
    + destruct (att_fetch (a_store st) (e + 1) _) as [[s2 o2] ok2] eqn:F2. destruct (N1 _ _ _ _ _ _ F2) as [A2 B2].
      inversion E; subst; simpl; auto.
    + inversion E; subst; simpl; auto.
Qed.

Lemma att_repair_store : forall c st s, a_store (att_repair c st s) = a_store st.
Proof. intros. unfold att_repair. destruct (_ && _); reflexivity. Qed.

Lemma att_finish_nodup : forall c st2 s,
  store_nodup true (a_store st2) -> store_nodup true (a_store (att_finish c st2 s)).
Proof.
  intros c st2 s Hn. unfold att_finish, att_with_store.
  destruct (N.eqb (pos_of c s) (spe c / 2 - 2)); destruct (N.eqb (pos_of c s) (spe c - 1)); simpl; auto;
    now apply store_nodup_reset.
Qed.

Lemma att_tick_parts : forall c st0 s now ac an st' pre disp post,
  store_nodup true (a_store st0) ->
  att_tick c st0 s now ac an = (st', (pre, disp, post)) ->
  forallb is_fetch pre = true /\ forallb is_fetch post = true /\
  (exists sx, store_nodup true sx /\ disp = att_exec c sx s now) /\
  store_nodup true (a_store st').
Proof.
  intros c st0 s now ac an st' pre disp post Hn E. rewrite att_tick_unfold in E. cbv zeta in E.
  assert (Hr : store_nodup true (a_store (att_repair c st0 s))) by now rewrite att_repair_store.
  destruct (a_first (att_repair c st0 s)).
  - destruct (att_fetching _ _ _ _ _ _) as [st2 pre'] eqn:F. inversion E; subst.
    destruct (att_fetching_any _ _ _ _ _ _ _ _ F) as [A B]. simpl in B.
    repeat split; auto; [eauto|apply att_finish_nodup; auto].
  - destruct (att_fetching _ _ _ _ _ _) as [st2 post'] eqn:F. inversion E; subst.
    destruct (att_fetching_any _ _ _ _ _ _ _ _ F) as [A B].
    repeat split; auto; [eauto|apply att_finish_nodup; apply B].
    destruct (a_idx (att_repair c st0 s)); simpl; auto. now apply store_nodup_reset.
Qed.

Lemma att_event_store_nodup : forall c st ev st' o,
  is_tick ev = false -> store_nodup true (a_store st) -> att_step c st ev = (st', o) ->
  o = no_out /\ store_nodup true (a_store st').
Proof.
  intros c st ev st' o Nt Hn E. destruct ev as [s now ac an|r p cu|r]; [discriminate| |]; simpl in E.
  - unfold att_reset_next_if_due in E.
    destruct p; [|destruct cu]; destruct (should_fetch_next_epoch c r); inversion E; subst; simpl;
      split; auto; repeat apply store_nodup_reset; auto.
  - unfold att_reset_next_if_due in E.
    destruct (should_fetch_next_epoch c r); inversion E; subst; simpl; split; auto;
      repeat apply store_nodup_reset; auto.
Qed.

Lemma att_tick_shape : forall c st0 s now ac an st' pre disp post,
  att_tick c st0 s now ac an = (st', (pre, disp, post)) ->
  forallb is_fetch pre = true /\ forallb is_fetch post = true /\
  exists sx, disp = att_exec c sx s now.
Proof.
  intros c st0 s now ac an st' pre disp post E. rewrite att_tick_unfold in E. cbv zeta in E.
  destruct (a_first (att_repair c st0 s)).
  - destruct (att_fetching _ _ _ _ _ _) as [st2 pre'] eqn:F. inversion E; subst.
    destruct (att_fetching_any _ _ _ _ _ _ _ _ F) as [A B]. repeat split; eauto.
  - destruct (att_fetching _ _ _ _ _ _) as [st2 post'] eqn:F. inversion E; subst.
    destruct (att_fetching_any _ _ _ _ _ _ _ _ F) as [A B]. repeat split; eauto.
Qed.

Lemma att_event_no_out : forall c st ev st' o,
  is_tick ev = false -> att_step c st ev = (st', o) -> o = no_out.
Proof.
  intros c st ev st' o Nt E. destruct ev as [s now ac an|r p cu|r]; [discriminate| |]; simpl in E;
    unfold att_reset_next_if_due in E.
  - destruct p; [|destruct cu]; destruct (should_fetch_next_epoch c r); inversion E; reflexivity.
  - destruct (should_fetch_next_epoch c r); inversion E; reflexivity.
Qed.

Lemma att_step_shape : forall c st ev st' o,
  att_step c st ev = (st', o) -> record_shape (att_window c) (ev, o).
Proof.
  intros c st ev st' o E. destruct ev as [s now ac an|r p cu|r].
  - simpl in E. destruct o as [[pre disp] post].
    destruct (att_tick_shape _ _ _ _ _ _ _ _ _ _ E) as [A [B [sx ->]]].
    simpl. repeat split; auto. intros o Ho. eapply att_exec_shape; eauto.
  - rewrite (att_event_no_out c st (Reorg r p cu) st' o eq_refl E). simpl. auto.
  - rewrite (att_event_no_out c st (Indices r) st' o eq_refl E). simpl. auto.
Qed.

Lemma att_step_nodup_inv : forall c st ev st' o,
  store_nodup true (a_store st) -> att_step c st ev = (st', o) -> store_nodup true (a_store st').
Proof.
  intros c st ev st' o Hn E. destruct ev as [s now ac an|r p cu|r].
  - simpl in E. destruct o as [[pre disp] post].
    now destruct (att_tick_parts _ _ _ _ _ _ _ _ _ _ Hn E) as [_ [_ [_ X]]].
  - now destruct (att_event_store_nodup c st (Reorg r p cu) st' o eq_refl Hn E).
  - now destruct (att_event_store_nodup c st (Indices r) st' o eq_refl Hn E).
Qed.

Lemma att_step_disp_nodup : forall c st ev st' pre disp post,
  store_nodup true (a_store st) -> att_step c st ev = (st', (pre, disp, post)) ->
  NoDup (dispatch_keys disp).
Proof.
  intros c st ev st' pre disp post Hn E. destruct ev as [s now ac an|r p cu|r].
  - simpl in E. destruct (att_tick_parts _ _ _ _ _ _ _ _ _ _ Hn E) as [_ [_ [[sx [Hx ->]] _]]].
    now apply att_exec_nodup.
  - destruct (att_event_store_nodup c st (Reorg r p cu) st' _ eq_refl Hn E) as [Q _].
    inversion Q; constructor.
  - destruct (att_event_store_nodup c st (Indices r) st' _ eq_refl Hn E) as [Q _].
    inversion Q; constructor.
Qed.

(* ---- arithmetic of the fetch-next-epoch window ------------------------------------------------------------------- *)

Definition midm (c : cfg) : N := spe c / 2 - 2.

Lemma should_iff : forall c s, should_fetch_next_epoch c s = true <-> midm c < pos_of c s.
Proof. intros. unfold should_fetch_next_epoch, midm. apply N.ltb_lt. Qed.

Lemma should_false_iff : forall c s, should_fetch_next_epoch c s = false <-> pos_of c s <= midm c.
Proof. intros. unfold should_fetch_next_epoch, midm. apply N.ltb_ge. Qed.

Lemma midm_lt : forall c, cfg_ok c -> midm c + 3 <= spe c.
Proof.
  intros c [H _]. unfold midm.
  assert (spe c / 2 <= spe c - 1).
  { apply N.div_le_upper_bound; [lia|]. nia. }
  assert (2 * (spe c / 2) <= spe c) by (apply N.mul_div_le; lia).
  lia.
Qed.

(* ---- unattempted epochs are empty ----------------------------------------------------------------------------------- *)

Lemma latest_ok_attempted : forall tr k l, latest_ok tr k = Some l -> last_attempt tr k <> None.
Proof.
  induction tr as [|o tl IH]; simpl; intros k l E; [discriminate|].
  destruct (latest_ok tl k) eqn:L.
  - destruct (last_attempt tl k) eqn:A; [discriminate|]. exfalso. eapply IH; eauto.
  - destruct (last_attempt tl k); [discriminate|].
    destruct o as [key ep a|]; [|discriminate]. destruct a; try discriminate.
    destruct (N.eqb key k); discriminate.
Qed.

Lemma unattempted_empty : forall f st H k, b3_ok f st H -> last_attempt H k = None -> sget st k = [].
Proof.
  intros f st H k Hb Hn. destruct (sget st k) as [|d tl] eqn:E; [reflexivity|].
  destruct (Hb k d) as [l [L _]]; [rewrite E; simpl; auto|].
  exfalso. eapply latest_ok_attempted; eauto.
Qed.

Lemma c_ok_unatt : forall f st H k, last_attempt H k = None -> c_ok f st H k.
Proof. intros f st H k E l E'. congruence. Qed.

Lemma c_ok_reset2_other : forall f st H a b k, a <> k -> b <> k ->
  c_ok f st H k -> c_ok f (sreset (sreset st a) b) H k.
Proof. intros. apply c_ok_reset_other; auto. apply c_ok_reset_other; auto. Qed.

(* ---- the invariant between events ------------------------------------------------------------------------------------ *)
(* [n] = slot of the next tick (None before the first tick); E, p = its epoch and position. *)

Definition att_inv_at (c : cfg) (st : att_state) (H : list obs) (E p : N) : Prop :=
  (forall k, E + 1 < k -> last_attempt H k = None) /\
  (p < midm c + 2 -> last_attempt H (E + 1) = None) /\
  (a_first st = true -> a_cur st = true) /\
  (a_idx st = true -> a_cur st = true) /\
  (a_cur st = true -> a_first st = true \/ a_idx st = false -> sget (a_store st) E = []) /\
  (a_cur st = true -> sget (a_store st) (E + 1) = []) /\
  (a_next st = true -> sget (a_store st) (if N.leb p (midm c) then E else E + 1) = []) /\
  (c_ok set_inc (a_store st) H E \/ a_first st = true \/ (a_next st = true /\ p <= midm c)) /\
  (c_ok set_inc (a_store st) H (E + 1) \/ a_next st = true).

Record att_inv (c : cfg) (n : option N) (st : att_state) (H : list obs) : Prop := {
  ai_nodup : store_nodup true (a_store st);
  ai_b3 : b3_ok set_inc (a_store st) H;
  ai_none : n = None ->
    a_first st = true /\ a_cur st = true /\ a_next st = true /\ forall k, last_attempt H k = None;
  ai_some : forall n0, n = Some n0 -> att_inv_at c st H (epoch_of c n0) (pos_of c n0) }.

(* ---- reorg / indices events preserve the invariant --------------------------------------------------------------- *)

Ltac sg := repeat (rewrite sget_sreset);
  repeat match goal with |- context [N.eqb ?a ?b] => destruct (N.eqb_spec a b); try lia end; auto.

Ltac cok := first [ assumption
                  | apply c_ok_reset2_other; [lia|lia|assumption]
                  | apply c_ok_reset_other; [lia|assumption] ].

Ltac disj := first [ left; cok
                   | right; left; (reflexivity || assumption)
                   | right; right; split; [(reflexivity || assumption)|lia]
                   | right; (reflexivity || assumption) ].

Ltac unat := match goal with
  | Hb : b3_ok _ ?st ?H, A2 : _ -> last_attempt ?H ?k = None |- sget ?st ?k = [] =>
      apply (unattempted_empty _ _ _ _ Hb); apply A2; lia
  | Hb : b3_ok _ ?st ?H, A1 : forall k, _ -> last_attempt ?H k = None |- sget ?st ?k = [] =>
      apply (unattempted_empty _ _ _ _ Hb); apply A1; lia
  end.

Ltac lebs := repeat match goal with
  | |- context [N.leb ?a ?b] => destruct (N.leb_spec a b); try lia
  | H : context [N.leb ?a ?b] |- _ => destruct (N.leb_spec a b); try lia
  end.

Lemma att_event_inv_at : forall c st H ev st' o E p,
  cfg_ok c -> is_tick ev = false ->
  (epoch_of c (event_slot ev) = E /\ (pos_of c (event_slot ev) = p \/ pos_of c (event_slot ev) + 1 = p)) \/
  (epoch_of c (event_slot ev) + 1 = E /\ pos_of c (event_slot ev) = spe c - 1 /\ p = 0) ->
  b3_ok set_inc (a_store st) H ->
  att_inv_at c st H E p -> att_step c st ev = (st', o) -> att_inv_at c st' H E p.
Proof.
  intros c st H ev st' o E p Hc Nt Pos Hb Inv Es.
  pose proof (midm_lt c Hc) as ML.
  destruct Inv as [A1 [A2 [A3 [A4 [A5 [A6 [A7 [A8 A9]]]]]]]].
  destruct ev as [s now ac an|r pv cu|r]; [discriminate| |]; simpl in Es, Pos;
    unfold att_reset_next_if_due in Es.
  - destruct (should_fetch_next_epoch c r) eqn:Sh;
      [apply should_iff in Sh|apply should_false_iff in Sh].
    + destruct pv; [|destruct cu]; inversion Es; subst; clear Es; unfold att_inv_at; simpl;
      (destruct Pos as [[Pe [Pp|Pp]]|[Pe [Pp P0]]]; subst);
      (destruct A8 as [A8|[A8|[A8 A8']]]; destruct A9 as [A9|A9]);
      repeat split; intros; lebs; sg; try disj; try tauto; try unat.
    + destruct pv; [|destruct cu]; inversion Es; subst; clear Es; unfold att_inv_at; simpl;
      (destruct Pos as [[Pe [Pp|Pp]]|[Pe [Pp P0]]]; subst);
      (destruct A8 as [A8|[A8|[A8 A8']]]; destruct A9 as [A9|A9]);
      repeat split; intros; lebs; sg; try disj; try tauto; try unat.
  - destruct (should_fetch_next_epoch c r) eqn:Sh;
      [apply should_iff in Sh|apply should_false_iff in Sh];
      inversion Es; subst; clear Es; unfold att_inv_at; simpl;
      (destruct Pos as [[Pe [Pp|Pp]]|[Pe [Pp P0]]]; subst);
      (destruct A8 as [A8|[A8|[A8 A8']]]; destruct A9 as [A9|A9]);
      repeat split; intros; lebs; sg; try disj; try tauto; try unat;
      try (match goal with Hx : _ \/ true = false |- _ => destruct Hx as [Hx|Hx]; [|discriminate] end;
           apply A5; auto).
Qed.

Lemma event_position : forall c r n0, cfg_ok c -> r + 1 = n0 \/ r = n0 ->
  (epoch_of c r = epoch_of c n0 /\ (pos_of c r = pos_of c n0 \/ pos_of c r + 1 = pos_of c n0)) \/
  (epoch_of c r + 1 = epoch_of c n0 /\ pos_of c r = spe c - 1 /\ pos_of c n0 = 0).
Proof.
  intros c r n0 Hc [<-|<-]; [|left; auto].
  destruct (succ_slot c r Hc) as [[_ [E P]]|[L [E P]]]; [left|right]; rewrite E, P; auto.
Qed.

Lemma att_event_flags : forall c st ev st' o,
  is_tick ev = false -> att_step c st ev = (st', o) ->
  (a_first st = true -> a_first st' = true) /\ (a_cur st = true -> a_cur st' = true) /\
  (a_next st = true -> a_next st' = true) /\
  (forall H, b3_ok set_inc (a_store st) H -> b3_ok set_inc (a_store st') H).
Proof.
  intros c st ev st' o Nt E. destruct ev as [s now ac an|r p cu|r]; [discriminate| |]; simpl in E;
    unfold att_reset_next_if_due in E.
  - destruct p; [|destruct cu]; destruct (should_fetch_next_epoch c r); inversion E; subst; simpl;
      repeat split; auto; intros; repeat apply b3_ok_reset; auto.
  - destruct (should_fetch_next_epoch c r); inversion E; subst; simpl;
      repeat split; auto; intros; repeat apply b3_ok_reset; auto.
Qed.

Lemma att_event_inv : forall c n st H ev st' o,
  cfg_ok c -> att_inv c n st H -> is_tick ev = false ->
  match n with None => True | Some n0 => event_slot ev + 1 = n0 \/ event_slot ev = n0 end ->
  att_step c st ev = (st', o) -> att_inv c n st' (H ++ flat_out o).
Proof.
  intros c n st H ev st' o Hc [Hn Hb Hnone Hsome] Nt Hs E.
  rewrite (att_event_no_out _ _ _ _ _ Nt E). simpl. rewrite app_nil_r.
  destruct (att_event_flags _ _ _ _ _ Nt E) as [F1 [F2 [F3 F4]]].
  constructor.
  - now destruct (att_event_store_nodup _ _ _ _ _ Nt Hn E).
  - auto.
  - intros En. destruct (Hnone En) as [A [B [C D]]]. auto.
  - intros n0 En. rewrite En in Hs. eapply att_event_inv_at; eauto.
    now apply event_position.
Qed.

(* ---- the tick in three steps: repair, fetch / execute, end-of-slot bookkeeping ------------------------------------ *)

(* after the boundary repair: what fetching first / executing first may rely on *)
Definition att_ready (c : cfg) (st : att_state) (H : list obs) (E p : N) : Prop :=
  (forall k, E + 1 < k -> last_attempt H k = None) /\
  (p < midm c + 2 -> last_attempt H (E + 1) = None) /\
  (a_first st = true -> a_cur st = true /\ sget (a_store st) E = []) /\
  (a_first st = false -> c_ok set_inc (a_store st) H E) /\
  (a_first st = false -> a_cur st = true -> a_idx st = true \/ sget (a_store st) E = []) /\
  (a_cur st = true -> sget (a_store st) (E + 1) = []) /\
  (a_next st = true -> midm c < p /\ sget (a_store st) (E + 1) = []) /\
  (c_ok set_inc (a_store st) H (E + 1) \/ a_next st = true) /\
  (a_idx st = true -> a_cur st = true).

Lemma att_repair_ready : forall c st0 H s,
  cfg_ok c -> boundary_fix c = true -> b3_ok set_inc (a_store st0) H ->
  att_inv_at c st0 H (epoch_of c s) (pos_of c s) ->
  att_ready c (att_repair c st0 s) H (epoch_of c s) (pos_of c s).
Proof.
  intros c st0 H s Hc Fix Hb [A1 [A2 [A3 [A4 [A5 [A6 [A7 [A8 A9]]]]]]]].
  unfold att_repair. rewrite Fix. simpl.
  destruct (a_next st0) eqn:Nx; simpl.
  - destruct (should_fetch_next_epoch c s) eqn:Sh; simpl;
      [apply should_iff in Sh|apply should_false_iff in Sh]; unfold att_ready; simpl.
    + specialize (A7 eq_refl). destruct (N.leb_spec (pos_of c s) (midm c)); [lia|].
      repeat split; intros; auto; try tauto.
      * destruct A8 as [A8|[A8|[_ A8]]]; [auto|congruence|lia].
      * destruct (a_idx st0) eqn:Ix; auto.
    + specialize (A7 eq_refl). destruct (N.leb_spec (pos_of c s) (midm c)); [|lia].
      assert (U : last_attempt H (epoch_of c s + 1) = None) by (apply A2; lia).
      repeat split; intros; auto; try discriminate.
      * apply (unattempted_empty _ _ _ _ Hb U).
      * left. now apply c_ok_unatt.
  - unfold att_ready. repeat split; intros; auto; try tauto; try discriminate; try congruence.
    + destruct A8 as [A8|[A8|[A8 _]]]; [auto|congruence|discriminate].
    + destruct (a_idx st0) eqn:Ix; auto.
Qed.

(* after fetching and executing, before the end-of-slot bookkeeping *)
Definition att_after (c : cfg) (st2 : att_state) (H2 : list obs) (E p : N) : Prop :=
  store_nodup true (a_store st2) /\ b3_ok set_inc (a_store st2) H2 /\
  a_first st2 = false /\ a_idx st2 = false /\
  c_ok set_inc (a_store st2) H2 E /\
  (c_ok set_inc (a_store st2) H2 (E + 1) \/ a_next st2 = true) /\
  (a_cur st2 = true -> sget (a_store st2) E = [] /\ sget (a_store st2) (E + 1) = []) /\
  (a_next st2 = true -> midm c < p /\ sget (a_store st2) (E + 1) = []) /\
  (forall k, E + 1 < k -> last_attempt H2 k = None) /\
  (p <= midm c -> last_attempt H2 (E + 1) = None).

Lemma att_finish_inv : forall c st2 H2 s,
  cfg_ok c -> att_after c st2 H2 (epoch_of c s) (pos_of c s) ->
  att_inv c (Some (s + 1)) (att_finish c st2 s) H2.
Proof.
  intros c st2 H2 s Hc [Hn [Hb [Ff [Fi [Q2 [Q3 [Q4 [Q5 [Q6 Q7]]]]]]]]].
  pose proof (midm_lt c Hc) as ML. pose proof (pos_lt c s Hc) as PL.
  set (E := epoch_of c s) in *. set (p := pos_of c s) in *.
  constructor; [now apply att_finish_nodup| | discriminate |].
  - unfold att_finish, att_with_store. change (spe c / 2 - 2) with (midm c). fold p.
    destruct (N.eqb p (midm c)); destruct (N.eqb p (spe c - 1)); simpl; auto; now apply b3_ok_reset.
  - intros n0 En. inversion En; subst n0. clear En.
    unfold att_finish, att_with_store. change (spe c / 2 - 2) with (midm c). fold E p.
    destruct (succ_slot c s Hc) as [[L [Ee Ep]]|[L [Ee Ep]]]; fold E p in L, Ee, Ep; rewrite Ee, Ep.
    + (* same epoch *)
      destruct (N.eqb_spec p (spe c - 1)); [lia|].
      destruct (N.eqb_spec p (midm c)) as [Pm|Pm]; unfold att_inv_at; simpl;
        rewrite ?Ff, ?Fi; repeat split; intros; try discriminate; try tauto; lebs; auto.
      all: try (apply Q7; lia).
      all: try (now apply Q4).
      all: try (now apply Q5).
      all: try (apply (unattempted_empty _ _ _ _ Hb); apply Q7; lia).
      all: try (destruct Q3 as [Q3|Q3]; [left; exact Q3|right; auto]).
      all: try (destruct (Q5 H) as [X _]; lia).
    + (* last slot of the epoch: the epoch's duties are dropped, the next epoch becomes current *)
      destruct (N.eqb_spec p (spe c - 1)); [|lia].
      destruct (N.eqb_spec p (midm c)) as [Pm|Pm]; [lia|]. unfold att_inv_at; simpl.
      assert (U : forall k, E + 1 < k -> sget (a_store st2) k = []).
      { intros k Hk. apply (unattempted_empty _ _ _ _ Hb). now apply Q6. }
      rewrite ?Ff, ?Fi; repeat split; intros; try discriminate; try tauto; lebs; sg.
      all: try (apply Q6; lia).
      all: try (apply U; lia).
      all: try (now apply Q4).
      all: try (now apply Q5).
      * destruct Q3 as [Q3|Q3]; [left; cok|right; right; split; auto; lia].
      * left. apply c_ok_reset_other; [lia|]. apply c_ok_unatt. apply Q6. lia.
Qed.

Definition att_body (c : cfg) (st : att_state) (s now : N) (ac an : answer) : att_state * out :=
  let e := epoch_of c s in
  if a_first st then
    let '(st2, pre) := att_fetching c {| a_first := false; a_idx := false; a_cur := a_cur st;
                                         a_next := a_next st; a_store := a_store st |} e s ac an in
    (st2, (pre, att_exec c (a_store st2) s now, []))
  else
    let st1 := if a_idx st then
                 {| a_first := false; a_idx := false; a_cur := a_cur st; a_next := a_next st;
                    a_store := sreset (a_store st) e |}
               else st in
    let '(st2, post) := att_fetching c st1 e s ac an in
    (st2, ([], att_exec c (a_store st) s now, post)).

Lemma att_tick_body : forall c st0 s now ac an,
  att_tick c st0 s now ac an =
  let '(st2, o) := att_body c (att_repair c st0 s) s now ac an in (att_finish c st2 s, o).
Proof.
  intros. rewrite att_tick_unfold. unfold att_body. cbv zeta.
  destruct (a_first (att_repair c st0 s)).
  - destruct (att_fetching _ _ _ _ _ _) as [st2 pre]. reflexivity.
  - destruct (att_fetching _ _ _ _ _ _) as [st2 post]. reflexivity.
Qed.

Lemma last_attempt_disp' : forall H l k, forallb is_dispatch l = true ->
  last_attempt (H ++ l) k = last_attempt H k.
Proof. intros. now rewrite last_attempt_app, last_attempt_dispatches. Qed.

Lemma att_main : forall c st H s now ac an st2 pre disp post,
  cfg_ok c -> answer_ok true ac -> answer_ok true an ->
  store_nodup true (a_store st) -> b3_ok set_inc (a_store st) H ->
  att_ready c st H (epoch_of c s) (pos_of c s) ->
  att_body c st s now ac an = (st2, (pre, disp, post)) ->
  att_after c st2 (H ++ pre ++ disp ++ post) (epoch_of c s) (pos_of c s) /\
  in_latest_assignment (epoch_of c) true false H s pre disp /\
  (att_window c now s = true -> dispatches_all_due (epoch_of c) true false att_owes H s pre disp).
Proof.
  intros c st H s now ac an st2 pre disp post Hc Hac Han Hn Hb
         [R1 [R2 [R3 [R4 [R5 [R6 [R7 [R8 R9]]]]]]]] B.
  unfold att_body in B. cbv zeta in B.
  set (E := epoch_of c s) in *. set (p := pos_of c s) in *.
  assert (NE : E <> E + 1) by lia.
  assert (NoNext : p <= midm c -> should_fetch_next_epoch c s = false)
    by (intros; now apply should_false_iff).
  destruct (a_first st) eqn:FF.
  - (* fetch first *)
    destruct (R3 eq_refl) as [Fc Em]. clear R3 R4 R5.
    destruct (att_fetching c _ E s ac an) as [st2' pre'] eqn:F. inversion B; subst. clear B.
    pose proof (att_fetching_post _ _ _ _ _ _ _ _ H Hac Han F) as FP.
    destruct FP as [P1 P2 P3 P4 P5 P6 P7 P8 P9 P10 P11 P12]. simpl in *.
    pose proof (att_exec_dispatches c (a_store st2) s now) as Dx.
    assert (B3 : b3_ok set_inc (a_store st2) (H ++ pre)).
    { apply P5; auto; intros Nx Sh; now destruct (R7 Nx). }
    assert (CC : c_ok set_inc (a_store st2) (H ++ pre) E) by (apply P6; auto).
    rewrite app_nil_r. split; [|split].
    + rewrite app_assoc. unfold att_after. repeat split; auto.
      * apply b3_ok_dispatches; auto.
      * apply c_ok_dispatches; auto.
      * destruct R8 as [R8|R8].
        -- left. apply c_ok_dispatches; auto.
        -- destruct (a_next st2) eqn:Nx2; [right; auto|left; apply c_ok_dispatches; auto].
      * destruct (P8 H0) as [_ [X _]]. congruence.
      * destruct (P8 H0) as [_ [_ X]]. rewrite X. auto.
      * destruct (P9 H0) as [X _]. now destruct (R7 X).
      * destruct (P9 H0) as [X Y]. rewrite Y. now destruct (R7 X).
      * intros k Hk. rewrite last_attempt_disp', P12 by (auto; lia). auto.
      * intros Hp. rewrite last_attempt_disp', P10 by auto. apply R2. lia.
    + now apply att_exec_b3.
    + intros W. now apply att_exec_c.
  - (* execute first *)
    pose proof (R4 eq_refl) as C0. pose proof (att_exec_dispatches c (a_store st) s now) as Dx.
    set (disp0 := att_exec c (a_store st) s now) in *.
    assert (Obl : in_latest_assignment (epoch_of c) true false H s [] disp0 /\
                  (att_window c now s = true ->
                   dispatches_all_due (epoch_of c) true false att_owes H s [] disp0)).
    { split; [apply att_exec_b3; now rewrite app_nil_r|].
      intros W. apply att_exec_c; auto. now rewrite app_nil_r. }
    destruct (a_idx st) eqn:IC.
    + (* indices changed: reset the epoch, then fetch *)
      pose proof (R9 eq_refl) as Fc.
      destruct (att_fetching c _ E s ac an) as [st2' post'] eqn:F. inversion B; subst. clear B.
      pose proof (att_fetching_post _ _ _ _ _ _ _ _ (H ++ disp0) Hac Han F) as FP.
      destruct FP as [P1 P2 P3 P4 P5 P6 P7 P8 P9 P10 P11 P12]. simpl in *.
      split; [|exact Obl]. rewrite app_assoc. unfold att_after. repeat split; auto.
      * apply P4. now apply store_nodup_reset.
      * apply P5; [intros; sg| |].
        -- intros Nx Sh. sg; now destruct (R7 Nx).
        -- apply b3_ok_reset. apply b3_ok_dispatches; auto.
      * destruct R8 as [R8|R8].
        -- left. apply P7. left. apply c_ok_reset_other; auto. apply c_ok_dispatches; auto.
        -- destruct (a_next st2) eqn:Nx2; [right; auto|left; apply P7; auto].
      * destruct (P8 H0) as [_ [X _]]. rewrite X. sg.
      * destruct (P8 H0) as [_ [_ X]]. rewrite X. sg.
      * destruct (P9 H0) as [X _]. now destruct (R7 X).
      * destruct (P9 H0) as [X Y]. rewrite Y. sg; now destruct (R7 X).
      * intros k Hk. rewrite P12, last_attempt_disp' by (auto; lia). auto.
      * intros Hp. rewrite P10, last_attempt_disp' by auto. apply R2. lia.
    + (* ordinary tick *)
      destruct (att_fetching c st E s ac an) as [st2' post'] eqn:F. inversion B; subst. clear B.
      pose proof (att_fetching_post _ _ _ _ _ _ _ _ (H ++ disp0) Hac Han F) as FP.
      destruct FP as [P1 P2 P3 P4 P5 P6 P7 P8 P9 P10 P11 P12]. simpl in *.
      split; [|exact Obl]. rewrite app_assoc. unfold att_after. repeat split; auto; try congruence.
      * apply P5.
        -- intros Fc. destruct (R5 eq_refl Fc) as [X|X]; [congruence|exact X].
        -- intros Nx Sh. now destruct (R7 Nx).
        -- apply b3_ok_dispatches; auto.
      * apply P6. right. apply c_ok_dispatches; auto.
      * destruct R8 as [R8|R8].
        -- left. apply P7. left. apply c_ok_dispatches; auto.
        -- destruct (a_next st2) eqn:Nx2; [right; auto|left; apply P7; auto].
      * destruct (P8 H0) as [Fc [X _]]. rewrite X.
        destruct (R5 eq_refl Fc) as [Y|Y]; [congruence|exact Y].
      * destruct (P8 H0) as [Fc [_ X]]. rewrite X. auto.
      * destruct (P9 H0) as [X _]. now destruct (R7 X).
      * destruct (P9 H0) as [X Y]. rewrite Y. now destruct (R7 X).
      * intros k Hk. rewrite P12, last_attempt_disp' by (auto; lia). auto.
      * intros Hp. rewrite P10, last_attempt_disp' by auto. apply R2. lia.
Qed.

Lemma att_none_inv_at : forall c st H E p, att_inv c None st H -> att_inv_at c st H E p.
Proof.
  intros c st H E p [Hn Hb Hnone _]. destruct (Hnone eq_refl) as [Ff [Fc [Fn U]]].
  assert (Em : forall k, sget (a_store st) k = []) by (intros k; apply (unattempted_empty _ _ _ _ Hb); auto).
  unfold att_inv_at. repeat split; intros; auto.
Qed.

Lemma att_tick_inv : forall c n st0 H s now ac an st' pre disp post,
  cfg_ok c -> boundary_fix c = true -> att_inv c n st0 H ->
  match n with None => True | Some n0 => n0 = s end ->
  answer_ok true ac -> answer_ok true an ->
  att_tick c st0 s now ac an = (st', (pre, disp, post)) ->
  att_inv c (Some (s + 1)) st' (H ++ pre ++ disp ++ post) /\
  in_latest_assignment (epoch_of c) true false H s pre disp /\
  (att_window c now s = true -> dispatches_all_due (epoch_of c) true false att_owes H s pre disp).
Proof.
  intros c n st0 H s now ac an st' pre disp post Hc Fix Inv Hs Hac Han E.
  assert (At : att_inv_at c st0 H (epoch_of c s) (pos_of c s)).
  { destruct n as [n0|]; [subst n0; now apply (ai_some _ _ _ _ Inv)|now apply att_none_inv_at]. }
  pose proof (ai_nodup _ _ _ _ Inv) as Hn. pose proof (ai_b3 _ _ _ _ Inv) as Hb.
  pose proof (att_repair_ready _ _ _ s Hc Fix Hb At) as Rd.
  rewrite att_tick_body in E.
  destruct (att_body c (att_repair c st0 s) s now ac an) as [st2 o2] eqn:B. inversion E; subst. clear E.
  rewrite <- (att_repair_store c st0 s) in Hn, Hb.
  destruct (att_main _ _ _ _ _ _ _ _ _ _ _ Hc Hac Han Hn Hb Rd B) as [Af [O1 O2]].
  split; [|split; assumption]. now apply att_finish_inv.
Qed.

(* ---- runs ---------------------------------------------------------------------------------------------------- *)

Definition att_tick_ok (c : cfg) (hist : list obs) (s now : N) (pre disp : list obs) : Prop :=
  in_latest_assignment (epoch_of c) true false hist s pre disp /\
  (att_window c now s = true ->
   dispatches_all_due (epoch_of c) true false att_owes hist s pre disp).

Lemma att_init_inv : forall c, att_inv c None att_init [].
Proof.
  intros c. constructor; simpl; auto.
  - apply store_nodup_nil.
  - intros k d [].
  - discriminate.
Qed.

Lemma att_run_shape : forall c st evs st' recs,
  run (att_step c) st evs = (st', recs) -> Forall (record_shape (att_window c)) recs.
Proof. intros c st evs st' recs R. eapply run_shape; eauto. intros; eapply att_step_shape; eauto. Qed.

Lemma att_run_at_most_once : forall c evs st' recs,
  ticks_increasing evs -> run (att_step c) att_init evs = (st', recs) ->
  NoDup (dispatch_keys (trace_of recs)).
Proof.
  intros c evs st' recs Ht R.
  eapply (run_at_most_once att_state (att_step c) (fun st => store_nodup true (a_store st)) (att_window c));
    eauto.
  - intros; eapply att_step_shape; eauto.
  - intros; eapply att_step_nodup_inv; eauto.
  - intros; eapply att_step_disp_nodup; eauto.
  - apply store_nodup_nil.
Qed.

Lemma att_run_honest : forall c evs st' recs,
  cfg_ok c -> boundary_fix c = true -> honest true 0 evs ->
  run (att_step c) att_init evs = (st', recs) ->
  for_all_ticks [] recs (att_tick_ok c).
Proof.
  intros c evs st' recs Hc Fix Hh R.
  eapply (honest_run att_state (att_step c) (att_inv c) true 0 (att_tick_ok c)) with (last := None);
    eauto.
  - intros n st H s now ac an st1 pre disp post Inv Hs A1 A2 E. simpl in E.
    apply (att_tick_inv c n st H s now ac an); auto. destruct n; auto.
  - intros n st H ev st1 o Inv Nt Hs E. eapply att_event_inv; eauto.
  - simpl. apply att_init_inv.
Qed.
