(* Lemmas for property C11: the handler model (Impl) refines the rules (Spec). *)
From Coq Require Import List NArith Bool Lia Arith.
From SSV Require Import Gen.RegistryConsts Registry.Types Registry.Spec Registry.Impl.
Import ListNotations.
Local Open Scope N_scope.

(* ---- statement-level definitions ------------------------------------------------------------------ *)

(* the registry a node state stands for: the committed tables and the in-memory operator id *)
Definition abs (st : istate) : reg :=
  {| g_ops := x_ops (db st); g_self := self st; g_shares := x_shares (db st);
     g_rcp := x_rcp (db st); g_last := x_last (db st) |}.

(* operator ids are non-zero (the contract counts from 1) *)
Definition wf_event (e : event) : Prop :=
  match e with EOperatorAdded id _ _ => id <> 0 | _ => True end.

Definition opadd_ids (es : list event) : list N :=
  flat_map (fun e => match e with EOperatorAdded id _ _ => [id] | _ => [] end) es.

(* As coded (SaveOperatorData reads the committed database), a block must not carry two
   OperatorAdded events with the same id.  With the read going through the transaction
   (ops_read_committed = false) nothing is required. *)
Definition wf_block (b : block) : Prop :=
  Forall wf_event (bevents b) /\ (ops_read_committed = true -> NoDup (opadd_ids (bevents b))).

Definition wf_op (o : op) : Prop := match o with OBlock b => wf_block b | _ => True end.

(* block numbers strictly increase, starting above [last] *)
Fixpoint increasing (last : N) (ops : list op) : Prop :=
  match ops with
  | [] => True
  | OBlock b :: tl => last < bnum b /\ increasing (bnum b) tl
  | _ :: tl => increasing last tl
  end.

(* what every reachable registry satisfies *)
Definition good (g : reg) : Prop :=
  aget 0 (g_ops g) = None /\
  (forall id d, In (id, d) (g_ops g) -> o_pk d = own_pk -> id = g_self g) /\
  (g_self g <> 0 -> exists d, aget (g_self g) (g_ops g) = Some d /\ o_pk d = own_pk) /\
  NoDup (map fst (g_shares g)).

Definition inv (st : istate) : Prop := mem st = x_shares (db st) /\ good (abs st).

Lemma nodup_snoc : forall (A : Type) (l : list A) (x : A), ~ In x l -> NoDup l -> NoDup (l ++ [x]).
Proof.
  induction l as [|y tl IH]; simpl; intros x Hx Hn.
  - constructor; [tauto|constructor].
  - inversion Hn; subst. constructor.
    + rewrite in_app_iff. simpl. intros [H|[H|[]]]; [tauto|subst; tauto].
    + apply IH; tauto.
Qed.

(* ---- association lists ------------------------------------------------------------------------------ *)
Section AListFacts.
  Context {V : Type}.
  Implicit Types (l : list (N * V)).

  Lemma aget_aset_eq : forall k v l, aget k (aset k v l) = Some v.
  Proof.
    induction l as [|[k' v'] tl IH]; simpl.
    - rewrite N.eqb_refl. reflexivity.
    - destruct (N.eqb k k') eqn:E; simpl.
      + rewrite N.eqb_refl. reflexivity.
      + rewrite E. exact IH.
  Qed.

  Lemma aget_aset_neq : forall k k' v l, k' <> k -> aget k' (aset k v l) = aget k' l.
  Proof.
    induction l as [|[k0 v0] tl IH]; simpl; intros Hne.
    - destruct (N.eqb k' k) eqn:E; [apply N.eqb_eq in E; contradiction|reflexivity].
    - destruct (N.eqb k k0) eqn:E; simpl.
      + apply N.eqb_eq in E. subst k0.
        destruct (N.eqb k' k) eqn:E2; [apply N.eqb_eq in E2; contradiction|reflexivity].
      + destruct (N.eqb k' k0); [reflexivity|apply IH; assumption].
  Qed.

  Lemma aget_none_notin : forall k l, aget k l = None -> ~ In k (map fst l).
  Proof.
    induction l as [|[k' v'] tl IH]; simpl; intros H; [tauto|].
    destruct (N.eqb k k') eqn:E; [discriminate|].
    intros [Heq|Hin]; [subst; rewrite N.eqb_refl in E; discriminate|exact (IH H Hin)].
  Qed.

  Lemma aget_notin_none : forall k l, ~ In k (map fst l) -> aget k l = None.
  Proof.
    induction l as [|[k' v'] tl IH]; simpl; intros H; [reflexivity|].
    destruct (N.eqb k k') eqn:E.
    - apply N.eqb_eq in E. subst. tauto.
    - apply IH. tauto.
  Qed.

  Lemma aget_in : forall k v l, aget k l = Some v -> In (k, v) l.
  Proof.
    induction l as [|[k' v'] tl IH]; simpl; intros H; [discriminate|].
    destruct (N.eqb k k') eqn:E.
    - apply N.eqb_eq in E. inversion H. subst. left. reflexivity.
    - right. apply IH. exact H.
  Qed.

  Lemma aset_notin : forall k v l, aget k l = None -> aset k v l = l ++ [(k, v)].
  Proof.
    induction l as [|[k' v'] tl IH]; simpl; intros H; [reflexivity|].
    destruct (N.eqb k k') eqn:E; [discriminate|]. rewrite IH by exact H. reflexivity.
  Qed.

  Lemma aset_keys_present : forall k v l, aget k l <> None -> map fst (aset k v l) = map fst l.
  Proof.
    induction l as [|[k' v'] tl IH]; simpl; intros H; [congruence|].
    destruct (N.eqb k k') eqn:E; simpl.
    - apply N.eqb_eq in E. subst. reflexivity.
    - rewrite IH by exact H. reflexivity.
  Qed.

  Lemma aset_keys_nodup : forall k v l, NoDup (map fst l) -> NoDup (map fst (aset k v l)).
  Proof.
    intros k v l H. destruct (aget k l) eqn:E.
    - rewrite aset_keys_present by congruence. exact H.
    - rewrite aset_notin by exact E. rewrite map_app. simpl.
      apply nodup_snoc; [|exact H]. apply aget_none_notin. exact E.
  Qed.

  Lemma adel_keys : forall k l, map fst (adel k l) = filter (fun x => negb (N.eqb k x)) (map fst l).
  Proof.
    induction l as [|[k' v'] tl IH]; simpl; [reflexivity|].
    destruct (N.eqb k k'); simpl; rewrite IH; reflexivity.
  Qed.

  Lemma adel_keys_nodup : forall k l, NoDup (map fst l) -> NoDup (map fst (adel k l)).
  Proof. intros. rewrite adel_keys. apply NoDup_filter. assumption. Qed.

  Lemma aset_app_notin : forall k v (pre l : list (N * V)),
    ~ In k (map fst pre) -> aset k v (pre ++ l) = pre ++ aset k v l.
  Proof.
    induction pre as [|[k' v'] tl IH]; simpl; intros l H; [reflexivity|].
    destruct (N.eqb k k') eqn:E.
    - apply N.eqb_eq in E. subst. tauto.
    - rewrite IH by tauto. reflexivity.
  Qed.
End AListFacts.


Local Opaque ops_read_committed.

(* ---- small facts --------------------------------------------------------------------------------------- *)

Lemma filter_length_all : forall (A : Type) (f : A -> bool) (l : list A),
  Nat.eqb (length (filter f l)) (length l) = forallb f l.
Proof.
  intros A f l.
  assert (Hle : forall l0 : list A, (length (filter f l0) <= length l0)%nat).
  { induction l0 as [|x tl IH]; simpl; [lia|]. destruct (f x); simpl; lia. }
  induction l as [|x tl IH]; simpl; [reflexivity|].
  destruct (f x); simpl.
  - exact IH.
  - specialize (Hle tl). destruct (Nat.eqb (length (filter f tl)) (S (length tl))) eqn:E; [|reflexivity].
    apply Nat.eqb_eq in E. lia.
Qed.

Lemma lenN_eqb : forall (A B : Type) (a : list A) (b : list B),
  (lenN a =? lenN b) = Nat.eqb (length a) (length b).
Proof.
  intros. unfold lenN. destruct (Nat.eqb (length a) (length b)) eqn:E.
  - apply Nat.eqb_eq in E. rewrite E. apply N.eqb_refl.
  - apply N.eqb_neq. intros H. apply Nat2N.inj in H. rewrite H in E. rewrite Nat.eqb_refl in E. discriminate.
Qed.

Lemma own_entry_notin : forall self ops shs,
  (forall id, In id ops -> id <> self) -> own_entry self ops shs = None.
Proof.
  induction ops as [|id tl IH]; intros shs H; simpl; [reflexivity|].
  destruct shs as [|e shs']; [reflexivity|].
  destruct (id =? self) eqn:E.
  - apply N.eqb_eq in E. exfalso. apply (H id); [left; reflexivity|exact E].
  - apply IH. intros x Hx. apply H. right. exact Hx.
Qed.

(* ---- the world a handler sees, as a function of the registry it stands for --------------------------- *)

Definition mkw (g : reg) (L : N) (D : list (N * opdata)) : world :=
  {| w_x := {| x_ops := g_ops g; x_shares := g_shares g; x_rcp := g_rcp g; x_last := L |};
     w_dbops := D; w_mem := g_shares g; w_self := g_self g |}.

Definition res_task (r : hres) : option task := match r with HOk t => t | HMalformed => None end.

(* the committed operators table agrees with the transaction on every id not added in this block *)
Definition dbagree (D : list (N * opdata)) (g : reg) (added : list N) : Prop :=
  ops_read_committed = true -> forall id, ~ In id added -> ahas id D = ahas id (g_ops g).

Definition hw (r : world * hres * list step) : world := fst (fst r).
Definition hr (r : world * hres * list step) : option task := res_task (snd (fst r)).

(* nonce *)
Lemma get_next_nonce_spec : forall x o, get_next_nonce x o = expected_nonce (x_rcp x) o.
Proof.
  intros. unfold get_next_nonce, expected_nonce.
  destruct (aget o (x_rcp x)) as [[f [n|]]|]; reflexivity.
Qed.

Lemma bump_nonce_spec : forall x o,
  bump_nonce x o = tx_rcp x (count_attempt (x_rcp x) o).
Proof.
  intros. unfold bump_nonce, count_attempt, expected_nonce.
  destruct (aget o (x_rcp x)) as [[f [n|]]|]; reflexivity.
Qed.

Lemma validate_operators_spec : forall x g ops,
  x_ops x = g_ops g -> validate_operators x ops = valid_committee g ops.
Proof.
  intros x g ops H. unfold validate_operators, valid_committee. rewrite H.
  rewrite (lenN_eqb _ _ (filter (fun id => ahas id (g_ops g)) ops) ops), filter_length_all.
  rewrite N.ltb_antisym.
  destruct (lenN ops <=? max_operators); simpl; [|reflexivity].
  destruct (lenN ops =? 0) eqn:E0.
  - apply N.eqb_eq in E0. rewrite E0. reflexivity.
  - assert (0 <? lenN ops = true) as ->. { apply N.ltb_lt. apply N.eqb_neq in E0. lia. }
    simpl. destruct (valid_size (lenN ops)); simpl; [|reflexivity].
    destruct (nodupb ops); reflexivity.
Qed.

Lemma valid_committee_ids : forall g ops id,
  valid_committee g ops = true -> In id ops -> ahas id (g_ops g) = true.
Proof.
  intros g ops id H Hin. unfold valid_committee in H.
  apply andb_true_iff in H. destruct H as [_ H]. rewrite forallb_forall in H. exact (H id Hin).
Qed.

(* ---- per-event simulation ------------------------------------------------------------------------------ *)

Lemma sim_operator_added : forall g L D added id owner pk,
  dbagree D g added -> (ops_read_committed = true -> ~ In id added) ->
  hw (handle_operator_added (mkw g L D) id owner pk) = mkw (fst (apply g (EOperatorAdded id owner pk))) L D /\
  hr (handle_operator_added (mkw g L D) id owner pk) = snd (apply g (EOperatorAdded id owner pk)).
Proof.
  intros g L D added id owner pk Hag Hfresh.
  unfold handle_operator_added, hw, hr. simpl.
  rewrite (N.eqb_sym (g_self g) id).
  destruct (negb (g_self g =? 0) && (pk =? own_pk) && negb (id =? g_self g)); simpl; [split; reflexivity|].
  assert (Hf : (if ops_read_committed then ahas id D else ahas id (g_ops g)) = ahas id (g_ops g)).
  { unfold dbagree in Hag. revert Hag Hfresh.
    destruct ops_read_committed; intros Hag Hfresh; [|reflexivity].
    apply Hag; [reflexivity|apply Hfresh; reflexivity]. }
  rewrite Hf. destruct (ahas id (g_ops g)); simpl; split; reflexivity.
Qed.

Lemma sim_operator_removed : forall g L D id,
  hw (handle_operator_removed (mkw g L D) id) = mkw g L D /\
  hr (handle_operator_removed (mkw g L D) id) = None.
Proof.
  intros. unfold handle_operator_removed, hw, hr. simpl. destruct (ahas id (g_ops g)); split; reflexivity.
Qed.

Lemma mkw_with_rcp : forall g L D r,
  ww_x (mkw g L D) (tx_rcp (w_x (mkw g L D)) r) = mkw (with_rcp g r) L D.
Proof. reflexivity. Qed.

Lemma sim_validator_added : forall g L D a,
  aget 0 (g_ops g) = None ->
  hw (handle_validator_added (mkw g L D) a) = mkw (fst (apply_validator_added g a)) L D /\
  hr (handle_validator_added (mkw g L D) a) = snd (apply_validator_added g a).
Proof.
  intros g L D a H0. unfold handle_validator_added, apply_validator_added, hw, hr.
  rewrite get_next_nonce_spec, bump_nonce_spec, mkw_with_rcp.
  change (x_rcp (w_x (mkw g L D))) with (g_rcp g).
  set (g1 := with_rcp g (count_attempt (g_rcp g) (va_owner a))).
  set (n := expected_nonce (g_rcp g) (va_owner a)).
  unfold add_valid.
  rewrite (validate_operators_spec (w_x (mkw g1 L D)) g1 (va_ops a) eq_refl).
  destruct (valid_committee g1 (va_ops a)) eqn:Hvc; simpl; [|split; reflexivity].
  destruct (va_len a =? expected_len (lenN (va_ops a))); simpl; [|split; reflexivity].
  change (verify_signature a n) with (sig_valid a n).
  destruct (sig_valid a n); simpl; [|split; reflexivity].
  destruct (aget (va_v a) (g_shares g)) as [s|] eqn:Hs; simpl.
  - destruct (s_owner s =? va_owner a); simpl; [|split; reflexivity].
    unfold start_task. simpl. destruct (belongs (g_self g) s); split; reflexivity.
  - unfold event_to_share, own_key_valid, new_share. simpl.
    destruct (g_self g =? 0) eqn:Hself.
    + (* the node has no operator id: no committee position is its own *)
      apply N.eqb_eq in Hself. rewrite Hself.
      rewrite own_entry_notin.
      2:{ intros id Hin Heq. subst id.
          pose proof (valid_committee_ids g1 (va_ops a) 0 Hvc Hin) as Hh.
          unfold ahas in Hh. simpl in Hh. rewrite H0 in Hh. discriminate. }
      unfold start_task, belongs. simpl. rewrite Hself. simpl. split; reflexivity.
    + destruct (own_entry (g_self g) (va_ops a) (va_shares a)) as [[k ok]|]; simpl.
      * destruct ok; simpl; [|split; reflexivity].
        unfold start_task, belongs. simpl. rewrite Hself, N.eqb_refl. simpl. split; reflexivity.
      * unfold start_task, belongs. simpl. rewrite Hself. simpl.
        destruct (0 =? g_self g); split; reflexivity.
Qed.

Lemma sim_validator_removed : forall g L D owner ops v,
  hw (handle_validator_removed (mkw g L D) owner v) = mkw (fst (apply g (EValidatorRemoved owner ops v))) L D /\
  hr (handle_validator_removed (mkw g L D) owner v) = snd (apply g (EValidatorRemoved owner ops v)).
Proof.
  intros. unfold handle_validator_removed, hw, hr. simpl.
  destruct (aget v (g_shares g)) as [s|]; simpl; [|split; reflexivity].
  destruct (s_owner s =? owner); simpl; [|split; reflexivity].
  destruct (belongs (g_self g) s); simpl; split; reflexivity.
Qed.

Lemma sim_validator_exited : forall g L D owner ops v blk,
  hw (handle_validator_exited (mkw g L D) owner v blk) = mkw (fst (apply g (EValidatorExited owner ops v blk))) L D /\
  hr (handle_validator_exited (mkw g L D) owner v blk) = snd (apply g (EValidatorExited owner ops v blk)).
Proof.
  intros. unfold handle_validator_exited, hw, hr. simpl.
  destruct (aget v (g_shares g)) as [s|]; simpl; [|split; reflexivity].
  destruct (s_owner s =? owner); simpl; [|split; reflexivity].
  destruct (belongs (g_self g) s); simpl; [|split; reflexivity].
  destruct (s_meta s); split; reflexivity.
Qed.

Lemma sim_fee_recipient : forall g L D owner fee,
  hw (handle_fee_recipient (mkw g L D) owner fee) = mkw (fst (apply g (EFeeRecipientUpdated owner fee))) L D /\
  hr (handle_fee_recipient (mkw g L D) owner fee) = snd (apply g (EFeeRecipientUpdated owner fee)).
Proof.
  intros. unfold handle_fee_recipient, hw, hr. simpl.
  destruct (aget owner (g_rcp g)) as [r|]; simpl; [|split; reflexivity].
  destruct (r_fee r =? fee); split; reflexivity.
Qed.

(* saving the updated shares of a cluster one by one = mapping over the table *)
Lemma fold_aset_map : forall (P : share -> bool) (f : share -> share) (l pre : list (N * share)),
  NoDup (map fst (pre ++ l)) ->
  fold_left (fun acc e => aset (fst e) (snd e) acc)
            (map (fun e => (fst e, f (snd e))) (filter (fun e => P (snd e)) l))
            (pre ++ l)
  = pre ++ map (fun e => if P (snd e) then (fst e, f (snd e)) else e) l.
Proof.
  induction l as [|[k s] tl IH]; intros pre Hnd; simpl; [reflexivity|].
  assert (Hk : ~ In k (map fst pre)).
  { rewrite map_app in Hnd. simpl in Hnd. apply NoDup_remove_2 in Hnd.
    intros Hin. apply Hnd. rewrite in_app_iff. left. exact Hin. }
  destruct (P s) eqn:HP; simpl.
  - rewrite aset_app_notin by exact Hk. simpl. rewrite N.eqb_refl.
    change (pre ++ (k, f s) :: tl) with (pre ++ [(k, f s)] ++ tl). rewrite app_assoc.
    rewrite IH.
    + rewrite <- app_assoc. reflexivity.
    + rewrite <- app_assoc. simpl. rewrite map_app in *. simpl in *. exact Hnd.
  - change (pre ++ (k, s) :: tl) with (pre ++ [(k, s)] ++ tl). rewrite app_assoc.
    rewrite IH.
    + rewrite <- app_assoc. reflexivity.
    + rewrite <- app_assoc. simpl. exact Hnd.
Qed.

Lemma fold_shares_save : forall (upd : list (N * share)) g L D,
  fold_left (fun w' e => shares_save w' (fst e) (snd e)) upd (mkw g L D)
  = mkw (with_shares g (fold_left (fun acc e => aset (fst e) (snd e) acc) upd (g_shares g))) L D.
Proof.
  induction upd as [|e tl IH]; intros g L D; simpl.
  - destruct g; reflexivity.
  - change (shares_save (mkw g L D) (fst e) (snd e))
      with (mkw (with_shares g (aset (fst e) (snd e) (g_shares g))) L D).
    rewrite IH. reflexivity.
Qed.

Lemma sim_cluster : forall g L D owner ops liq,
  NoDup (map fst (g_shares g)) ->
  let r := cluster_update (mkw g L D) owner ops liq in
  fst r = mkw (fst (apply_cluster g owner ops liq)) L D /\
  map fst (snd r) = snd (apply_cluster g owner ops liq) /\
  map (fun e => s_spk (snd e)) (snd r) =
    map (fun e => s_spk (snd e)) (filter (fun e => mine_in_cluster g owner ops (snd e)) (g_shares g)).
Proof.
  intros g L D owner ops liq Hnd. unfold cluster_update, apply_cluster. simpl.
  rewrite fold_shares_save. unfold mine_in_cluster.
  pose proof (fold_aset_map (fun s => in_cluster owner ops s && belongs (g_self g) s) (set_liq liq)
                            (g_shares g) [] Hnd) as H.
  simpl in H. rewrite H. split; [reflexivity|]. split.
  - rewrite map_map. reflexivity.
  - rewrite map_map. simpl. apply map_ext. intros [k s]. reflexivity.
Qed.

Lemma map_nil_iff : forall (A B : Type) (f : A -> B) (l : list A), map f l = [] <-> l = [].
Proof. intros. destruct l; simpl; split; intros; congruence. Qed.

Lemma sim_cluster_liquidated : forall g L D owner ops,
  NoDup (map fst (g_shares g)) ->
  hw (handle_cluster_liquidated (mkw g L D) owner ops) = mkw (fst (apply g (EClusterLiquidated owner ops))) L D /\
  hr (handle_cluster_liquidated (mkw g L D) owner ops) = snd (apply g (EClusterLiquidated owner ops)).
Proof.
  intros g L D owner ops Hnd. unfold handle_cluster_liquidated, hw, hr, apply.
  destruct (sim_cluster g L D owner ops true Hnd) as (H1 & H2 & _).
  destruct (cluster_update (mkw g L D) owner ops true) as [w1 upd].
  destruct (apply_cluster g owner ops true) as [g' vs].
  cbn [fst snd] in H1, H2. subst w1 vs.
  destruct upd as [|u tl]; cbn [map fst snd res_task]; split; reflexivity.
Qed.

Lemma sim_cluster_reactivated : forall g L D owner ops,
  NoDup (map fst (g_shares g)) ->
  hw (handle_cluster_reactivated (mkw g L D) owner ops) = mkw (fst (apply g (EClusterReactivated owner ops))) L D /\
  hr (handle_cluster_reactivated (mkw g L D) owner ops) = snd (apply g (EClusterReactivated owner ops)).
Proof.
  intros g L D owner ops Hnd. unfold handle_cluster_reactivated, hw, hr, apply.
  destruct (sim_cluster g L D owner ops false Hnd) as (H1 & H2 & _).
  destruct (cluster_update (mkw g L D) owner ops false) as [w1 upd].
  destruct (apply_cluster g owner ops false) as [g' vs].
  cbn [fst snd] in H1, H2. subst w1 vs.
  destruct upd as [|u tl]; cbn [map fst snd res_task]; split; reflexivity.
Qed.

(* one event: the handler on the world of g = the rule on g *)
Lemma sim_event : forall g L D added e,
  aget 0 (g_ops g) = None -> NoDup (map fst (g_shares g)) ->
  dbagree D g added ->
  (ops_read_committed = true -> forall id, In id (opadd_ids [e]) -> ~ In id added) ->
  hw (handle_event (mkw g L D) e) = mkw (fst (apply g e)) L D /\
  hr (handle_event (mkw g L D) e) = snd (apply g e).
Proof.
  intros g L D added e H0 Hnd Hag Hfresh.
  destruct e as [id owner pk|id|a|owner ops v|owner ops v blk|owner ops|owner ops|owner fee|].
  - apply (sim_operator_added g L D added); [exact Hag|].
    intros F. apply (Hfresh F). simpl. left. reflexivity.
  - destruct (sim_operator_removed g L D id) as [A B]. split; assumption.
  - apply sim_validator_added. exact H0.
  - apply (sim_validator_removed g L D owner ops v).
  - apply (sim_validator_exited g L D owner ops v blk).
  - apply sim_cluster_liquidated. exact Hnd.
  - apply sim_cluster_reactivated. exact Hnd.
  - apply sim_fee_recipient.
  - split; destruct g; reflexivity.
Qed.

(* ---- the invariant on the rules -------------------------------------------------------------------------- *)

Lemma good_same_ops : forall g g',
  g_ops g' = g_ops g -> g_self g' = g_self g -> NoDup (map fst (g_shares g')) -> good g -> good g'.
Proof.
  intros g g' Ho Hs Hn (A & B & C & _). unfold good. rewrite Ho, Hs. tauto.
Qed.

Lemma cluster_keys : forall (P : share -> bool) (f : share -> share) (l : list (N * share)),
  map fst (map (fun e => if P (snd e) then (fst e, f (snd e)) else e) l) = map fst l.
Proof.
  intros. rewrite map_map. apply map_ext. intros [k s]. simpl. destruct (P s); reflexivity.
Qed.

Lemma apply_good : forall g e, good g -> wf_event e -> good (fst (apply g e)).
Proof.
  intros g e Hg Hwf.
  destruct e as [id owner pk|id|a|owner ops v|owner ops v blk|owner ops|owner ops|owner fee|]; simpl.
  - (* OperatorAdded *)
    destruct (negb (g_self g =? 0) && (pk =? own_pk) && negb (id =? g_self g)) eqn:C1; [exact Hg|].
    unfold ahas. destruct (aget id (g_ops g)) as [d0|] eqn:Eid; [exact Hg|]. simpl.
    destruct Hg as (A & B & C & Dn). simpl in Hwf.
    unfold good. simpl. rewrite aset_notin by exact Eid.
    assert (Hin : forall i d, In (i, d) (g_ops g ++ [(id, {| o_owner := owner; o_pk := pk |})]) ->
                  In (i, d) (g_ops g) \/ (i = id /\ d = {| o_owner := owner; o_pk := pk |})).
    { intros i d H. rewrite in_app_iff in H. destruct H as [H|[H|[]]]; [left; exact H|right]. inversion H. tauto. }
    assert (Hget : forall i, i <> id -> aget i (g_ops g ++ [(id, {| o_owner := owner; o_pk := pk |})]) = aget i (g_ops g)).
    { intros i Hne. rewrite <- (aset_notin id _ (g_ops g) Eid). apply aget_aset_neq. exact Hne. }
    split; [|split; [|split; [|exact Dn]]].
    + rewrite Hget; [exact A|]. intros H. apply Hwf. symmetry. exact H.
    + intros i d Hi Hpk. destruct (Hin i d Hi) as [Hold|[-> ->]].
      * (* an older operator with the node's key: then the node has an id, and this event was refused *)
        pose proof (B i d Hold Hpk) as Hi'. destruct (pk =? own_pk) eqn:Epk; [|exact Hi'].
        exfalso.
        assert (Hs0 : g_self g <> 0).
        { intros H0. rewrite H0 in Hi'. subst i. apply aget_in in A || idtac.
          apply (aget_none_notin 0 (g_ops g) A). apply (in_map fst) in Hold. exact Hold. }
        destruct (C Hs0) as (d1 & Hd1 & _).
        apply andb_false_iff in C1. destruct C1 as [C1|C1].
        -- apply andb_false_iff in C1. destruct C1 as [C1|C1]; [|discriminate].
           apply negb_false_iff in C1. apply N.eqb_eq in C1. contradiction.
        -- apply negb_false_iff in C1. apply N.eqb_eq in C1. subst id. rewrite Hd1 in Eid. discriminate.
      * simpl in Hpk. apply N.eqb_eq in Hpk. rewrite Hpk. reflexivity.
    + intros Hs. destruct (pk =? own_pk) eqn:Epk.
      * exists {| o_owner := owner; o_pk := pk |}. split.
        -- rewrite <- (aset_notin id _ (g_ops g) Eid). apply aget_aset_eq.
        -- simpl. apply N.eqb_eq. exact Epk.
      * destruct (C Hs) as (d1 & Hd1 & Hp1). exists d1. split; [|exact Hp1].
        rewrite Hget; [exact Hd1|]. intros Heq. rewrite Heq in Hd1. rewrite Hd1 in Eid. discriminate.
  - exact Hg.
  - (* ValidatorAdded *)
    unfold apply_validator_added.
    set (g1 := with_rcp g (count_attempt (g_rcp g) (va_owner a))).
    assert (Hg1 : good g1). { apply (good_same_ops g); try reflexivity; apply Hg. }
    destruct (add_valid g1 a _); [|exact Hg1].
    destruct (aget (va_v a) (g_shares g1)) as [s|].
    + destruct (s_owner s =? va_owner a); exact Hg1.
    + destruct (own_key_valid (g_self g1) a); [|exact Hg1]. simpl.
      apply (good_same_ops g1); try reflexivity; [|exact Hg1]. simpl.
      apply aset_keys_nodup. apply Hg.
  - destruct (aget v (g_shares g)) as [s|]; [|exact Hg].
    destruct (s_owner s =? owner); [|exact Hg]. simpl.
    apply (good_same_ops g); try reflexivity; [|exact Hg]. simpl. apply adel_keys_nodup. apply Hg.
  - destruct (aget v (g_shares g)) as [s|]; [|exact Hg].
    destruct ((s_owner s =? owner) && belongs (g_self g) s); exact Hg.
  - destruct (map fst (filter _ (g_shares g))); [exact Hg|]. simpl.
    apply (good_same_ops g); try reflexivity; [|exact Hg]. simpl.
    rewrite (cluster_keys (fun s => mine_in_cluster g owner ops s) (set_liq true)). apply Hg.
  - destruct (map fst (filter _ (g_shares g))); [exact Hg|]. simpl.
    apply (good_same_ops g); try reflexivity; [|exact Hg]. simpl.
    rewrite (cluster_keys (fun s => mine_in_cluster g owner ops s) (set_liq false)). apply Hg.
  - destruct (aget owner (g_rcp g)) as [r|].
    + destruct (r_fee r =? fee); [exact Hg|]. apply (good_same_ops g); try reflexivity; apply Hg.
    + apply (good_same_ops g); try reflexivity; apply Hg.
  - exact Hg.
Qed.

Lemma apply_ops_other : forall g e id,
  ~ In id (opadd_ids [e]) -> aget id (g_ops (fst (apply g e))) = aget id (g_ops g).
Proof.
  intros g e id Hn.
  destruct e as [i owner pk|i|a|owner ops v|owner ops v blk|owner ops|owner ops|owner fee|]; simpl; try reflexivity.
  - destruct (negb (g_self g =? 0) && (pk =? own_pk) && negb (i =? g_self g)); [reflexivity|].
    destruct (ahas i (g_ops g)); [reflexivity|]. simpl. apply aget_aset_neq.
    intros ->. apply Hn. simpl. left. reflexivity.
  - unfold apply_validator_added. destruct (add_valid _ a _); [|reflexivity].
    destruct (aget (va_v a) _) as [s|]; [destruct (s_owner s =? va_owner a); reflexivity|].
    destruct (own_key_valid _ a); reflexivity.
  - destruct (aget v (g_shares g)) as [s|]; [|reflexivity]. destruct (s_owner s =? owner); reflexivity.
  - destruct (aget v (g_shares g)) as [s|]; [|reflexivity].
    destruct ((s_owner s =? owner) && belongs (g_self g) s); reflexivity.
  - destruct (map fst (filter _ (g_shares g))); reflexivity.
  - destruct (map fst (filter _ (g_shares g))); reflexivity.
  - destruct (aget owner (g_rcp g)) as [r|]; [destruct (r_fee r =? fee)|]; reflexivity.
Qed.

Lemma spec_block_fst : forall es g, fst (spec_block g es) = fold_left (fun g e => fst (apply g e)) es g.
Proof.
  induction es as [|e tl IH]; intros g; simpl; [reflexivity|].
  destruct (apply g e) as [g1 t] eqn:E. specialize (IH g1).
  destruct (spec_block g1 tl) as [g2 ts]. simpl in *. rewrite <- IH. reflexivity.
Qed.

Lemma opadd_cons : forall e tl, opadd_ids (e :: tl) = opadd_ids [e] ++ opadd_ids tl.
Proof. intros. unfold opadd_ids. simpl. rewrite app_nil_r. reflexivity. Qed.

Lemma nodup_app_disj : forall (A : Type) (l1 l2 : list A) (x : A),
  NoDup (l1 ++ l2) -> In x l1 -> In x l2 -> False.
Proof.
  induction l1 as [|y tl IH]; simpl; intros l2 x Hn H1 H2; [tauto|].
  inversion Hn; subst. destruct H1 as [->|H1].
  - apply H3. apply in_or_app. right. exact H2.
  - exact (IH l2 x H4 H1 H2).
Qed.

Lemma nodup_app_r : forall (A : Type) (l1 l2 : list A), NoDup (l1 ++ l2) -> NoDup l2.
Proof. induction l1 as [|y tl IH]; simpl; intros l2 H; [exact H|]. inversion H; subst. apply IH. assumption. Qed.

Lemma sim_events : forall es g L D added,
  good g -> Forall wf_event es -> dbagree D g added ->
  (ops_read_committed = true -> NoDup (opadd_ids es) /\ forall id, In id (opadd_ids es) -> ~ In id added) ->
  fst (fst (handle_events (mkw g L D) es)) = mkw (fst (spec_block g es)) L D /\
  snd (fst (handle_events (mkw g L D) es)) = snd (spec_block g es) /\
  good (fst (spec_block g es)).
Proof.
  induction es as [|e tl IH]; intros g L D added Hg Hwf Hag Hfresh; simpl.
  - repeat split; try reflexivity; apply Hg.
  - inversion Hwf as [|? ? Hwe Hwtl]; subst.
    assert (Hfe : ops_read_committed = true -> forall id, In id (opadd_ids [e]) -> ~ In id added).
    { intros F id Hin. apply (proj2 (Hfresh F)). rewrite opadd_cons. apply in_or_app. left. exact Hin. }
    destruct Hg as (A & B & C & Dn).
    destruct (sim_event g L D added e A Dn Hag Hfe) as [Hw Hr].
    pose proof (apply_good g e (conj A (conj B (conj C Dn))) Hwe) as Hg1.
    destruct (handle_event (mkw g L D) e) as [[w1 r] st1]. unfold hw, hr in Hw, Hr. simpl in Hw, Hr.
    destruct (apply g e) as [g1 t] eqn:Ea. simpl in Hw, Hr, Hg1. subst w1.
    assert (Hag1 : dbagree D g1 (opadd_ids [e] ++ added)).
    { intros F id Hn. rewrite (Hag F id).
      - unfold ahas. replace g1 with (fst (apply g e)) by (rewrite Ea; reflexivity).
        rewrite apply_ops_other; [reflexivity|]. intros Hin. apply Hn. apply in_or_app. left. exact Hin.
      - intros Hin. apply Hn. apply in_or_app. right. exact Hin. }
    assert (Hfresh1 : ops_read_committed = true ->
                      NoDup (opadd_ids tl) /\ forall id, In id (opadd_ids tl) -> ~ In id (opadd_ids [e] ++ added)).
    { intros F. destruct (Hfresh F) as [Hnd Hna]. rewrite opadd_cons in Hnd.
      split; [exact (nodup_app_r _ _ _ Hnd)|].
      intros id Hin Hbad. apply in_app_or in Hbad. destruct Hbad as [Hbad|Hbad].
      - exact (nodup_app_disj _ _ _ id Hnd Hbad Hin).
      - apply (Hna id); [|exact Hbad]. rewrite opadd_cons. apply in_or_app. right. exact Hin. }
    specialize (IH g1 L D (opadd_ids [e] ++ added) Hg1 Hwtl Hag1 Hfresh1).
    destruct (handle_events (mkw g1 L D) tl) as [[w2 ts] st2]. simpl in IH.
    destruct (spec_block g1 tl) as [g2 ts']. simpl in IH. destruct IH as (IH1 & IH2 & IH3).
    simpl. subst w2 ts'. split; [reflexivity|]. split; [|exact IH3].
    destruct r as [[x|]|]; simpl in Hr; subst t; reflexivity.
Qed.

(* ---- blocks and histories ---------------------------------------------------------------------------------- *)

Lemma good_with_last : forall g n, good g -> good (with_last g n).
Proof. intros g n H. exact H. Qed.

Lemma find_self_good : forall g, good g -> find_self (g_ops g) = g_self g.
Proof.
  intros g (A & B & C & _). unfold find_self.
  destruct (find (fun e => o_pk (snd e) =? own_pk) (g_ops g)) as [[i d]|] eqn:E.
  - apply find_some in E. destruct E as [Hin Hpk]. simpl in *. apply N.eqb_eq in Hpk. exact (B i d Hin Hpk).
  - destruct (N.eq_dec (g_self g) 0) as [H0|H0]; [symmetry; exact H0|].
    destruct (C H0) as (d & Hd & Hpk). apply aget_in in Hd.
    pose proof (find_none _ _ E _ Hd) as Hf. simpl in Hf. rewrite Hpk, N.eqb_refl in Hf. discriminate.
Qed.

Lemma restart_id : forall st, inv st -> restart st = st.
Proof.
  intros st [Hm Hg]. unfold restart. rewrite <- Hm.
  pose proof (find_self_good (abs st) Hg) as Hf. simpl in Hf. rewrite Hf. destruct st; reflexivity.
Qed.

Lemma inv_init : inv istate_init.
Proof.
  split; [reflexivity|]. unfold good. simpl. repeat split; try reflexivity.
  - intros id d [].
  - intros H. exfalso. apply H. reflexivity.
  - constructor.
Qed.

Lemma block_refines : forall st b,
  inv st -> wf_block b -> x_last (db st) < bnum b ->
  exists tasks steps,
    snd (process_block st b) = BDone tasks steps /\
    abs (fst (process_block st b)) = with_last (fst (spec_block (abs st) (bevents b))) (bnum b) /\
    tasks = snd (spec_block (abs st) (bevents b)) /\
    inv (fst (process_block st b)).
Proof.
  intros st b [Hm Hg] [Hwf Hnd] Hlt. unfold process_block.
  assert (bnum b <=? x_last (db st) = false) as -> by (apply N.leb_gt; exact Hlt).
  assert (Hw0 : {| w_x := db st; w_dbops := x_ops (db st); w_mem := mem st; w_self := self st |}
                = mkw (abs st) (x_last (db st)) (x_ops (db st))).
  { unfold mkw, abs. simpl. rewrite Hm. destruct (db st); reflexivity. }
  rewrite Hw0.
  destruct (sim_events (bevents b) (abs st) (x_last (db st)) (x_ops (db st)) [] Hg Hwf) as (H1 & H2 & H3).
  { intros F id _. reflexivity. }
  { intros F. split; [exact (Hnd F)|]. intros id _ []. }
  destruct (handle_events (mkw (abs st) (x_last (db st)) (x_ops (db st))) (bevents b)) as [[w tasks] steps].
  simpl in H1, H2. subst w tasks.
  exists (snd (spec_block (abs st) (bevents b))), (steps ++ [STxn; SCommit]). simpl.
  split; [reflexivity|]. split; [reflexivity|]. split; [reflexivity|].
  split; [reflexivity|]. exact H3.
Qed.

Lemma block_refused : forall st b,
  bnum b <= x_last (db st) -> process_block st b = (st, BRefused).
Proof.
  intros st b H. unfold process_block.
  assert (bnum b <=? x_last (db st) = true) as -> by (apply N.leb_le; exact H). reflexivity.
Qed.

(* the rules do not read the block marker *)
Lemma apply_with_last : forall g n e,
  apply (with_last g n) e = (with_last (fst (apply g e)) n, snd (apply g e)).
Proof.
  intros g n e.
  destruct e as [id owner pk|id|a|owner ops v|owner ops v blk|owner ops|owner ops|owner fee|]; simpl; try reflexivity.
  - destruct (negb (g_self g =? 0) && (pk =? own_pk) && negb (id =? g_self g)); [reflexivity|].
    destruct (ahas id (g_ops g)); reflexivity.
  - unfold apply_validator_added. simpl.
    change (add_valid (with_rcp (with_last g n) (count_attempt (g_rcp g) (va_owner a))) a)
      with (add_valid (with_rcp g (count_attempt (g_rcp g) (va_owner a))) a).
    destruct (add_valid _ a _); [|reflexivity]. simpl.
    destruct (aget (va_v a) (g_shares g)) as [s|]; simpl.
    + destruct (s_owner s =? va_owner a); reflexivity.
    + destruct (own_key_valid (g_self g) a); reflexivity.
  - destruct (aget v (g_shares g)) as [s|]; [|reflexivity].
    destruct (s_owner s =? owner); reflexivity.
  - destruct (aget v (g_shares g)) as [s|]; [|reflexivity].
    destruct ((s_owner s =? owner) && belongs (g_self g) s); reflexivity.
  - unfold mine_in_cluster. simpl. destruct (map fst (filter _ (g_shares g))); reflexivity.
  - unfold mine_in_cluster. simpl. destruct (map fst (filter _ (g_shares g))); reflexivity.
  - destruct (aget owner (g_rcp g)) as [r|]; [destruct (r_fee r =? fee)|]; reflexivity.
Qed.

Lemma apply_atom_with_last : forall g n a, apply_atom (with_last g n) a = with_last (apply_atom g a) n.
Proof.
  intros g n [e|v idx]; simpl.
  - rewrite apply_with_last. reflexivity.
  - destruct (aget v (g_shares g)); reflexivity.
Qed.

Lemma fold_atoms_with_last : forall l g n,
  fold_left apply_atom l (with_last g n) = with_last (fold_left apply_atom l g) n.
Proof.
  induction l as [|a tl IH]; intros g n; simpl; [reflexivity|].
  rewrite apply_atom_with_last. apply IH.
Qed.

Lemma fold_events_atoms : forall es g,
  fold_left apply_atom (map AEvent es) g = fst (spec_block g es).
Proof.
  intros es g. rewrite spec_block_fst. revert g.
  induction es as [|e tl IH]; intros g; simpl; [reflexivity|]. apply IH.
Qed.

Lemma with_last_idem : forall g n m, with_last (with_last g n) m = with_last g m.
Proof. reflexivity. Qed.

Lemma with_last_self : forall g, with_last g (g_last g) = g.
Proof. destruct g; reflexivity. Qed.

Lemma meta_refines : forall st v idx,
  inv st ->
  abs (update_metadata st v idx) = apply_atom (abs st) (AMeta v idx) /\ inv (update_metadata st v idx).
Proof.
  intros st v idx [Hm Hg]. unfold update_metadata. simpl. rewrite Hm.
  destruct (aget v (x_shares (db st))) as [s|]; simpl.
  - split; [reflexivity|]. split; [reflexivity|].
    apply (good_same_ops (abs st)); try reflexivity; [|exact Hg]. simpl.
    apply aset_keys_nodup. apply Hg.
  - split; [reflexivity|]. split; assumption.
Qed.

(* C11: the handler refines the rules, for every history with increasing block numbers *)
Lemma run_refines : forall ops st,
  inv st -> Forall wf_op ops -> increasing (x_last (db st)) ops ->
  abs (run_impl st ops) = spec_run (abs st) ops /\ inv (run_impl st ops).
Proof.
  induction ops as [|o tl IH]; intros st Hi Hwf Hinc.
  - simpl. unfold spec_run. simpl. rewrite with_last_self. split; [reflexivity|exact Hi].
  - inversion Hwf as [|? ? Hwo Hwtl]; subst. simpl.
    destruct o as [b|v idx|].
    + simpl in Hinc. destruct Hinc as [Hlt Hinc].
      destruct (block_refines st b Hi Hwo Hlt) as (tasks & steps & _ & Habs & _ & Hi1).
      set (st1 := fst (process_block st b)) in *.
      assert (Hl1 : x_last (db st1) = bnum b).
      { change (x_last (db st1)) with (g_last (abs st1)). rewrite Habs. reflexivity. }
      rewrite <- Hl1 in Hinc.
      destruct (IH st1 Hi1 Hwtl Hinc) as [IHa IHi]. split; [|exact IHi].
      change (step_op st (OBlock b)) with st1. rewrite IHa, Habs.
      unfold spec_run, flat. simpl. rewrite fold_left_app, fold_events_atoms.
      rewrite fold_atoms_with_last, with_last_idem. reflexivity.
    + simpl in Hinc. destruct (meta_refines st v idx Hi) as [Habs Hi1].
      assert (Hl1 : x_last (db (update_metadata st v idx)) = x_last (db st)).
      { unfold update_metadata. destruct (aget v (mem st)); reflexivity. }
      rewrite <- Hl1 in Hinc.
      destruct (IH _ Hi1 Hwtl Hinc) as [IHa IHi]. split; [|exact IHi].
      change (step_op st (OMeta v idx)) with (update_metadata st v idx). rewrite IHa, Habs.
      unfold spec_run, flat. simpl.
      assert (g_last (match aget v (x_shares (db st)) with
                      | Some s => with_shares (abs st) (aset v (set_meta (Some idx) s) (x_shares (db st)))
                      | None => abs st end) = x_last (db st)) as ->.
      { destruct (aget v (x_shares (db st))); reflexivity. }
      reflexivity.
    + simpl in Hinc. change (step_op st ORestart) with (restart st). rewrite (restart_id st Hi).
      destruct (IH st Hi Hwtl Hinc) as [IHa IHi]. split; [|exact IHi]. rewrite IHa. reflexivity.
Qed.

(* ---- corollaries ---------------------------------------------------------------------------------------------- *)

Lemma batching_irrelevant : forall st ops1 ops2,
  inv st -> Forall wf_op ops1 -> Forall wf_op ops2 ->
  increasing (x_last (db st)) ops1 -> increasing (x_last (db st)) ops2 ->
  flat ops1 = flat ops2 ->
  last_block_num ops1 (x_last (db st)) = last_block_num ops2 (x_last (db st)) ->
  abs (run_impl st ops1) = abs (run_impl st ops2).
Proof.
  intros st ops1 ops2 Hi W1 W2 I1 I2 Hf Hl.
  rewrite (proj1 (run_refines ops1 st Hi W1 I1)), (proj1 (run_refines ops2 st Hi W2 I2)).
  unfold spec_run. simpl. rewrite Hf, Hl. reflexivity.
Qed.

Lemma mem_equals_db : forall st ops,
  inv st -> Forall wf_op ops -> increasing (x_last (db st)) ops ->
  mem (run_impl st ops) = x_shares (db (run_impl st ops)) /\
  self (run_impl st ops) = find_self (x_ops (db (run_impl st ops))).
Proof.
  intros st ops Hi W I. destruct (proj2 (run_refines ops st Hi W I)) as [Hm Hg].
  split; [exact Hm|]. symmetry. exact (find_self_good _ Hg).
Qed.

Lemma run_app : forall st a b, run_impl st (a ++ b) = run_impl (run_impl st a) b.
Proof. intros. unfold run_impl. apply fold_left_app. Qed.

Lemma restart_invisible : forall st ops1 ops2,
  inv st -> Forall wf_op ops1 -> increasing (x_last (db st)) ops1 ->
  run_impl st (ops1 ++ ORestart :: ops2) = run_impl st (ops1 ++ ops2).
Proof.
  intros st ops1 ops2 Hi W I. rewrite !run_app. simpl.
  rewrite (restart_id _ (proj2 (run_refines ops1 st Hi W I))). reflexivity.
Qed.

(* ---- the rules, on Spec --------------------------------------------------------------------------------------- *)

(* a validator appears only through a ValidatorAdded that satisfies every registration rule *)
Lemma rule_add : forall g e v s,
  aget v (g_shares g) = None -> aget v (g_shares (fst (apply g e))) = Some s ->
  exists a, e = EValidatorAdded a /\ va_v a = v /\ s_owner s = va_owner a /\
            sig_valid a (expected_nonce (g_rcp g) (va_owner a)) = true /\
            valid_committee g (va_ops a) = true /\
            va_len a = expected_len (lenN (va_ops a)) /\
            own_key_valid (g_self g) a = true.
Proof.
  intros g e v s Hn Hs.
  destruct e as [id owner pk|id|a|owner ops v'|owner ops v' blk|owner ops|owner ops|owner fee|]; simpl in Hs;
    try (rewrite Hn in Hs; discriminate).
  - repeat match type of Hs with context [if ?c then _ else _] => destruct c end;
      simpl in Hs; rewrite Hn in Hs; discriminate.
  - exists a. unfold apply_validator_added in Hs.
    destruct (add_valid (with_rcp g (count_attempt (g_rcp g) (va_owner a))) a
                        (expected_nonce (g_rcp g) (va_owner a))) eqn:Hv;
      [|simpl in Hs; rewrite Hn in Hs; discriminate].
    simpl in Hs.
    destruct (aget (va_v a) (g_shares g)) as [s0|] eqn:Hva.
    { destruct (s_owner s0 =? va_owner a); simpl in Hs; rewrite Hn in Hs; discriminate. }
    destruct (own_key_valid (g_self g) a) eqn:Hk; [|simpl in Hs; rewrite Hn in Hs; discriminate].
    simpl in Hs.
    destruct (N.eq_dec v (va_v a)) as [->|Hne].
    + rewrite aget_aset_eq in Hs. inversion Hs; subst s. clear Hs.
      unfold add_valid in Hv. apply andb_true_iff in Hv. destruct Hv as [Hv Hsig].
      apply andb_true_iff in Hv. destruct Hv as [Hc Hl]. apply N.eqb_eq in Hl.
      split; [reflexivity|]. split; [reflexivity|]. split; [reflexivity|].
      split; [exact Hsig|]. split; [exact Hc|]. split; [exact Hl|reflexivity].
    + rewrite aget_aset_neq in Hs by exact Hne. rewrite Hn in Hs. discriminate.
  - destruct (aget v' (g_shares g)) as [s0|] eqn:Hv'; [|simpl in Hs; rewrite Hn in Hs; discriminate].
    destruct (s_owner s0 =? owner); simpl in Hs; [|simpl in Hs; rewrite Hn in Hs; discriminate].
    assert (aget v (adel v' (g_shares g)) = None).
    { apply aget_notin_none. rewrite adel_keys. intros Hin. apply filter_In in Hin.
      apply (aget_none_notin v (g_shares g) Hn). tauto. }
    congruence.
  - destruct (aget v' (g_shares g)) as [s0|]; [|simpl in Hs; rewrite Hn in Hs; discriminate].
    destruct ((s_owner s0 =? owner) && belongs (g_self g) s0); simpl in Hs; rewrite Hn in Hs; discriminate.
  - destruct (map fst (filter _ (g_shares g))); [simpl in Hs; rewrite Hn in Hs; discriminate|simpl in Hs].
    assert (aget v (map (fun e => if mine_in_cluster g owner ops (snd e) then (fst e, set_liq true (snd e)) else e) (g_shares g)) = None).
    { apply aget_notin_none. rewrite (cluster_keys (fun s => mine_in_cluster g owner ops s)). apply aget_none_notin. exact Hn. }
    congruence.
  - destruct (map fst (filter _ (g_shares g))); [simpl in Hs; rewrite Hn in Hs; discriminate|simpl in Hs].
    assert (aget v (map (fun e => if mine_in_cluster g owner ops (snd e) then (fst e, set_liq false (snd e)) else e) (g_shares g)) = None).
    { apply aget_notin_none. rewrite (cluster_keys (fun s => mine_in_cluster g owner ops s)). apply aget_none_notin. exact Hn. }
    congruence.
  - destruct (aget owner (g_rcp g)) as [r|]; [destruct (r_fee r =? fee)|]; simpl in Hs; rewrite Hn in Hs; discriminate.
Qed.

Lemma aget_adel_neq : forall (V : Type) k k' (l : list (N * V)), k' <> k -> aget k' (adel k l) = aget k' l.
Proof.
  induction l as [|[k0 v0] tl IH]; simpl; intros Hne; [reflexivity|].
  destruct (N.eqb k k0) eqn:E; simpl.
  - apply N.eqb_eq in E. subst k0. destruct (N.eqb k' k) eqn:E2; [apply N.eqb_eq in E2; contradiction|apply IH; exact Hne].
  - destruct (N.eqb k' k0); [reflexivity|apply IH; exact Hne].
Qed.

Lemma aget_cluster_map : forall (P : share -> bool) (f : share -> share) v (l : list (N * share)),
  aget v (map (fun e => if P (snd e) then (fst e, f (snd e)) else e) l) = None -> aget v l = None.
Proof.
  intros P f v l H. apply aget_notin_none. apply aget_none_notin in H. rewrite (cluster_keys P f) in H. exact H.
Qed.

(* only the owner removes *)
Lemma rule_remove : forall g e v s,
  aget v (g_shares g) = Some s -> aget v (g_shares (fst (apply g e))) = None ->
  exists ops, e = EValidatorRemoved (s_owner s) ops v.
Proof.
  intros g e v s Hs Hn.
  destruct e as [id owner pk|id|a|owner ops v'|owner ops v' blk|owner ops|owner ops|owner fee|]; simpl in Hn;
    try (rewrite Hs in Hn; discriminate).
  - repeat match type of Hn with context [if ?c then _ else _] => destruct c end;
      simpl in Hn; rewrite Hs in Hn; discriminate.
  - unfold apply_validator_added in Hn.
    destruct (add_valid _ a _); [|simpl in Hn; rewrite Hs in Hn; discriminate]. simpl in Hn.
    destruct (aget (va_v a) (g_shares g)) as [s0|] eqn:Hva.
    { destruct (s_owner s0 =? va_owner a); simpl in Hn; rewrite Hs in Hn; discriminate. }
    destruct (own_key_valid (g_self g) a); [|simpl in Hn; rewrite Hs in Hn; discriminate]. simpl in Hn.
    destruct (N.eq_dec v (va_v a)) as [->|Hne].
    + rewrite aget_aset_eq in Hn. discriminate.
    + rewrite aget_aset_neq in Hn by exact Hne. rewrite Hs in Hn. discriminate.
  - destruct (aget v' (g_shares g)) as [s0|] eqn:Hv'; [|simpl in Hn; rewrite Hs in Hn; discriminate].
    destruct (s_owner s0 =? owner) eqn:Ho; [|simpl in Hn; rewrite Hs in Hn; discriminate]. simpl in Hn.
    destruct (N.eq_dec v v') as [->|Hne].
    + rewrite Hs in Hv'. inversion Hv'; subst s0. apply N.eqb_eq in Ho. subst owner. exists ops. reflexivity.
    + rewrite aget_adel_neq in Hn by exact Hne. rewrite Hs in Hn. discriminate.
  - destruct (aget v' (g_shares g)) as [s0|]; [|simpl in Hn; rewrite Hs in Hn; discriminate].
    destruct ((s_owner s0 =? owner) && belongs (g_self g) s0); simpl in Hn; rewrite Hs in Hn; discriminate.
  - destruct (map fst (filter _ (g_shares g))); simpl in Hn; [rewrite Hs in Hn; discriminate|].
    apply (aget_cluster_map (fun s => mine_in_cluster g owner ops s)) in Hn. rewrite Hs in Hn. discriminate.
  - destruct (map fst (filter _ (g_shares g))); simpl in Hn; [rewrite Hs in Hn; discriminate|].
    apply (aget_cluster_map (fun s => mine_in_cluster g owner ops s)) in Hn. rewrite Hs in Hn. discriminate.
  - destruct (aget owner (g_rcp g)) as [r|]; [destruct (r_fee r =? fee)|]; simpl in Hn; rewrite Hs in Hn; discriminate.
Qed.

(* only the owner exits, and only the operator's own validator with known index *)
Lemma rule_exit : forall g e v blk idx,
  snd (apply g e) = Some (TExit v blk idx) ->
  exists s ops, e = EValidatorExited (s_owner s) ops v blk /\ aget v (g_shares g) = Some s /\
                belongs (g_self g) s = true /\ s_meta s = Some idx.
Proof.
  intros g e v blk idx H.
  destruct e as [id owner pk|id|a|owner ops v'|owner ops v' blk'|owner ops|owner ops|owner fee|]; simpl in H;
    try discriminate.
  - repeat match type of H with context [if ?c then _ else _] => destruct c end; discriminate.
  - unfold apply_validator_added, start_task in H.
    repeat match type of H with
           | context [if ?c then _ else _] => destruct c
           | context [match aget ?k ?l with _ => _ end] => destruct (aget k l)
           end; simpl in H; discriminate.
  - destruct (aget v' (g_shares g)) as [s0|]; [|discriminate].
    destruct (s_owner s0 =? owner); simpl in H; [|discriminate]. destruct (belongs (g_self g) s0); discriminate.
  - destruct (aget v' (g_shares g)) as [s0|] eqn:Hv'; [|discriminate].
    destruct (s_owner s0 =? owner) eqn:Ho; simpl in H; [|discriminate].
    destruct (belongs (g_self g) s0) eqn:Hb; simpl in H; [|discriminate].
    destruct (s_meta s0) as [i|] eqn:Hm; [|discriminate]. inversion H; subst.
    apply N.eqb_eq in Ho. subst owner. exists s0, ops. repeat split; assumption.
  - destruct (map fst (filter _ (g_shares g))); discriminate.
  - destruct (map fst (filter _ (g_shares g))); discriminate.
  - destruct (aget owner (g_rcp g)) as [r|]; [destruct (r_fee r =? fee)|]; discriminate.
Qed.

(* ---- the nonce counts every add attempt exactly once, mod 2^16 ------------------------------------------- *)

Lemma nonce_mod_nz : nonce_mod <> 0.
Proof. unfold nonce_mod. apply N.pow_nonzero. discriminate. Qed.

Lemma expected_lt : forall r o, expected_nonce r o < nonce_mod.
Proof.
  intros. unfold expected_nonce. pose proof nonce_mod_nz.
  destruct (aget o r) as [[f [n|]]|]; try (apply N.mod_lt; assumption); lia.
Qed.

Lemma expected_count_attempt : forall r owner o,
  expected_nonce (count_attempt r owner) o =
  if owner =? o then (expected_nonce r o + 1) mod nonce_mod else expected_nonce r o.
Proof.
  intros r owner o. destruct (owner =? o) eqn:E.
  - apply N.eqb_eq in E. subst o. unfold count_attempt.
    destruct (aget owner r) as [x|]; unfold expected_nonce at 1; rewrite aget_aset_eq; reflexivity.
  - apply N.eqb_neq in E. unfold count_attempt.
    destruct (aget owner r) as [x|]; unfold expected_nonce at 1;
      rewrite aget_aset_neq by (intros H; apply E; symmetry; exact H); reflexivity.
Qed.

Lemma apply_rcp : forall g e,
  g_rcp (fst (apply g e)) =
  match e with
  | EValidatorAdded a => count_attempt (g_rcp g) (va_owner a)
  | EFeeRecipientUpdated owner fee =>
      match aget owner (g_rcp g) with
      | Some r => if r_fee r =? fee then g_rcp g else aset owner {| r_fee := fee; r_nonce := r_nonce r |} (g_rcp g)
      | None => aset owner {| r_fee := fee; r_nonce := None |} (g_rcp g)
      end
  | _ => g_rcp g
  end.
Proof.
  intros g e.
  destruct e as [id owner pk|id|a|owner ops v'|owner ops v' blk'|owner ops|owner ops|owner fee|]; simpl; try reflexivity.
  - repeat match goal with |- context [if ?c then _ else _] => destruct c end; reflexivity.
  - unfold apply_validator_added.
    repeat match goal with
           | |- context [if ?c then _ else _] => destruct c
           | |- context [match aget ?k ?l with _ => _ end] => destruct (aget k l)
           end; reflexivity.
  - destruct (aget v' (g_shares g)) as [s0|]; [|reflexivity]. destruct (s_owner s0 =? owner); reflexivity.
  - destruct (aget v' (g_shares g)) as [s0|]; [|reflexivity].
    destruct ((s_owner s0 =? owner) && belongs (g_self g) s0); reflexivity.
  - destruct (map fst (filter _ (g_shares g))); reflexivity.
  - destruct (map fst (filter _ (g_shares g))); reflexivity.
  - destruct (aget owner (g_rcp g)) as [r|]; [destruct (r_fee r =? fee)|]; reflexivity.
Qed.

Lemma expected_after_atom : forall g a o,
  expected_nonce (g_rcp (apply_atom g a)) o =
  if is_add_of o a then (expected_nonce (g_rcp g) o + 1) mod nonce_mod else expected_nonce (g_rcp g) o.
Proof.
  intros g [e|v idx] o; simpl.
  2:{ destruct (aget v (g_shares g)); reflexivity. }
  rewrite apply_rcp.
  destruct e as [id owner pk|id|a|owner ops v'|owner ops v' blk'|owner ops|owner ops|owner fee|]; try reflexivity.
  - rewrite expected_count_attempt. reflexivity.
  - (* a fee-recipient update keeps the nonce; a fresh entry has none, like an absent one *)
    destruct (aget owner (g_rcp g)) as [r|] eqn:Er.
    + destruct (r_fee r =? fee); [reflexivity|].
      unfold expected_nonce. destruct (N.eq_dec o owner) as [->|Hne].
      * rewrite aget_aset_eq, Er. destruct r; reflexivity.
      * rewrite aget_aset_neq by exact Hne. reflexivity.
    + unfold expected_nonce. destruct (N.eq_dec o owner) as [->|Hne].
      * rewrite aget_aset_eq, Er. reflexivity.
      * rewrite aget_aset_neq by exact Hne. reflexivity.
Qed.

Lemma nonce_counts : forall l g o,
  expected_nonce (g_rcp (fold_left apply_atom l g)) o =
  (expected_nonce (g_rcp g) o + attempts o l) mod nonce_mod.
Proof.
  induction l as [|a tl IH]; intros g o; simpl.
  - unfold attempts. simpl. rewrite N.add_0_r. symmetry. apply N.mod_small. apply expected_lt.
  - rewrite IH, expected_after_atom. unfold attempts. simpl.
    destruct (is_add_of o a); simpl; [|reflexivity].
    unfold lenN. simpl length. rewrite Nat2N.inj_succ.
    rewrite N.add_mod_idemp_l by apply nonce_mod_nz. f_equal. lia.
Qed.

(* the stored nonce after at least one attempt *)
Definition nonce_of (g : reg) (o : N) : option N :=
  match aget o (g_rcp g) with Some r => r_nonce r | None => None end.

Lemma expected_of_nonce : forall g o,
  expected_nonce (g_rcp g) o = match nonce_of g o with Some n => (n + 1) mod nonce_mod | None => 0 end.
Proof. intros. unfold expected_nonce, nonce_of. destruct (aget o (g_rcp g)) as [[f [n|]]|]; reflexivity. Qed.

(* ---- as coded, the same-id hypothesis is necessary ----------------------------------------------------------- *)

(* two OperatorAdded events with the same id: in one block the second overwrites the first (the
   existence check reads the committed database), in two blocks it is ignored *)
Definition dup_one_block : list op :=
  [OBlock {| bnum := 2; bevents := [EOperatorAdded 5 1 own_pk; EOperatorAdded 5 2 7] |}].
Definition dup_two_blocks : list op :=
  [OBlock {| bnum := 1; bevents := [EOperatorAdded 5 1 own_pk] |};
   OBlock {| bnum := 2; bevents := [EOperatorAdded 5 2 7] |}].

Lemma dup_operator_id_refuted :
  ops_read_committed = true ->
  flat dup_one_block = flat dup_two_blocks /\
  last_block_num dup_one_block 0 = last_block_num dup_two_blocks 0 /\
  abs (run_impl istate_init dup_one_block) <> abs (run_impl istate_init dup_two_blocks) /\
  abs (run_impl istate_init dup_one_block) <> spec_run reg_init dup_one_block /\
  mem_eq_db (run_impl istate_init dup_one_block) = false /\
  self (run_impl istate_init (dup_one_block ++ [ORestart])) <> self (run_impl istate_init dup_one_block).
Proof.
  intros F.
  first [ (vm_compute in F; discriminate F)
        | (split; [reflexivity|]; split; [reflexivity|];
           split; [vm_compute; intros H; discriminate H|];
           split; [vm_compute; intros H; discriminate H|];
           split; [vm_compute; reflexivity|vm_compute; intros H; discriminate H]) ].
Qed.
