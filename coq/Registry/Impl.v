(* The event handler AS CODED: eth/eventhandler/{event_handler.go,handlers.go,validation.go},
   registry/storage/{shares.go,recipients.go,operators.go}, operator/storage/storage.go,
   ekm/eth_key_manager_signer.go (AddShare / RemoveShare / BumpSlashingProtection), and the start-up
   path of cli/operator/node.go (setupOperatorStorage, NewSharesStorage.load, OpenWallet).
   Definitions only.

   State:
     db    the committed database tables (operators, shares, recipients, last processed block)
     txn   the block transaction = a private copy of the tables; Commit replaces db by it
           (ASSUMPTION: a badger transaction is atomic - all of it or nothing becomes visible)
     mem   sharesStorage.shares, the in-memory share map every Shares().Get/List reads from
     self  operatorDataStore's operator id (in memory)
     km    the key manager's persistent state; its writes go straight to the database, outside
           the block transaction

   The handler never reads the key manager's state (AddShare/RemoveShare/BumpSlashingProtection only
   return errors), so a handler returns, besides its effect on txn/mem/self, the ORDERED list of its
   micro-steps: each write call on the transaction and each key-manager call.  Crash.v cuts that list.

   Storage errors do not occur in this model (they are injected, as crashes, in Crash.v); the one
   non-storage fatal error of the code, "could not decode shareSecret", is unreachable (the secret is
   non-nil whenever the share belongs to the operator) and is not modelled. *)
From Coq Require Import List NArith Bool.
From SSV Require Import Gen.RegistryConsts Registry.Types.
Import ListNotations.
Local Open Scope N_scope.

(* ---- database tables and the block transaction -------------------------------------------------- *)

Record tables := {
  x_ops : list (N * opdata);
  x_shares : list (N * share);
  x_rcp : list (N * rcp);
  x_last : N                          (* 0 = key absent (GetLastProcessedBlock: !found -> 0) *)
}.

Definition tables_init : tables := {| x_ops := []; x_shares := []; x_rcp := []; x_last := 0 |}.

Definition tx_ops x o := {| x_ops := o; x_shares := x_shares x; x_rcp := x_rcp x; x_last := x_last x |}.
Definition tx_shares x s := {| x_ops := x_ops x; x_shares := s; x_rcp := x_rcp x; x_last := x_last x |}.
Definition tx_rcp x r := {| x_ops := x_ops x; x_shares := x_shares x; x_rcp := r; x_last := x_last x |}.
Definition tx_last x n := {| x_ops := x_ops x; x_shares := x_shares x; x_rcp := x_rcp x; x_last := n |}.

(* ---- the key manager ------------------------------------------------------------------------------ *)

(* Everything block processing writes OUTSIDE the block transaction:
   km_use: share public keys the wallet can sign with: the wallet index has an entry AND the account
           object it points to is stored (AccountByPublicKey succeeds)
   km_att / km_prop: keys with a highest-attestation / highest-proposal record
   km_dhist / km_dhi: validators with stored decided instances / a highest decided instance in the
           QBFT store (ibft/storage), which ValidatorRemoved cleans with CleanAllInstances *)
Record kmstate := { km_use : list N; km_att : list N; km_prop : list N;
                    km_dhist : list N; km_dhi : list N }.
Definition km_init : kmstate := {| km_use := []; km_att := []; km_prop := []; km_dhist := []; km_dhi := [] |}.

Inductive kmop := KAdd (k : N) | KRemove (k : N) | KBump (k : N) | KClean (v : N).

(* one database write call of the key manager *)
Inductive kwrite :=
| WAtt (k : N) | WProp (k : N)      (* SaveHighestAttestation / SaveHighestProposal *)
| WObj (k : N)                      (* SaveAccount: the account object; not yet reachable *)
| WIdx (k : N)                      (* SaveWallet after AddValidatorAccount: index entry -> usable *)
| DAtt (k : N) | DProp (k : N)      (* RemoveHighestAttestation / RemoveHighestProposal *)
| DObj (k : N)                      (* DeleteAccount: the object is gone -> no longer usable *)
| DIdx (k : N)                      (* SaveWallet after the index entry was dropped *)
| DHist (v : N)                     (* CleanAllInstances: DeletePrefix of the stored instances *)
| DHi (v : N).                      (* CleanAllInstances: delete of the highest instance *)

Definition km_with_use m x := {| km_use := x; km_att := km_att m; km_prop := km_prop m; km_dhist := km_dhist m; km_dhi := km_dhi m |}.
Definition km_with_att m x := {| km_use := km_use m; km_att := x; km_prop := km_prop m; km_dhist := km_dhist m; km_dhi := km_dhi m |}.
Definition km_with_prop m x := {| km_use := km_use m; km_att := km_att m; km_prop := x; km_dhist := km_dhist m; km_dhi := km_dhi m |}.
Definition km_with_dhist m x := {| km_use := km_use m; km_att := km_att m; km_prop := km_prop m; km_dhist := x; km_dhi := km_dhi m |}.
Definition km_with_dhi m x := {| km_use := km_use m; km_att := km_att m; km_prop := km_prop m; km_dhist := km_dhist m; km_dhi := x |}.

Definition apply_kw (m : kmstate) (w : kwrite) : kmstate :=
  match w with
  | WAtt k => km_with_att m (sadd k (km_att m))
  | WProp k => km_with_prop m (sadd k (km_prop m))
  | WObj _ => m
  | WIdx k => km_with_use m (sadd k (km_use m))
  | DAtt k => km_with_att m (sdel k (km_att m))
  | DProp k => km_with_prop m (sdel k (km_prop m))
  | DObj k => km_with_use m (sdel k (km_use m))
  | DIdx _ => m
  | DHist v => km_with_dhist m (sdel v (km_dhist m))
  | DHi v => km_with_dhi m (sdel v (km_dhi m))
  end.

(* BumpSlashingProtection under a clock that stands still: a record is written iff it is absent
   (a present one is never "outdated") *)
Definition bump_writes (k : N) (m : kmstate) : list kwrite :=
  (if smem k (km_att m) then [] else [WAtt k]) ++ (if smem k (km_prop m) then [] else [WProp k]).

(* the write calls of one key-manager call, in order *)
Definition kmop_writes (o : kmop) (m : kmstate) : list kwrite :=
  match o with
  | KAdd k => if smem k (km_use m) then [] else bump_writes k m ++ [WObj k; WIdx k]
  | KRemove k => if smem k (km_use m) then [DAtt k; DProp k; DObj k; DIdx k] else []
  | KBump k => bump_writes k m
  | KClean v => [DHist v; DHi v]
  end.

Definition km_apply (m : kmstate) (o : kmop) : kmstate := fold_left apply_kw (kmop_writes o m) m.

(* ---- what a handler works on ---------------------------------------------------------------------- *)

Record world := {
  w_x : tables;                       (* the open transaction *)
  w_dbops : list (N * opdata);        (* committed operators table (SaveOperatorData's nil reader) *)
  w_mem : list (N * share);
  w_self : N
}.

Definition ww_x w x := {| w_x := x; w_dbops := w_dbops w; w_mem := w_mem w; w_self := w_self w |}.
Definition ww_mem w x m := {| w_x := x; w_dbops := w_dbops w; w_mem := m; w_self := w_self w |}.
Definition ww_self w x s := {| w_x := x; w_dbops := w_dbops w; w_mem := w_mem w; w_self := s |}.

Inductive step := STxn | SKm (o : kmop) | SCommit.

(* processEvent's error split: a MalformedEventError is swallowed (whatever the handler wrote to the
   transaction before stays in it); any other error aborts the block - none arises here *)
Inductive hres := HOk (t : option task) | HMalformed.

(* ---- recipients storage ---------------------------------------------------------------------------- *)

(* GetNextNonce: not found -> 0; Nonce == nil -> 0; else *Nonce + 1 in uint16 *)
Definition get_next_nonce (x : tables) (owner : N) : N :=
  match aget owner (x_rcp x) with
  | None => 0
  | Some r => match r_nonce r with None => 0 | Some n => (n + 1) mod nonce_mod end
  end.

(* BumpNonce: not found -> {Owner, FeeRecipient = owner address, Nonce = 0};
   found with nil nonce -> 0 (not bumped); found with a nonce -> ++ (uint16 wraps); then Set *)
Definition bump_nonce (x : tables) (owner : N) : tables :=
  match aget owner (x_rcp x) with
  | None => tx_rcp x (aset owner {| r_fee := owner; r_nonce := Some 0 |} (x_rcp x))
  | Some r =>
      let n := match r_nonce r with None => 0 | Some n => (n + 1) mod nonce_mod end in
      tx_rcp x (aset owner {| r_fee := r_fee r; r_nonce := Some n |} (x_rcp x))
  end.

(* ---- validateOperators ----------------------------------------------------------------------------- *)
Definition validate_operators (x : tables) (ops : list N) : bool :=
  let n := lenN ops in
  if max_operators <? n then false
  else if n =? 0 then false
  else if negb (valid_size n) then false
  else if negb (nodupb ops) then false
  else (* OperatorsExist(txn, ids): GetMany counts the found keys *)
    lenN (filter (fun id => ahas id (x_ops x)) ops) =? n.

(* verifySignature(signature, event.Owner, event.PublicKey, nonce) *)
Definition verify_signature (a : vadd) (nonce : N) : bool :=
  match va_sig a with
  | Some (v, o, m) => (v =? va_v a) && (o =? va_owner a) && (m =? nonce)
  | None => false
  end.

(* ---- shares storage: every read is from the in-memory map, every write goes to both ------------- *)
Definition shares_save (w : world) (v : N) (s : share) : world :=
  ww_mem w (tx_shares (w_x w) (aset v s (x_shares (w_x w)))) (aset v s (w_mem w)).
Definition shares_delete (w : world) (v : N) : world :=
  ww_mem w (tx_shares (w_x w) (adel v (x_shares (w_x w)))) (adel v (w_mem w)).

(* ---- handlers --------------------------------------------------------------------------------------- *)

Definition handle_operator_added (w : world) (id owner pk : N) : world * hres * list step :=
  if negb (w_self w =? 0) && (pk =? own_pk) && negb (w_self w =? id) then (w, HMalformed, [])
  else
    let found := if ops_read_committed then ahas id (w_dbops w) else ahas id (x_ops (w_x w)) in
    if found then (w, HOk None, [])
    else
      let x' := tx_ops (w_x w) (aset id {| o_owner := owner; o_pk := pk |} (x_ops (w_x w))) in
      (ww_self w x' (if pk =? own_pk then id else w_self w), HOk None, [STxn]).

Definition handle_operator_removed (w : world) (id : N) : world * hres * list step :=
  if ahas id (x_ops (w_x w)) then (w, HOk None, []) else (w, HMalformed, []).

(* validatorAddedEventToShare *)
Definition event_to_share (self : N) (a : vadd) : option (share * option N) :=
  match own_entry self (va_ops a) (va_shares a) with
  | Some (k, ok) =>
      if ok then
        Some ({| s_owner := va_owner a; s_comm := combine (va_ops a) (map fst (va_shares a));
                 s_opid := self; s_spk := k; s_liq := false; s_meta := None |}, Some k)
      else None                                            (* undecryptable / mismatching key *)
  | None =>
      Some ({| s_owner := va_owner a; s_comm := combine (va_ops a) (map fst (va_shares a));
               s_opid := 0; s_spk := 0; s_liq := false; s_meta := None |}, None)
  end.

Definition handle_validator_added (w : world) (a : vadd) : world * hres * list step :=
  let nonce := get_next_nonce (w_x w) (va_owner a) in
  let w1 := ww_x w (bump_nonce (w_x w) (va_owner a)) in            (* bumped BEFORE validation *)
  if negb (validate_operators (w_x w1) (va_ops a)) then (w1, HMalformed, [STxn])
  else if negb (va_len a =? expected_len (lenN (va_ops a))) then (w1, HMalformed, [STxn])
  else if negb (verify_signature a nonce) then (w1, HMalformed, [STxn])
  else
    match aget (va_v a) (w_mem w1) with
    | None =>
        match event_to_share (w_self w1) a with
        | None => (w1, HMalformed, [STxn])
        | Some (s, secret) =>
            let own := belongs (w_self w1) s in
            let kmsteps := match secret with
                           | Some k => if own then [SKm (KAdd k)] else []
                           | None => []
                           end in
            (shares_save w1 (va_v a) s,
             HOk (if own then Some (TStart (va_v a)) else None),
             [STxn] ++ kmsteps ++ [STxn])
        end
    | Some s =>
        if negb (s_owner s =? va_owner a) then (w1, HMalformed, [STxn])
        else (w1, HOk (if belongs (w_self w1) s then Some (TStart (va_v a)) else None), [STxn])
    end.

Definition handle_validator_removed (w : world) (owner v : N) : world * hres * list step :=
  match aget v (w_mem w) with
  | None => (w, HMalformed, [])
  | Some s =>
      if negb (s_owner s =? owner) then (w, HMalformed, [])
      else
        let w1 := shares_delete w v in
        (* CleanAllInstances (one QBFT store), Shares().Delete, then RemoveShare for an own share *)
        if belongs (w_self w) s
        then (w1, HOk (Some (TStop v)), [SKm (KClean v); STxn; SKm (KRemove (s_spk s))])
        else (w1, HOk None, [SKm (KClean v); STxn])
  end.

Definition handle_validator_exited (w : world) (owner v blk : N) : world * hres * list step :=
  match aget v (w_mem w) with
  | None => (w, HMalformed, [])
  | Some s =>
      if negb (s_owner s =? owner) then (w, HMalformed, [])
      else if negb (belongs (w_self w) s) then (w, HOk None, [])
      else match s_meta s with
           | None => (w, HOk None, [])
           | Some idx => (w, HOk (Some (TExit v blk idx)), [])
           end
  end.

(* processClusterEvent: the operator's own shares of the cluster get the flag and are saved with one
   SetMany *)
Definition cluster_update (w : world) (owner : N) (ops : list N) (liq : bool)
  : world * list (N * share) :=
  let upd := map (fun e => (fst e, set_liq liq (snd e)))
                 (filter (fun e => in_cluster owner ops (snd e) && belongs (w_self w) (snd e))
                         (w_mem w)) in
  (fold_left (fun w' e => shares_save w' (fst e) (snd e)) upd w, upd).

Definition handle_cluster_liquidated (w : world) (owner : N) (ops : list N) : world * hres * list step :=
  let '(w1, upd) := cluster_update w owner ops true in
  match upd with
  | [] => (w, HOk None, [])
  | _ => (w1, HOk (Some (TLiquidate owner (sortN ops) (sortN (map fst upd)))), [STxn])
  end.

Definition handle_cluster_reactivated (w : world) (owner : N) (ops : list N) : world * hres * list step :=
  let '(w1, upd) := cluster_update w owner ops false in
  match upd with
  | [] => (w, HOk None, [])
  | _ => (w1, HOk (Some (TReactivate owner (sortN ops) (sortN (map fst upd)))),
          [STxn] ++ map (fun v => SKm (KBump v)) (sortN (map (fun e => s_spk (snd e)) upd)))
  end.

(* handleFeeRecipientAddressUpdated + SaveRecipientData *)
Definition handle_fee_recipient (w : world) (owner fee : N) : world * hres * list step :=
  let r := match aget owner (x_rcp (w_x w)) with
           | Some r => {| r_fee := fee; r_nonce := r_nonce r |}
           | None => {| r_fee := fee; r_nonce := None |}
           end in
  match aget owner (x_rcp (w_x w)) with
  | Some old =>
      if r_fee old =? fee then (w, HOk None, [])
      else (ww_x w (tx_rcp (w_x w) (aset owner r (x_rcp (w_x w)))), HOk (Some (TFee owner fee)), [STxn])
  | None => (ww_x w (tx_rcp (w_x w) (aset owner r (x_rcp (w_x w)))), HOk (Some (TFee owner fee)), [STxn])
  end.

Definition handle_event (w : world) (e : event) : world * hres * list step :=
  match e with
  | EOperatorAdded id owner pk => handle_operator_added w id owner pk
  | EOperatorRemoved id => handle_operator_removed w id
  | EValidatorAdded a => handle_validator_added w a
  | EValidatorRemoved owner _ v => handle_validator_removed w owner v
  | EValidatorExited owner _ v blk => handle_validator_exited w owner v blk
  | EClusterLiquidated owner ops => handle_cluster_liquidated w owner ops
  | EClusterReactivated owner ops => handle_cluster_reactivated w owner ops
  | EFeeRecipientUpdated owner fee => handle_fee_recipient w owner fee
  | EIgnored => (w, HOk None, [])
  end.

Fixpoint handle_events (w : world) (es : list event) : world * list task * list step :=
  match es with
  | [] => (w, [], [])
  | e :: tl =>
      let '(w1, r, st1) := handle_event w e in
      let '(w2, ts, st2) := handle_events w1 tl in
      (w2, match r with HOk (Some t) => t :: ts | _ => ts end, st1 ++ st2)
  end.

(* ---- the node ------------------------------------------------------------------------------------- *)

Record istate := { db : tables; mem : list (N * share); self : N; km : kmstate }.

Definition istate_init : istate := {| db := tables_init; mem := []; self := 0; km := km_init |}.

Definition kmops_of (steps : list step) : list kmop :=
  flat_map (fun s => match s with SKm o => [o] | _ => [] end) steps.

Inductive bres :=
| BRefused                                            (* ErrInferiorBlock *)
| BDone (tasks : list task) (steps : list step).

(* processBlockEvents *)
Definition process_block (st : istate) (b : block) : istate * bres :=
  if bnum b <=? x_last (db st) then (st, BRefused)
  else
    let w0 := {| w_x := db st; w_dbops := x_ops (db st); w_mem := mem st; w_self := self st |} in
    let '(w, tasks, steps) := handle_events w0 (bevents b) in
    let steps' := steps ++ [STxn; SCommit] in              (* SaveLastProcessedBlock, Commit *)
    ({| db := tx_last (w_x w) (bnum b); mem := w_mem w; self := w_self w;
        km := fold_left km_apply (kmops_of steps') (km st) |},
     BDone tasks steps').

(* Shares().UpdateValidatorMetadata: mutates the in-memory share and saves it with a nil writer *)
Definition update_metadata (st : istate) (v idx : N) : istate :=
  match aget v (mem st) with
  | None => st
  | Some s =>
      let s' := set_meta (Some idx) s in
      {| db := tx_shares (db st) (aset v s' (x_shares (db st))); mem := aset v s' (mem st);
         self := self st; km := km st |}
  end.

(* Start-up on an existing database: the share map is loaded from the shares table, the operator
   data is looked up by public key (first match), the wallet is reopened. *)
Definition find_self (ops : list (N * opdata)) : N :=
  match find (fun e => o_pk (snd e) =? own_pk) ops with
  | Some e => fst e
  | None => 0
  end.

Definition restart (st : istate) : istate :=
  {| db := db st; mem := x_shares (db st); self := find_self (x_ops (db st)); km := km st |}.

Definition step_op (st : istate) (o : op) : istate :=
  match o with
  | OBlock b => fst (process_block st b)
  | OMeta v idx => update_metadata st v idx
  | ORestart => restart st
  end.

Definition run_impl (st : istate) (ops : list op) : istate := fold_left step_op ops st.

(* harness only: a decided instance of validator v is stored (SaveHighestAndHistoricalInstance) *)
Definition save_decided (st : istate) (v : N) : istate :=
  {| db := db st; mem := mem st; self := self st;
     km := km_with_dhi (km_with_dhist (km st) (sadd v (km_dhist (km st)))) (sadd v (km_dhi (km st))) |}.

(* harness only: BumpNonce called directly (outside any block) [n] times, to reach the uint16 edge *)
Definition seed_nonce (st : istate) (owner n : N) : istate :=
  {| db := N.iter n (fun x => bump_nonce x owner) (db st); mem := mem st; self := self st; km := km st |}.

(* mem == db, as the harness checks it: share map against the shares table, operator id against
   the lookup by public key *)
Definition share_eqb (a b : share) : bool :=
  (s_owner a =? s_owner b) && (s_opid a =? s_opid b) && (s_spk a =? s_spk b) &&
  Bool.eqb (s_liq a) (s_liq b) &&
  match s_meta a, s_meta b with Some x, Some y => x =? y | None, None => true | _, _ => false end &&
  list_eqb (map fst (s_comm a)) (map fst (s_comm b)) &&
  list_eqb (map snd (s_comm a)) (map snd (s_comm b)).

Definition shares_sub (a b : list (N * share)) : bool :=
  forallb (fun e => match aget (fst e) b with Some s => share_eqb (snd e) s | None => false end) a.

Definition mem_eq_db (st : istate) : bool :=
  shares_sub (mem st) (x_shares (db st)) && shares_sub (x_shares (db st)) (mem st) &&
  (self st =? find_self (x_ops (db st))).
