(* Crash points and failure injection for block processing (property C12), on top of Impl.v.
   Definitions only.

   The processing of one block is the list of its micro-steps, in program order: every write call
   on the block transaction (STxn), every key-manager call (SKm, expanded here into its own
   database write calls, which are NOT in the transaction), SaveLastProcessedBlock (STxn) and the
   Commit.  A crash after k effects keeps the key-manager writes among the first k and loses the
   transaction.  A failure injected into effect k+1 (the call returns an error) makes every handler
   return a non-malformed error, processBlockEvents returns it, the deferred Discard drops the
   transaction and the node exits (logger.Fatal in the callers): the same state as a crash after k.

   ASSUMPTION (stated, not modelled): a badger transaction is atomic - Commit makes all of its
   writes visible or none; an uncommitted transaction leaves no trace. *)
From Coq Require Import List NArith Bool Arith.
From SSV Require Import Gen.RegistryConsts Registry.Types Registry.Impl.
Import ListNotations.
Local Open Scope N_scope.

Inductive eff := FTxn | FKw (w : kwrite) | FCommit.

(* the effects of a step list, given the key manager state it starts from *)
Fixpoint expand (steps : list step) (m : kmstate) : list eff :=
  match steps with
  | [] => []
  | STxn :: tl => FTxn :: expand tl m
  | SCommit :: tl => FCommit :: expand tl m
  | SKm o :: tl => map FKw (kmop_writes o m) ++ expand tl (km_apply m o)
  end.

Definition kws (l : list eff) : list kwrite :=
  flat_map (fun e => match e with FKw w => [w] | _ => [] end) l.

(* the effect trace of processing block b in state st ([] if the block is refused) *)
Definition trace (st : istate) (b : block) : list eff :=
  match snd (process_block st b) with
  | BRefused => []
  | BDone _ steps => expand steps (km st)
  end.

(* The node dies after the first k effects of processing b (k >= length of the trace: after the
   commit), and is started again on what survived. *)
Definition crash_at (st : istate) (b : block) (k : nat) : istate :=
  let tr := trace st b in
  if (length tr <=? k)%nat then restart (fst (process_block st b))
  else restart {| db := db st; mem := mem st; self := self st;
                  km := fold_left apply_kw (kws (firstn k tr)) (km st) |}.

(* setupEventHandling: resume from last processed + 1 - blocks not newer than the marker are not
   fetched again *)
Definition resume_ops (last : N) (ops : list op) : list op :=
  filter (fun o => match o with OBlock b => last <? bnum b | _ => true end) ops.

Definition resume (st : istate) (ops : list op) : istate :=
  run_impl st (resume_ops (x_last (db st)) ops).

(* What "the same" means for the key manager: the same usable key shares.  (The raw wallet storage
   may differ - see the report: orphaned account object, stale index entry, stale slashing record.) *)
Definition km_equiv (a b : kmstate) : Prop :=
  forall k, smem k (km_use a) = smem k (km_use b) /\
            smem k (km_dhist a) = smem k (km_dhist b) /\ smem k (km_dhi a) = smem k (km_dhi b).

Definition st_equiv (a b : istate) : Prop :=
  db a = db b /\ mem a = mem b /\ self a = self b /\ km_equiv (km a) (km b).

(* every usable key share has both slashing-protection records *)
Definition km_covered (m : kmstate) : Prop :=
  forall k, smem k (km_use m) = true -> smem k (km_att m) = true /\ smem k (km_prop m) = true.
