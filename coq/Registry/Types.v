(* Shared vocabulary of the registry models (Spec.v = the rules, Impl.v = the handler as coded).
   Definitions only.

   Abstraction of the byte-level data, done by the Go driver (harness/cmd/hx-events):
     owner / fee-recipient addresses   -> small N (an owner IS an address: BumpNonce defaults the fee
                                          recipient to the owner address)
     validator public keys             -> small N
     share public keys                 -> small N (>= 1; 0 = "no share public key", the zero value)
     operator RSA public keys          -> small N; [own_pk] is the key of the node under test
   Crypto and ABI parsing enter as fields of the abstract event, computed in the driver from the
   very bytes that are then fed to the real parser/handler. *)
From Coq Require Import List NArith Bool.
From SSV Require Import Gen.RegistryConsts.
Import ListNotations.
Local Open Scope N_scope.

(* ---- association lists keyed by N (insertion ordered; printing sorts) ----------------------- *)
Section AList.
  Context {V : Type}.
  Fixpoint aget (k : N) (l : list (N * V)) : option V :=
    match l with
    | [] => None
    | (k', v) :: tl => if N.eqb k k' then Some v else aget k tl
    end.
  Fixpoint aset (k : N) (v : V) (l : list (N * V)) : list (N * V) :=
    match l with
    | [] => [(k, v)]
    | (k', v') :: tl => if N.eqb k k' then (k, v) :: tl else (k', v') :: aset k v tl
    end.
  Fixpoint adel (k : N) (l : list (N * V)) : list (N * V) :=
    match l with
    | [] => []
    | (k', v') :: tl => if N.eqb k k' then adel k tl else (k', v') :: adel k tl
    end.
  Definition ahas (k : N) (l : list (N * V)) : bool :=
    match aget k l with Some _ => true | None => false end.
End AList.

(* ---- finite sets of N as lists ---------------------------------------------------------------- *)
Definition smem (k : N) (l : list N) : bool := existsb (N.eqb k) l.
Definition sadd (k : N) (l : list N) : list N := if smem k l then l else l ++ [k].
Definition sdel (k : N) (l : list N) : list N := filter (fun x => negb (N.eqb k x)) l.

Fixpoint nodupb (l : list N) : bool :=
  match l with
  | [] => true
  | x :: tl => negb (smem x tl) && nodupb tl
  end.

Fixpoint insert_sorted (x : N) (l : list N) : list N :=
  match l with
  | [] => [x]
  | y :: tl => if N.leb x y then x :: l else y :: insert_sorted x tl
  end.
(* sort.Slice on operator ids (ComputeClusterIDHash sorts its argument in place) *)
Definition sortN (l : list N) : list N := fold_right insert_sorted [] l.

Fixpoint list_eqb (a b : list N) : bool :=
  match a, b with
  | [], [] => true
  | x :: a', y :: b' => N.eqb x y && list_eqb a' b'
  | _, _ => false
  end.

Definition lenN {A} (l : list A) : N := N.of_nat (length l).

(* ---- registry data ---------------------------------------------------------------------------- *)

(* registrystorage.OperatorData (ID is the key) *)
Record opdata := { o_owner : N; o_pk : N }.

(* types.SSVShare, as far as the registry looks at it.
   s_opid: Share.OperatorID - the node's own operator id if it was in the committee when the share
           was created, else 0.   s_spk: Share.SharePubKey (0 if not ours).
   s_meta: BeaconMetadata (validator index) - written by UpdateValidatorMetadata, not by events. *)
Record share := {
  s_owner : N; s_comm : list (N * N); s_opid : N; s_spk : N; s_liq : bool; s_meta : option N
}.

(* registrystorage.RecipientData (Owner is the key) *)
Record rcp := { r_fee : N; r_nonce : option N }.

Definition own_pk : N := 1.     (* abstract id of the node's own operator public key *)

(* ---- events ----------------------------------------------------------------------------------- *)

(* ValidatorAdded.
   va_len     len(event.Shares)
   va_sig     Some (v, o, n): the first 96 bytes of Shares are a valid BLS signature by validator key v
              over keccak("<address o>:<n>"); None: they are not a valid signature of anything the
              generator knows (garbage, or the validator public key does not deserialize)
   va_shares  per committee position: (id of the share public key at that position,
              "the encrypted key at that position decrypts under the node's RSA key to a BLS secret
               whose public key is that share public key") *)
Record vadd := {
  va_owner : N; va_ops : list N; va_v : N; va_len : N;
  va_sig : option (N * N * N); va_shares : list (N * bool)
}.

Inductive event :=
| EOperatorAdded (id owner pk : N)
| EOperatorRemoved (id : N)
| EValidatorAdded (a : vadd)
| EValidatorRemoved (owner : N) (ops : list N) (v : N)
| EValidatorExited (owner : N) (ops : list N) (v : N) (blk : N)
| EClusterLiquidated (owner : N) (ops : list N)
| EClusterReactivated (owner : N) (ops : list N)
| EFeeRecipientUpdated (owner fee : N)
| EIgnored.       (* unknown topic, or the ABI parser rejects the log: skipped before any handler *)

Inductive task :=
| TStart (v : N)
| TStop (v : N)
| TLiquidate (owner : N) (ops : list N) (vs : list N)
| TReactivate (owner : N) (ops : list N) (vs : list N)
| TFee (owner fee : N)
| TExit (v blk idx : N).

Record block := { bnum : N; bevents : list event }.

(* What a history is made of.  OMeta = Shares().UpdateValidatorMetadata between blocks (it is what
   makes ValidatorExited observable); ORestart = process exit + start on the same database. *)
Inductive op :=
| OBlock (b : block)
| OMeta (v idx : N)
| ORestart.

(* ---- pieces shared by the rules and the code --------------------------------------------------- *)

Definition nonce_mod : N := 2 ^ nonce_bits.

(* ssvtypes.ValidCommitteeSize: (n-1) % 3 == 0 && 1 <= (n-1)/3 <= 4, on Go ints (n >= 1 here) *)
Definition valid_size (n : N) : bool :=
  (0 <? n) && (((n - 1) mod 3) =? 0) && (1 <=? (n - 1) / 3) && ((n - 1) / 3 <=? 4).

(* sharesExpectedLength *)
Definition expected_len (n : N) : N := enc_key_len * n + (pk_len * n + sig_len).

(* SSVShare.BelongsToOperator *)
Definition belongs (self : N) (s : share) : bool := negb (self =? 0) && (s_opid s =? self).

(* ByClusterID(ComputeClusterIDHash(owner, ops)): keccak over the address and the sorted ids;
   the encoding is injective, keccak collisions are excluded by assumption *)
Definition in_cluster (owner : N) (ops : list N) (s : share) : bool :=
  (s_owner s =? owner) && list_eqb (sortN (map fst (s_comm s))) (sortN ops).

(* the committee entry of operator [self] *)
Fixpoint own_entry (self : N) (ops : list N) (shs : list (N * bool)) : option (N * bool) :=
  match ops, shs with
  | id :: ops', e :: shs' => if id =? self then Some e else own_entry self ops' shs'
  | _, _ => None
  end.

Definition set_liq (b : bool) (s : share) : share :=
  {| s_owner := s_owner s; s_comm := s_comm s; s_opid := s_opid s; s_spk := s_spk s;
     s_liq := b; s_meta := s_meta s |}.
Definition set_meta (m : option N) (s : share) : share :=
  {| s_owner := s_owner s; s_comm := s_comm s; s_opid := s_opid s; s_spk := s_spk s;
     s_liq := s_liq s; s_meta := m |}.

Definition last_block_num (ops : list op) (dflt : N) : N :=
  fold_left (fun acc o => match o with OBlock b => bnum b | _ => acc end) ops dflt.
