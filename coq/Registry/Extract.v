(* Compiled from ocaml/registry/ so that model.ml lands there.  ExtrOcamlBasic only. *)
From Coq Require Import Extraction ExtrOcamlBasic.
From SSV Require Import Registry.Types Registry.Spec Registry.Impl Registry.Crash.
Extraction "model.ml" istate_init process_block update_metadata restart seed_nonce save_decided mem_eq_db
  crash_at trace sortN spec_run reg_init.
