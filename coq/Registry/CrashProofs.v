(* Lemmas for property C12: crash anywhere inside a block + restart + resume = uninterrupted run. *)
From Coq Require Import List NArith Bool Lia Arith.
From SSV Require Import Gen.RegistryConsts Registry.Types Registry.Spec Registry.Impl Registry.Crash Registry.Proofs.
Import ListNotations.
Local Open Scope N_scope.

(* ---- finite sets ------------------------------------------------------------------------------------------ *)

Lemma smem_app : forall x a b, smem x (a ++ b) = smem x a || smem x b.
Proof. intros. unfold smem. apply existsb_app. Qed.

Lemma smem_sadd : forall x k l, smem x (sadd k l) = (x =? k) || smem x l.
Proof.
  intros x k l. unfold sadd. destruct (smem k l) eqn:E.
  - destruct (x =? k) eqn:Ex; [|reflexivity]. apply N.eqb_eq in Ex. subst. rewrite E. reflexivity.
  - rewrite smem_app. simpl. rewrite orb_false_r. apply orb_comm.
Qed.

Lemma smem_sdel : forall x k l, smem x (sdel k l) = negb (x =? k) && smem x l.
Proof.
  intros x k l. unfold sdel, smem. induction l as [|y tl IH]; simpl.
  - rewrite andb_false_r. reflexivity.
  - destruct (k =? y) eqn:E; simpl.
    + apply N.eqb_eq in E. subst y. rewrite IH. destruct (x =? k); reflexivity.
    + rewrite IH. destruct (x =? y) eqn:E2; simpl; [|reflexivity].
      apply N.eqb_eq in E2. subst y. rewrite N.eqb_sym, E. reflexivity.
Qed.

(* ---- the three components block processing can leave behind, treated uniformly -------------------- *)

Inductive comp := CUse | CHist | CHi.

Definition cget (c : comp) (m : kmstate) : list N :=
  match c with CUse => km_use m | CHist => km_dhist m | CHi => km_dhi m end.

(* what a key-manager call decides about key x in component c, whatever the state it runs in *)
Definition op_dec (c : comp) (o : kmop) (x : N) : option bool :=
  match c, o with
  | CUse, KAdd k => if x =? k then Some true else None
  | CUse, KRemove k => if x =? k then Some false else None
  | CHist, KClean v => if x =? v then Some false else None
  | CHi, KClean v => if x =? v then Some false else None
  | _, _ => None
  end.

Definition w_touch (c : comp) (w : kwrite) (x : N) : bool :=
  match c, w with
  | CUse, WIdx k => x =? k
  | CUse, DObj k => x =? k
  | CHist, DHist v => x =? v
  | CHi, DHi v => x =? v
  | _, _ => false
  end.

Definition apply_kws (ws : list kwrite) (m : kmstate) : kmstate := fold_left apply_kw ws m.

Lemma apply_kw_untouched : forall c w x m,
  w_touch c w x = false -> smem x (cget c (apply_kw m w)) = smem x (cget c m).
Proof.
  intros c w x m H. destruct c, w; simpl in *; try reflexivity;
    rewrite ?smem_sadd, ?smem_sdel, H; reflexivity.
Qed.

Lemma apply_kws_untouched : forall c x ws m,
  Forall (fun w => w_touch c w x = false) ws -> smem x (cget c (apply_kws ws m)) = smem x (cget c m).
Proof.
  induction ws as [|w tl IH]; intros m H; simpl; [reflexivity|].
  inversion H; subst. unfold apply_kws in *. simpl. rewrite IH by assumption.
  apply apply_kw_untouched. assumption.
Qed.

Lemma bump_untouched : forall c x k m, Forall (fun w => w_touch c w x = false) (bump_writes k m).
Proof.
  intros. unfold bump_writes. apply Forall_app. split.
  - destruct (smem k (km_att m)); [constructor|]. constructor; [destruct c; reflexivity|constructor].
  - destruct (smem k (km_prop m)); [constructor|]. constructor; [destruct c; reflexivity|constructor].
Qed.

Lemma writes_untouched : forall c o x m,
  op_dec c o x = None -> Forall (fun w => w_touch c w x = false) (kmop_writes o m).
Proof.
  intros c o x m H. destruct o as [k|k|k|v]; simpl.
  - destruct (smem k (km_use m)); [constructor|]. apply Forall_app. split; [apply bump_untouched|].
    constructor; [destruct c; reflexivity|]. constructor; [|constructor].
    destruct c; simpl in *; try reflexivity. destruct (x =? k); [discriminate|reflexivity].
  - destruct (smem k (km_use m)); [|constructor].
    constructor; [destruct c; reflexivity|]. constructor; [destruct c; reflexivity|].
    constructor; [|constructor; [destruct c; reflexivity|constructor]].
    destruct c; simpl in *; try reflexivity. destruct (x =? k); [discriminate|reflexivity].
  - apply bump_untouched.
  - constructor; [|constructor; [|constructor]]; destruct c; simpl in *; try reflexivity;
      destruct (x =? v); try discriminate; reflexivity.
Qed.

Lemma km_apply_as_kws : forall m o, km_apply m o = apply_kws (kmop_writes o m) m.
Proof. reflexivity. Qed.

(* a call's effect on component c at key x: decided by the call alone, or none *)
Lemma km_apply_dec : forall c o x m,
  smem x (cget c (km_apply m o)) = match op_dec c o x with Some b => b | None => smem x (cget c m) end.
Proof.
  intros c o x m. destruct (op_dec c o x) as [b|] eqn:E.
  2:{ rewrite km_apply_as_kws. apply apply_kws_untouched. apply writes_untouched. exact E. }
  destruct c, o as [k|k|k|v]; simpl in E; try discriminate;
    (destruct (x =? _) eqn:Ex; [|discriminate]); apply N.eqb_eq in Ex; subst x; inversion E; subst b; clear E.
  - (* KAdd k: usable afterwards *)
    rewrite km_apply_as_kws. simpl. destruct (smem k (km_use m)) eqn:Eu; [exact Eu|].
    unfold apply_kws. rewrite fold_left_app. simpl. rewrite smem_sadd, N.eqb_refl. reflexivity.
  - (* KRemove k: not usable afterwards *)
    rewrite km_apply_as_kws. simpl. destruct (smem k (km_use m)) eqn:Eu; [|exact Eu].
    unfold apply_kws. simpl. rewrite smem_sdel, N.eqb_refl. reflexivity.
  - rewrite km_apply_as_kws. unfold apply_kws. simpl. rewrite smem_sdel, N.eqb_refl. reflexivity.
  - rewrite km_apply_as_kws. unfold apply_kws. simpl. rewrite smem_sdel, N.eqb_refl. reflexivity.
Qed.

(* the last decision of a call list about (c, x) *)
Fixpoint dec (c : comp) (ops : list kmop) (x : N) : option bool :=
  match ops with
  | [] => None
  | o :: tl => match dec c tl x with Some b => Some b | None => op_dec c o x end
  end.

Lemma fold_km_dec : forall c x ops m,
  smem x (cget c (fold_left km_apply ops m)) =
  match dec c ops x with Some b => b | None => smem x (cget c m) end.
Proof.
  induction ops as [|o tl IH]; intros m; simpl; [reflexivity|].
  rewrite IH. destruct (dec c tl x); [reflexivity|]. apply km_apply_dec.
Qed.

(* all write calls of a call list, in order *)
Fixpoint expand_km (ops : list kmop) (m : kmstate) : list kwrite :=
  match ops with
  | [] => []
  | o :: tl => kmop_writes o m ++ expand_km tl (km_apply m o)
  end.

Lemma expand_km_untouched : forall c x ops m,
  dec c ops x = None -> Forall (fun w => w_touch c w x = false) (expand_km ops m).
Proof.
  induction ops as [|o tl IH]; intros m H; simpl; [constructor|].
  simpl in H. destruct (dec c tl x) eqn:E; [discriminate|].
  apply Forall_app. split; [apply writes_untouched; exact H|apply IH; reflexivity].
Qed.

Lemma forall_firstn : forall (A : Type) (P : A -> Prop) (l : list A) n, Forall P l -> Forall P (firstn n l).
Proof.
  induction l as [|x tl IH]; intros n H; destruct n; simpl; try constructor.
  - inversion H; assumption.
  - apply IH. inversion H; assumption.
Qed.

(* THE crash lemma for the side effects outside the transaction: run any prefix of the write calls
   of a call list, then run the whole call list again - membership in every component is as if the
   list had run once. *)
Lemma replay_after_prefix : forall c x ops m j,
  smem x (cget c (fold_left km_apply ops (apply_kws (firstn j (expand_km ops m)) m))) =
  smem x (cget c (fold_left km_apply ops m)).
Proof.
  intros c x ops m j. rewrite !fold_km_dec. destruct (dec c ops x) eqn:E; [reflexivity|].
  apply apply_kws_untouched. apply forall_firstn. apply expand_km_untouched. exact E.
Qed.

(* ---- traces ------------------------------------------------------------------------------------------------- *)

Lemma kws_app : forall a b, kws (a ++ b) = kws a ++ kws b.
Proof. intros. unfold kws. apply flat_map_app. Qed.

Lemma kws_map_fkw : forall ws, kws (map FKw ws) = ws.
Proof. induction ws as [|w tl IH]; simpl; [reflexivity|]. f_equal. exact IH. Qed.

Lemma kws_expand : forall steps m, kws (expand steps m) = expand_km (kmops_of steps) m.
Proof.
  induction steps as [|s tl IH]; intros m; simpl; [reflexivity|].
  destruct s as [|o|]; simpl; try apply IH.
  rewrite kws_app, kws_map_fkw, IH. reflexivity.
Qed.

Lemma kws_firstn : forall l k, exists j, kws (firstn k l) = firstn j (kws l).
Proof.
  induction l as [|e tl IH]; intros k.
  - exists 0%nat. destruct k; reflexivity.
  - destruct k as [|k]; [exists 0%nat; reflexivity|].
    destruct (IH k) as [j Hj]. simpl. destruct e as [|w|]; simpl.
    + exists j. exact Hj.
    + exists (S j). simpl. rewrite Hj. reflexivity.
    + exists j. exact Hj.
Qed.

(* ---- block processing does not read the key manager --------------------------------------------------------- *)

Definition set_km (st : istate) (m : kmstate) : istate :=
  {| db := db st; mem := mem st; self := self st; km := m |}.

Lemma process_block_km : forall st m b,
  process_block (set_km st m) b =
  match process_block st b with
  | (_, BRefused) => (set_km st m, BRefused)
  | (st1, BDone tasks steps) => (set_km st1 (fold_left km_apply (kmops_of steps) m), BDone tasks steps)
  end.
Proof.
  intros st m b. unfold process_block. simpl.
  destruct (bnum b <=? x_last (db st)); [reflexivity|].
  destruct (handle_events _ (bevents b)) as [[w tasks] steps]. reflexivity.
Qed.

Lemma process_block_done_km : forall st b st1 tasks steps,
  process_block st b = (st1, BDone tasks steps) -> km st1 = fold_left km_apply (kmops_of steps) (km st).
Proof.
  intros st b st1 tasks steps H. unfold process_block in H.
  destruct (bnum b <=? x_last (db st)); [discriminate|].
  destruct (handle_events _ (bevents b)) as [[w ts] ss]. inversion H; subst. reflexivity.
Qed.

(* ---- equivalence is kept by everything that follows -------------------------------------------------------- *)

Lemma km_equiv_refl : forall m, km_equiv m m.
Proof. intros m k. repeat split. Qed.

Lemma km_equiv_c : forall a b, km_equiv a b <-> forall c x, smem x (cget c a) = smem x (cget c b).
Proof.
  intros a b. split.
  - intros H c x. destruct (H x) as (H1 & H2 & H3). destruct c; assumption.
  - intros H x. exact (conj (H CUse x) (conj (H CHist x) (H CHi x))).
Qed.

Lemma fold_km_equiv : forall ops a b, km_equiv a b -> km_equiv (fold_left km_apply ops a) (fold_left km_apply ops b).
Proof.
  intros ops a b H. apply km_equiv_c. intros c x. rewrite !fold_km_dec.
  destruct (dec c ops x); [reflexivity|]. apply km_equiv_c. exact H.
Qed.

Lemma st_equiv_refl : forall st, st_equiv st st.
Proof. intros. repeat split. Qed.

Lemma set_km_eta : forall st, set_km st (km st) = st.
Proof. destruct st; reflexivity. Qed.

Lemma st_equiv_set_km : forall a b, st_equiv a b -> a = set_km b (km a).
Proof. intros a b (H1 & H2 & H3 & _). destruct a, b; simpl in *; subst; reflexivity. Qed.

Lemma step_equiv : forall o a b, st_equiv a b -> st_equiv (step_op a o) (step_op b o).
Proof.
  intros o a b H. pose proof (st_equiv_set_km a b H) as Ha. destruct H as (_ & _ & _ & Hk).
  rewrite Ha. clear Ha. destruct o as [blk|v idx|]; simpl.
  - rewrite process_block_km. destruct (process_block b blk) as [b1 [|tasks steps]] eqn:E; simpl.
    + unfold process_block in E. destruct (bnum blk <=? x_last (db b)).
      * inversion E; subst. repeat split; try reflexivity; apply Hk.
      * destruct (handle_events _ (bevents blk)) as [[w ts] ss]. discriminate.
    + pose proof (process_block_done_km b blk b1 tasks steps E) as Hkm.
      unfold st_equiv, set_km. simpl. rewrite Hkm.
      repeat split; try reflexivity; apply (fold_km_equiv _ _ _ Hk).
  - unfold update_metadata, set_km. simpl. destruct (aget v (mem b)); simpl; repeat split; try reflexivity; apply Hk.
  - unfold restart, set_km. simpl. repeat split; try reflexivity; apply Hk.
Qed.

Lemma run_equiv : forall ops a b, st_equiv a b -> st_equiv (run_impl a ops) (run_impl b ops).
Proof.
  induction ops as [|o tl IH]; intros a b H; simpl; [exact H|]. apply IH. apply step_equiv. exact H.
Qed.

(* ---- resume -------------------------------------------------------------------------------------------------- *)

Lemma resume_ops_increasing : forall ops L, increasing L ops -> resume_ops L ops = ops.
Proof.
  induction ops as [|o tl IH]; intros L H; simpl; [reflexivity|].
  destruct o as [b|v idx|]; simpl in *.
  - destruct H as [Hlt Hinc].
    assert (L <? bnum b = true) as -> by (apply N.ltb_lt; exact Hlt). f_equal.
    (* the rest is above bnum b, hence above L *)
    clear IH. revert Hlt Hinc. generalize (bnum b) as n. intros n. revert L n.
    induction tl as [|o' tl' IH']; intros L n Hlt Hinc; simpl; [reflexivity|].
    destruct o' as [b'|v' idx'|]; simpl in *.
    + destruct Hinc as [Hlt' Hinc'].
      assert (L <? bnum b' = true) as -> by (apply N.ltb_lt; lia). f_equal.
      apply (IH' L (bnum b')); [lia|exact Hinc'].
    + f_equal. apply (IH' L n); assumption.
    + f_equal. apply (IH' L n); assumption.
  - f_equal. apply IH. exact H.
  - f_equal. apply IH. exact H.
Qed.

Lemma last_after_block : forall st b,
  inv st -> wf_block b -> x_last (db st) < bnum b -> x_last (db (fst (process_block st b))) = bnum b.
Proof.
  intros st b Hi Hw Hlt. destruct (block_refines st b Hi Hw Hlt) as (tasks & steps & _ & Habs & _).
  change (x_last (db (fst (process_block st b)))) with (g_last (abs (fst (process_block st b)))).
  rewrite Habs. reflexivity.
Qed.

(* C12: die after any number of effects of block b, restart, resume from the marker + 1: the final
   state is that of the uninterrupted run *)
Lemma crash_equivalence : forall st b rest k,
  inv st -> wf_block b -> increasing (x_last (db st)) (OBlock b :: rest) ->
  st_equiv (resume (crash_at st b k) (OBlock b :: rest)) (run_impl st (OBlock b :: rest)).
Proof.
  intros st b rest k Hi Hw Hinc. simpl in Hinc. destruct Hinc as [Hlt Hinc].
  destruct (block_refines st b Hi Hw Hlt) as (tasks & steps & Hres & _ & _ & Hi1).
  pose proof (last_after_block st b Hi Hw Hlt) as Hl1.
  unfold crash_at, trace. rewrite Hres.
  destruct (process_block st b) as [st1 r] eqn:Epb. simpl in Hres, Hi1, Hl1. subst r.
  destruct (length (expand steps (km st)) <=? k)%nat.
  - (* the commit happened: nothing to redo, the block is not fetched again *)
    cbn [fst]. rewrite (restart_id st1 Hi1). unfold resume. rewrite Hl1. simpl.
    rewrite N.ltb_irrefl. rewrite (resume_ops_increasing rest (bnum b) Hinc).
    simpl. rewrite Epb. simpl. apply st_equiv_refl.
  - (* the transaction is lost; some prefix of the outside writes survived *)
    destruct (kws_firstn (expand steps (km st)) k) as [j Hj]. rewrite Hj, kws_expand.
    set (kmc := fold_left apply_kw (firstn j (expand_km (kmops_of steps) (km st))) (km st)).
    assert (Hrs : restart {| db := db st; mem := mem st; self := self st; km := kmc |} = set_km st kmc).
    { destruct Hi as [Hm Hg]. unfold restart, set_km. simpl. rewrite <- Hm.
      pose proof (find_self_good (abs st) Hg) as Hf. simpl in Hf. rewrite Hf. reflexivity. }
    rewrite Hrs. unfold resume. simpl db.
    assert (resume_ops (x_last (db st)) (OBlock b :: rest) = OBlock b :: rest) as ->.
    { apply resume_ops_increasing. simpl. split; assumption. }
    simpl. apply run_equiv. rewrite process_block_km, Epb. simpl.
    pose proof (process_block_done_km st b st1 tasks steps Epb) as Hkm.
    unfold st_equiv, set_km. simpl. rewrite Hkm.
    repeat split; try reflexivity; apply km_equiv_c; intros c x;
      apply (replay_after_prefix c x (kmops_of steps) (km st) j).
Qed.

(* before the commit a crash leaves the database exactly as it was *)
Lemma crash_db_unchanged : forall st b k,
  (k < length (trace st b))%nat -> db (crash_at st b k) = db st.
Proof.
  intros st b k H. unfold crash_at.
  assert ((length (trace st b) <=? k)%nat = false) as -> by (apply Nat.leb_gt; exact H). reflexivity.
Qed.

(* ---- anywhere in a history ------------------------------------------------------------------------------------ *)

Lemma increasing_app : forall a b L,
  increasing L (a ++ b) -> increasing L a /\ increasing (last_block_num a L) b.
Proof.
  induction a as [|o tl IH]; intros b L H; simpl in *; [split; [exact I|exact H]|].
  destruct o as [blk|v idx|]; simpl in *.
  - destruct H as [Hlt H]. destruct (IH b (bnum blk) H) as [H1 H2]. repeat split; assumption.
  - apply IH. exact H.
  - apply IH. exact H.
Qed.

Lemma last_of_run : forall ops st,
  inv st -> Forall wf_op ops -> increasing (x_last (db st)) ops ->
  x_last (db (run_impl st ops)) = last_block_num ops (x_last (db st)).
Proof.
  intros ops st Hi W I. destruct (run_refines ops st Hi W I) as [Habs _].
  change (x_last (db (run_impl st ops))) with (g_last (abs (run_impl st ops))). rewrite Habs. reflexivity.
Qed.

Lemma crash_equivalence_history : forall pre b rest k,
  Forall wf_op (pre ++ OBlock b :: rest) -> increasing 0 (pre ++ OBlock b :: rest) ->
  st_equiv (resume (crash_at (run_impl istate_init pre) b k) (OBlock b :: rest))
           (run_impl istate_init (pre ++ OBlock b :: rest)).
Proof.
  intros pre b rest k W I. rewrite run_app.
  apply Forall_app in W. destruct W as [Wp Wr]. inversion Wr as [|? ? Wb Wrest]; subst.
  destruct (increasing_app pre (OBlock b :: rest) 0 I) as [Ip Ir].
  destruct (run_refines pre istate_init inv_init Wp Ip) as [_ Hi].
  apply crash_equivalence; [exact Hi|exact Wb|].
  rewrite (last_of_run pre istate_init inv_init Wp Ip). exact Ir.
Qed.

(* ---- every usable key share keeps its slashing-protection records ---------------------------------------- *)

Definition cov (m : kmstate) (x : N) : Prop :=
  smem x (km_use m) = true -> smem x (km_att m) = true /\ smem x (km_prop m) = true.

Lemma km_covered_cov : forall m, km_covered m <-> forall x, cov m x.
Proof. intros. unfold km_covered, cov. tauto. Qed.

(* writes that can never break the coverage of any key *)
Definition safe (w : kwrite) : bool :=
  match w with WAtt _ | WProp _ | WObj _ | DIdx _ | DHist _ | DHi _ | DObj _ => true | _ => false end.

Definition wkey (w : kwrite) : N :=
  match w with WAtt k | WProp k | WObj k | WIdx k | DAtt k | DProp k | DObj k | DIdx k | DHist k | DHi k => k end.

Lemma safe_cov : forall w m x, safe w = true -> cov m x -> cov (apply_kw m w) x.
Proof.
  intros w m x Hs Hc. destruct w; simpl in Hs; try discriminate; unfold cov in *; simpl;
    rewrite ?smem_sadd, ?smem_sdel; intros Hu; try (destruct (Hc Hu) as [A B]; rewrite ?A, ?B, ?orb_true_r; split; reflexivity).
  apply andb_true_iff in Hu. destruct Hu as [_ Hu]. exact (Hc Hu).
Qed.

Lemma other_key_cov : forall w m x, wkey w <> x -> cov m x -> cov (apply_kw m w) x.
Proof.
  intros w m x Hk Hc.
  assert (Hne : (x =? wkey w) = false) by (apply N.eqb_neq; intros H; apply Hk; symmetry; exact H).
  destruct w; simpl in Hk, Hne; unfold cov in *; simpl; rewrite ?smem_sadd, ?smem_sdel, ?Hne; simpl; exact Hc.
Qed.

Lemma safe_list_cov : forall ws m x, Forall (fun w => safe w = true) ws -> cov m x -> cov (apply_kws ws m) x.
Proof.
  induction ws as [|w tl IH]; intros m x Hs Hc; simpl; [exact Hc|].
  inversion Hs; subst. unfold apply_kws in *. simpl. apply IH; [assumption|]. apply safe_cov; assumption.
Qed.

Lemma other_key_list_cov : forall ws m x, Forall (fun w => wkey w <> x) ws -> cov m x -> cov (apply_kws ws m) x.
Proof.
  induction ws as [|w tl IH]; intros m x Hs Hc; simpl; [exact Hc|].
  inversion Hs; subst. unfold apply_kws in *. simpl. apply IH; [assumption|]. apply other_key_cov; assumption.
Qed.

Lemma bump_safe : forall k m, Forall (fun w => safe w = true) (bump_writes k m).
Proof.
  intros. unfold bump_writes. apply Forall_app. split.
  - destruct (smem k (km_att m)); repeat constructor.
  - destruct (smem k (km_prop m)); repeat constructor.
Qed.

Lemma bump_result : forall k m,
  let m' := apply_kws (bump_writes k m) m in
  km_use m' = km_use m /\ smem k (km_att m') = true /\ smem k (km_prop m') = true.
Proof.
  intros k m. unfold bump_writes, apply_kws.
  destruct (smem k (km_att m)) eqn:A; destruct (smem k (km_prop m)) eqn:B; simpl;
    rewrite ?smem_sadd, ?N.eqb_refl, ?A, ?B; repeat split; reflexivity.
Qed.

Lemma writes_keys : forall o m,
  Forall (fun w => wkey w = match o with KAdd k | KRemove k | KBump k | KClean k => k end) (kmop_writes o m).
Proof.
  intros o m. destruct o as [k|k|k|v]; simpl.
  - destruct (smem k (km_use m)); [constructor|]. apply Forall_app. split.
    + unfold bump_writes. apply Forall_app. split.
      * destruct (smem k (km_att m)); repeat constructor.
      * destruct (smem k (km_prop m)); repeat constructor.
    + repeat constructor.
  - destruct (smem k (km_use m)); repeat constructor.
  - unfold bump_writes. apply Forall_app. split.
    + destruct (smem k (km_att m)); repeat constructor.
    + destruct (smem k (km_prop m)); repeat constructor.
  - repeat constructor.
Qed.

(* a complete call keeps every key covered *)
Lemma km_apply_cov : forall o m x, cov m x -> cov (km_apply m o) x.
Proof.
  intros o m x Hc.
  destruct (N.eq_dec (match o with KAdd k | KRemove k | KBump k | KClean k => k end) x) as [Heq|Hne].
  2:{ rewrite km_apply_as_kws. apply other_key_list_cov; [|exact Hc].
      eapply Forall_impl; [|apply (writes_keys o m)]. simpl. intros w Hw. rewrite Hw. exact Hne. }
  destruct o as [k|k|k|v]; simpl in Heq; subst.
  - (* KAdd x *)
    rewrite km_apply_as_kws. simpl. destruct (smem x (km_use m)) eqn:Eu; [exact Hc|].
    unfold apply_kws. rewrite fold_left_app. simpl.
    destruct (bump_result x m) as (Hu & Ha & Hp). unfold apply_kws in *.
    intros _. simpl. split; assumption.
  - (* KRemove x: not usable afterwards *)
    intros Hu. pose proof (km_apply_dec CUse (KRemove x) x m) as Hd. simpl in Hd.
    rewrite N.eqb_refl in Hd. rewrite Hd in Hu. discriminate.
  - rewrite km_apply_as_kws. apply safe_list_cov; [apply bump_safe|exact Hc].
  - rewrite km_apply_as_kws. apply safe_list_cov; [repeat constructor|exact Hc].
Qed.

Lemma fold_km_cov : forall ops m x, cov m x -> cov (fold_left km_apply ops m) x.
Proof.
  induction ops as [|o tl IH]; intros m x H; simpl; [exact H|]. apply IH. apply km_apply_cov. exact H.
Qed.

(* a RemoveShare of x anywhere in the list re-establishes the coverage of x, from any state *)
Lemma remove_restores_cov : forall ops m x, In (KRemove x) ops -> cov (fold_left km_apply ops m) x.
Proof.
  induction ops as [|o tl IH]; intros m x Hin; simpl; [destruct Hin|].
  destruct (in_dec (fun a b : kmop => ltac:(decide equality; apply N.eq_dec) : {a = b} + {a <> b}) (KRemove x) tl) as [Ht|Ht].
  - apply IH. exact Ht.
  - destruct Hin as [->|Hin]; [|contradiction].
    apply fold_km_cov. intros Hu. pose proof (km_apply_dec CUse (KRemove x) x m) as Hd. simpl in Hd.
    rewrite N.eqb_refl in Hd. rewrite Hd in Hu. discriminate.
Qed.

Lemma firstn_snoc_lt : forall (A : Type) (l : list A) (w : A) j,
  (j < length (l ++ [w]))%nat -> firstn j (l ++ [w]) = firstn j l.
Proof.
  intros A l w j H. rewrite app_length in H. simpl in H.
  rewrite firstn_app. assert (j - length l = 0)%nat as -> by lia. simpl. apply app_nil_r.
Qed.

(* a partially executed call: every key stays covered, except possibly the key being removed *)
Lemma partial_call_cov : forall o m j x,
  (forall y, cov m y) ->
  cov (apply_kws (firstn j (kmop_writes o m)) m) x \/ o = KRemove x.
Proof.
  intros o m j x Hc.
  destruct (le_lt_dec (length (kmop_writes o m)) j) as [Hall|Hpart].
  { left. rewrite firstn_all2 by exact Hall. rewrite <- km_apply_as_kws. apply km_apply_cov. apply Hc. }
  destruct o as [k|k|k|v]; simpl in *.
  - left. destruct (smem k (km_use m)) eqn:Eu; [destruct j; simpl; apply Hc|].
    change (bump_writes k m ++ [WObj k; WIdx k]) with (bump_writes k m ++ [WObj k] ++ [WIdx k]) in *.
    rewrite app_assoc in *. rewrite firstn_snoc_lt by exact Hpart.
    apply safe_list_cov; [|apply Hc]. apply forall_firstn. apply Forall_app. split; [apply bump_safe|repeat constructor].
  - destruct (N.eq_dec k x) as [->|Hne]; [right; reflexivity|left].
    apply other_key_list_cov; [|apply Hc]. apply forall_firstn.
    destruct (smem k (km_use m)); repeat constructor; exact Hne.
  - left. apply safe_list_cov; [|apply Hc]. apply forall_firstn. apply bump_safe.
  - left. apply safe_list_cov; [|apply Hc]. apply forall_firstn. repeat constructor.
Qed.

Lemma partial_list_cov : forall ops m j x,
  (forall y, cov m y) ->
  cov (apply_kws (firstn j (expand_km ops m)) m) x \/ In (KRemove x) ops.
Proof.
  induction ops as [|o tl IH]; intros m j x Hc; simpl.
  - left. destruct j; apply Hc.
  - rewrite firstn_app. unfold apply_kws. rewrite fold_left_app.
    destruct (le_lt_dec (length (kmop_writes o m)) j) as [Hall|Hpart].
    + rewrite (firstn_all2 (kmop_writes o m)) by exact Hall.
      change (fold_left apply_kw (kmop_writes o m) m) with (km_apply m o).
      destruct (IH (km_apply m o) (j - length (kmop_writes o m))%nat x) as [H|H].
      * intros y. apply km_apply_cov. apply Hc.
      * left. exact H.
      * right. right. exact H.
    + assert (j - length (kmop_writes o m) = 0)%nat as -> by lia. simpl.
      destruct (partial_call_cov o m j x Hc) as [H|H]; [left; exact H|right; left; exact H].
Qed.

(* after any prefix of the outside writes, replaying the whole call list covers every key *)
Lemma replay_cov : forall ops m j,
  (forall y, cov m y) -> forall x, cov (fold_left km_apply ops (apply_kws (firstn j (expand_km ops m)) m)) x.
Proof.
  intros ops m j Hc x. destruct (partial_list_cov ops m j x Hc) as [H|H].
  - apply fold_km_cov. exact H.
  - apply remove_restores_cov. exact H.
Qed.

Lemma step_cov : forall o st, km_covered (km st) -> km_covered (km (step_op st o)).
Proof.
  intros o st H. destruct o as [b|v idx|]; simpl.
  - destruct (process_block st b) as [st1 [|tasks steps]] eqn:E; simpl.
    + unfold process_block in E. destruct (bnum b <=? x_last (db st)).
      * inversion E; subst. exact H.
      * destruct (handle_events _ (bevents b)) as [[w ts] ss]. discriminate.
    + rewrite (process_block_done_km st b st1 tasks steps E). apply km_covered_cov. intros x.
      apply fold_km_cov. apply km_covered_cov. exact H.
  - unfold update_metadata. destruct (aget v (mem st)); exact H.
  - exact H.
Qed.

Lemma run_cov : forall ops st, km_covered (km st) -> km_covered (km (run_impl st ops)).
Proof.
  induction ops as [|o tl IH]; intros st H; simpl; [exact H|]. apply IH. apply step_cov. exact H.
Qed.

Lemma crash_keeps_protection : forall st b rest k,
  inv st -> wf_block b -> increasing (x_last (db st)) (OBlock b :: rest) -> km_covered (km st) ->
  km_covered (km (resume (crash_at st b k) (OBlock b :: rest))).
Proof.
  intros st b rest k Hi Hw Hinc Hcov. simpl in Hinc. destruct Hinc as [Hlt Hinc].
  destruct (block_refines st b Hi Hw Hlt) as (tasks & steps & Hres & _ & _ & Hi1).
  pose proof (last_after_block st b Hi Hw Hlt) as Hl1.
  unfold crash_at, trace. rewrite Hres.
  destruct (process_block st b) as [st1 r] eqn:Epb. simpl in Hres, Hi1, Hl1. subst r.
  destruct (length (expand steps (km st)) <=? k)%nat.
  - cbn [fst]. rewrite (restart_id st1 Hi1). unfold resume. apply run_cov.
    pose proof (step_cov (OBlock b) st Hcov) as H. simpl in H. rewrite Epb in H. exact H.
  - destruct (kws_firstn (expand steps (km st)) k) as [j Hj]. rewrite Hj, kws_expand.
    set (kmc := fold_left apply_kw (firstn j (expand_km (kmops_of steps) (km st))) (km st)).
    assert (Hrs : restart {| db := db st; mem := mem st; self := self st; km := kmc |} = set_km st kmc).
    { destruct Hi as [Hm Hg]. unfold restart, set_km. simpl. rewrite <- Hm.
      pose proof (find_self_good (abs st) Hg) as Hf. simpl in Hf. rewrite Hf. reflexivity. }
    rewrite Hrs. unfold resume. simpl db.
    assert (resume_ops (x_last (db st)) (OBlock b :: rest) = OBlock b :: rest) as ->.
    { apply resume_ops_increasing. simpl. split; assumption. }
    simpl. apply run_cov. rewrite process_block_km, Epb. simpl.
    apply km_covered_cov. intros x. apply replay_cov. apply km_covered_cov. exact Hcov.
Qed.

(* ---- what is NOT the same after a crash: a slashing record can be left behind --------------------------- *)
Definition res_add (v owner nonce : N) : vadd :=
  {| va_owner := owner; va_ops := [1; 2; 3; 4]; va_v := v; va_len := expected_len 4;
     va_sig := Some (v, owner, nonce);
     va_shares := [(v * 16 + 1, true); (v * 16 + 2, false); (v * 16 + 3, false); (v * 16 + 4, false)] |}.
Definition res_pre : list op :=
  [ OBlock {| bnum := 10; bevents := [EOperatorAdded 1 7 own_pk; EOperatorAdded 2 7 3; EOperatorAdded 3 7 4; EOperatorAdded 4 7 5] |};
    OBlock {| bnum := 20; bevents := [EValidatorAdded (res_add 1 7 0)] |} ].
(* reactivation (bumps nothing: the records exist), then removal *)
Definition res_block : block :=
  {| bnum := 30; bevents := [EClusterReactivated 7 [1; 2; 3; 4]; EValidatorRemoved 7 [1; 2; 3; 4] 1] |}.

Lemma slashing_record_residue :
  let st := run_impl istate_init res_pre in
  (* the node dies after RemoveShare finished, before the commit (8 of 10 effects) *)
  km_att (km (run_impl st [OBlock res_block])) = [] /\
  km_att (km (resume (crash_at st res_block 8) [OBlock res_block])) = [17] /\
  km_use (km (resume (crash_at st res_block 8) [OBlock res_block])) = [].
Proof. vm_compute. repeat split; reflexivity. Qed.
