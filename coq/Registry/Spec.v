(* The registration RULES (property C11), as the simplest possible abstract registry: operators,
   validators (shares), recipients (fee recipient + optional registration nonce per owner), the
   node's own operator id, the last processed block.  No database, no transaction, no in-memory
   copy, no error plumbing.  Definitions only. *)
From Coq Require Import List NArith Bool.
From SSV Require Import Gen.RegistryConsts Registry.Types.
Import ListNotations.
Local Open Scope N_scope.

Record reg := {
  g_ops : list (N * opdata);
  g_self : N;                       (* own operator id; 0 = not registered yet *)
  g_shares : list (N * share);
  g_rcp : list (N * rcp);
  g_last : N                        (* last processed block; 0 = none *)
}.

Definition reg_init : reg := {| g_ops := []; g_self := 0; g_shares := []; g_rcp := []; g_last := 0 |}.

Definition with_ops g o s := {| g_ops := o; g_self := s; g_shares := g_shares g; g_rcp := g_rcp g; g_last := g_last g |}.
Definition with_shares g sh := {| g_ops := g_ops g; g_self := g_self g; g_shares := sh; g_rcp := g_rcp g; g_last := g_last g |}.
Definition with_rcp g r := {| g_ops := g_ops g; g_self := g_self g; g_shares := g_shares g; g_rcp := r; g_last := g_last g |}.
Definition with_last g n := {| g_ops := g_ops g; g_self := g_self g; g_shares := g_shares g; g_rcp := g_rcp g; g_last := n |}.

(* ---- the registration nonce -------------------------------------------------------------------- *)

(* the nonce the next ValidatorAdded of this owner must be signed over *)
Definition expected_nonce (r : list (N * rcp)) (owner : N) : N :=
  match aget owner r with
  | Some {| r_fee := _; r_nonce := Some n |} => (n + 1) mod nonce_mod
  | _ => 0
  end.

(* every add attempt is counted, exactly once: the stored nonce becomes the expected one.
   A new owner's fee recipient defaults to the owner address. *)
Definition count_attempt (r : list (N * rcp)) (owner : N) : list (N * rcp) :=
  let n := expected_nonce r owner in
  match aget owner r with
  | Some x => aset owner {| r_fee := r_fee x; r_nonce := Some n |} r
  | None => aset owner {| r_fee := owner; r_nonce := Some n |} r
  end.

(* ---- ValidatorAdded ---------------------------------------------------------------------------- *)

(* an existing, distinct committee of valid size *)
Definition valid_committee (g : reg) (ops : list N) : bool :=
  let n := lenN ops in
  (n <=? max_operators) && (0 <? n) && valid_size n && nodupb ops &&
  forallb (fun id => ahas id (g_ops g)) ops.

(* a valid owner signature over the expected nonce *)
Definition sig_valid (a : vadd) (n : N) : bool :=
  match va_sig a with
  | Some (v, o, m) => (v =? va_v a) && (o =? va_owner a) && (m =? n)
  | None => false
  end.

(* for the operator's own share: a decryptable key matching its public share *)
Definition own_key_valid (self : N) (a : vadd) : bool :=
  if self =? 0 then true else
  match own_entry self (va_ops a) (va_shares a) with
  | Some (_, ok) => ok
  | None => true             (* not in the committee *)
  end.

Definition add_valid (g : reg) (a : vadd) (n : N) : bool :=
  valid_committee g (va_ops a) && (va_len a =? expected_len (lenN (va_ops a))) && sig_valid a n.

Definition new_share (self : N) (a : vadd) : share :=
  let mine := if self =? 0 then None else own_entry self (va_ops a) (va_shares a) in
  {| s_owner := va_owner a;
     s_comm := combine (va_ops a) (map fst (va_shares a));
     s_opid := match mine with Some _ => self | None => 0 end;
     s_spk := match mine with Some (k, _) => k | None => 0 end;
     s_liq := false; s_meta := None |}.

Definition start_task (g : reg) (v : N) (s : share) : option task :=
  if belongs (g_self g) s then Some (TStart v) else None.

Definition apply_validator_added (g : reg) (a : vadd) : reg * option task :=
  let n := expected_nonce (g_rcp g) (va_owner a) in
  let g1 := with_rcp g (count_attempt (g_rcp g) (va_owner a)) in
  if add_valid g1 a n then
    match aget (va_v a) (g_shares g1) with
    | Some s =>                                     (* already registered: only its owner may repeat *)
        if s_owner s =? va_owner a then (g1, start_task g1 (va_v a) s) else (g1, None)
    | None =>
        if own_key_valid (g_self g1) a then
          let s := new_share (g_self g1) a in
          (with_shares g1 (aset (va_v a) s (g_shares g1)), start_task g1 (va_v a) s)
        else (g1, None)
    end
  else (g1, None).

(* ---- cluster events ---------------------------------------------------------------------------- *)

Definition mine_in_cluster (g : reg) (owner : N) (ops : list N) (s : share) : bool :=
  in_cluster owner ops s && belongs (g_self g) s.

Definition apply_cluster (g : reg) (owner : N) (ops : list N) (liq : bool) : reg * list N :=
  let vs := map fst (filter (fun e => mine_in_cluster g owner ops (snd e)) (g_shares g)) in
  (with_shares g (map (fun e => if mine_in_cluster g owner ops (snd e)
                                then (fst e, set_liq liq (snd e)) else e) (g_shares g)),
   vs).

(* ---- one event --------------------------------------------------------------------------------- *)

Definition apply (g : reg) (e : event) : reg * option task :=
  match e with
  | EOperatorAdded id owner pk =>
      if negb (g_self g =? 0) && (pk =? own_pk) && negb (id =? g_self g) then (g, None)
      else if ahas id (g_ops g) then (g, None)
      else (with_ops g (aset id {| o_owner := owner; o_pk := pk |} (g_ops g))
                     (if pk =? own_pk then id else g_self g), None)
  | EOperatorRemoved _ => (g, None)
  | EValidatorAdded a => apply_validator_added g a
  | EValidatorRemoved owner _ v =>
      match aget v (g_shares g) with
      | Some s =>
          if s_owner s =? owner                              (* only the owner removes *)
          then (with_shares g (adel v (g_shares g)),
                if belongs (g_self g) s then Some (TStop v) else None)
          else (g, None)
      | None => (g, None)
      end
  | EValidatorExited owner _ v blk =>
      match aget v (g_shares g) with
      | Some s =>
          if (s_owner s =? owner) && belongs (g_self g) s    (* only the owner exits *)
          then (g, match s_meta s with Some idx => Some (TExit v blk idx) | None => None end)
          else (g, None)
      | None => (g, None)
      end
  | EClusterLiquidated owner ops =>
      let '(g', vs) := apply_cluster g owner ops true in
      match vs with [] => (g, None) | _ => (g', Some (TLiquidate owner (sortN ops) (sortN vs))) end
  | EClusterReactivated owner ops =>
      let '(g', vs) := apply_cluster g owner ops false in
      match vs with [] => (g, None) | _ => (g', Some (TReactivate owner (sortN ops) (sortN vs))) end
  | EFeeRecipientUpdated owner fee =>
      match aget owner (g_rcp g) with
      | Some r =>
          if r_fee r =? fee then (g, None)
          else (with_rcp g (aset owner {| r_fee := fee; r_nonce := r_nonce r |} (g_rcp g)),
                Some (TFee owner fee))
      | None => (with_rcp g (aset owner {| r_fee := fee; r_nonce := None |} (g_rcp g)),
                 Some (TFee owner fee))
      end
  | EIgnored => (g, None)
  end.

(* ---- histories ---------------------------------------------------------------------------------- *)

(* A history flattened: what happened, without the block boundaries. *)
Inductive atom := AEvent (e : event) | AMeta (v idx : N).

Definition flat_op (o : op) : list atom :=
  match o with
  | OBlock b => map AEvent (bevents b)
  | OMeta v idx => [AMeta v idx]
  | ORestart => []
  end.
Definition flat (ops : list op) : list atom := concat (map flat_op ops).

Definition apply_atom (g : reg) (a : atom) : reg :=
  match a with
  | AEvent e => fst (apply g e)
  | AMeta v idx =>
      match aget v (g_shares g) with
      | Some s => with_shares g (aset v (set_meta (Some idx) s) (g_shares g))
      | None => g
      end
  end.

(* The registry a history prescribes: the events in log order, whatever the batching, and the number
   of the last block. *)
Definition spec_run (g : reg) (ops : list op) : reg :=
  with_last (fold_left apply_atom (flat ops) g) (last_block_num ops (g_last g)).

(* tasks of one block *)
Fixpoint spec_block (g : reg) (es : list event) : reg * list task :=
  match es with
  | [] => (g, [])
  | e :: tl =>
      let '(g1, t) := apply g e in
      let '(g2, ts) := spec_block g1 tl in
      (g2, match t with Some x => x :: ts | None => ts end)
  end.

(* ---- counting, for the statement of the nonce rule ----------------------------------------------- *)
Definition is_add_of (owner : N) (a : atom) : bool :=
  match a with AEvent (EValidatorAdded x) => va_owner x =? owner | _ => false end.
Definition attempts (owner : N) (l : list atom) : N := lenN (filter (is_add_of owner) l).
