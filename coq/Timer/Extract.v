(* Compiled from ocaml/timer/ so that model.ml lands there.  ExtrOcamlBasic only. *)
From Coq Require Import Extraction ExtrOcamlBasic.
From SSV Require Import Timer.Model.
Extraction "model.ml" step init id_of_round deadline round_timeout base_duration default_opts cstep cinit.
